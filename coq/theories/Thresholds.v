(* Thresholds.v — C09, the per-compilation lemma: every dominance threshold that one compilation
   (Mdd.compile, Relaxed, clean flavours, cache enabled or not, started from a cache holding no threshold) computes for a
   node at or above the cut-set, and every threshold it writes to the cache, is SOUND:

     bk_of inp m       :=  max (ci_best_lb inp) (best exact value of m, if any)          (best_known of _compute_thresholds)
     Safe inp m k s v  :=  every complete feasible run from (depth k, state s) entered with value v ends with a value
                           <= bk_of inp m,  or has a prefix leading to a sub-problem x handed out by [drain_cutset inp m]
                           (same depth, same state) with an arrival value <= sp_value x.

     threshold_sound      u at or above the cut-set (f_above), not deleted, n_theta u = Some t, IMIN + 2B < t
                          ->  forall v <= t,  Safe inp m (n_depth u) (n_state u) v
     cache_writes_sound   (s, {t, explored}) in layer d of m_cache m after the compilation, IMIN + 2B < t
                          ->  forall v <= t,  Safe inp m d s v
     cache_writes_sound_guarded   if 3B <= IMAX:  every arrival value v with -B <= v <= t, whatever t
     thresholds_sound     the common source (arrival values v with IMIN + 2B < v <= t);  Safe_down: Safe is downward closed in v
     thresholds_sound_isize   the same with the machine-integer variant of relax_ge, through Assembly.clip_compile
     table_thresholds     the table family of TableWf.v (t_wf instances);  ex_safe, ex_safe2: concrete facts on ex_ti

   Premises: those of MddSim.v (clean flavour, no dominance rule, cutoff 0, width >= 1, static variable order, covering
   relation cov with cov_refl / cov_sim / merge_cov, relax_ge, rub_adm, the guard B on feasible runs from the root, 2B <= IMAX),
   Relaxed, and [blank N c]: the initial cache has a (still empty) layer for every depth 0..N (Cache.init_cache N is blank,
   blank_init; with c = [] the Rust code would index out of bounds and the model sets m_crash).
   ci_use_cache is NOT constrained: the statement about the node thresholds holds with and without the cache.

   What differs from "for every v <= t, whatever t":  thresholds t <= IMIN + 2B are left out.
   sat_sub clamps at IMIN, so a threshold in that range may stand for a mathematically smaller one (clamp-down in the
   propagation  theta(parent) := min (..) (theta(child) - cost));  the argument needs every arrival value met along the run
   to stay above IMIN, which the guard gives for v > IMIN + 2B.  No such threshold occurs in the examples, and it could only
   protect arrival values that no feasible run carries (feasible values are in [-B, B]).  It is NOT shown that the statement
   fails there.  Ties (v = t) and the explored flag need no special case: the bound is inclusive whatever the flag (a cut-set
   node whose threshold is its own value is captured by itself: x := that node, empty prefix).
   Nodes pruned by their rough bound at compile time (ub <= ci_best_lb, not expanded) get theta = bk - rub in
   _compute_thresholds since tot_rub <= ci_best_lb <= bk: case (b), covered (not_rub_branched).

   Structure
     1. bu_order                 the bottom-up order of _compute_thresholds visits children before parents
     2. ThetaFold                theta_fold_sound: the fold of _compute_thresholds over any layered diagram that satisfies
                                 successor completeness (H_SC) & co; invariants GA (completions that stay in the diagram, from
                                 an exact node above the cut-set: bounded by the local bound at the cut-set node, or captured)
                                 and GB (completions that leave the diagram at a node pruned by its rough bound)
     3. Loop                     a new invariant of the layer loop (TI): successor completeness of every expanded live node
                                 (MddSim only tracks PROMISING runs; thresholds above the node's own value need all of them),
                                 deleted flags, layer order; FS = what the loop leaves behind; the flags of _finalize
                                 (lel_cutset_flags, frontier_flags, cut_flags); pre_pack = the hypotheses of theta_fold_sound
     4. Bridge                   nc inp = inp without the cache: with a blank cache the two compilations coincide up to
                                 _compute_thresholds (tw_layer_loop); thresholds_sound
     5. Statements / instances   threshold_sound, cache_writes_sound, thresholds_sound_isize, table_thresholds, examples
   Stdlib only, no axiom, every proof closed (Print Assumptions at the end). *)
Require Import DDO.Base DDO.Fringe DDO.DP DDO.Cache DDO.Dom DDO.Mdd DDO.Viz DDO.MddStruct DDO.MddExact.
Require DDO.MddProgress.
Require Import DDO.Assembly DDO.Table DDO.Run DDO.TableWf.
Require Import DDO.MddSim.
From Coq Require Import Lia List Arith ZArith Bool.
Import ListNotations.

(* ================================================================== 1. lists: the bottom-up order *)
Local Open Scope nat_scope.

Lemma concat_split {A} (P : list (list A)) : forall done x rest, concat P = done ++ x :: rest ->
  exists i pre post, i < length P /\ nth i P [] = pre ++ x :: post /\ done = concat (firstn i P) ++ pre.
Proof.
  induction P as [|q P IH]; intros done x rest H; simpl in H.
  - destruct done; discriminate.
  - apply app_eq_app in H. destruct H as (l & [[H1 H2]|[H1 H2]]).
    + destruct l as [|y l].
      * simpl in H2. rewrite app_nil_r in H1. subst q.
        destruct (IH [] x rest (eq_sym H2)) as (i & pre & post & Hi & Hn & Hd).
        exists (S i), pre, post. split; [simpl; lia|]. split; [exact Hn|]. simpl. rewrite <- app_assoc, <- Hd, app_nil_r. reflexivity.
      * simpl in H2. inversion H2; subst y rest. exists 0, done, l. split; [simpl; lia|]. split; [exact H1|reflexivity].
    + destruct (IH l x rest H2) as (i & pre & post & Hi & Hn & Hd).
      exists (S i), pre, post. split; [simpl; lia|]. split; [exact Hn|]. simpl. rewrite H1, Hd, app_assoc. reflexivity.
Qed.

Lemma in_concat_firstn {A} (P : list (list A)) i y : In y (concat (firstn i P)) -> exists i', i' < i /\ i' < length P /\ In y (nth i' P []).
Proof.
  revert i. induction P as [|q P IH]; intros i H.
  - rewrite firstn_nil in H. destruct H.
  - destruct i as [|i]; [destruct H|]. simpl in H. apply in_app_or in H. destruct H as [H|H].
    + exists 0. split; [lia|]. split; [simpl; lia|exact H].
    + destruct (IH i H) as (i' & H1 & H2 & H3). exists (S i'). split; [lia|]. split; [simpl; lia|exact H3].
Qed.

Lemma in_nth_concat_firstn {A} (P : list (list A)) i i' y : i' < i -> In y (nth i' P []) -> In y (concat (firstn i P)).
Proof.
  revert i i'. induction P as [|q P IH]; intros i i' Hlt H.
  - destruct i'; destruct H.
  - destruct i as [|i]; [lia|]. simpl. apply in_or_app. destruct i' as [|i'].
    + left. exact H.
    + right. apply (IH i i'); [lia|exact H].
Qed.

Lemma bu_order (LFl : list (list nat)) (par : nat -> nat -> Prop) :
  (forall j j' x y, j < j' -> In x (nth j LFl []) -> In y (nth j' LFl []) -> x < y) ->
  (forall j, NoDup (nth j LFl [])) ->
  (forall j x p y, In x (nth j LFl []) -> par x p -> In y (nth j LFl []) -> p < y) ->
  forall done x rest, concat (rev LFl) = done ++ x :: rest ->
    ~ In x done /\
    (forall p, par x p -> ~ In p (done ++ [x])) /\
    (forall j c, In x (nth j LFl []) -> In c (nth (S j) LFl []) -> In c done).
Proof.
  intros O1 O2 O3 done x rest H.
  destruct (concat_split _ _ _ _ H) as (i & pre & post & Hi & Hn & Hd).
  rewrite rev_length in Hi. set (K := length LFl) in *.
  rewrite rev_nth in Hn by exact Hi. fold K in Hn.
  set (j0 := K - S i) in *.
  assert (Hx0 : In x (nth j0 LFl [])) by (rewrite Hn; apply in_or_app; right; left; reflexivity).
  assert (Hpre : forall y, In y pre -> In y (nth j0 LFl [])) by (intros y Hy; rewrite Hn; apply in_or_app; left; exact Hy).
  assert (Hearlier : forall y, In y (concat (firstn i (rev LFl))) -> exists j', j0 < j' /\ In y (nth j' LFl [])).
  { intros y Hy. destruct (in_concat_firstn _ _ _ Hy) as (i' & H1 & H2 & H3).
    rewrite rev_length in H2. rewrite rev_nth in H3 by exact H2. fold K in H3.
    exists (K - S i'). split; [unfold j0; lia|exact H3]. }
  assert (Huniq : forall j, In x (nth j LFl []) -> j = j0).
  { intros j Hj. destruct (Nat.lt_trichotomy j j0) as [Hlt|[E|Hgt]]; [|exact E|].
    - pose proof (O1 j j0 x x Hlt Hj Hx0). lia.
    - pose proof (O1 j0 j x x Hgt Hx0 Hj). lia. }
  split; [|split].
  - intros Hin. rewrite Hd in Hin. apply in_app_or in Hin. destruct Hin as [Hin|Hin].
    + destruct (Hearlier x Hin) as (j' & Hj' & Hxj'). pose proof (Huniq j' Hxj'). lia.
    + pose proof (O2 j0) as Hnd. rewrite Hn in Hnd. apply NoDup_remove_2 in Hnd. apply Hnd.
      apply in_or_app. left. exact Hin.
  - intros p Hp Hin. apply in_app_or in Hin. destruct Hin as [Hin|[<-|[]]].
    + rewrite Hd in Hin. apply in_app_or in Hin. destruct Hin as [Hin|Hin].
      * destruct (Hearlier p Hin) as (j' & Hj' & Hpj').
        pose proof (O3 j0 x p x Hx0 Hp Hx0). pose proof (O1 j0 j' x p Hj' Hx0 Hpj'). lia.
      * pose proof (O3 j0 x p p Hx0 Hp (Hpre p Hin)). lia.
    + pose proof (O3 j0 x x x Hx0 Hp Hx0). lia.
  - intros j c Hj Hc. pose proof (Huniq j Hj). subst j.
    assert (HSj : S j0 < K).
    { destruct (Nat.lt_ge_cases (S j0) K) as [Hlt|Hge]; [exact Hlt|]. rewrite nth_overflow in Hc by exact Hge. destruct Hc. }
    rewrite Hd. apply in_or_app. left.
    apply (in_nth_concat_firstn (rev LFl) i (K - S (S j0)) c); [unfold j0 in *; lia|].
    rewrite rev_nth by (fold K; lia). fold K.
    replace (K - S (K - S (S j0))) with (S j0) by (unfold j0 in *; lia). exact Hc.
Qed.

Lemma nth_firstn_lt {A} (l : list A) k j d : j < k -> nth j (firstn k l) d = nth j l d.
Proof.
  revert k j. induction l as [|a l IH]; intros k j H.
  - rewrite firstn_nil. reflexivity.
  - destruct k as [|k]; [lia|]. destruct j as [|j]; simpl; [reflexivity|]. apply IH. lia.
Qed.


(* ================================================================== 2. the fold of _compute_thresholds *)
Local Open Scope Z_scope.

(* ------------------------------------------------------------------ arithmetic *)
Lemma sat_sub_sound a b w : IMIN < w -> w <= sat_sub a b -> w + b <= a.
Proof.
  unfold sat_sub, clampZ. intros Hw H.
  destruct (a - b >? IMAX) eqn:E1.
  - rewrite Z.gtb_ltb in E1. apply Z.ltb_lt in E1. lia.
  - destruct (a - b <? IMIN) eqn:E2; [lia|]. lia.
Qed.

Lemma sat_add_comm a b : sat_add a b = sat_add b a.
Proof. unfold sat_add. rewrite Z.add_comm. reflexivity. Qed.

Lemma set_theta_id {St} (n : @node St) : set_theta n (n_theta n) = n.
Proof. destruct n; reflexivity. Qed.

(* "a is at most b" on thresholds, None = +infinity *)
Definition tle (a b : option Z) : Prop :=
  match b with None => True | Some tb => exists ta, a = Some ta /\ ta <= tb end.
Lemma tle_refl a : tle a a.
Proof. destruct a as [t|]; simpl; [exists t; split; [reflexivity|lia]|exact I]. Qed.
Lemma tle_trans a b c : tle a b -> tle b c -> tle a c.
Proof.
  unfold tle. destruct c as [tc|]; [|auto]. intros H1 (tb & -> & Hb). destruct H1 as (ta & -> & Ha).
  exists ta. split; [reflexivity|lia].
Qed.

Section ThetaFold.
  Context {St : Type}.
  Variable st_eqb : St -> St -> bool.
  Hypothesis st_eqb_spec : forall a b, st_eqb a b = true <-> a = b.
  Variable inp : @cinput St.
  Let pb := ci_problem inp.
  Let rlx := ci_relax inp.
  Let lb := ci_best_lb inp.
  Let N := nb_vars pb.
  Let rd := sp_depth (ci_root inp).
  Let rs := sp_state (ci_root inp).
  Let rv := sp_value (ci_root inp).
  Hypothesis nv_static : forall k l1 l2, next_variable pb k l1 = next_variable pb k l2.
  Hypothesis nv_none : forall k l, (N <= k)%nat -> next_variable pb k l = None.
  Variable cov : St -> St -> Prop.
  Hypothesis cov_refl : forall s, cov s s.
  Hypothesis rub_adm : forall k s s' h, cov s s' -> H pb k s' = Some h -> h <= fast_upper_bound rlx s.
  Variable B : Z.
  Hypothesis HB : 2 * B <= IMAX.
  Hypothesis Hguard : forall ds s' v', frun pb rd rs rv ds = Some (s', v') -> - B <= v' <= B.

  Notation mdd := (@mdd St).
  Notation node := (@node St).
  Notation gn := (get_node inp).

  (* ---------------------------------------------------------------- the fold of _compute_thresholds *)
  Definition own_theta (bk : Z) (n : node) : option Z :=
    if negb (f_cache (n_flags n)) then
      if sat_add (n_vtop n) (n_rub n) <=? bk then Some (sat_sub bk (n_rub n))
      else if f_cutset (n_flags n) then
        if sat_add (n_vtop n) (n_vbot n) <=? bk
        then Some (Z.min (opt_default IMAX (n_theta n)) (sat_sub bk (n_vbot n)))
        else Some (n_vtop n)
      else if fl_is_exact (n_flags n) && match n_theta n with None => true | Some _ => false end
        then Some IMAX else n_theta n
    else n_theta n.

  Definition th_own (bk : Z) (a : mdd) (id : nat) : mdd :=
    let n := gn a id in
    if negb (f_cache (n_flags n)) then
      let tot_rub := sat_add (n_vtop n) (n_rub n) in
      let m0 :=
        if tot_rub <=? bk then upd_node a id (fun n0 => set_theta n0 (Some (sat_sub bk (n_rub n0))))
        else if f_cutset (n_flags n) then
          let tot_locb := sat_add (n_vtop n) (n_vbot n) in
          if tot_locb <=? bk then
            upd_node a id (fun n0 => set_theta n0 (Some (Z.min (opt_default IMAX (n_theta n0)) (sat_sub bk (n_vbot n0)))))
          else upd_node a id (fun n0 => set_theta n0 (Some (n_vtop n0)))
        else if fl_is_exact (n_flags n) && match n_theta n with None => true | Some _ => false end then
          upd_node a id (fun n0 => set_theta n0 (Some IMAX))
        else a in
      maybe_update_cache st_eqb inp m0 id
    else a.

  Definition prop_step (my : Z) (m1 : mdd) (eid : nat) : mdd :=
    let e := get_edge m1 eid in
    upd_node m1 (e_from e) (fun p => set_theta p (Some (Z.min (opt_default IMAX (n_theta p)) (sat_sub my (e_cost e))))).

  Definition th_prop (a : mdd) (id : nat) : mdd :=
    match n_theta (gn a id) with
    | Some my => fold_left (prop_step my) (n_inb (gn a id)) a
    | None => a
    end.

  Definition th_step (bk : Z) (a : mdd) (id : nat) : mdd :=
    if f_deleted (n_flags (gn a id)) then a else th_prop (th_own bk a id) id.

  Definition th_preset (bk : Z) (m : mdd) : mdd :=
    fold_left (fun m id =>
       let cond := match ci_flavour inp with
                   | CleanLEL => m_is_exact m
                   | _ => fl_is_exact (n_flags (gn m id)) end in
       if cond then upd_node m id (fun n => set_theta n (Some bk)) else m) (m_next m) m.

  Lemma compute_thresholds_unfold (m : mdd) :
    compute_thresholds st_eqb inp m =
    if is_relaxed_ct (ci_type inp) || m_is_exact m then
      match m_best_exact m with
      | Some be =>
          let bk := Z.max (ci_best_lb inp) (n_vtop (gn m be)) in
          let m' := th_preset bk m in
          fold_left (th_step bk) (bottom_up m') m'
      | None => fold_left (th_step (ci_best_lb inp)) (bottom_up m) m
      end
    else m.
  Proof.
    unfold compute_thresholds. destruct (_ || _); [|reflexivity].
    destruct (m_best_exact m); reflexivity.
  Qed.

  (* ---------------------------------------------------------------- node-level description of one step *)
  Definition sk (n : node) : node := set_theta n None.
  Lemma sk_set_theta (n : node) t : sk (set_theta n t) = sk n.
  Proof. destruct n; reflexivity. Qed.
  Lemma node_of_sk (n : node) : n = set_theta (sk n) (n_theta n).
  Proof. destruct n; reflexivity. Qed.
  Lemma set_theta_sk (n : node) t : set_theta (sk n) t = set_theta n t.
  Proof. destruct n; reflexivity. Qed.
  Lemma sk_fields (n n' : node) : sk n = sk n' ->
    n_state n = n_state n' /\ n_vtop n = n_vtop n' /\ n_vbot n = n_vbot n' /\ n_rub n = n_rub n' /\
    n_flags n = n_flags n' /\ n_inb n = n_inb n' /\ n_depth n = n_depth n'.
  Proof. destruct n, n'; unfold sk; simpl; intros H; inversion H; subst; repeat split. Qed.

  Definition theta_of (a : mdd) (x : nat) : option Z := n_theta (gn a x).

  Lemma muc_nodes (a : mdd) id : m_nodes (maybe_update_cache st_eqb inp a id) = m_nodes a.
  Proof.
    unfold maybe_update_cache. destruct (n_theta _); [|reflexivity]. destruct (f_above _); [|reflexivity].
    unfold cache_update. destruct (ci_use_cache inp); [|reflexivity].
    destruct (update_threshold _ _ _ _ _ _); reflexivity.
  Qed.
  Lemma muc_edges (a : mdd) id : m_edges (maybe_update_cache st_eqb inp a id) = m_edges a.
  Proof.
    unfold maybe_update_cache. destruct (n_theta _); [|reflexivity]. destruct (f_above _); [|reflexivity].
    unfold cache_update. destruct (ci_use_cache inp); [|reflexivity].
    destruct (update_threshold _ _ _ _ _ _); reflexivity.
  Qed.

  (* the node update of th_own, without the cache write *)
  Definition own_upd (bk : Z) (a : mdd) (id : nat) : mdd :=
    upd_node a id (fun n => set_theta n (own_theta bk n)).

  Lemma th_own_nodes bk (a : mdd) id :
    m_nodes (th_own bk a id) = m_nodes (own_upd bk a id).
  Proof.
    unfold th_own, own_upd, own_theta. cbv zeta.
    assert (Hid : forall (f : node -> node), (forall n, f n = n) -> m_nodes (upd_node a id f) = m_nodes a).
    { intros f Hf. unfold upd_node, with_nodes. simpl. clear -Hf. generalize (m_nodes a) id.
      induction l as [|y l IH]; intros [|k]; simpl; auto; [rewrite Hf; reflexivity|rewrite IH; reflexivity]. }
    assert (Hext : forall (f g : node -> node), (forall n, f n = g n) ->
               m_nodes (upd_node a id f) = m_nodes (upd_node a id g)).
    { intros f g Hfg. unfold upd_node, with_nodes. simpl. clear -Hfg. generalize (m_nodes a) id.
      induction l as [|y l IH]; intros [|k]; simpl; auto; [rewrite Hfg; reflexivity|rewrite IH; reflexivity]. }
    set (n := gn a id).
    destruct (Nat.lt_ge_cases id (length (m_nodes a))) as [Hlt|Hge].
    2:{ (* out of range: nothing changes on either side *)
      assert (Hno : forall f, m_nodes (upd_node a id f) = m_nodes a).
      { intros f. unfold upd_node, with_nodes. simpl. apply upd_nth_out. exact Hge. }
      rewrite Hno. destruct (negb _); [|reflexivity]. rewrite muc_nodes.
      repeat match goal with |- context [if ?c then _ else _] => destruct c end; rewrite ?Hno; reflexivity. }
    assert (Hat : forall (f g : node -> node), f n = g n -> m_nodes (upd_node a id f) = m_nodes (upd_node a id g)).
    { intros f g Hfg. unfold upd_node, with_nodes. simpl. unfold n, get_node in Hfg. clear -Hfg Hlt.
      generalize dependent (default_node (sp_state (ci_root inp))). intros dn Hfg. revert id Hlt Hfg.
      induction (m_nodes a) as [|y l IH]; intros [|k] Hlt Hfg; simpl in *; try lia.
      - rewrite Hfg. reflexivity.
      - rewrite (IH k); [reflexivity|lia|exact Hfg]. }
    assert (Hsame : forall (g : node -> node), g n = n -> m_nodes a = m_nodes (upd_node a id g)).
    { intros g Hg. rewrite <- (Hid (fun n => n)) at 1 by reflexivity. apply Hat. symmetry; exact Hg. }
    destruct (negb (f_cache (n_flags n))) eqn:Ec.
    - rewrite muc_nodes.
      destruct (sat_add (n_vtop n) (n_rub n) <=? bk) eqn:E1.
      + apply Hat. rewrite Ec, E1. reflexivity.
      + destruct (f_cutset (n_flags n)) eqn:E2.
        * destruct (sat_add (n_vtop n) (n_vbot n) <=? bk) eqn:E3; apply Hat; rewrite Ec, E1, E2, E3; reflexivity.
        * destruct (fl_is_exact (n_flags n) && match n_theta n with None => true | Some _ => false end) eqn:E4.
          -- apply Hat. rewrite Ec, E1, E2, E4. reflexivity.
          -- apply Hsame. rewrite Ec, E1, E2, E4. apply set_theta_id.
    - apply Hsame. rewrite Ec. apply set_theta_id.
  Qed.

  Lemma th_own_gn bk (a : mdd) id x : (id < length (m_nodes a))%nat ->
    gn (th_own bk a id) x =
    if Nat.eqb x id then set_theta (gn a id) (own_theta bk (gn a id)) else gn a x.
  Proof.
    intros Hlt. rewrite (gn_nodes_eq inp (own_upd bk a id) (th_own bk a id) x (th_own_nodes bk a id)).
    unfold own_upd. destruct (Nat.eqb x id) eqn:E.
    - apply Nat.eqb_eq in E. subst x. rewrite gn_upd_same by exact Hlt. reflexivity.
    - apply Nat.eqb_neq in E. rewrite gn_upd_other by congruence. reflexivity.
  Qed.

  Lemma th_own_edges bk (a : mdd) id : m_edges (th_own bk a id) = m_edges a.
  Proof.
    unfold th_own. cbv zeta. destruct (negb _); [|reflexivity]. rewrite muc_edges.
    repeat match goal with |- context [if ?c then _ else _] => destruct c end; reflexivity.
  Qed.

  Lemma th_own_cache bk (a : mdd) id :
    m_cache (th_own bk a id) = m_cache a \/
    exists t c', n_theta (gn (own_upd bk a id) id) = Some t /\
      f_above (n_flags (gn (own_upd bk a id) id)) = true /\
      update_threshold st_eqb (m_cache a) (n_state (gn (own_upd bk a id) id)) (n_depth (gn (own_upd bk a id) id)) t
        (negb (f_cutset (n_flags (gn (own_upd bk a id) id)))) = Some c' /\
      m_cache (th_own bk a id) = c'.
  Proof.
    assert (G : forall a0 : mdd, m_nodes a0 = m_nodes (own_upd bk a id) -> m_cache a0 = m_cache a ->
              m_cache (maybe_update_cache st_eqb inp a0 id) = m_cache a \/
              exists t c', n_theta (gn (own_upd bk a id) id) = Some t /\
                f_above (n_flags (gn (own_upd bk a id) id)) = true /\
                update_threshold st_eqb (m_cache a) (n_state (gn (own_upd bk a id) id)) (n_depth (gn (own_upd bk a id) id)) t
                  (negb (f_cutset (n_flags (gn (own_upd bk a id) id)))) = Some c' /\
                m_cache (maybe_update_cache st_eqb inp a0 id) = c').
    { intros a0 Hn Hc. unfold maybe_update_cache.
      rewrite (gn_nodes_eq inp (own_upd bk a id) a0 id Hn).
      destruct (n_theta (gn (own_upd bk a id) id)) as [t|] eqn:Et; [|left; exact Hc].
      destruct (f_above (n_flags (gn (own_upd bk a id) id))) eqn:Ea; [|left; exact Hc].
      unfold cache_update. destruct (ci_use_cache inp); [|left; exact Hc].
      cbn [m_cache add_log]. rewrite Hc.
      destruct (update_threshold st_eqb (m_cache a) _ _ t _) as [c'|] eqn:Eu; [|left; exact Hc].
      right. exists t, c'. repeat split; auto. }
    pose proof (th_own_nodes bk a id) as Hno. unfold th_own in *. cbv zeta in *.
    destruct (negb (f_cache (n_flags (gn a id)))); [|left; reflexivity].
    match goal with |- context [maybe_update_cache st_eqb inp ?mm id] => apply (G mm) end.
    - rewrite <- Hno. symmetry. apply muc_nodes.
    - repeat match goal with |- context [if ?c then _ else _] => destruct c end; reflexivity.
  Qed.

  Lemma prop_step_spec my (a : mdd) eid :
    let a' := prop_step my a eid in
    let p := e_from (get_edge a eid) in
    m_edges a' = m_edges a /\ length (m_nodes a') = length (m_nodes a) /\ m_cache a' = m_cache a /\
    (forall x, sk (gn a' x) = sk (gn a x)) /\
    (forall x, tle (theta_of a' x) (theta_of a x)) /\
    (forall x, x <> p -> gn a' x = gn a x) /\
    ((p < length (m_nodes a))%nat -> exists t', theta_of a' p = Some t' /\ t' <= sat_sub my (e_cost (get_edge a eid))).
  Proof.
    cbv zeta. unfold prop_step. cbv zeta. set (p := e_from (get_edge a eid)). set (ec := e_cost (get_edge a eid)).
    set (f := fun p0 : node => set_theta p0 (Some (Z.min (opt_default IMAX (n_theta p0)) (sat_sub my ec)))).
    split; [reflexivity|]. split; [simpl; apply upd_nth_length|]. split; [reflexivity|].
    assert (Hx : forall x, gn (upd_node a p f) x = gn a x \/ (x = p /\ (p < length (m_nodes a))%nat /\ gn (upd_node a p f) x = f (gn a p))).
    { intros x. destruct (Nat.eq_dec p x) as [<-|Hne].
      - destruct (Nat.lt_ge_cases p (length (m_nodes a))) as [Hlt|Hge].
        + right. split; [reflexivity|]. split; [exact Hlt|]. apply gn_upd_same. exact Hlt.
        + left. apply gn_upd_out. exact Hge.
      - left. apply gn_upd_other. exact Hne. }
    split; [|split; [|split]].
    - intros x. destruct (Hx x) as [->|(-> & _ & ->)]; [reflexivity|]. unfold f. apply sk_set_theta.
    - intros x. unfold theta_of. destruct (Hx x) as [->|(-> & _ & ->)]; [apply tle_refl|].
      unfold f. simpl. destruct (n_theta (gn a p)) as [t|]; simpl; [|exact I].
      eexists. split; [reflexivity|]. lia.
    - intros x Hne. destruct (Hx x) as [H|(H & _)]; [exact H|congruence].
    - intros Hlt. unfold theta_of. rewrite gn_upd_same by exact Hlt. unfold f. simpl.
      eexists. split; [reflexivity|]. lia.
  Qed.

  Lemma prop_fold_spec my L : forall (a : mdd),
    let a' := fold_left (prop_step my) L a in
    m_edges a' = m_edges a /\ length (m_nodes a') = length (m_nodes a) /\ m_cache a' = m_cache a /\
    (forall x, sk (gn a' x) = sk (gn a x)) /\
    (forall x, tle (theta_of a' x) (theta_of a x)) /\
    (forall x, (forall eid, In eid L -> e_from (get_edge a eid) <> x) -> gn a' x = gn a x) /\
    (forall eid, In eid L -> (e_from (get_edge a eid) < length (m_nodes a))%nat ->
       exists t', theta_of a' (e_from (get_edge a eid)) = Some t' /\ t' <= sat_sub my (e_cost (get_edge a eid))).
  Proof.
    induction L as [|e0 L IH]; intros a; cbv zeta; simpl.
    - repeat split; auto. + intros x; apply tle_refl. + intros eid [].
    - destruct (prop_step_spec my a e0) as (S1 & S2 & S2c & S3 & S4 & S5 & S6). cbv zeta in S1, S2, S2c, S3, S4, S5, S6.
      set (a1 := prop_step my a e0) in *.
      destruct (IH a1) as (I1 & I2 & I2c & I3 & I4 & I5 & I6). cbv zeta in I1, I2, I2c, I3, I4, I5, I6.
      assert (Hge : forall k, get_edge a1 k = get_edge a k) by (intros k; apply ge_edges_eq; exact S1).
      split; [congruence|]. split; [congruence|]. split; [congruence|]. split; [|split; [|split]].
      + intros x. rewrite I3. apply S3.
      + intros x. eapply tle_trans; [apply I4|apply S4].
      + intros x Hx. rewrite I5.
        * apply S5. intros E. apply (Hx e0); [left; reflexivity|symmetry; exact E].
        * intros eid Hin. rewrite Hge. apply Hx. right; exact Hin.
      + intros eid [<-|Hin] Hlt.
        * destruct (S6 Hlt) as (t1 & E1 & Hle1).
          pose proof (I4 (e_from (get_edge a e0))) as Ht. rewrite E1 in Ht. simpl in Ht.
          destruct Ht as (t2 & E2 & Hle2). exists t2. split; [exact E2|lia].
        * rewrite <- (Hge eid). apply I6; [exact Hin|]. rewrite Hge, S2. exact Hlt.
  Qed.

  (* ---------------------------------------------------------------- the static diagram and its hypotheses *)
  Variable m0 : mdd.          (* the diagram on which the fold starts (after the pre-setting of the terminal thetas) *)
  Variable bk : Z.
  Hypothesis Hbk : lb <= bk.
  Variable Drained : nat -> Prop.

  Definition lay (j x : nat) : Prop := In x (nth j (m_layers m0) []).
  Definition live (x : nat) : Prop := f_deleted (n_flags (gn m0 x)) = false.
  Definition isex (x : nat) : Prop := fl_is_exact (n_flags (gn m0 x)) = true.
  Definition above (x : nat) : Prop := f_above (n_flags (gn m0 x)) = true.
  Definition cuts (x : nat) : Prop := f_cutset (n_flags (gn m0 x)) = true.
  Definition st (x : nat) : St := n_state (gn m0 x).
  Definition vt (x : nat) : Z := n_vtop (gn m0 x).
  Definition vb (x : nat) : Z := n_vbot (gn m0 x).
  Definition rb (x : nat) : Z := n_rub (gn m0 x).
  Definition branched (x : nat) : Prop := lb < sat_add (rb x) (vt x).
  Definition Adm (x : nat) (s : St) : Prop := cov (st x) s /\ (isex x -> s = st x).
  Definition rcost (s : St) (d : decision) : Z := transition_cost pb s (transition pb s d) d.
  Definition Start (j : nat) (s : St) (r : Z) : Prop :=
    exists pre, frun pb rd rs rv pre = Some (s, r) /\ length pre = j.
  Definition complete (j : nat) (ds : list decision) : Prop := (rd + j + length ds = N)%nat.

  Inductive lpath : nat -> nat -> St -> list decision -> nat -> St -> Prop :=
  | lp_nil : forall j x s, lay j x -> live x -> Adm x s -> lpath j x s [] x s
  | lp_cons : forall j x s d ds c eid t s', lay j x -> live x -> Adm x s ->
      In eid (n_inb (gn m0 c)) -> e_from (get_edge m0 eid) = x -> e_dec (get_edge m0 eid) = d ->
      rcost s d <= e_cost (get_edge m0 eid) ->
      lpath (S j) c (transition pb s d) ds t s' -> lpath j x s (d :: ds) t s'.

  Definition Fall (j x : nat) (s : St) (ds : list decision) : Prop :=
    exists ds1 ds2 y s1, ds = ds1 ++ ds2 /\ lpath j x s ds1 y s1 /\ (rd + j + length ds1 < N)%nat /\ ~ branched y.

  Definition Capt (j : nat) (s : St) (w : Z) (ds : list decision) : Prop :=
    exists ds1 ds2 y s1 w1, ds = ds1 ++ ds2 /\ frun pb (rd + j) s w ds1 = Some (s1, w1) /\
      Drained y /\ st y = s1 /\ n_depth (gn m0 y) = (rd + j + length ds1)%nat /\ w1 <= vt y.

  Definition SafeAt (j : nat) (s : St) (t : Z) : Prop :=
    forall v ds s' v', IMIN + 2 * B < v -> v <= t ->
      frun pb (rd + j) s v ds = Some (s', v') -> complete j ds -> v' <= bk \/ Capt j s v ds.

  Hypothesis H_range : forall j x, lay j x -> (x < length (m_nodes m0))%nat.
  Hypothesis H_uniq : forall j j' x, lay j x -> lay j' x -> j = j'.
  Hypothesis H_ord : forall done x rest, bottom_up m0 = done ++ x :: rest ->
    ~ In x done /\
    (forall eid, In eid (n_inb (gn m0 x)) -> ~ In (e_from (get_edge m0 eid)) (done ++ [x])) /\
    (forall j c, lay j x -> lay (S j) c -> In c done).
  Hypothesis H_efrom : forall j x eid, lay j x -> In eid (n_inb (gn m0 x)) ->
    (e_from (get_edge m0 eid) < length (m_nodes m0))%nat.
  Hypothesis H_depth : forall j x, lay j x -> live x -> n_depth (gn m0 x) = (rd + j)%nat.
  Hypothesis H_SC : forall j x s var val, lay j x -> live x -> Adm x s -> (rd + j < N)%nat -> branched x ->
    next_variable pb (rd + j) [] = Some var -> In val (domain pb var s) ->
    let d := {| d_var := var; d_val := val |} in
    exists c eid, lay (S j) c /\ live c /\ Adm c (transition pb s d) /\
      In eid (n_inb (gn m0 c)) /\ e_from (get_edge m0 eid) = x /\ e_dec (get_edge m0 eid) = d /\
      rcost s d <= e_cost (get_edge m0 eid).
  Hypothesis H_rub : forall j x, lay j x -> rb x = IMAX \/ rb x = fast_upper_bound rlx (st x).
  Hypothesis H_cache : forall j x, lay j x -> f_cache (n_flags (gn m0 x)) = false.
  Hypothesis H_cut_ex : forall j x, lay j x -> cuts x -> isex x.
  Hypothesis H_kid : forall j x c eid, lay j x -> live x -> isex x -> above x -> ~ cuts x ->
    lay (S j) c -> live c -> In eid (n_inb (gn m0 c)) -> e_from (get_edge m0 eid) = x -> isex c /\ above c.
  Hypothesis H_real : forall j x, lay j x -> live x -> isex x -> Start j (st x) (vt x).
  Hypothesis H_vtop : forall j x ds1 y s1 v1, lay j x -> live x -> isex x ->
    lpath j x (st x) ds1 y s1 -> frun pb (rd + j) (st x) (vt x) ds1 = Some (s1, v1) -> v1 <= vt y.
  Hypothesis H_locb : forall j x ds T s' w0 w1, lay j x -> live x -> cuts x ->
    lpath j x (st x) ds T s' -> complete j ds -> frun pb (rd + j) (st x) w0 ds = Some (s', w1) ->
    (forall ds1 ds2 s1 v1, ds = ds1 ++ ds2 -> frun pb (rd + j) (st x) w0 ds1 = Some (s1, v1) -> in_isize (w1 - v1)) ->
    w1 - w0 <= vb x.
  Hypothesis H_drain : forall j x ds T s' w0 w1, lay j x -> live x -> cuts x ->
    lpath j x (st x) ds T s' -> complete j ds -> frun pb (rd + j) (st x) w0 ds = Some (s', w1) ->
    (forall ds1 ds2 s1 v1, ds = ds1 ++ ds2 -> frun pb (rd + j) (st x) w0 ds1 = Some (s1, v1) -> in_isize (w1 - v1)) ->
    Drained x.


  (* ---------------------------------------------------------------- live paths *)
  Lemma lpath_start j x s ds t s' : lpath j x s ds t s' -> lay j x /\ live x /\ Adm x s.
  Proof. intros H; destruct H; auto. Qed.

  Lemma lpath_end j x s ds t s' : lpath j x s ds t s' ->
    lay (j + length ds) t /\ live t /\ Adm t s' /\ s' = fold_left (transition pb) ds s.
  Proof.
    intros H. induction H as [j x s H1 H2 H3|j x s d ds c eid t s' H1 H2 H3 H4 H5 H6 H7 Hp IH].
    - simpl. rewrite Nat.add_0_r. auto.
    - destruct IH as (I1 & I2 & I3 & I4). simpl. replace (j + S (length ds))%nat with (S j + length ds)%nat by lia. auto.
  Qed.

  Lemma lpath_cons_inv j x s d ds t s' : lpath j x s (d :: ds) t s' ->
    exists c eid, In eid (n_inb (gn m0 c)) /\ e_from (get_edge m0 eid) = x /\ e_dec (get_edge m0 eid) = d /\
      rcost s d <= e_cost (get_edge m0 eid) /\ lpath (S j) c (transition pb s d) ds t s'.
  Proof. intros H; inversion H; subst. exists c, eid. auto. Qed.
  Lemma lpath_nil_inv j x s t s' : lpath j x s [] t s' -> t = x /\ s' = s.
  Proof. intros H; inversion H; subst; auto. Qed.

  Lemma mkdec_eta (d : decision) : {| d_var := d_var d; d_val := d_val d |} = d.
  Proof. destruct d; reflexivity. Qed.

  Lemma frun_cons k s v d ds :
    frun pb k s v (d :: ds) =
    if var_ok pb k d && in_domain pb s d then frun pb (S k) (transition pb s d) (v + rcost s d) ds else None.
  Proof. reflexivity. Qed.

  Lemma branched_dec x : {branched x} + {~ branched x}.
  Proof. unfold branched. destruct (Z_lt_dec lb (sat_add (rb x) (vt x))); [left|right]; assumption. Qed.

  Lemma path_dich ds : forall j x s r s' r', lay j x -> live x -> Adm x s ->
    frun pb (rd + j) s r ds = Some (s', r') -> complete j ds ->
    (exists T, lpath j x s ds T s') \/ Fall j x s ds.
  Proof.
    induction ds as [|d ds IH]; intros j x s r s' r' Hl Hv Ha Hr Hc.
    - simpl in Hr. inversion Hr; subst. left. exists x. apply lp_nil; assumption.
    - rewrite frun_cons in Hr.
      destruct (var_ok pb (rd + j) d) eqn:Ev; [|discriminate]. destruct (in_domain pb s d) eqn:Ed; [|discriminate].
      simpl in Hr. unfold complete in Hc. simpl in Hc.
      destruct (branched_dec x) as [Hb|Hb].
      + apply (var_ok_spec pb nv_static (rd + j) d []) in Ev. apply in_domain_In in Ed.
        destruct (H_SC j x s (d_var d) (d_val d) Hl Hv Ha ltac:(lia) Hb Ev Ed) as (c & eid & C1 & C2 & C3 & C4 & C5 & C6 & C7).
        cbv zeta in C3, C6, C7. rewrite mkdec_eta in C3, C6, C7.
        replace (S (rd + j)) with (rd + S j)%nat in Hr by lia.
        destruct (IH (S j) c _ _ _ _ C1 C2 C3 Hr) as [[T HT]|HF].
        * unfold complete. lia.
        * left. exists T. eapply lp_cons; eauto.
        * right. destruct HF as (ds1 & ds2 & y & s1 & E & Hp & Hlt & Hnb).
          exists (d :: ds1), ds2, y, s1. split; [simpl; rewrite E; reflexivity|]. split; [eapply lp_cons; eauto|].
          split; [simpl; lia|exact Hnb].
      + right. exists [], (d :: ds), x, s. split; [reflexivity|]. split; [apply lp_nil; assumption|].
        split; [simpl; lia|exact Hb].
  Qed.

  (* ---------------------------------------------------------------- real runs *)
  Lemma Start_guard j s r : Start j s r -> - B <= r <= B.
  Proof. intros (pre & Hp & _). eapply Hguard; eauto. Qed.

  Lemma Start_ext j s r ds s' r' : Start j s r -> frun pb (rd + j) s r ds = Some (s', r') ->
    Start (j + length ds) s' r'.
  Proof.
    intros (pre & Hp & Hl) Hr. exists (pre ++ ds). split; [|rewrite app_length; lia].
    rewrite frun_app, Hp, Hl. exact Hr.
  Qed.

  Lemma cost_le_rub jy y s1 r1 ds2 s' r' : lay jy y -> cov (st y) s1 -> Start jy s1 r1 ->
    frun pb (rd + jy) s1 r1 ds2 = Some (s', r') -> complete jy ds2 -> r' - r1 <= rb y.
  Proof.
    intros Hl Hc HS Hr Hcomp.
    destruct (H_rub jy y Hl) as [E|E]; rewrite E.
    - pose proof (Start_guard _ _ _ HS). pose proof (Start_guard _ _ _ (Start_ext _ _ _ _ _ _ HS Hr)). unfold IMAX in *. lia.
    - destruct (frun_le_H pb nv_static nv_none ds2 (rd + jy) s1 r1 s' r' Hcomp Hr) as (h & Hh & Hle).
      pose proof (rub_adm _ _ _ _ Hc Hh). lia.
  Qed.

  Lemma rub_case_sound j x s r ds s' r' : lay j x -> cov (st x) s -> Start j s r ->
    frun pb (rd + j) s r ds = Some (s', r') -> complete j ds ->
    forall dl, IMIN + B < dl -> r + dl <= sat_sub bk (rb x) -> r' + dl <= bk.
  Proof.
    intros Hl Hc HS Hr Hcomp dl Hdl Hle.
    pose proof (Start_guard _ _ _ HS) as Hg.
    pose proof (cost_le_rub j x s r ds s' r' Hl Hc HS Hr Hcomp) as Hcr.
    pose proof (sat_sub_sound bk (rb x) (r + dl) ltac:(lia) Hle). lia.
  Qed.

  Lemma via_child (Q : Z -> Prop) r k ec tp tc :
    k <= ec -> - B <= r -> tp <= sat_sub tc ec ->
    (forall dl, IMIN + B < dl -> r + k + dl <= tc -> Q dl) ->
    forall dl, IMIN + B < dl -> r + dl <= tp -> Q dl.
  Proof.
    intros Hk Hr Htp Hq dl Hdl Hle. apply Hq; [exact Hdl|].
    pose proof (sat_sub_sound tc ec (r + dl) ltac:(lia) ltac:(lia)). lia.
  Qed.

  (* a cut-set node whose threshold is its own value: completions leaving the diagram are hopeless *)
  Lemma cut_vtop_fall j x r ds1 ds2 y s1 s' r' : lay j x -> live x -> isex x ->
    Start j (st x) r -> frun pb (rd + j) (st x) r (ds1 ++ ds2) = Some (s', r') -> complete j (ds1 ++ ds2) ->
    lpath j x (st x) ds1 y s1 -> (rd + j + length ds1 < N)%nat -> ~ branched y ->
    forall dl, r + dl <= vt x -> r' + dl <= bk.
  Proof.
    intros Hl Hv Hx HS Hr Hcomp Hp Hlt Hnb dl Hdl.
    pose proof (H_real j x Hl Hv Hx) as HSx.
    set (a := vt x - r).
    pose proof (frun_shift pb _ _ _ _ a _ _ Hr) as Hr2. replace (r + a) with (vt x) in Hr2 by (unfold a; lia).
    rewrite frun_app in Hr2.
    destruct (frun pb (rd + j) (st x) (vt x) ds1) as [[s1' v1]|] eqn:E1; [|discriminate].
    destruct (lpath_end _ _ _ _ _ _ Hp) as (L1 & L2 & L3 & L4).
    assert (s1' = s1) by (rewrite L4; apply (frun_state pb _ _ _ _ _ _ E1)). subst s1'.
    pose proof (H_vtop j x ds1 y s1 v1 Hl Hv Hx Hp E1) as Hv1.
    pose proof (Start_ext _ _ _ _ _ _ HSx E1) as HS1.
    replace (rd + j + length ds1)%nat with (rd + (j + length ds1))%nat in Hr2 by lia.
    assert (Hc2 : complete (j + length ds1) ds2).
    { unfold complete in *. rewrite app_length in Hcomp. lia. }
    pose proof (cost_le_rub _ y s1 v1 ds2 s' (r' + a) L1 (proj1 L3) HS1 Hr2 Hc2) as Hcr.
    pose proof (Start_guard _ _ _ (Start_ext _ _ _ _ _ _ HS1 Hr2)) as HgV.
    assert (HV : r' + a <= sat_add (rb y) (vt y)).
    { apply sat_add_ge; [unfold in_isize, IMIN, IMAX in *; lia|lia]. }
    unfold branched in Hnb. unfold a in *. lia.
  Qed.

  (* ---------------------------------------------------------------- the two semantic invariants *)
  Definition GB (x : nat) (th : option Z) : Prop :=
    forall j s r ds s' r', lay j x -> Adm x s -> Start j s r ->
      frun pb (rd + j) s r ds = Some (s', r') -> complete j ds -> Fall j x s ds ->
      exists t, th = Some t /\ forall dl, IMIN + B < dl -> r + dl <= t -> r' + dl <= bk.

  Definition GA (x : nat) (th : option Z) : Prop :=
    isex x -> above x ->
    forall j r ds s' r' T, lay j x -> Start j (st x) r ->
      frun pb (rd + j) (st x) r ds = Some (s', r') -> complete j ds -> lpath j x (st x) ds T s' ->
      exists t, th = Some t /\
        forall dl, IMIN + B < dl -> r + dl <= t -> r' + dl <= bk \/ Capt j (st x) (r + dl) ds.

  (* the node [x] with its static data and the threshold accumulated so far *)
  Definition nd (x : nat) (pre : option Z) : node := set_theta (gn m0 x) pre.

  Lemma frun_cons_inv k s v d ds s' v' : frun pb k s v (d :: ds) = Some (s', v') ->
    var_ok pb k d = true /\ in_domain pb s d = true /\
    frun pb (S k) (transition pb s d) (v + rcost s d) ds = Some (s', v').
  Proof.
    rewrite frun_cons. destruct (var_ok pb k d); [|discriminate]. destruct (in_domain pb s d); [|discriminate].
    simpl. auto.
  Qed.

  Lemma Start_step j s r d : Start j s r -> var_ok pb (rd + j) d = true -> in_domain pb s d = true ->
    Start (S j) (transition pb s d) (r + rcost s d).
  Proof.
    intros HS V1 V2. replace (S j) with (j + length [d])%nat by (simpl; lia).
    apply (Start_ext j s r [d]); [exact HS|]. rewrite frun_cons, V1, V2. reflexivity.
  Qed.

  Lemma isize_diff a b : - B <= a <= B -> - B <= b <= B -> in_isize (a - b).
  Proof. unfold in_isize, IMIN, IMAX in *. lia. Qed.

  Section Core.
    Variables (x j : nat) (pre : option Z) (thk : nat -> option Z).
    Hypothesis Hl : lay j x.
    Hypothesis Hv : live x.
    Hypothesis KB : forall c, lay (S j) c -> live c -> GB c (thk c).
    Hypothesis KA : forall c, lay (S j) c -> live c -> GA c (thk c).
    Hypothesis KQ : forall c eid tc, lay (S j) c -> live c -> thk c = Some tc ->
      In eid (n_inb (gn m0 c)) -> e_from (get_edge m0 eid) = x ->
      exists tp, pre = Some tp /\ tp <= sat_sub tc (e_cost (get_edge m0 eid)).
    Hypothesis KT : isex x -> above x -> (rd + j = N)%nat -> exists t, pre = Some t /\ t <= bk.

    Lemma own_theta_nd :
      own_theta bk (nd x pre) =
        if sat_add (vt x) (rb x) <=? bk then Some (sat_sub bk (rb x))
        else if f_cutset (n_flags (gn m0 x)) then
          if sat_add (vt x) (vb x) <=? bk then Some (Z.min (opt_default IMAX pre) (sat_sub bk (vb x)))
          else Some (vt x)
        else if fl_is_exact (n_flags (gn m0 x)) && match pre with None => true | Some _ => false end
          then Some IMAX else pre.
    Proof.
      unfold own_theta, nd. cbn [n_flags n_vtop n_rub n_vbot n_theta set_theta].
      rewrite (H_cache j x Hl). reflexivity.
    Qed.

    Lemma not_rub_branched : (sat_add (vt x) (rb x) <=? bk) = false -> branched x.
    Proof.
      intros E. apply Z.leb_gt in E. unfold branched. rewrite sat_add_comm.
      destruct (Z_lt_dec lb (sat_add (vt x) (rb x))); [assumption|lia].
    Qed.

    Lemma core_GB : GB x (own_theta bk (nd x pre)).
    Proof.
      intros j' s r ds s' r' Hl' Ha HS Hr Hcomp HF.
      assert (j' = j) by (eapply H_uniq; eauto). subst j'.
      rewrite own_theta_nd.
      destruct (sat_add (vt x) (rb x) <=? bk) eqn:E1.
      { eexists. split; [reflexivity|]. exact (rub_case_sound j x s r ds s' r' Hl (proj1 Ha) HS Hr Hcomp). }
      pose proof (not_rub_branched E1) as Hbr.
      destruct HF as (ds1 & ds2 & y & s1 & E & Hp & Hlt & Hnb). subst ds.
      destruct ds1 as [|d ds1].
      { destruct (lpath_nil_inv _ _ _ _ _ Hp) as [-> _]. contradiction. }
      destruct (lpath_cons_inv _ _ _ _ _ _ _ Hp) as (c & eid & A4 & A5 & A6 & A7 & Hp').
      destruct (lpath_start _ _ _ _ _ _ Hp') as (C1 & C2 & C3).
      change ((d :: ds1) ++ ds2) with (d :: (ds1 ++ ds2)) in Hr, Hcomp.
      destruct (frun_cons_inv _ _ _ _ _ _ _ Hr) as (V1 & V2 & Hr').
      replace (S (rd + j)) with (rd + S j)%nat in Hr' by lia.
      pose proof (Start_step j s r _ HS V1 V2) as HSc.
      assert (Hcc : complete (S j) (ds1 ++ ds2)) by (unfold complete in *; simpl in Hcomp; lia).
      assert (HFc : Fall (S j) c (transition pb s d) (ds1 ++ ds2)).
      { exists ds1, ds2, y, s1. split; [reflexivity|]. split; [exact Hp'|]. split; [simpl in Hlt; lia|exact Hnb]. }
      destruct (KB c C1 C2 (S j) _ _ _ _ _ C1 C3 HSc Hr' Hcc HFc) as (tc & Etc & Hsc).
      destruct (KQ c eid tc C1 C2 Etc A4 A5) as (tp & -> & Htp).
      pose proof (Start_guard _ _ _ HS) as Hg.
      assert (Hs : forall dl, IMIN + B < dl -> r + dl <= tp -> r' + dl <= bk).
      { apply (via_child (fun dl => r' + dl <= bk) r (rcost s d) (e_cost (get_edge m0 eid)) tp tc A7 (proj1 Hg) Htp).
        intros dl Hdl Hle. apply Hsc; [exact Hdl|lia]. }
      destruct (f_cutset (n_flags (gn m0 x))) eqn:E2.
      - destruct (sat_add (vt x) (vb x) <=? bk) eqn:E3.
        + eexists. split; [reflexivity|]. intros dl Hdl Hle. apply Hs; [exact Hdl|]. simpl in Hle. lia.
        + eexists. split; [reflexivity|]. intros dl Hdl Hle.
          pose proof (H_cut_ex j x Hl E2) as Hex. pose proof (proj2 Ha Hex) as Es. subst s.
          eapply (cut_vtop_fall j x r (d :: ds1) ds2 y s1 s' r'); eauto.
      - rewrite andb_false_r. eexists. split; [reflexivity|]. exact Hs.
    Qed.

    Lemma core_GA : GA x (own_theta bk (nd x pre)).
    Proof.
      intros Hex Hab j' r ds s' r' T Hl' HS Hr Hcomp Hp.
      assert (j' = j) by (eapply H_uniq; eauto). subst j'.
      rewrite own_theta_nd.
      destruct (lpath_start _ _ _ _ _ _ Hp) as (_ & _ & Ha).
      pose proof (Start_guard _ _ _ HS) as Hg.
      destruct (sat_add (vt x) (rb x) <=? bk) eqn:E1.
      { eexists. split; [reflexivity|]. intros dl Hdl Hle. left.
        exact (rub_case_sound j x (st x) r ds s' r' Hl (proj1 Ha) HS Hr Hcomp dl Hdl Hle). }
      destruct (f_cutset (n_flags (gn m0 x))) eqn:E2.
      - destruct (sat_add (vt x) (vb x) <=? bk) eqn:E3.
        + eexists. split; [reflexivity|]. intros dl Hdl Hle. left.
          assert (Hlb : r' - r <= vb x).
          { apply (H_locb j x ds T s' r r' Hl Hv E2 Hp Hcomp Hr).
            intros da db s1 v1 Ed Hr1. apply isize_diff.
            - apply (Start_guard _ _ _ (Start_ext _ _ _ _ _ _ HS Hr)).
            - apply (Start_guard _ _ _ (Start_ext _ _ _ _ _ _ HS Hr1)). }
          assert (Hle2 : r + dl <= sat_sub bk (vb x)) by lia.
          pose proof (sat_sub_sound bk (vb x) (r + dl) ltac:(lia) Hle2). lia.
        + eexists. split; [reflexivity|]. intros dl Hdl Hle. right.
          assert (Hd : Drained x).
          { apply (H_drain j x ds T s' r r' Hl Hv E2 Hp Hcomp Hr).
            intros da db s1 v1 Ed Hr1. apply isize_diff.
            - apply (Start_guard _ _ _ (Start_ext _ _ _ _ _ _ HS Hr)).
            - apply (Start_guard _ _ _ (Start_ext _ _ _ _ _ _ HS Hr1)). }
          exists [], ds, x, (st x), (r + dl). split; [reflexivity|]. split; [reflexivity|].
          split; [exact Hd|]. split; [reflexivity|]. split; [|exact Hle].
          rewrite (H_depth j x Hl Hv). simpl. lia.
      - destruct ds as [|d ds].
        + destruct (KT Hex Hab) as (t0 & -> & Ht0); [unfold complete in Hcomp; simpl in Hcomp; lia|].
          rewrite andb_false_r. eexists. split; [reflexivity|]. intros dl Hdl Hle. left.
          simpl in Hr. inversion Hr; subst. lia.
        + destruct (lpath_cons_inv _ _ _ _ _ _ _ Hp) as (c & eid & A4 & A5 & A6 & A7 & Hp').
          destruct (lpath_start _ _ _ _ _ _ Hp') as (C1 & C2 & C3).
          assert (Hnc : ~ cuts x) by (unfold cuts; rewrite E2; discriminate).
          destruct (H_kid j x c eid Hl Hv Hex Hab Hnc C1 C2 A4 A5) as [Hexc Habc].
          pose proof (proj2 C3 Hexc) as Etr.
          destruct (frun_cons_inv _ _ _ _ _ _ _ Hr) as (V1 & V2 & Hr').
          replace (S (rd + j)) with (rd + S j)%nat in Hr' by lia.
          pose proof (Start_step j (st x) r _ HS V1 V2) as HSc.
          assert (Hcc : complete (S j) ds) by (unfold complete in *; simpl in Hcomp; lia).
          rewrite Etr in Hr', HSc, Hp'.
          destruct (KA c C1 C2 Hexc Habc (S j) _ _ _ _ T C1 HSc Hr' Hcc Hp') as (tc & Etc & Hsc).
          destruct (KQ c eid tc C1 C2 Etc A4 A5) as (tp & -> & Htp).
          rewrite andb_false_r. eexists. split; [reflexivity|].
          apply (via_child (fun dl => r' + dl <= bk \/ Capt j (st x) (r + dl) (d :: ds)) r (rcost (st x) d)
                   (e_cost (get_edge m0 eid)) tp tc A7 (proj1 Hg) Htp).
          intros dl Hdl Hle. destruct (Hsc dl Hdl Hle) as [H1|H1]; [left; exact H1|right].
          destruct H1 as (ds1 & ds2 & y & s1 & w1 & E & Hf & Hd & Hs & Hdep & Hw).
          exists (d :: ds1), ds2, y, s1, w1. split; [simpl; rewrite E; reflexivity|]. split.
          { rewrite frun_cons, V1, V2. simpl. replace (S (rd + j)) with (rd + S j)%nat by lia.
            replace (r + dl + rcost (st x) d) with (r + rcost (st x) d + dl) by lia. rewrite Etr. exact Hf. }
          split; [exact Hd|]. split; [exact Hs|]. split; [rewrite Hdep; simpl; lia|exact Hw].
    Qed.
  End Core.



  Hypothesis H_above_ex : forall j x, lay j x -> live x -> above x -> isex x.

  Lemma node_safe x j t : lay j x -> live x -> above x -> GA x (Some t) -> GB x (Some t) -> SafeAt j (st x) t.
  Proof.
    intros Hl Hv Hab HA HG v ds s' v' Hv1 Hv2 Hr Hcomp.
    pose proof (H_above_ex j x Hl Hv Hab) as Hex.
    pose proof (H_real j x Hl Hv Hex) as HS. pose proof (Start_guard _ _ _ HS) as Hg.
    set (dl := v - vt x).
    pose proof (frun_shift pb _ _ _ _ (- dl) _ _ Hr) as Hr2. replace (v + - dl) with (vt x) in Hr2 by (unfold dl; lia).
    assert (Ha : Adm x (st x)) by (split; [apply cov_refl|reflexivity]).
    assert (Hdl : IMIN + B < dl) by (unfold dl; lia).
    assert (Hle : vt x + dl <= t) by (unfold dl; lia).
    destruct (path_dich ds j x (st x) (vt x) s' (v' + - dl) Hl Hv Ha Hr2 Hcomp) as [[T HT]|HF].
    - destruct (HA Hex Hab j (vt x) ds s' (v' + - dl) T Hl HS Hr2 Hcomp HT) as (t' & Et & Hs).
      inversion Et; subst t'. destruct (Hs dl Hdl Hle) as [H1|H1].
      + left. lia.
      + right. replace (vt x + dl) with v in H1 by (unfold dl; lia). exact H1.
    - destruct (HG j (st x) (vt x) ds s' (v' + - dl) Hl Ha HS Hr2 Hcomp HF) as (t' & Et & Hs).
      inversion Et; subst t'. left. pose proof (Hs dl Hdl Hle). lia.
  Qed.

  (* ---------------------------------------------------------------- the cache *)
  Definition CacheOK (c : @cache St) : Prop :=
    forall d l s th, nth_error c d = Some l -> In (s, th) l ->
      exists j, d = (rd + j)%nat /\ SafeAt j s (th_value th).

  Lemma lupdate_In (l : @layer St) s t k th :
    In (k, th) (lupdate st_eqb l s t) -> In (k, th) l \/ (k = s /\ (th = t \/ exists t0, In (k, t0) l /\ th = t0)).
  Proof.
    induction l as [|[k0 t0] l IH]; simpl.
    - intros [H|[]]. inversion H; subst. right. auto.
    - destruct (st_eqb k0 s) eqn:E.
      + apply st_eqb_spec in E. subst k0. intros [H|H].
        * inversion H; subst. unfold th_max. destruct (is_gt _); [right; auto|left; left; reflexivity].
        * left. right. exact H.
      + intros [H|H]; [left; left; exact H|].
        destruct (IH H) as [H1|(H1 & [H2|(t1 & H2 & H3)])]; [left; right; exact H1|right; auto|].
        right. split; [exact H1|]. right. exists t1. split; [right; exact H2|exact H3].
  Qed.

  Lemma nth_error_upd_nth_cases {A} n (f : A -> A) (l : list A) d y :
    nth_error (upd_nth n f l) d = Some y ->
    (d <> n /\ nth_error l d = Some y) \/ (d = n /\ exists y0, nth_error l d = Some y0 /\ y = f y0).
  Proof.
    revert n d. induction l as [|a l IH]; intros [|n] [|d]; simpl; intros H; try discriminate.
    - inversion H; subst. right. split; [reflexivity|]. exists a. auto.
    - left. split; [discriminate|exact H].
    - left. split; [discriminate|exact H].
    - destruct (IH n d H) as [[H1 H2]|[H1 H2]]; [left; split; [lia|exact H2]|right; split; [lia|exact H2]].
  Qed.

  Lemma CacheOK_update c s d v e c' j :
    update_threshold st_eqb c s d v e = Some c' -> CacheOK c -> d = (rd + j)%nat -> SafeAt j s v -> CacheOK c'.
  Proof.
    unfold update_threshold. destruct (nth_error c d) as [l0|] eqn:E0; [|discriminate].
    intros H HC Hd HS. inversion H; subst c'. clear H.
    intros d' l s' th Hn Hin.
    destruct (nth_error_upd_nth_cases _ _ _ _ _ Hn) as [[H1 H2]|[H1 (y0 & H2 & H3)]].
    - eapply HC; eauto.
    - subst d' l. rewrite E0 in H2. inversion H2; subst y0.
      destruct (lupdate_In _ _ _ _ _ Hin) as [H|(-> & [->|(t0 & H & ->)])].
      + eapply HC; eauto.
      + exists j. split; [exact Hd|exact HS].
      + eapply HC; eauto.
  Qed.

  (* ---------------------------------------------------------------- the invariant of the fold *)
  Definition Fr (a : mdd) : Prop :=
    length (m_nodes a) = length (m_nodes m0) /\ (forall x, sk (gn a x) = sk (gn m0 x)) /\ m_edges a = m_edges m0.
  Definition PA (a : mdd) (done : list nat) : Prop :=
    forall x, In x done -> live x -> GA x (theta_of a x) /\ GB x (theta_of a x).
  Definition PQ (a : mdd) (done : list nat) : Prop :=
    forall c eid tc, In c done -> live c -> theta_of a c = Some tc -> In eid (n_inb (gn m0 c)) ->
      ~ In (e_from (get_edge m0 eid)) done ->
      exists tp, theta_of a (e_from (get_edge m0 eid)) = Some tp /\ tp <= sat_sub tc (e_cost (get_edge m0 eid)).
  Definition PT (a : mdd) (done : list nat) : Prop :=
    forall x j, ~ In x done -> lay j x -> live x -> isex x -> above x -> (rd + j = N)%nat ->
      exists t, theta_of a x = Some t /\ t <= bk.
  Definition FI (a : mdd) (done : list nat) : Prop :=
    Fr a /\ PA a done /\ PQ a done /\ PT a done /\ CacheOK (m_cache a).

  Lemma bu_lay x : In x (bottom_up m0) -> exists j, lay j x.
  Proof.
    unfold bottom_up. intros H. apply in_concat in H. destruct H as (l & Hl & Hx).
    apply in_rev in Hl. apply (In_nth _ _ []) in Hl. destruct Hl as (j & _ & Ej).
    exists j. unfold lay. rewrite Ej. exact Hx.
  Qed.

  Lemma lay_bu j x : lay j x -> In x (bottom_up m0).
  Proof.
    unfold lay, bottom_up. intros H. apply in_concat. exists (nth j (m_layers m0) []). split; [|exact H].
    apply in_rev. rewrite rev_involutive.
    destruct (Nat.lt_ge_cases j (length (m_layers m0))) as [Hlt|Hge]; [apply nth_In; exact Hlt|].
    rewrite nth_overflow in H by exact Hge. destruct H.
  Qed.

  Lemma Fr_node (a : mdd) x : Fr a -> gn a x = nd x (theta_of a x).
  Proof.
    intros (_ & F2 & _). unfold nd, theta_of. rewrite (node_of_sk (gn a x)) at 1. rewrite F2. apply set_theta_sk.
  Qed.

  Lemma th_step_FI (a : mdd) done x rest :
    bottom_up m0 = done ++ x :: rest -> FI a done -> FI (th_step bk a x) (done ++ [x]).
  Proof.
    intros HBU (HF & HPA & HPQ & HPT & HC).
    destruct (H_ord _ _ _ HBU) as (O1 & O2 & O3).
    assert (Hxin : In x (bottom_up m0)) by (rewrite HBU; apply in_or_app; right; left; reflexivity).
    destruct (bu_lay x Hxin) as [j Hl].
    pose proof (H_range j x Hl) as Hxlt.
    pose proof HF as (F1 & F2 & F3).
    pose proof (Fr_node a x HF) as Hgx.
    unfold th_step. rewrite Hgx. unfold nd at 1. cbn [n_flags set_theta].
    destruct (f_deleted (n_flags (gn m0 x))) eqn:Edel.
    { (* deleted: skipped *)
      split; [exact HF|]. split; [|split; [|split]].
      - intros y Hy Hvy. apply in_app_or in Hy. destruct Hy as [Hy|[<-|[]]]; [apply HPA; assumption|].
        unfold live in Hvy. congruence.
      - intros c eid tc Hc Hvc Et Hin Hnp. apply in_app_or in Hc. destruct Hc as [Hc|[<-|[]]].
        + apply (HPQ c eid tc Hc Hvc Et Hin). intros Hp. apply Hnp. apply in_or_app. left; exact Hp.
        + unfold live in Hvc. congruence.
      - intros y jy Hny. apply HPT. intros Hy. apply Hny. apply in_or_app. left; exact Hy.
      - exact HC. }
    assert (Hv : live x) by exact Edel.
    set (pre := theta_of a x) in *.
    set (th1 := own_theta bk (nd x pre)).
    set (a1 := th_own bk a x).
    assert (Hlta : (x < length (m_nodes a))%nat) by (rewrite F1; exact Hxlt).
    assert (G1 : forall y, gn a1 y = if Nat.eqb y x then set_theta (gn a x) th1 else gn a y).
    { intros y. unfold a1. rewrite (th_own_gn bk a x y Hlta). rewrite Hgx. reflexivity. }
    assert (G1x : gn a1 x = nd x th1).
    { rewrite G1, Nat.eqb_refl, Hgx. unfold nd. destruct (gn m0 x); reflexivity. }
    assert (G1o : forall y, y <> x -> gn a1 y = gn a y).
    { intros y Hne. rewrite G1. apply Nat.eqb_neq in Hne. rewrite Hne. reflexivity. }
    assert (E1 : m_edges a1 = m_edges m0) by (unfold a1; rewrite th_own_edges; exact F3).
    assert (L1 : length (m_nodes a1) = length (m_nodes m0)).
    { unfold a1. rewrite th_own_nodes. unfold own_upd. simpl. rewrite upd_nth_length. exact F1. }
    assert (S1 : forall y, sk (gn a1 y) = sk (gn m0 y)).
    { intros y. rewrite G1. destruct (Nat.eqb y x) eqn:E.
      - apply Nat.eqb_eq in E. subst y. rewrite sk_set_theta. apply F2.
      - apply F2. }
    (* the propagation to the parents *)
    set (a2 := th_prop a1 x).
    assert (HP : m_edges a2 = m_edges m0 /\ length (m_nodes a2) = length (m_nodes m0) /\ m_cache a2 = m_cache a1 /\
                 (forall y, sk (gn a2 y) = sk (gn m0 y)) /\
                 (forall y, tle (theta_of a2 y) (theta_of a1 y)) /\
                 (forall y, (forall eid, In eid (n_inb (gn m0 x)) -> e_from (get_edge m0 eid) <> y) -> gn a2 y = gn a1 y) /\
                 (forall my, th1 = Some my -> forall eid, In eid (n_inb (gn m0 x)) ->
                    exists t', theta_of a2 (e_from (get_edge m0 eid)) = Some t' /\ t' <= sat_sub my (e_cost (get_edge m0 eid)))).
    { assert (Hinb : n_inb (gn a1 x) = n_inb (gn m0 x)) by (rewrite G1x; reflexivity).
      assert (Hth : n_theta (gn a1 x) = th1) by (rewrite G1x; reflexivity).
      unfold a2, th_prop. rewrite Hinb, Hth.
      assert (Hge : forall k, get_edge a1 k = get_edge m0 k) by (intros k; apply ge_edges_eq; exact E1).
      destruct th1 as [my|] eqn:Eth.
      - destruct (prop_fold_spec my (n_inb (gn m0 x)) a1) as (Q1 & Q2 & Q2c & Q3 & Q4 & Q5 & Q6).
        cbv zeta in Q1, Q2, Q2c, Q3, Q4, Q5, Q6.
        split; [congruence|]. split; [congruence|]. split; [exact Q2c|]. split; [intros y; rewrite Q3; apply S1|].
        split; [exact Q4|]. split.
        + intros y Hy. apply Q5. intros eid Hin. rewrite Hge. apply Hy. exact Hin.
        + intros my' Emy eid Hin. inversion Emy; subst my'. rewrite <- (Hge eid). apply Q6; [exact Hin|].
          rewrite Hge, L1. eapply H_efrom; eauto.
      - split; [exact E1|]. split; [exact L1|]. split; [reflexivity|]. split; [exact S1|].
        split; [intros y; apply tle_refl|]. split; [reflexivity|]. intros my Emy. discriminate. }
    destruct HP as (P1 & P1l & P5 & P1s & P2 & P3 & P4).
    (* nodes already processed, and x itself, are not touched by the propagation *)
    assert (Hfroz : forall y, In y (done ++ [x]) -> gn a2 y = gn a1 y).
    { intros y Hy. apply P3. intros eid Hin E. apply (O2 eid Hin). rewrite E. exact Hy. }
    assert (Hold : forall y, In y done -> theta_of a2 y = theta_of a y).
    { intros y Hy. unfold theta_of. rewrite Hfroz by (apply in_or_app; left; exact Hy).
      rewrite G1o; [reflexivity|]. intros ->. contradiction. }
    assert (Hthx : theta_of a2 x = th1).
    { unfold theta_of. rewrite Hfroz by (apply in_or_app; right; left; reflexivity). rewrite G1x. reflexivity. }
    (* the semantic core *)
    assert (Hcore : GA x th1 /\ GB x th1).
    { assert (KB : forall c, lay (S j) c -> live c -> GB c (theta_of a c)).
      { intros c Hc Hvc. apply HPA; [apply (O3 j c Hl Hc)|exact Hvc]. }
      assert (KA : forall c, lay (S j) c -> live c -> GA c (theta_of a c)).
      { intros c Hc Hvc. apply HPA; [apply (O3 j c Hl Hc)|exact Hvc]. }
      assert (KQ : forall c eid tc, lay (S j) c -> live c -> theta_of a c = Some tc ->
                In eid (n_inb (gn m0 c)) -> e_from (get_edge m0 eid) = x ->
                exists tp, pre = Some tp /\ tp <= sat_sub tc (e_cost (get_edge m0 eid))).
      { intros c eid tc Hc Hvc Et Hin Ef.
        destruct (HPQ c eid tc (O3 j c Hl Hc) Hvc Et Hin) as (tp & Etp & Hle); [rewrite Ef; exact O1|].
        rewrite Ef in Etp. exists tp. auto. }
      assert (KT : isex x -> above x -> (rd + j = N)%nat -> exists t, pre = Some t /\ t <= bk).
      { intros Hex Hab HN. apply (HPT x j O1 Hl Hv Hex Hab HN). }
      split; [exact (core_GA x j pre (theta_of a) Hl Hv KA KQ KT)|exact (core_GB x j pre (theta_of a) Hl Hv KB KQ KT)]. }
    split; [|split; [|split; [|split]]].
    - split; [exact P1l|]. split; [exact P1s|exact P1].
    - intros y Hy Hvy. apply in_app_or in Hy. destruct Hy as [Hy|[<-|[]]].
      + rewrite (Hold y Hy). apply HPA; assumption.
      + rewrite Hthx. exact Hcore.
    - intros c eid tc Hc Hvc Et Hin Hnp.
      assert (Hpne : e_from (get_edge m0 eid) <> x).
      { intros E. apply Hnp. rewrite E. apply in_or_app. right; left; reflexivity. }
      apply in_app_or in Hc. destruct Hc as [Hc|[<-|[]]].
      + rewrite (Hold c Hc) in Et.
        destruct (HPQ c eid tc Hc Hvc Et Hin) as (tp & Etp & Hle).
        { intros Hp. apply Hnp. apply in_or_app. left; exact Hp. }
        pose proof (P2 (e_from (get_edge m0 eid))) as Ht. unfold theta_of at 2 in Ht. rewrite (G1o _ Hpne) in Ht.
        fold (theta_of a (e_from (get_edge m0 eid))) in Ht. rewrite Etp in Ht. simpl in Ht.
        destruct Ht as (t2 & E2 & Hle2). exists t2. split; [exact E2|lia].
      + rewrite Hthx in Et. apply (P4 tc Et eid Hin).
    - intros y jy Hny Hly Hvy Hexy Haby HN.
      assert (Hyne : y <> x) by (intros ->; apply Hny; apply in_or_app; right; left; reflexivity).
      destruct (HPT y jy) as (t & Et & Hle); auto.
      { intros Hy. apply Hny. apply in_or_app. left; exact Hy. }
      pose proof (P2 y) as Ht. unfold theta_of at 2 in Ht. rewrite (G1o _ Hyne) in Ht. fold (theta_of a y) in Ht.
      rewrite Et in Ht. simpl in Ht. destruct Ht as (t2 & E2 & Hle2). exists t2. split; [exact E2|lia].
    - rewrite P5. unfold a1.
      destruct (th_own_cache bk a x) as [Ec|(t & c' & T1 & T2 & T3 & T4)]; [rewrite Ec; exact HC|].
      rewrite T4.
      assert (Gu : gn (own_upd bk a x) x = nd x th1).
      { unfold own_upd. rewrite gn_upd_same by exact Hlta. rewrite Hgx. unfold th1, nd. destruct (gn m0 x); reflexivity. }
      rewrite Gu in T1, T2, T3. unfold nd in T1, T2, T3. cbn [n_theta n_flags n_state n_depth set_theta] in T1, T2, T3.
      apply (CacheOK_update _ _ _ _ _ _ j T3 HC (H_depth j x Hl Hv)).
      change (n_state (gn m0 x)) with (st x).
      destruct Hcore as [HA HG]. fold th1 in T1. rewrite T1 in HA, HG.
      apply (node_safe x j t Hl Hv T2 HA HG).
  Qed.

  Lemma th_fold_FI rest : forall done (a : mdd),
    bottom_up m0 = done ++ rest -> FI a done -> FI (fold_left (th_step bk) rest a) (bottom_up m0).
  Proof.
    induction rest as [|x rest IH]; intros done a HBU HI; simpl.
    - rewrite HBU, app_nil_r. exact HI.
    - apply (IH (done ++ [x])).
      + rewrite HBU, <- app_assoc. reflexivity.
      + eapply th_step_FI; eauto.
  Qed.

  Theorem theta_fold_sound :
    PT m0 [] -> CacheOK (m_cache m0) ->
    let af := fold_left (th_step bk) (bottom_up m0) m0 in
    Fr af /\
    (forall x j t, lay j x -> live x -> above x -> theta_of af x = Some t -> SafeAt j (st x) t) /\
    CacheOK (m_cache af).
  Proof.
    intros HT HC af.
    assert (HI : FI af (bottom_up m0)).
    { apply (th_fold_FI (bottom_up m0) [] m0); [reflexivity|].
      split; [repeat split; auto|]. split; [intros x []|]. split; [intros c eid tc []|]. split; [exact HT|exact HC]. }
    destruct HI as (HF & HPA & _ & _ & HC').
    split; [exact HF|]. split; [|exact HC'].
    intros x j t Hl Hv Hab Et.
    destruct (HPA x) as [HA HG]; [apply (lay_bu j x Hl)|exact Hv|].
    rewrite Et in HA, HG. apply (node_safe x j t Hl Hv Hab HA HG).
  Qed.
End ThetaFold.


(* ================================================================== 3. the layer loop and _finalize *)
Local Open Scope nat_scope.

Local Ltac msimpl :=
  cbn [m_nodes m_edges m_layers m_layer_end m_next m_curr_depth m_path m_lel m_cutset m_best
       m_best_exact m_is_exact m_has_ebp m_cache m_dom m_log m_polls m_crash
       with_nodes upd_node add_log set_crash with_next with_cache with_dom with_lel_exact
       push_layer with_depth with_polls with_best with_cutset append_edge].
Local Ltac msimpl_in H :=
  cbn [m_nodes m_edges m_layers m_layer_end m_next m_curr_depth m_path m_lel m_cutset m_best
       m_best_exact m_is_exact m_has_ebp m_cache m_dom m_log m_polls m_crash
       with_nodes upd_node add_log set_crash with_next with_cache with_dom with_lel_exact
       push_layer with_depth with_polls with_best with_cutset append_edge] in H.
Local Ltac nsimpl :=
  cbn [n_state n_vtop n_vbot n_best n_inb n_rub n_theta n_flags n_depth
       set_flags set_theta set_vbot set_rub set_depth
       f_exact f_relaxed f_marked f_cutset f_deleted f_cache f_above
       fl_set_exact fl_set_relaxed fl_set_marked fl_set_cutset fl_set_deleted fl_set_cache fl_set_above
       fl_new_exact fl_new_relaxed e_from e_to e_dec e_cost].
Local Ltac nsimpl_in H :=
  cbn [n_state n_vtop n_vbot n_best n_inb n_rub n_theta n_flags n_depth
       set_flags set_theta set_vbot set_rub set_depth
       f_exact f_relaxed f_marked f_cutset f_deleted f_cache f_above
       fl_set_exact fl_set_relaxed fl_set_marked fl_set_cutset fl_set_deleted fl_set_cache fl_set_above
       fl_new_exact fl_new_relaxed e_from e_to e_dec e_cost] in H.

Lemma classic_in (x : nat) (l : list nat) : In x l \/ ~ In x l.
Proof. destruct (in_dec Nat.eq_dec x l); auto. Qed.

Section Loop.
  Context {St : Type}.
  Variable st_eqb : St -> St -> bool.
  Hypothesis st_eqb_spec : forall a b, st_eqb a b = true <-> a = b.
  Variable inp : @cinput St.
  Let pb := ci_problem inp.
  Let rlx := ci_relax inp.
  Let root := ci_root inp.
  Let lb := ci_best_lb inp.
  Let N := nb_vars pb.
  Let rd := sp_depth root.
  Let rs := sp_state root.
  Let rv := sp_value root.
  Hypothesis Hclean : ci_flavour inp = CleanLEL \/ ci_flavour inp = CleanFC.
  Hypothesis Hnocache : ci_use_cache inp = false.
  Hypothesis Hnodom : ci_domrule inp = None.
  Hypothesis Hnocut : ci_cutoff inp = 0.
  Hypothesis Hwidth : 1 <= ci_width inp.
  Hypothesis Hrel : ci_type inp = Relaxed.
  Hypothesis Hrd : rd <= N.
  Hypothesis nv_static : forall k l1 l2, next_variable pb k l1 = next_variable pb k l2.
  Hypothesis nv_some : forall k l, k < N -> exists x, next_variable pb k l = Some x.
  Hypothesis nv_none : forall k l, N <= k -> next_variable pb k l = None.
  Variable cov : St -> St -> Prop.
  Hypothesis cov_refl : forall s, cov s s.
  Hypothesis cov_sim : forall s s' x v, cov s s' -> In v (domain pb x s') ->
    let d := {| d_var := x; d_val := v |} in
    In v (domain pb x s) /\ cov (transition pb s d) (transition pb s' d) /\
    (transition_cost pb s' (transition pb s' d) d <= transition_cost pb s (transition pb s d) d)%Z.
  Hypothesis merge_cov : forall L s s', In s L -> cov s s' -> cov (merge rlx L) s'.
  Hypothesis relax_ge : forall src dst mg d c, (c <= relax rlx src dst mg d c)%Z.
  Hypothesis rub_adm : forall k s s' h, cov s s' -> H pb k s' = Some h -> (h <= fast_upper_bound rlx s)%Z.
  Variable B : Z.
  Hypothesis HB : (2 * B <= IMAX)%Z.
  Hypothesis Hguard : forall ds s' v', frun pb rd rs rv ds = Some (s', v') -> (- B <= v' <= B)%Z.

  Notation mdd := (@mdd St).
  Notation node := (@node St).
  Notation gn := (get_node inp).
  Notation dpath := (dpath inp cov).

  (* ---------------------------------------------------------------- a node-local invariant:
     no threshold, no cache / above flag before _finalize *)
  Definition Pn2 (n : node) : Prop :=
    n_theta n = None /\ f_cache (n_flags n) = false /\ f_above (n_flags n) = false.
  Definition Ninv2 (m : mdd) : Prop := Forall Pn2 (m_nodes m).

  Lemma Ninv2_same (m m' : mdd) : m_nodes m' = m_nodes m -> Ninv2 m -> Ninv2 m'.
  Proof. unfold Ninv2. intros ->. auto. Qed.
  Lemma Ninv2_upd (m : mdd) id f : (forall n, Pn2 n -> Pn2 (f n)) -> Ninv2 m -> Ninv2 (upd_node m id f).
  Proof. intros Hf H. unfold Ninv2. msimpl. apply Forall_upd_nth; auto. Qed.
  Lemma Ninv2_append_edge (m : mdd) e : Ninv2 m -> Ninv2 (append_edge inp m e).
  Proof.
    intros H. unfold Ninv2. msimpl. apply Forall_upd_nth; [|exact H].
    intros n (P1 & P2 & P3). split; [|split]; nsimpl; auto.
  Qed.
  Lemma Ninv2_snoc (m : mdd) n : Pn2 n -> Ninv2 m -> Ninv2 (with_nodes m (m_nodes m ++ [n])).
  Proof. intros Hn H. unfold Ninv2. msimpl. apply Forall_app. split; [exact H|constructor; auto]. Qed.
  Lemma Ninv2_fold {X} (f : mdd -> X -> mdd) l m : (forall a x, Ninv2 a -> Ninv2 (f a x)) -> Ninv2 m -> Ninv2 (fold_left f l m).
  Proof. intros Hf. revert m. induction l as [|x l IH]; intros m Hm; simpl; auto. Qed.
  Lemma Pn2_set_flag (n : node) fl :
    f_cache fl = f_cache (n_flags n) -> f_above fl = f_above (n_flags n) -> Pn2 n -> Pn2 (set_flags n fl).
  Proof. intros Hf Hg (P1 & P2 & P3). split; [|split]; nsimpl; [exact P1|congruence|congruence]. Qed.

  Lemma Ninv2_branch_on (m : mdd) id d : Ninv2 m -> Ninv2 (branch_on st_eqb inp m id d).
  Proof.
    intros H. unfold branch_on. cbv zeta.
    match goal with |- context [find_next ?a ?b ?c ?d] => destruct (find_next a b c d) end.
    - apply Ninv2_append_edge. eapply Ninv2_same; [|exact H]. reflexivity.
    - eapply Ninv2_same; [reflexivity|]. apply Ninv2_append_edge. apply Ninv2_snoc.
      + split; [reflexivity|split; reflexivity].
      + eapply Ninv2_same; [|exact H]. reflexivity.
  Qed.

  Lemma Ninv2_expand_node var (m : mdd) id : Ninv2 m -> Ninv2 (expand_node st_eqb inp var m id).
  Proof.
    intros H. unfold expand_node. cbv zeta.
    set (m1 := upd_node m id (fun n => set_rub n (fast_upper_bound (ci_relax inp) (n_state (gn m id))))).
    assert (H1 : Ninv2 m1).
    { unfold m1. apply Ninv2_upd; [|exact H]. intros n (P1 & P2 & P3). split; [|split]; nsimpl; auto. }
    destruct (_ >? _)%Z; [|exact H1].
    apply Ninv2_fold; [intros; apply Ninv2_branch_on; assumption|].
    eapply Ninv2_same; [|exact H1]. reflexivity.
  Qed.

  Lemma Ninv2_drop_step merged mid (a : mdd) did : Ninv2 a -> Ninv2 (drop_step inp merged mid a did).
  Proof.
    intros H. unfold drop_step. rewrite redirect_edges_fold.
    apply Ninv2_fold.
    - intros b x Hb. unfold redirect_step. cbv zeta. apply Ninv2_append_edge. eapply Ninv2_same; [|exact Hb]. reflexivity.
    - apply Ninv2_upd; [|exact H]. intros n Hn. apply Pn2_set_flag; [reflexivity|reflexivity|exact Hn].
  Qed.

  Lemma Ninv2_squash (m : mdd) l : Ninv2 m -> Ninv2 (fst (squash_if_needed st_eqb inp m l)).
  Proof.
    intros H. unfold squash_if_needed. rewrite Hrel.
    destruct (_ && _); [|exact H].
    assert (Hex : exists w1, ci_width inp = S w1) by (exists (ci_width inp - 1); lia).
    destruct Hex as [w1 Ew]. rewrite (relax_layer_unfold st_eqb inp m l w1 Ew). cbv zeta.
    assert (H0 : Ninv2 (note_squash inp m)) by (eapply Ninv2_same; [apply (note_squash_fields inp Hclean m)|exact H]).
    set (m0 := note_squash inp m) in *.
    match goal with |- context [add_log m0 ?ev] => set (m1 := add_log m0 ev) end.
    assert (H1 : Ninv2 m1) by (eapply Ninv2_same; [|exact H0]; reflexivity).
    match goal with |- context [find ?f ?k] => destruct (find f k) as [rid|] end; cbn [fst].
    + apply Ninv2_upd; [intros n Hn; apply Pn2_set_flag; [reflexivity|reflexivity|exact Hn]|].
      apply Ninv2_fold; [intros; apply Ninv2_drop_step; assumption|].
      apply Ninv2_upd; [intros n Hn; apply Pn2_set_flag; [reflexivity|reflexivity|exact Hn]|exact H1].
    + apply Ninv2_fold; [intros; apply Ninv2_drop_step; assumption|].
      apply Ninv2_upd; [intros n Hn; apply Pn2_set_flag; [reflexivity|reflexivity|exact Hn]|].
      apply Ninv2_snoc; [|exact H1]. split; [reflexivity|split; reflexivity].
  Qed.

  Lemma Ninv2_move (m : mdd) : Ninv2 m -> Ninv2 (fst (move_to_next_layer_clean st_eqb inp m)).
  Proof.
    intros H. rewrite move_clean_unfold. destruct (m_next m) as [|c0 cs]; [exact H|].
    set (curr := c0 :: cs).
    assert (Hb : Ninv2 (fst (prefilter st_eqb inp (with_next m []) curr))).
    { unfold prefilter. destruct (Nat.ltb 0 _); [|exact H].
      eapply Ninv2_same; [apply (filter_with_cache_nodes st_eqb inp Hnocache)|exact H]. }
    destruct (prefilter st_eqb inp (with_next m []) curr) as [mb lb0]. cbn [fst] in Hb.
    assert (Hcc : Ninv2 (fst (filter_with_dominance inp mb lb0))).
    { unfold filter_with_dominance. eapply Ninv2_same; [apply (dom_retain_nodes inp Hnodom)|exact Hb]. }
    destruct (filter_with_dominance inp mb lb0) as [mc lc]. cbn [fst] in Hcc.
    pose proof (Ninv2_squash mc lc Hcc) as Hd.
    destruct (squash_if_needed st_eqb inp mc lc) as [md ld]. cbn [fst] in *. exact Hd.
  Qed.

  Lemma layer_loop_Ninv2 : forall fuel (m : mdd), Ninv2 m -> Ninv2 (fst (layer_loop st_eqb inp fuel m)).
  Proof.
    induction fuel as [|fuel IH]; intros m H; [exact H|].
    cbn [layer_loop]. cbv zeta.
    destruct (next_variable _ _ _) as [var|]; [|exact H].
    destruct (_ && _); [exact H|].
    rewrite (not_pooled inp Hclean).
    match goal with |- context [move_to_next_layer_clean st_eqb inp ?mm] =>
      pose proof (Ninv2_move mm) as Hmv; destruct (move_to_next_layer_clean st_eqb inp mm) as [m3 ol] end.
    cbn [fst] in Hmv. specialize (Hmv H).
    destruct ol as [l|]; [|exact Hmv].
    apply IH. eapply Ninv2_same; [reflexivity|].
    apply Ninv2_fold; [intros; apply Ninv2_expand_node; assumption|exact Hmv].
  Qed.

  Lemma Ninv2_initialize c ds polls : Ninv2 (initialize inp c ds polls).
  Proof. constructor; [|constructor]. split; [reflexivity|split; reflexivity]. Qed.

  (* ---------------------------------------------------------------- frames: closed nodes, deleted flags *)
  Definition del (m : mdd) (x : nat) : bool := f_deleted (n_flags (gn m x)).
  Definition same_below (b : nat) (m m' : mdd) : Prop := forall x, x < b -> gn m' x = gn m x.

  Lemma same_below_refl b m : same_below b m m.
  Proof. intros x _. reflexivity. Qed.
  Lemma same_below_trans b m1 m2 m3 : same_below b m1 m2 -> same_below b m2 m3 -> same_below b m1 m3.
  Proof. intros H1 H2 x Hx. rewrite H2, H1; auto. Qed.
  Lemma same_below_nodes b (m m' : mdd) : m_nodes m' = m_nodes m -> same_below b m m'.
  Proof. intros H x _. apply gn_nodes_eq. exact H. Qed.
  Lemma same_below_upd b (m : mdd) id f : b <= id -> same_below b m (upd_node m id f).
  Proof. intros H x Hx. apply gn_upd_other. lia. Qed.
  Lemma same_below_append b (m : mdd) e : b <= e_to e -> same_below b m (append_edge inp m e).
  Proof. intros H x Hx. apply gn_append_other. lia. Qed.
  Lemma same_below_snoc b (m : mdd) n : b <= length (m_nodes m) -> same_below b m (with_nodes m (m_nodes m ++ [n])).
  Proof. intros H x Hx. apply gn_snoc_old. lia. Qed.
  Lemma same_below_fold {X} b (f : mdd -> X -> mdd) l m :
    (forall a x, In x l -> same_below b a (f a x)) -> same_below b m (fold_left f l m).
  Proof.
    revert m. induction l as [|x l IH]; intros m Hf; simpl; [apply same_below_refl|].
    eapply same_below_trans; [apply Hf; left; reflexivity|]. apply IH. intros a y Hy. apply Hf. right; exact Hy.
  Qed.

  Lemma del_append (m : mdd) e x : del (append_edge inp m e) x = del m x.
  Proof.
    unfold del. destruct (Nat.eq_dec x (e_to e)) as [->|Hne].
    - destruct (Nat.lt_ge_cases (e_to e) (length (m_nodes m))) as [Hlt|Hge].
      + rewrite gn_append_same by exact Hlt. cbv zeta. nsimpl. reflexivity.
      + unfold get_node. msimpl. rewrite upd_nth_out by exact Hge. reflexivity.
    - rewrite gn_append_other by exact Hne. reflexivity.
  Qed.
  Lemma del_same_nodes (m m' : mdd) x : m_nodes m' = m_nodes m -> del m' x = del m x.
  Proof. intros H. unfold del. rewrite (gn_nodes_eq inp m m' x H). reflexivity. Qed.
  Lemma del_upd_keep (m : mdd) id f x : (forall n, f_deleted (n_flags (f n)) = f_deleted (n_flags n)) ->
    del (upd_node m id f) x = del m x.
  Proof. intros Hf. unfold del. apply (get_node_upd_node_proj inp (fun n => f_deleted (n_flags n))). exact Hf. Qed.
  Lemma del_upd_set (m : mdd) id b x : id < length (m_nodes m) ->
    del (upd_node m id (fun n => set_flags n (fl_set_deleted (n_flags n) b))) x = if Nat.eqb x id then b else del m x.
  Proof.
    intros Hlt. unfold del. destruct (Nat.eqb x id) eqn:E.
    - apply Nat.eqb_eq in E. subst x. rewrite gn_upd_same by exact Hlt. reflexivity.
    - apply Nat.eqb_neq in E. rewrite gn_upd_other by congruence. reflexivity.
  Qed.
  Lemma del_snoc_old (m : mdd) n x : x < length (m_nodes m) -> del (with_nodes m (m_nodes m ++ [n])) x = del m x.
  Proof. intros H. unfold del. rewrite gn_snoc_old by exact H. reflexivity. Qed.

  Lemma redirect_step_len merged mid (a : mdd) eid :
    length (m_nodes (redirect_step inp merged mid a eid)) = length (m_nodes a).
  Proof. unfold redirect_step. cbv zeta. msimpl. apply upd_nth_length. Qed.

  Lemma drop_step_del merged mid (a : mdd) did x : did < length (m_nodes a) ->
    del (drop_step inp merged mid a did) x = if Nat.eqb x did then true else del a x.
  Proof.
    intros Hlt. unfold drop_step. rewrite redirect_edges_fold.
    rewrite (fold_left_proj (fun b : mdd => del b x)).
    - apply del_upd_set. exact Hlt.
    - intros b eid. unfold redirect_step. cbv zeta. rewrite del_append. apply del_same_nodes. reflexivity.
  Qed.

  Lemma drop_fold_del merged mid mrg : forall (a : mdd) x, (forall y, In y mrg -> y < length (m_nodes a)) ->
    del (fold_left (drop_step inp merged mid) mrg a) x = if existsb (Nat.eqb x) mrg then true else del a x.
  Proof.
    induction mrg as [|y mrg IH]; intros a x Hy; simpl; [reflexivity|].
    rewrite IH.
    - rewrite drop_step_del by (apply Hy; left; reflexivity).
      destruct (Nat.eqb x y); simpl; [destruct (existsb _ _); reflexivity|reflexivity].
    - intros z Hz. rewrite drop_step_nodes_length. apply Hy. right; exact Hz.
  Qed.

  Lemma drop_step_below b merged mid (a : mdd) did : b <= mid -> b <= did -> same_below b a (drop_step inp merged mid a did).
  Proof.
    intros H1 H2. unfold drop_step. rewrite redirect_edges_fold.
    eapply same_below_trans; [apply same_below_upd; exact H2|].
    apply same_below_fold. intros c eid _. unfold redirect_step. cbv zeta.
    match goal with |- same_below b c (append_edge inp ?mm ?ee) =>
      apply (same_below_trans b c mm); [apply same_below_nodes; reflexivity|apply same_below_append; nsimpl; exact H1] end.
  Qed.

  Lemma existsb_eqb_In x l : existsb (Nat.eqb x) l = true <-> In x l.
  Proof.
    rewrite existsb_exists. split.
    - intros (y & Hy & E). apply Nat.eqb_eq in E. subst; exact Hy.
    - intros H. exists x. split; [exact H|apply Nat.eqb_refl].
  Qed.

  (* ---------------------------------------------------------------- relax_layer: growth, frames, deleted flags *)
  Lemma relax_layer_gr (m : mdd) l w1 : ci_width inp = S w1 -> gr inp m (fst (relax_layer st_eqb inp m l)).
  Proof.
    intros Ew. rewrite (relax_layer_unfold st_eqb inp m l w1 Ew). cbv zeta.
    destruct (note_squash_fields inp Hclean m) as (F1 & F2 & F3 & F4 & F5 & F6 & F7 & F8 & F9).
    set (m0 := note_squash inp m) in *.
    assert (G0 : gr inp m m0) by (split; [apply ext_note_squash|apply inbinc_same_nodes; exact F1]).
    match goal with |- context [add_log m0 ?ev] => set (m1 := add_log m0 ev) end.
    assert (G1 : gr inp m m1) by (eapply gr_trans; [exact G0|apply gr_add_log]).
    match goal with |- context [find ?f ?k] => destruct (find f k) as [rid|] end; cbn [fst].
    - set (m2 := upd_node m1 rid set_relaxed_flag).
      assert (G2 : gr inp m m2) by (eapply gr_trans; [exact G1|unfold m2; apply gr_upd_node; intros; reflexivity]).
      match goal with |- gr inp m (upd_node ?mm _ _) => set (m3 := mm) end.
      assert (G3 : gr inp m m3).
      { eapply gr_trans; [exact G2|]. unfold m3. apply gr_fold. intros; apply gr_drop_step. }
      eapply gr_trans; [exact G3|]. apply gr_upd_node; intros; reflexivity.
    - match goal with |- gr inp m (fold_left _ _ ?mm) => set (m2 := mm) end.
      assert (G2 : gr inp m m2).
      { eapply gr_trans; [exact G1|]. eapply gr_trans; [apply gr_snoc|]. unfold m2. apply gr_upd_node; intros; reflexivity. }
      eapply gr_trans; [exact G2|]. apply gr_fold. intros; apply gr_drop_step.
  Qed.

  Lemma squash_gr (m : mdd) l : gr inp m (fst (squash_if_needed st_eqb inp m l)).
  Proof.
    unfold squash_if_needed. rewrite Hrel. destruct (_ && _); [|apply gr_refl].
    assert (Hex : exists w1, ci_width inp = S w1) by (exists (ci_width inp - 1); lia).
    destruct Hex as [w1 Ew]. apply (relax_layer_gr m l w1 Ew).
  Qed.

  Lemma In_firstn_skipn_NoDup {A} (l : list A) n x : NoDup l -> In x (firstn n l) -> In x (skipn n l) -> False.
  Proof.
    intros Hnd H1 H2. rewrite <- (firstn_skipn n l) in Hnd. apply NoDup_app_inv in Hnd.
    destruct Hnd as (_ & _ & Hd). exact (Hd x H1 H2).
  Qed.

  Lemma relax_layer_extra (m : mdd) l w1 :
    ci_width inp = S w1 -> S w1 < length l ->
    m_layer_end m <= length (m_nodes m) ->
    (forall x, In x l -> m_layer_end m <= x < length (m_nodes m)) -> NoDup l ->
    (forall x, In x l -> del m x = false) ->
    let m' := fst (relax_layer st_eqb inp m l) in
    let l' := snd (relax_layer st_eqb inp m l) in
    same_below (m_layer_end m) m m' /\
    (forall x, In x l' -> del m' x = false /\ m_layer_end m <= x < length (m_nodes m')) /\
    (forall x, In x l -> ~ In x l' -> del m' x = true) /\
    length (m_nodes m) <= length (m_nodes m') <= S (length (m_nodes m)) /\
    (length (m_nodes m') = S (length (m_nodes m)) -> In (length (m_nodes m)) l').
  Proof.
    intros Ew Hw Hle Hl Hnd Hdel. cbv zeta.
    rewrite (relax_layer_unfold st_eqb inp m l w1 Ew). cbv zeta.
    destruct (note_squash_fields inp Hclean m) as (F1 & F2 & F3 & F4 & F5 & F6 & F7 & F8 & F9).
    set (m0 := note_squash inp m) in *.
    set (sorted := sort_by (rank_order inp m0) l).
    assert (Hsorted : forall x, In x sorted <-> In x l) by (intros x; apply sort_by_In).
    assert (Hsnd : NoDup sorted) by (apply (proj2 (sub_sort_by (rank_order inp m0) l)); exact Hnd).
    assert (Hslen : length sorted = length l) by apply sort_by_length.
    set (keep := firstn w1 sorted). set (mrg := skipn w1 sorted).
    assert (Hsplit : sorted = keep ++ mrg) by (symmetry; apply firstn_skipn).
    assert (Hkeep : forall x, In x keep -> In x l).
    { intros x Hx. apply Hsorted. rewrite Hsplit. apply in_or_app; left; exact Hx. }
    assert (Hmrg : forall x, In x mrg -> In x l).
    { intros x Hx. apply Hsorted. rewrite Hsplit. apply in_or_app; right; exact Hx. }
    assert (Hdisj : forall x, In x keep -> In x mrg -> False).
    { intros x H1 H2. exact (In_firstn_skipn_NoDup sorted w1 x Hsnd H1 H2). }
    assert (Hcases : forall x, In x l -> In x keep \/ In x mrg).
    { intros x Hx. apply Hsorted in Hx. rewrite Hsplit in Hx. apply in_app_or in Hx. exact Hx. }
    match goal with |- context [add_log m0 ?ev] => set (m1 := add_log m0 ev) end.
    assert (Hn1 : m_nodes m1 = m_nodes m) by exact F1.
    assert (Hgn1 : forall k, gn m1 k = gn m k) by (intros k; apply gn_nodes_eq; exact Hn1).
    assert (Hle1 : m_layer_end m1 = m_layer_end m) by exact F5.
    set (b := m_layer_end m) in *.
    assert (Hb1 : same_below b m m1) by (apply same_below_nodes; exact Hn1).
    assert (Hd1 : forall x, del m1 x = del m x) by (intros x; apply del_same_nodes; exact Hn1).
    match goal with |- context [find ?f ?k] => destruct (find f k) as [rid|] eqn:Hrec end; cbn [fst snd].
    - (* recycled *)
      apply find_some in Hrec. destruct Hrec as [Hrin _].
      pose proof (Hl rid (Hkeep rid Hrin)) as Hrr.
      set (m2 := upd_node m1 rid set_relaxed_flag).
      assert (Hlen2 : length (m_nodes m2) = length (m_nodes m)) by (unfold m2; msimpl; rewrite upd_nth_length, Hn1; reflexivity).
      assert (Hd2 : forall x, del m2 x = del m x).
      { intros x. unfold m2. rewrite del_upd_keep by (intros n; reflexivity). apply Hd1. }
      match goal with |- context [fold_left ?f mrg m2] => set (m3 := fold_left f mrg m2) end.
      assert (Hmrg2 : forall y, In y mrg -> y < length (m_nodes m2)).
      { intros y Hy. rewrite Hlen2. apply (Hl y (Hmrg y Hy)). }
      assert (Hd3 : forall x, del m3 x = if existsb (Nat.eqb x) mrg then true else del m x).
      { intros x. unfold m3. rewrite drop_fold_del by exact Hmrg2. rewrite Hd2. reflexivity. }
      assert (Hlen3 : length (m_nodes m3) = length (m_nodes m)).
      { unfold m3. rewrite (fold_left_proj (fun a : mdd => length (m_nodes a))); [exact Hlen2|].
        intros a y. apply drop_step_nodes_length. }
      destruct mrg as [|sv mrg'] eqn:Emrg.
      { exfalso. pose proof (skipn_length w1 sorted) as Hs. fold mrg in Hs. rewrite Emrg in Hs. simpl in Hs. lia. }
      assert (Esv : nth w1 sorted 0 = sv).
      { rewrite <- (firstn_skipn w1 sorted). fold keep. fold mrg. rewrite Emrg.
        rewrite app_nth2 by (unfold keep; rewrite firstn_length; lia).
        unfold keep. rewrite firstn_length. replace (w1 - Nat.min w1 (length sorted)) with 0 by lia. reflexivity. }
      assert (Efs : firstn (S w1) sorted = keep ++ [sv]).
      { apply (firstn_S_skipn w1 sorted sv mrg'). fold mrg. exact Emrg. }
      rewrite Esv, Efs.
      assert (Hsvl : In sv l) by (apply Hmrg; left; reflexivity).
      pose proof (Hl sv Hsvl) as Hsvr.
      set (m4 := upd_node m3 sv clear_deleted_flag).
      assert (Hd4 : forall x, del m4 x = if Nat.eqb x sv then false else del m3 x).
      { intros x. unfold m4, clear_deleted_flag. apply del_upd_set. rewrite Hlen3. apply Hsvr. }
      split; [|split; [|split; [|split]]].
      + apply (same_below_trans b m m1); [exact Hb1|]. apply (same_below_trans b m1 m2).
        { unfold m2. apply same_below_upd. apply Hrr. }
        apply (same_below_trans b m2 m3).
        { unfold m3. apply same_below_fold. intros a y Hy. apply drop_step_below; [apply Hrr|apply (Hl y (Hmrg y Hy))]. }
        unfold m4. apply same_below_upd. apply Hsvr.
      + intros x Hx. split.
        * rewrite Hd4. destruct (Nat.eqb x sv) eqn:E; [reflexivity|]. rewrite Hd3.
          apply in_app_or in Hx. destruct Hx as [Hx|[<-|[]]].
          -- destruct (existsb (Nat.eqb x) (sv :: mrg')) eqn:Ee.
             ++ apply existsb_eqb_In in Ee. exfalso. exact (Hdisj x Hx Ee).
             ++ apply Hdel. apply Hkeep. exact Hx.
          -- rewrite Nat.eqb_refl in E. discriminate.
        * unfold m4. msimpl. rewrite upd_nth_length. fold (m_nodes m3). rewrite Hlen3.
          apply in_app_or in Hx. destruct Hx as [Hx|[<-|[]]]; [apply (Hl x (Hkeep x Hx))|exact Hsvr].
      + intros x Hx Hnx. rewrite Hd4.
        assert (Hxne : x <> sv) by (intros ->; apply Hnx; apply in_or_app; right; left; reflexivity).
        apply Nat.eqb_neq in Hxne. rewrite Hxne. rewrite Hd3.
        destruct (Hcases x Hx) as [Hk|Hm]; [exfalso; apply Hnx; apply in_or_app; left; exact Hk|].
        apply existsb_eqb_In in Hm. rewrite Hm. reflexivity.
      + unfold m4. msimpl. rewrite upd_nth_length. fold (m_nodes m3). rewrite Hlen3. lia.
      + unfold m4. msimpl. rewrite upd_nth_length. fold (m_nodes m3). rewrite Hlen3. lia.
    - (* fresh merged node *)
      set (mid := length (m_nodes m1)).
      assert (Hmid : mid = length (m_nodes m)) by (unfold mid; rewrite Hn1; reflexivity).
      match goal with |- context [merged_node ?mg ?dp] => set (n := merged_node mg dp) end.
      set (m1' := with_nodes m1 (m_nodes m1 ++ [n])).
      set (m2 := upd_node m1' mid set_relaxed_flag).
      assert (Hlen1' : length (m_nodes m1') = S mid) by apply len_snoc.
      assert (Hlen2 : length (m_nodes m2) = S mid) by (unfold m2; msimpl; rewrite upd_nth_length; exact Hlen1').
      assert (Hd2o : forall x, x < mid -> del m2 x = del m x).
      { intros x Hx. unfold m2. rewrite del_upd_keep by (intros n0; reflexivity).
        unfold m1'. rewrite del_snoc_old by exact Hx. apply Hd1. }
      assert (Hd2n : del m2 mid = false).
      { unfold del, m2. rewrite gn_upd_same by lia. unfold m1', mid. rewrite gn_snoc_new. reflexivity. }
      match goal with |- context [fold_left ?f mrg m2] => set (m3 := fold_left f mrg m2) end.
      assert (Hmrg2 : forall y, In y mrg -> y < length (m_nodes m2)).
      { intros y Hy. rewrite Hlen2, Hmid. pose proof (Hl y (Hmrg y Hy)). lia. }
      assert (Hd3 : forall x, del m3 x = if existsb (Nat.eqb x) mrg then true else del m2 x).
      { intros x. unfold m3. apply drop_fold_del. exact Hmrg2. }
      assert (Hlen3 : length (m_nodes m3) = S mid).
      { unfold m3. rewrite (fold_left_proj (fun a : mdd => length (m_nodes a))); [exact Hlen2|].
        intros a y. apply drop_step_nodes_length. }
      assert (Hmidmrg : ~ In mid mrg).
      { intros Hin. pose proof (Hl mid (Hmrg mid Hin)). lia. }
      split; [|split; [|split; [|split]]].
      + apply (same_below_trans b m m1); [exact Hb1|]. apply (same_below_trans b m1 m1').
        { unfold m1'. apply same_below_snoc. rewrite Hn1. exact Hle. }
        apply (same_below_trans b m1' m2).
        { unfold m2. apply same_below_upd. unfold mid. rewrite Hn1. exact Hle. }
        unfold m3. apply same_below_fold. intros a y Hy. apply drop_step_below.
        * unfold mid. rewrite Hn1. exact Hle.
        * apply (Hl y (Hmrg y Hy)).
      + intros x Hx. apply in_app_or in Hx. destruct Hx as [Hx|[<-|[]]].
        * pose proof (Hl x (Hkeep x Hx)) as Hxr. split; [|rewrite Hlen3, Hmid; lia].
          rewrite Hd3. destruct (existsb (Nat.eqb x) mrg) eqn:Ee.
          -- apply existsb_eqb_In in Ee. exfalso. exact (Hdisj x Hx Ee).
          -- rewrite Hd2o by lia. apply Hdel. apply Hkeep. exact Hx.
        * split; [|rewrite Hlen3, Hmid; lia].
          rewrite Hd3. destruct (existsb (Nat.eqb mid) mrg) eqn:Ee.
          -- apply existsb_eqb_In in Ee. contradiction.
          -- exact Hd2n.
      + intros x Hx Hnx. rewrite Hd3.
        destruct (Hcases x Hx) as [Hk|Hm]; [exfalso; apply Hnx; apply in_or_app; left; exact Hk|].
        apply existsb_eqb_In in Hm. rewrite Hm. reflexivity.
      + rewrite Hlen3, Hmid. lia.
      + intros _. rewrite <- Hmid. apply in_or_app. right; left; reflexivity.
  Qed.

  Lemma squash_extra (m : mdd) l :
    m_layer_end m <= length (m_nodes m) ->
    (forall x, In x l -> m_layer_end m <= x < length (m_nodes m)) -> NoDup l ->
    (forall x, In x l -> del m x = false) ->
    let m' := fst (squash_if_needed st_eqb inp m l) in
    let l' := snd (squash_if_needed st_eqb inp m l) in
    same_below (m_layer_end m) m m' /\
    (forall x, In x l' -> del m' x = false /\ m_layer_end m <= x < length (m_nodes m')) /\
    (forall x, In x l -> ~ In x l' -> del m' x = true) /\
    length (m_nodes m) <= length (m_nodes m') <= S (length (m_nodes m)) /\
    (length (m_nodes m') = S (length (m_nodes m)) -> In (length (m_nodes m)) l') /\
    (m_lel m' = m_lel m \/ (m_lel m = None /\ m_lel m' = Some (length (m_layers m) - 1) /\ 1 < length (m_layers m))).
  Proof.
    intros Hle Hl Hnd Hdel. cbv zeta. unfold squash_if_needed. rewrite Hrel.
    destruct (Nat.ltb (ci_width inp) (length l) && Nat.ltb 1 (length (m_layers m))) eqn:Eg; cbn [fst snd].
    - apply andb_true_iff in Eg. destruct Eg as [E1 E1']. apply Nat.ltb_lt in E1. apply Nat.ltb_lt in E1'.
      assert (Hex : exists w1, ci_width inp = S w1) by (exists (ci_width inp - 1); lia).
      destruct Hex as [w1 Ew]. rewrite Ew in E1.
      destruct (relax_layer_extra m l w1 Ew E1 Hle Hl Hnd Hdel) as (R1 & R2 & R3 & R4 & R5).
      cbv zeta in R1, R2, R3, R4, R5.
      split; [exact R1|]. split; [exact R2|]. split; [exact R3|]. split; [exact R4|]. split; [exact R5|].
      assert (Hlel : m_lel (fst (relax_layer st_eqb inp m l)) = m_lel (note_squash inp m)).
      { rewrite (relax_layer_unfold st_eqb inp m l w1 Ew). cbv zeta.
        match goal with |- context [find ?f ?k] => destruct (find f k) as [rid|] end; cbn [fst].
        - msimpl. rewrite (fold_left_proj (fun a : mdd => m_lel a)); [reflexivity|].
          intros a y. unfold drop_step. rewrite redirect_edges_fold.
          rewrite (fold_left_proj (fun a0 : mdd => m_lel a0)); [reflexivity|]. intros; reflexivity.
        - rewrite (fold_left_proj (fun a : mdd => m_lel a)); [reflexivity|].
          intros a y. unfold drop_step. rewrite redirect_edges_fold.
          rewrite (fold_left_proj (fun a0 : mdd => m_lel a0)); [reflexivity|]. intros; reflexivity. }
      rewrite Hlel. destruct (note_squash_fields inp Hclean m) as (_ & _ & _ & _ & _ & _ & _ & F8 & _).
      rewrite F8. destruct (m_lel m); [left; reflexivity|right; auto].
    - split; [apply same_below_refl|]. split; [intros x Hx; split; [apply Hdel; exact Hx|apply Hl; exact Hx]|].
      split; [intros x Hx Hnx; contradiction|]. split; [lia|]. split; [intros E; lia|left; reflexivity].
  Qed.

  Definition tr (m m' : mdd) : Prop :=
    length (m_nodes m) <= length (m_nodes m') /\
    (forall x, x < length (m_nodes m) -> n_state (gn m' x) = n_state (gn m x)) /\
    (forall x, incl (n_inb (gn m x)) (n_inb (gn m' x))) /\
    (exists k, m_edges m' = m_edges m ++ k).

  Lemma tr_gr m m' : gr inp m m' -> tr m m'.
  Proof.
    intros G. split; [apply (gr_nodes inp _ _ G)|]. split; [intros x Hx; apply (gr_state inp _ _ x G Hx)|].
    split; [apply G|]. destruct G as [E _]. apply (ext_edges _ _ _ E).
  Qed.
  Lemma tr_trans a b c : tr a b -> tr b c -> tr a c.
  Proof.
    intros (A1 & A2 & A3 & [k1 A4]) (B1 & B2 & B3 & [k2 B4]). split; [lia|]. split; [|split].
    - intros x Hx. rewrite B2 by lia. apply A2. exact Hx.
    - intros x. eapply incl_tran; [apply A3|apply B3].
    - exists (k1 ++ k2). rewrite B4, A4, app_assoc. reflexivity.
  Qed.
  Lemma tr_same (m m' : mdd) : m_nodes m' = m_nodes m -> m_edges m' = m_edges m -> tr m m'.
  Proof.
    intros Hn He. split; [rewrite Hn; lia|]. split; [intros x _; rewrite (gn_nodes_eq inp m m' x Hn); reflexivity|].
    split; [intros x; rewrite (gn_nodes_eq inp m m' x Hn); apply incl_refl|]. exists []. rewrite app_nil_r. exact He.
  Qed.
  Lemma tr_edge m m' eid : tr m m' -> eid < length (m_edges m) -> get_edge m' eid = get_edge m eid.
  Proof. intros (_ & _ & _ & [k Hk]) H. unfold get_edge. rewrite Hk. apply app_nth1. exact H. Qed.

  Lemma dpath_tr m m' i u s ds t s' :
    tr m m' -> (forall k x, In x (nth k (m_layers m) []) -> In x (nth k (m_layers m') [])) ->
    dpath m i u s ds t s' -> dpath m' i u s ds t s'.
  Proof.
    intros (T1 & T2 & T3 & [k T4]) Hl Hp. eapply dpath_transport; eauto.
    - rewrite T4, app_length. lia.
    - intros eid He. unfold get_edge. rewrite T4. apply app_nth1. exact He.
  Qed.

  Lemma move_extra (m : mdd) :
    m_next m <> [] -> m_layer_end m <= length (m_nodes m) ->
    (forall x, In x (m_next m) <-> m_layer_end m <= x < length (m_nodes m)) -> NoDup (m_next m) ->
    (forall x, In x (m_next m) -> del m x = false) ->
    exists m3 l, move_to_next_layer_clean st_eqb inp m = (m3, Some l) /\
      m_layer_end m3 = length (m_nodes m3) /\
      m_layers m3 = m_layers m ++ [seq (m_layer_end m) (length (m_nodes m3) - m_layer_end m)] /\
      same_below (m_layer_end m) m m3 /\ tr m m3 /\
      (forall x, In x l -> del m3 x = false /\ m_layer_end m <= x < length (m_nodes m3)) /\
      (forall x, m_layer_end m <= x < length (m_nodes m3) -> del m3 x = false -> In x l) /\
      (m_lel m3 = m_lel m \/ (m_lel m = None /\ m_lel m3 = Some (length (m_layers m) - 1) /\ 1 < length (m_layers m))).
  Proof.
    intros Hne Hle Hopen Hnd Hdel.
    rewrite move_clean_unfold. destruct (m_next m) as [|c0 cs] eqn:En; [congruence|].
    set (curr := c0 :: cs) in *.
    set (ma := with_next m []).
    (* cache filter *)
    assert (Hb : ceq inp ma (fst (prefilter st_eqb inp ma curr)) /\ snd (prefilter st_eqb inp ma curr) = curr /\
                 m_nodes (fst (prefilter st_eqb inp ma curr)) = m_nodes ma).
    { unfold prefilter. destruct (Nat.ltb 0 (length (m_layers ma))).
      - split; [apply (filter_with_cache_ceq st_eqb inp Hclean curr ma)|].
        split; [apply (filter_with_cache_nocache st_eqb inp Hnocache)|apply (filter_with_cache_nodes st_eqb inp Hnocache)].
      - split; [apply ceq_refl|split; reflexivity]. }
    destruct (prefilter st_eqb inp ma curr) as [mb lb0]. cbn [fst snd] in Hb. destruct Hb as (Hcb & -> & Hnb).
    (* dominance filter *)
    pose proof (filter_with_dominance_ceq inp mb curr) as [Hcc _].
    pose proof (filter_with_dominance_nodom inp Hnodom mb curr) as Hlc.
    assert (Hncc : m_nodes (fst (filter_with_dominance inp mb curr)) = m_nodes mb).
    { unfold filter_with_dominance. apply (dom_retain_nodes inp Hnodom). }
    assert (Hndc : NoDup (snd (filter_with_dominance inp mb curr))).
    { unfold filter_with_dominance. rewrite (dom_retain_nodom inp Hnodom).
      apply (proj2 (sub_sort_by _ curr)). exact Hnd. }
    destruct (filter_with_dominance inp mb curr) as [mc lc]. cbn [fst snd] in Hcc, Hlc, Hncc, Hndc.
    assert (Hac : ceq inp ma mc) by (eapply ceq_trans; eauto).
    assert (Hnc : m_nodes mc = m_nodes m) by (rewrite Hncc, Hnb; reflexivity).
    destruct Hac as ((Hec & _) & _ & Hlec & Hlyc & Hlelc & _).
    change (m_layer_end ma) with (m_layer_end m) in Hlec. change (m_layers ma) with (m_layers m) in Hlyc.
    change (m_lel ma) with (m_lel m) in Hlelc. change (m_edges ma) with (m_edges m) in Hec.
    assert (Hdc : forall x, del mc x = del m x) by (intros x; apply del_same_nodes; exact Hnc).
    (* squash *)
    destruct (squash_extra mc lc) as (S1 & S2 & S3 & S4 & S5 & S6).
    { rewrite Hlec, Hnc. exact Hle. }
    { intros x Hx. rewrite Hlec, Hnc. apply Hopen. apply Hlc. exact Hx. }
    { exact Hndc. }
    { intros x Hx. rewrite Hdc. apply Hdel. apply Hlc. exact Hx. }
    cbv zeta in S1, S2, S3, S4, S5, S6.
    pose proof (squash_gr mc lc) as Gcd.
    destruct (squash_if_needed st_eqb inp mc lc) as [md ld] eqn:Esq. cbn [fst snd] in *.
    rewrite Hlec in S1, S2. rewrite Hnc in S4, S5. rewrite Hlelc, Hlyc in S6.
    pose proof (gr_layers inp _ _ Gcd) as Hlyd. rewrite Hlyc in Hlyd.
    assert (Hled : m_layer_end md = m_layer_end m).
    { destruct Gcd as [E _]. rewrite (ext_lend _ _ _ E). exact Hlec. }
    set (m3 := push_layer md (seq (m_layer_end md) (length (m_nodes md) - m_layer_end md)) (length (m_nodes md))).
    exists m3, ld. split; [reflexivity|].
    assert (Hd3 : forall x, del m3 x = del md x) by (intros x; apply del_same_nodes; reflexivity).
    assert (Hg3 : forall x, gn m3 x = gn md x) by (intros x; apply gn_nodes_eq; reflexivity).
    change (length (m_nodes m3)) with (length (m_nodes md)).
    split; [reflexivity|]. split; [unfold m3; msimpl; rewrite Hled, Hlyd; reflexivity|].
    assert (Hbm : same_below (m_layer_end m) m md).
    { apply (same_below_trans _ m mc); [apply same_below_nodes; exact Hnc|exact S1]. }
    split; [intros x Hx; rewrite Hg3; apply Hbm; exact Hx|].
    split.
    { apply (tr_trans m md m3); [|apply tr_same; reflexivity].
      apply (tr_trans m mc md); [apply tr_same; assumption|apply tr_gr; exact Gcd]. }
    split; [intros x Hx; rewrite Hd3; apply S2; exact Hx|]. split; [|exact S6].
    intros x Hx Hdx. rewrite Hd3 in Hdx. destruct (classic_in x ld) as [Hin|Hnin]; [exact Hin|]. exfalso.
    destruct (Nat.lt_ge_cases x (length (m_nodes m))) as [Hlt|Hge].
    - assert (Hxl : In x lc) by (apply Hlc; apply Hopen; lia).
      rewrite (S3 x Hxl Hnin) in Hdx. discriminate.
    - assert (x = length (m_nodes m)) by lia. subst x. apply Hnin. apply S5. lia.
  Qed.

  (* ---------------------------------------------------------------- the open layer *)
  Definition OI (m : mdd) : Prop :=
    m_layer_end m <= length (m_nodes m) /\
    (forall x, In x (m_next m) <-> m_layer_end m <= x < length (m_nodes m)) /\
    (forall x, In x (m_next m) -> del m x = false).

  Lemma OI_same (m m' : mdd) :
    m_nodes m' = m_nodes m -> m_next m' = m_next m -> m_layer_end m' = m_layer_end m -> OI m -> OI m'.
  Proof.
    intros Hn Hx Hl (O1 & O2 & O3). unfold OI. rewrite Hn, Hx, Hl. split; [exact O1|]. split; [exact O2|].
    intros x Hin. rewrite (del_same_nodes m m' x Hn). apply O3. exact Hin.
  Qed.

  Lemma branch_on_OI (a : mdd) id d :
    OI a -> OI (branch_on st_eqb inp a id d) /\ m_layer_end (branch_on st_eqb inp a id d) = m_layer_end a /\
            same_below (m_layer_end a) a (branch_on st_eqb inp a id d).
  Proof.
    intros (O1 & O2 & O3). unfold branch_on. cbv zeta.
    set (s := n_state (gn a id)).
    set (ns := transition (ci_problem inp) s d).
    set (cost := transition_cost (ci_problem inp) s ns d).
    set (m1 := add_log (add_log a (EvTransition s d ns)) (EvCost s ns d cost)).
    assert (Hg1 : forall k, gn m1 k = gn a k) by reflexivity.
    destruct (find_next st_eqb inp m1 ns) as [t|] eqn:Hfind.
    - unfold find_next in Hfind. apply find_some in Hfind. destruct Hfind as [Hin _].
      change (m_next m1) with (m_next a) in Hin. pose proof (proj1 (O2 t) Hin) as Htr.
      set (e := {| e_from := id; e_to := t; e_dec := d; e_cost := cost |}).
      split; [|split; [reflexivity|]].
      + split; [msimpl; rewrite upd_nth_length; exact O1|]. split.
        * intros x. msimpl. rewrite upd_nth_length. apply O2.
        * intros x Hx. rewrite del_append. change (del m1 x) with (del a x). apply O3. exact Hx.
      + apply (same_below_trans _ a m1); [apply same_below_nodes; reflexivity|].
        apply same_below_append. simpl. apply Htr.
    - set (t := length (m_nodes m1)).
      match goal with |- context [with_nodes m1 (m_nodes m1 ++ [?nn])] => set (n := nn) end.
      set (m2 := with_nodes m1 (m_nodes m1 ++ [n])).
      set (e := {| e_from := id; e_to := t; e_dec := d; e_cost := cost |}).
      set (m3 := append_edge inp m2 e).
      assert (Hlen2 : length (m_nodes m2) = S t) by apply len_snoc.
      assert (Hlen3 : length (m_nodes m3) = S t) by (unfold m3; msimpl; rewrite upd_nth_length; exact Hlen2).
      assert (Ht : t = length (m_nodes a)) by reflexivity.
      split; [|split; [reflexivity|]].
      + split; [change (m_layer_end a <= length (m_nodes m3)); lia|]. split.
        * intros x. change (In x (m_next a ++ [t]) <-> m_layer_end a <= x < length (m_nodes m3)).
          rewrite Hlen3, in_app_iff, O2. simpl. lia.
        * intros x Hx. change (In x (m_next a ++ [t])) in Hx. change (del m3 x = false).
          unfold m3. rewrite del_append. apply in_app_or in Hx. destruct Hx as [Hx|[<-|[]]].
          -- unfold m2. rewrite del_snoc_old by (apply O2; exact Hx). apply O3. exact Hx.
          -- unfold del, m2, t. rewrite gn_snoc_new. reflexivity.
      + apply (same_below_trans _ a m1); [apply same_below_nodes; reflexivity|].
        apply (same_below_trans _ m1 m2); [unfold m2; apply same_below_snoc; exact O1|].
        apply (same_below_trans _ m2 m3); [unfold m3; apply same_below_append; simpl; lia|].
        apply same_below_nodes. reflexivity.
  Qed.

  Lemma set_rub_idem (n : node) v : set_rub (set_rub n v) v = set_rub n v.
  Proof. destruct n; reflexivity. Qed.

  Lemma expand_node_OI var (a : mdd) id :
    OI a -> id < m_layer_end a ->
    let a' := expand_node st_eqb inp var a id in
    OI a' /\ m_layer_end a' = m_layer_end a /\
    (forall x, x < m_layer_end a -> x <> id -> gn a' x = gn a x) /\
    gn a' id = set_rub (gn a id) (fast_upper_bound rlx (n_state (gn a id))).
  Proof.
    intros HO Hid. cbv zeta. unfold expand_node. cbv zeta.
    set (rub := fast_upper_bound (ci_relax inp) (n_state (gn a id))).
    set (m1 := upd_node a id (fun n => set_rub n rub)).
    pose proof HO as (O1 & O2 & O3).
    assert (HO1 : OI m1).
    { split; [unfold m1; msimpl; rewrite upd_nth_length; exact O1|]. split.
      - intros x. unfold m1. msimpl. rewrite upd_nth_length. apply O2.
      - intros x Hx. unfold m1. rewrite del_upd_keep by (intros n; reflexivity). apply O3. exact Hx. }
    assert (Hg1 : gn m1 id = set_rub (gn a id) rub) by (unfold m1; rewrite gn_upd_same by lia; reflexivity).
    assert (Hg1o : forall x, x <> id -> gn m1 x = gn a x) by (intros x Hx; unfold m1; apply gn_upd_other; congruence).
    assert (Hfin : forall b : mdd, OI b -> m_layer_end b = m_layer_end a -> same_below (m_layer_end a) m1 b ->
              OI b /\ m_layer_end b = m_layer_end a /\
              (forall x, x < m_layer_end a -> x <> id -> gn b x = gn a x) /\ gn b id = set_rub (gn a id) rub).
    { intros b Hb Hl Hs. split; [exact Hb|]. split; [exact Hl|]. split.
      - intros x Hx Hne. rewrite Hs by exact Hx. apply Hg1o. exact Hne.
      - rewrite Hs by exact Hid. exact Hg1. }
    destruct (_ >? _)%Z.
    - set (m2 := add_log m1 (EvDomain var (n_state (gn a id)))).
      assert (G : let b := fold_left (fun m0 val => branch_on st_eqb inp m0 id {| d_var := var; d_val := val |})
                              (domain (ci_problem inp) var (n_state (gn a id))) m2 in
                  OI b /\ m_layer_end b = m_layer_end a /\ same_below (m_layer_end a) m1 b).
      { cbv zeta. apply (MddExact.fold_left_inv (fun b : mdd => OI b /\ m_layer_end b = m_layer_end a /\ same_below (m_layer_end a) m1 b)).
        - split; [apply (OI_same m1 m2); auto; reflexivity|]. split; [reflexivity|apply same_below_nodes; reflexivity].
        - intros b val _ (Hb & Hl & Hs). destruct (branch_on_OI b id {| d_var := var; d_val := val |} Hb) as (B1 & B2 & B3).
          split; [exact B1|]. split; [congruence|]. eapply same_below_trans; [exact Hs|]. rewrite <- Hl. exact B3. }
      cbv zeta in G. destruct G as (G1 & G2 & G3). apply Hfin; assumption.
    - apply Hfin; [exact HO1|reflexivity|apply same_below_refl].
  Qed.

  Lemma expand_layer_OI var l : forall (m : mdd),
    OI m -> (forall id, In id l -> id < m_layer_end m) ->
    let m' := fold_left (expand_node st_eqb inp var) l m in
    OI m' /\ m_layer_end m' = m_layer_end m /\
    (forall x, x < m_layer_end m -> ~ In x l -> gn m' x = gn m x) /\
    (forall x, In x l -> gn m' x = set_rub (gn m x) (fast_upper_bound rlx (n_state (gn m x)))).
  Proof.
    induction l as [|id l IH]; intros m HO Hl; cbv zeta; simpl.
    - split; [exact HO|]. split; [reflexivity|]. split; [reflexivity|intros x []].
    - destruct (expand_node_OI var m id HO) as (E1 & E2 & E3 & E4); [apply Hl; left; reflexivity|].
      cbv zeta in E1, E2, E3, E4.
      set (m1 := expand_node st_eqb inp var m id) in *.
      destruct (IH m1 E1) as (I1 & I2 & I3 & I4).
      { intros y Hy. rewrite E2. apply Hl. right; exact Hy. }
      cbv zeta in I1, I2, I3, I4.
      split; [exact I1|]. split; [congruence|]. split.
      + intros x Hx Hnx. rewrite I3; [|rewrite E2; exact Hx|intros H; apply Hnx; right; exact H].
        apply E3; [exact Hx|]. intros ->. apply Hnx. left; reflexivity.
      + intros x Hx. assert (Hxl : x < m_layer_end m) by (apply Hl; exact Hx).
        destruct (classic_in x l) as [Hin|Hnin].
        * rewrite (I4 x Hin). destruct (Nat.eq_dec x id) as [->|Hne].
          -- rewrite E4. cbn [n_state set_rub]. apply set_rub_idem.
          -- rewrite (E3 x Hxl Hne). reflexivity.
        * rewrite I3; [|rewrite E2; exact Hxl|exact Hnin].
          destruct Hx as [<-|Hx]; [exact E4|contradiction].
  Qed.

  (* ---------------------------------------------------------------- successors created by an expansion *)
  Definition mkd (var : nat) (val : Z) : decision := {| d_var := var; d_val := val |}.

  Lemma expand_node_succ var (a : mdd) id j s val :
    OI a -> id < length (m_nodes a) -> In id (nth j (m_layers a) []) ->
    (sat_add (fast_upper_bound rlx (n_state (gn a id))) (n_vtop (gn a id)) >? lb)%Z = true ->
    cov (n_state (gn a id)) s -> In val (domain pb var s) ->
    let a' := expand_node st_eqb inp var a id in
    exists t', In t' (m_next a') /\ dpath a' j id s [mkd var val] t' (transition pb s (mkd var val)).
  Proof.
    intros HO Hid Hlay Hub Hcov Hval. cbv zeta.
    destruct (cov_sim _ _ var val Hcov Hval) as (Sd & Scov & Scost). fold (mkd var val) in Scov, Scost.
    unfold expand_node. cbv zeta.
    set (state := n_state (gn a id)) in *.
    set (m1 := upd_node a id (fun n => set_rub n (fast_upper_bound (ci_relax inp) state))).
    assert (Hvt1 : n_vtop (gn m1 id) = n_vtop (gn a id)) by (unfold m1; rewrite gn_upd_same by exact Hid; reflexivity).
    rewrite Hvt1. fold rlx. fold lb. rewrite Hub.
    set (m2 := add_log m1 (EvDomain var state)).
    assert (G2 : gr inp a m2).
    { apply (gr_trans inp a m1 m2); [unfold m1; apply gr_upd_node; intros; reflexivity|apply gr_add_log]. }
    assert (HO2 : OI m2).
    { pose proof HO as (O1 & O2 & O3). split; [unfold m2, m1; msimpl; rewrite upd_nth_length; exact O1|]. split.
      - intros x. unfold m2, m1. msimpl. rewrite upd_nth_length. apply O2.
      - intros x Hx. change (del m1 x = false). unfold m1. rewrite del_upd_keep by (intros n; reflexivity). apply O3. exact Hx. }
    set (d := mkd var val).
    set (P := fun b : mdd => exists t', In t' (m_next b) /\ dpath b j id s [d] t' (transition pb s d)).
    apply (fold_left_hit (fun b : mdd => OI b /\ gr inp a b) P
             (fun m0 v => branch_on st_eqb inp m0 id {| d_var := var; d_val := v |})
             (domain (ci_problem inp) var state) m2 val Sd).
    - split; assumption.
    - intros b v _ (Hb & Gb). split; [apply (branch_on_OI b id _ Hb)|].
      eapply gr_trans; [exact Gb|apply gr_branch_on].
    - intros b (Hb & Gb).
      destruct (branch_on_spec st_eqb st_eqb_spec inp Hnocut Hwidth Hrd b id d) as (t & T1 & T2 & T3 & T4 & T5 & T6).
      { intros x Hx. apply (proj1 (proj2 Hb) x). exact Hx. }
      cbv zeta in T1, T2, T3, T4, T5, T6.
      set (b' := branch_on st_eqb inp b id d) in *.
      assert (Gab : gr inp b b') by apply gr_branch_on.
      assert (Gb' : gr inp a b') by (eapply gr_trans; eauto).
      assert (Hst : n_state (gn b id) = state) by (apply (gr_state inp _ _ id Gb Hid)).
      exists t. split; [exact T1|].
      change [d] with ([] ++ [d]).
      apply (dp_snoc inp cov b' j id s [] id s d (length (m_edges b)) t).
      + apply dp_nil; [pose proof (gr_nodes inp _ _ Gb'); lia|]. rewrite (gr_state inp _ _ id Gb' Hid). exact Hcov.
      + simpl. rewrite Nat.add_0_r. rewrite (gr_layers inp _ _ Gb'). exact Hlay.
      + exact T2.
      + lia.
      + exact T3.
      + rewrite T4. reflexivity.
      + rewrite T4. reflexivity.
      + rewrite T4. nsimpl. rewrite Hst. exact Scost.
      + rewrite T5, Hst. exact Scov.
    - intros b v _ (Hb & Gb) (t' & Ht' & Hp').
      pose proof (gr_branch_on st_eqb inp b id {| d_var := var; d_val := v |}) as Gab.
      exists t'. split; [eapply gr_next; eauto|eapply dpath_gr; eauto].
  Qed.

  (* ---------------------------------------------------------------- the invariant of the layer loop *)
  Definition brd (m : mdd) (x : nat) : Prop := (lb < sat_add (n_rub (gn m x)) (n_vtop (gn m x)))%Z.

  Definition SCn (m : mdd) (j x : nat) (tgt : nat -> Prop) : Prop :=
    brd m x -> forall s var val, cov (n_state (gn m x)) s -> next_variable pb (rd + j) [] = Some var ->
      In val (domain pb var s) ->
      exists t', tgt t' /\ dpath m j x s [mkd var val] t' (transition pb s (mkd var val)).

  Notation lyr m j := (nth j (m_layers m) []).

  Record TI (m : mdd) : Prop := {
    T_C : Cinv inp (m_curr_depth m) m;
    T_d1 : rd <= m_curr_depth m;
    T_d2 : m_curr_depth m <= N;
    T_len : length (m_layers m) = m_curr_depth m - rd;
    T_wf : wf inp m;
    T_oi : OI m;
    T_ord1 : forall j j' x y, j < j' -> In x (lyr m j) -> In y (lyr m j') -> x < y;
    T_ord2 : forall j, NoDup (lyr m j);
    T_ord3 : forall j x eid y, In x (lyr m j) -> In eid (n_inb (gn m x)) -> In y (lyr m j) ->
               e_from (get_edge m eid) < y;
    T_dep : forall j x, In x (lyr m j) -> del m x = false -> n_depth (gn m x) = rd + j;
    T_expC : forall j x, S j < length (m_layers m) -> In x (lyr m j) -> del m x = false ->
               SCn m j x (fun t' => In t' (lyr m (S j)) /\ del m t' = false);
    T_expO : forall j x, S j = length (m_layers m) -> In x (lyr m j) -> del m x = false ->
               SCn m j x (fun t' => In t' (m_next m));
    T_lel : forall k, m_lel m = Some k -> forall j x, j <= k -> In x (lyr m j) -> is_ex inp m x = true }.

  Lemma nth_app_cases {A} (l : list (list A)) (x : list A) j y :
    In y (nth j (l ++ [x]) []) -> (j < length l /\ In y (nth j l [])) \/ (j = length l /\ In y x).
  Proof.
    intros H. destruct (Nat.lt_ge_cases j (length l)) as [Hlt|Hge].
    - left. split; [exact Hlt|]. rewrite app_nth1 in H by exact Hlt. exact H.
    - right. rewrite app_nth2 in H by exact Hge. destruct (j - length l) as [|k] eqn:E.
      + split; [lia|exact H].
      + destruct k; simpl in H; destruct H.
  Qed.
  Lemma nth_app_old {A} (l : list (list A)) (x : list A) j : j < length l -> nth j (l ++ [x]) [] = nth j l [].
  Proof. intros H. apply app_nth1. exact H. Qed.
  Lemma nth_app_new {A} (l : list (list A)) (x : list A) : nth (length l) (l ++ [x]) [] = x.
  Proof. rewrite app_nth2 by lia. rewrite Nat.sub_diag. reflexivity. Qed.
  Lemma nth_in_len {A} (l : list (list A)) j y : In y (nth j l []) -> j < length l.
  Proof. intros H. destruct (Nat.lt_ge_cases j (length l)) as [Hlt|Hge]; [exact Hlt|]. rewrite nth_overflow in H by exact Hge. destruct H. Qed.

  Lemma TI_layer_below (m : mdd) j x : TI m -> In x (lyr m j) -> x < m_layer_end m.
  Proof.
    intros HT Hx. destruct (T_C _ HT) as (_ & HX & _).
    apply (X_layers _ _ _ HX (lyr m j) x); [apply nth_In; eapply nth_in_len; eauto|exact Hx].
  Qed.

  Lemma iter_TI (m : mdd) var ev p :
    TI m -> m_curr_depth m < N -> next_variable pb (m_curr_depth m) [] = Some var -> m_next m <> [] ->
    let m2 := with_polls (add_log m ev) p in
    exists m3 l, move_to_next_layer_clean st_eqb inp m2 = (m3, Some l) /\
      let m4 := fold_left (expand_node st_eqb inp var) l m3 in
      TI (with_depth m4 (S (m_curr_depth m4))).
  Proof.
    intros HT HdN Hvar Hne. cbv zeta.
    set (d := m_curr_depth m) in *.
    set (m2 := with_polls (add_log m ev) p).
    pose proof (T_C _ HT) as HC. pose proof (T_len _ HT) as Hlen. pose proof (T_d1 _ HT) as Hd1.
    assert (Hc2 : ceq inp m m2) by (eapply ceq_trans; [apply ceq_add_log|apply ceq_with_polls]).
    assert (HC2 : Cinv inp d m2).
    { destruct HC as (HD & HX & Hnd & HE).
      split; [eapply (Dg_ceq inp Hclean); eauto|]. split; [eapply Xinv_ceq; eauto|]. split; [exact Hnd|].
      eapply Einv_ceq; eauto. }
    assert (Hg2 : forall x, gn m2 x = gn m x) by reflexivity.
    assert (Hne2 : m_next m2 <> []) by exact Hne.
    destruct (move_sim st_eqb st_eqb_spec inp Hclean Hnocache Hnodom Hnocut Hwidth Hrd cov merge_cov relax_ge m2 d HC2 Hne2)
      as (m3 & l & ids & Emv & C3 & N3 & L3 & D3 & Ly3 & Lids & En3 & T3 & Sr3 & Cl3 & Ns3 & Ge3 & Le3).
    pose proof (T_oi _ HT) as (O1 & O2 & O3).
    destruct (move_extra m2) as (m3' & l' & Emv' & X1 & X2 & X3 & X4 & X5 & X6 & X7).
    { exact Hne. } { exact O1. } { exact O2. } { apply (wf_next_nodup _ _ (T_wf _ HT)). } { exact O3. }
    rewrite Emv in Emv'. inversion Emv'; subst m3' l'. clear Emv'.
    change (m_layer_end m2) with (m_layer_end m) in *. change (m_layers m2) with (m_layers m) in *.
    change (m_lel m2) with (m_lel m) in *. change (m_next m2) with (m_next m) in *.
    set (b := m_layer_end m) in *.
    assert (Eids : ids = seq b (length (m_nodes m3) - b)).
    { rewrite Ly3 in X2. apply app_inv_head in X2. inversion X2. reflexivity. }
    exists m3, l. split; [exact Emv|].
    assert (Hvar' : exists states : list St, next_variable pb d states = Some var) by (exists []; exact Hvar).
    destruct (expand_layer_Cinv st_eqb st_eqb_spec inp Hclean Hnocut Hwidth Hrd var l d m3 C3 L3 Hvar') as (C4 & S4 & G4).
    assert (HO3 : OI m3).
    { split; [rewrite X1; lia|]. split; [|intros x Hx; rewrite N3 in Hx; destruct Hx].
      intros x. rewrite N3, X1. simpl. lia. }
    assert (Hl3 : forall id, In id l -> id < m_layer_end m3) by (intros id Hid; apply (L3 id Hid)).
    destruct (expand_layer_OI var l m3 HO3 Hl3) as (I1 & I2 & I3 & I4). cbv zeta in I1, I2, I3, I4.
    set (m4 := fold_left (expand_node st_eqb inp var) l m3) in *.
    set (m5 := with_depth m4 (S (m_curr_depth m4))).
    assert (Hcd4 : m_curr_depth m4 = d).
    { destruct S4 as (_ & _ & _ & _ & s5). rewrite s5, D3. reflexivity. }
    assert (Hly4 : m_layers m4 = m_layers m ++ [ids]) by (rewrite (gr_layers inp _ _ G4); exact Ly3).
    assert (Hg5 : forall x, gn m5 x = gn m4 x) by reflexivity.
    set (nl := length (m_layers m)) in *.
    assert (Hdnl : d = rd + nl) by (unfold nl; lia).
    (* old closed nodes are untouched *)
    assert (Hb3 : b <= length (m_nodes m3)) by (destruct X4 as (T1 & _); lia).
    assert (Hold : forall x, x < b -> gn m4 x = gn m x).
    { intros x Hx. rewrite I3; [apply X3; exact Hx|rewrite X1; lia|].
      intros Hin. destruct (X5 x Hin) as [_ Hr]. lia. }
    assert (Holdl : forall j x, In x (lyr m j) -> x < b) by (intros j x Hx; eapply TI_layer_below; eauto).
    assert (Hidsb : forall x, In x ids -> b <= x < length (m_nodes m3)).
    { intros x Hx. rewrite Eids in Hx. apply in_seq in Hx. lia. }
    assert (Hlids : forall x, In x l -> del m4 x = false).
    { intros x Hx. unfold del. rewrite (I4 x Hx). nsimpl. apply (X5 x Hx). }
    assert (Hlive_l : forall x, In x ids -> del m4 x = false -> In x l).
    { intros x Hx Hd. destruct (classic_in x l) as [Hin|Hnin]; [exact Hin|].
      apply X6; [apply Hidsb; exact Hx|]. unfold del in *. rewrite <- I3; [exact Hd|rewrite X1; apply Hidsb; exact Hx|exact Hnin]. }
    (* transport of paths among old closed layers *)
    assert (Htr24 : tr m m4).
    { apply (tr_trans m m3 m4); [exact X4|apply tr_gr; exact G4]. }
    assert (Hlay24 : forall k x, In x (nth k (m_layers m) []) -> In x (nth k (m_layers m4) [])).
    { intros k x Hx. rewrite Hly4. apply nth_layers_app. exact Hx. }
    assert (Hp24 : forall i u s ds t s', dpath m i u s ds t s' -> dpath m4 i u s ds t s').
    { intros i u s ds t s' Hp. eapply dpath_tr; eauto. }
    assert (Hp5 : forall i u s ds t s', dpath m4 i u s ds t s' -> dpath m5 i u s ds t s').
    { intros i u s ds t s' Hp. eapply dpath_frame; try exact Hp; try reflexivity; assumption. }
    assert (HE : Einv inp m) by apply HC.
    split.
    - (* Cinv *)
      change (m_curr_depth m5) with (S (m_curr_depth m4)). rewrite Hcd4.
      assert (Hp45 : peq inp m4 m5) by (apply peq_same_nodes; reflexivity).
      destruct C4 as (D4 & X4' & Nd4 & E4).
      split; [|split; [|split]].
      + eapply (Dg_peq inp Hclean); [exact Hp45|exact D4|apply Nat.le_refl|apply (D_le _ _ _ D4)|apply (D_next _ _ _ D4)].
      + eapply Xg_peq; [exact Hp45|reflexivity|reflexivity|reflexivity|exact X4'].
      + exact Nd4.
      + eapply Einv_frame; try exact E4; try reflexivity; try assumption. apply (E_le _ _ E4).
    - change (m_curr_depth m5) with (S (m_curr_depth m4)). lia.
    - change (m_curr_depth m5) with (S (m_curr_depth m4)). lia.
    - change (m_curr_depth m5) with (S (m_curr_depth m4)). change (m_layers m5) with (m_layers m4).
      rewrite Hly4, app_length, Hcd4. cbn [length]. fold nl. lia.
    - (* wf *)
      apply wf_with_depth. apply wf_fold_expand.
      + apply (proj1 (wf_move_clean st_eqb inp m2 m3 (Some l) Emv (wf_with_polls inp _ _ (wf_add_log inp _ _ (T_wf _ HT))))).
      + apply (proj1 (proj2 (wf_move_clean st_eqb inp m2 m3 (Some l) Emv (wf_with_polls inp _ _ (wf_add_log inp _ _ (T_wf _ HT)))) l eq_refl)).
    - apply (OI_same m4 m5); auto.
    - (* ord1 *)
      change (m_layers m5) with (m_layers m4). rewrite Hly4. intros j j' x y Hjj Hx Hy.
      apply nth_app_cases in Hx. apply nth_app_cases in Hy. fold nl in Hx, Hy.
      destruct Hx as [[Hj Hx]|[Hj Hx]]; destruct Hy as [[Hj' Hy]|[Hj' Hy]]; try lia.
      + apply (T_ord1 _ HT j j' x y Hjj Hx Hy).
      + pose proof (Holdl j x Hx). pose proof (Hidsb y Hy). lia.
    - (* ord2 *)
      change (m_layers m5) with (m_layers m4). rewrite Hly4. intros j.
      destruct (Nat.lt_ge_cases j nl) as [Hj|Hj].
      + rewrite nth_app_old by exact Hj. apply (T_ord2 _ HT).
      + destruct (Nat.eq_dec j nl) as [->|Hjn].
        * unfold nl. rewrite nth_app_new. rewrite Eids. apply seq_NoDup.
        * rewrite nth_overflow by (rewrite app_length; simpl; fold nl; lia). constructor.
    - (* ord3 *)
      change (m_layers m5) with (m_layers m4). rewrite Hly4. intros j x eid y Hx Hin Hy. rewrite Hg5 in Hin.
      apply nth_app_cases in Hx. apply nth_app_cases in Hy. fold nl in Hx, Hy.
      destruct Hx as [[Hj Hx]|[Hj Hx]]; destruct Hy as [[Hj' Hy]|[Hj' Hy]]; try lia.
      + pose proof (Holdl j x Hx) as Hxb. rewrite (Hold x Hxb) in Hin.
        assert (Hxl : x < length (m_nodes m)) by (pose proof (E_le _ _ HE); unfold b in Hxb; lia).
        destruct (E_inb _ _ HE x eid Hxl Hin) as (He & _).
        change (get_edge m5 eid) with (get_edge m4 eid). rewrite (tr_edge m m4 eid Htr24 He).
        apply (T_ord3 _ HT j x eid y Hx Hin Hy).
      + pose proof (Hidsb x Hx) as Hxr.
        assert (Hin3 : In eid (n_inb (gn m3 x))).
        { destruct (classic_in x l) as [Hxl|Hxl]; [rewrite (I4 x Hxl) in Hin; exact Hin|].
          rewrite I3 in Hin; [exact Hin|rewrite X1; lia|exact Hxl]. }
        destruct C3 as (_ & _ & _ & E3).
        destruct (E_inb _ _ E3 x eid ltac:(lia) Hin3) as (He3 & _).
        change (get_edge m5 eid) with (get_edge m4 eid). rewrite (gr_edge inp m3 m4 eid G4 He3).
        assert (HSrc : Src m3 (e_from (get_edge m3 eid))) by (exists eid; auto).
        apply Sr3 in HSrc. destruct HSrc as (eid2 & He2 & Hf2).
        assert (HE2 : Einv inp m2) by apply HC2.
        pose proof (E_from _ _ HE2 eid2 He2) as Hlt. rewrite Hf2 in Hlt.
        change (m_layer_end m2) with b in Hlt. pose proof (Hidsb y Hy). lia.
    - (* depth *)
      change (m_layers m5) with (m_layers m4). rewrite Hly4. intros j x Hx Hd. rewrite Hg5.
      change (del m5 x) with (del m4 x) in Hd.
      apply nth_app_cases in Hx. fold nl in Hx. destruct Hx as [[Hj Hx]|[Hj Hx]].
      + pose proof (Holdl j x Hx) as Hxb. rewrite (Hold x Hxb). apply (T_dep _ HT j x Hx).
        unfold del in *. rewrite <- (Hold x Hxb). exact Hd.
      + pose proof (Hlive_l x Hx Hd) as Hxl. rewrite (I4 x Hxl). nsimpl. destruct (L3 x Hxl) as [_ Hdp]. lia.
    - (* closed targets *)
      change (m_layers m5) with (m_layers m4). rewrite Hly4, app_length. cbn [length]. fold nl.
      intros j x Hj Hx Hd. change (del m5 x) with (del m4 x) in Hd.
      rewrite nth_app_old in Hx by (fold nl; lia).
      pose proof (Holdl j x Hx) as Hxb.
      assert (Hdm : del m x = false) by (unfold del in *; rewrite <- (Hold x Hxb); exact Hd).
      intros Hbr s var0 val Hcov Hv0 Hval.
      unfold brd in Hbr. rewrite Hg5, (Hold x Hxb) in Hbr. rewrite Hg5, (Hold x Hxb) in Hcov.
      destruct (Nat.lt_ge_cases (S j) nl) as [Hjn|Hjn].
      + destruct (T_expC _ HT j x Hjn Hx Hdm Hbr s var0 val Hcov Hv0 Hval) as (t' & [Ht' Hdt'] & Hp).
        exists t'. split.
        * rewrite nth_app_old by (fold nl; lia). split; [exact Ht'|].
          pose proof (Holdl (S j) t' Ht') as Htb. change (del m5 t') with (del m4 t'). unfold del in *.
          rewrite (Hold t' Htb). exact Hdt'.
        * apply Hp5, Hp24. exact Hp.
      + assert (Ej : S j = nl) by lia.
        destruct (T_expO _ HT j x Ej Hx Hdm Hbr s var0 val Hcov Hv0 Hval) as (t' & Ht' & Hp).
        destruct (T3 j x s t' [mkd var0 val] (transition pb s (mkd var0 val))) as (u' & Hu' & Hp3).
        * exact Ht'.
        * intros _. discriminate.
        * intros E. rewrite Hrel in E. discriminate.
        * eapply dpath_ceq; eauto.
        * exists u'. split.
          -- rewrite Ej. unfold nl. rewrite nth_app_new. split; [apply Lids; exact Hu'|].
             change (del m5 u') with (del m4 u'). apply Hlids. exact Hu'.
          -- apply Hp5. eapply dpath_gr; eauto.
    - (* open targets: the layer just expanded *)
      change (m_layers m5) with (m_layers m4). rewrite Hly4, app_length. cbn [length]. fold nl.
      intros j x Hj Hx Hd. assert (j = nl) by lia. subst j. change (del m5 x) with (del m4 x) in Hd.
      unfold nl in Hx. rewrite nth_app_new in Hx.
      pose proof (Hlive_l x Hx Hd) as Hxl.
      intros Hbr s var0 val Hcov Hv0 Hval.
      assert (var0 = var).
      { rewrite <- Hdnl in Hv0. rewrite Hvar in Hv0. inversion Hv0; reflexivity. }
      subst var0.
      unfold brd in Hbr. rewrite Hg5, (I4 x Hxl) in Hbr. nsimpl_in Hbr. rewrite Hg5, (I4 x Hxl) in Hcov. nsimpl_in Hcov.
      change (m_next m5) with (m_next m4).
      (* split the expansion fold at x *)
      assert (G : forall l0 (a : mdd), (forall y, In y l0 -> y < m_layer_end a) -> OI a -> gr inp m3 a ->
                (forall y, In y l0 -> n_state (gn a y) = n_state (gn m3 y) /\ n_vtop (gn a y) = n_vtop (gn m3 y)) ->
                In x l0 ->
                exists t', In t' (m_next (fold_left (expand_node st_eqb inp var) l0 a)) /\
                  dpath (fold_left (expand_node st_eqb inp var) l0 a) nl x s [mkd var val] t' (transition pb s (mkd var val))).
      { induction l0 as [|y l0 IH]; intros a Hla Ha Ga Hsa Hin; [destruct Hin|]. simpl.
        destruct (expand_node_OI var a y Ha (Hla y (or_introl eq_refl))) as (E1 & E2 & E3 & E4). cbv zeta in E1, E2, E3, E4.
        pose proof (gr_expand_node st_eqb inp var a y) as Gay.
        destruct (Nat.eq_dec y x) as [->|Hne'].
        - destruct (expand_node_succ var a x nl s val Ha) as (t' & Ht' & Hp).
          + pose proof (Hla x (or_introl eq_refl)). destruct Ha as (A1 & _). lia.
          + rewrite (gr_layers inp _ _ Ga). rewrite Ly3. unfold nl. rewrite nth_app_new. exact Hx.
          + destruct (Hsa x (or_introl eq_refl)) as [Es Ev]. rewrite Es, Ev. apply Z.gtb_lt. fold rlx in Hbr. exact Hbr.
          + destruct (Hsa x (or_introl eq_refl)) as [Es _]. rewrite Es. exact Hcov.
          + exact Hval.
          + cbv zeta in Ht', Hp.
            assert (Grest : gr inp (expand_node st_eqb inp var a x) (fold_left (expand_node st_eqb inp var) l0 (expand_node st_eqb inp var a x))).
            { apply gr_fold. intros; apply gr_expand_node. }
            exists t'. split; [eapply gr_next; eauto|eapply dpath_gr; eauto].
        - destruct Hin as [E|Hin]; [congruence|].
          apply IH.
          + intros z Hz. rewrite E2. apply Hla. right; exact Hz.
          + exact E1.
          + eapply gr_trans; eauto.
          + intros z Hz. destruct (Hsa z (or_intror Hz)) as [Es Ev].
            destruct (Nat.eq_dec z y) as [->|Hzy].
            * rewrite E4. nsimpl. auto.
            * rewrite (E3 z (Hla z (or_intror Hz)) Hzy). auto.
          + exact Hin. }
      destruct (G l m3 Hl3 HO3 (gr_refl inp m3) (fun y _ => conj eq_refl eq_refl) Hxl) as (t' & Ht' & Hp).
      exists t'. split; [exact Ht'|]. apply Hp5. exact Hp.
    - (* last exact layer *)
      change (m_lel m5) with (m_lel m4). change (m_layers m5) with (m_layers m4).
      unfold m4. rewrite expand_layer_lel. fold m4. rewrite Hly4.
      intros k Hk j x Hjk Hx. unfold is_ex. rewrite Hg5.
      assert (Hkl : k < nl).
      { destruct X7 as [E|(E1 & E2 & E3)]; [|rewrite E2 in Hk; inversion Hk; subst k; fold nl; fold nl in E3; lia].
        rewrite E in Hk. destruct HC as (_ & HX & _). apply (X_lel_lt _ _ _ HX Hrel k Hk). }
      rewrite nth_app_old in Hx by (fold nl; lia).
      pose proof (Holdl j x Hx) as Hxb. rewrite (Hold x Hxb).
      destruct X7 as [E|(E1 & E2 & _)].
      + rewrite E in Hk. apply (T_lel _ HT k Hk j x Hjk Hx).
      + destruct HC as (_ & HX & _). apply (X_lel_none _ _ _ HX E1).
        pose proof (E_le _ _ HE). unfold b in Hxb. lia.
  Qed.

  (* ---------------------------------------------------------------- what the loop leaves behind *)
  Definition SCr (m : mdd) (lay : nat -> list nat) (j x : nat) : Prop :=
    brd m x -> forall s var val, cov (n_state (gn m x)) s -> next_variable pb (rd + j) [] = Some var ->
      In val (domain pb var s) ->
      let d := mkd var val in
      exists t' eid, In t' (lay (S j)) /\ del m t' = false /\ t' < length (m_nodes m) /\
        eid < length (m_edges m) /\ In eid (n_inb (gn m t')) /\ e_from (get_edge m eid) = x /\
        e_dec (get_edge m eid) = d /\
        (transition_cost pb s (transition pb s d) d <= e_cost (get_edge m eid))%Z /\
        cov (n_state (gn m t')) (transition pb s d).

  Record FS (ml : mdd) (lay : nat -> list nat) : Prop := {
    F_einv : forall id eid, id < length (m_nodes ml) -> In eid (n_inb (gn ml id)) ->
      eid < length (m_edges ml) /\
      (sat_add (n_vtop (gn ml (e_from (get_edge ml eid)))) (e_cost (get_edge ml eid)) <= n_vtop (gn ml id))%Z /\
      (is_ex inp ml id = true ->
         is_ex inp ml (e_from (get_edge ml eid)) = true /\
         n_state (gn ml id) = transition pb (n_state (gn ml (e_from (get_edge ml eid)))) (e_dec (get_edge ml eid)));
    F_range : forall j x, In x (lay j) -> x < length (m_nodes ml);
    F_ord1 : forall j j' x y, j < j' -> In x (lay j) -> In y (lay j') -> x < y;
    F_ord2 : forall j, NoDup (lay j);
    F_ord3 : forall j x eid y, In x (lay j) -> In eid (n_inb (gn ml x)) -> In y (lay j) -> e_from (get_edge ml eid) < y;
    F_dep : forall j x, In x (lay j) -> del ml x = false -> n_depth (gn ml x) = rd + j;
    F_exp : forall j x, In x (lay j) -> del ml x = false -> SCr ml lay j x;
    F_lel : forall k, m_lel ml = Some k -> forall j x, j <= k -> In x (lay j) -> is_ex inp ml x = true;
    F_last : forall j x, In x (lay j) -> rd + j = N ->
      In x (m_next ml) /\ m_layer_end ml <= x < length (m_nodes ml) /\ length (m_layers ml) = j }.

  Lemma dpath1_inv (m : mdd) j x s d t' s'' : dpath m j x s [d] t' s'' ->
    s'' = transition pb s d /\ t' < length (m_nodes m) /\
    exists eid, eid < length (m_edges m) /\ In eid (n_inb (gn m t')) /\ e_from (get_edge m eid) = x /\
      e_dec (get_edge m eid) = d /\
      (transition_cost pb s (transition pb s d) d <= e_cost (get_edge m eid))%Z /\
      cov (n_state (gn m t')) (transition pb s d).
  Proof.
    intros Hp. destruct (dpath_snoc_inv inp cov _ _ _ _ _ _ _ Hp ltac:(discriminate))
      as (ds0 & d0 & t & s0 & eid0 & E & Es & P0 & P1 & P2 & P3 & P4 & P5 & P6 & P7 & P8).
    destruct ds0 as [|a ds0]; [|destruct ds0; discriminate].
    simpl in E. inversion E; subst d0.
    assert (t = x /\ s0 = s).
    { inversion P0; subst; [auto|]. match goal with H : _ ++ [_] = [] |- _ => destruct (app_cons_not_nil _ _ _ (eq_sym H)) end. }
    destruct H as [-> ->]. split; [exact Es|]. split; [exact P2|]. exists eid0. auto 10.
  Qed.

  Lemma FS_of_TI (m ml : mdd) lastl :
    TI m -> m_nodes ml = m_nodes m -> m_edges ml = m_edges m -> m_lel ml = m_lel m ->
    (forall x, In x lastl <-> In x (m_next m)) -> NoDup lastl ->
    ((m_curr_depth m = N /\ m_next ml = m_next m /\ m_layer_end ml = m_layer_end m /\ m_layers ml = m_layers m) \/
     (m_curr_depth m < N /\ m_next m = [])) ->
    FS ml (fun j => nth j (m_layers m ++ [lastl]) []).
  Proof.
    intros HT Hn He Hlel Hlast Hnd Hexit.
    assert (Hg : forall x, gn ml x = gn m x) by (intros x; apply gn_nodes_eq; exact Hn).
    assert (Hge : forall k, get_edge ml k = get_edge m k) by (intros k; apply ge_edges_eq; exact He).
    assert (Hdl : forall x, del ml x = del m x) by (intros x; apply del_same_nodes; exact Hn).
    pose proof (T_C _ HT) as (HD & HX & Hnd' & HE).
    pose proof (T_oi _ HT) as (O1 & O2 & O3). pose proof (T_len _ HT) as Hlen.
    set (nl := length (m_layers m)) in *.
    assert (Holdl : forall j x, In x (lyr m j) -> x < m_layer_end m) by (intros j x Hx; eapply TI_layer_below; eauto).
    assert (Hlastr : forall x, In x lastl -> m_layer_end m <= x < length (m_nodes m)).
    { intros x Hx. apply O2. apply Hlast. exact Hx. }
    split.
    - intros id eid Hid Hin. rewrite Hn in Hid. rewrite Hg in Hin. unfold is_ex. rewrite He, !Hge, !Hg.
      destruct (E_inb _ _ HE id eid Hid Hin) as (G1 & G2 & G3). split; [exact G1|]. split; [exact G2|].
      intros Hx. destruct (G3 Hx) as (Y1 & Y2 & _). auto.
    - intros j x Hx. rewrite Hn. apply nth_app_cases in Hx. destruct Hx as [[_ Hx]|[_ Hx]].
      + pose proof (Holdl j x Hx). lia.
      + apply Hlastr. exact Hx.
    - intros j j' x y Hjj Hx Hy. apply nth_app_cases in Hx. apply nth_app_cases in Hy. fold nl in Hx, Hy.
      destruct Hx as [[Hj Hx]|[Hj Hx]]; destruct Hy as [[Hj' Hy]|[Hj' Hy]]; try lia.
      + apply (T_ord1 _ HT j j' x y Hjj Hx Hy).
      + pose proof (Holdl j x Hx). pose proof (Hlastr y Hy). lia.
    - intros j. destruct (Nat.lt_ge_cases j nl) as [Hj|Hj].
      + rewrite nth_app_old by exact Hj. apply (T_ord2 _ HT).
      + destruct (Nat.eq_dec j nl) as [->|Hjn].
        * unfold nl. rewrite nth_app_new. exact Hnd.
        * rewrite nth_overflow by (rewrite app_length; simpl; fold nl; lia). constructor.
    - intros j x eid y Hx Hin Hy. rewrite Hg in Hin. rewrite Hge.
      apply nth_app_cases in Hx. apply nth_app_cases in Hy. fold nl in Hx, Hy.
      destruct Hx as [[Hj Hx]|[Hj Hx]]; destruct Hy as [[Hj' Hy]|[Hj' Hy]]; try lia.
      + apply (T_ord3 _ HT j x eid y Hx Hin Hy).
      + pose proof (Hlastr x Hx) as Hxr. destruct (E_inb _ _ HE x eid ltac:(lia) Hin) as (G1 & _).
        pose proof (E_from _ _ HE eid G1). pose proof (Hlastr y Hy). lia.
    - intros j x Hx Hd. rewrite Hdl in Hd. rewrite Hg. apply nth_app_cases in Hx. fold nl in Hx.
      destruct Hx as [[Hj Hx]|[Hj Hx]]; [apply (T_dep _ HT j x Hx Hd)|].
      subst j. rewrite (Hnd' x (proj1 (Hlast x) Hx)). pose proof (T_d1 _ HT). lia.
    - intros j x Hx Hd. rewrite Hdl in Hd. apply nth_app_cases in Hx. fold nl in Hx.
      intros Hbr s var val Hcov Hv Hval. unfold brd in Hbr. rewrite Hg in Hbr, Hcov. cbv zeta.
      destruct Hx as [[Hj Hx]|[Hj Hx]].
      + destruct (Nat.lt_ge_cases (S j) nl) as [Hjn|Hjn].
        * destruct (T_expC _ HT j x Hjn Hx Hd Hbr s var val Hcov Hv Hval) as (t' & [Ht' Hdt'] & Hp).
          destruct (dpath1_inv _ _ _ _ _ _ _ Hp) as (_ & P2 & eid & Q1 & Q2 & Q3 & Q4 & Q5 & Q6).
          exists t', eid. rewrite nth_app_old by (fold nl; lia). rewrite Hdl, Hn, He, Hge, !Hg. auto 12.
        * assert (Ej : S j = nl) by lia.
          destruct (T_expO _ HT j x Ej Hx Hd Hbr s var val Hcov Hv Hval) as (t' & Ht' & Hp).
          destruct (dpath1_inv _ _ _ _ _ _ _ Hp) as (_ & P2 & eid & Q1 & Q2 & Q3 & Q4 & Q5 & Q6).
          exists t', eid. rewrite Ej. unfold nl. rewrite nth_app_new. rewrite Hdl, Hn, He, Hge, !Hg.
          split; [apply Hlast; exact Ht'|]. split; [apply O3; exact Ht'|]. auto 12.
      + (* the last layer: no variable left, or no node *)
        exfalso. subst j. destruct Hexit as [(HdN & _)|(HdN & Hnx)].
        * rewrite nv_none in Hv by (pose proof (T_d1 _ HT); lia). discriminate.
        * apply Hlast in Hx. rewrite Hnx in Hx. destruct Hx.
    - intros k Hk j x Hjk Hx. rewrite Hlel in Hk. unfold is_ex. rewrite Hg.
      pose proof (X_lel_lt _ _ _ HX Hrel k Hk) as Hkl. fold nl in Hkl.
      rewrite nth_app_old in Hx by (fold nl; lia). apply (T_lel _ HT k Hk j x Hjk Hx).
    - intros j x Hx HjN. apply nth_app_cases in Hx. fold nl in Hx.
      pose proof (T_d1 _ HT) as Hd1. pose proof (T_d2 _ HT) as Hd2.
      destruct Hexit as [(HdN & E1 & E2 & E3)|(HdN & Hnx)].
      + destruct Hx as [[Hj Hx]|[Hj Hx]]; [lia|]. subst j.
        rewrite E1, E2, E3, Hn. split; [apply Hlast; exact Hx|]. split; [apply Hlastr; exact Hx|reflexivity].
      + destruct Hx as [[Hj Hx]|[Hj Hx]]; [lia|]. apply Hlast in Hx. rewrite Hnx in Hx. destruct Hx.
  Qed.

  Lemma FS_ext (ml : mdd) (lay lay' : nat -> list nat) : (forall j, lay j = lay' j) -> FS ml lay -> FS ml lay'.
  Proof.
    intros Hext [G1 G2 G3 G4 G5 G6 G7 G8 G9].
    split.
    - exact G1.
    - intros j x Hx. rewrite <- Hext in Hx. eauto.
    - intros j j' x y Hjj Hx Hy. rewrite <- Hext in Hx, Hy. eauto.
    - intros j. rewrite <- Hext. apply G4.
    - intros j x eid y Hx Hin Hy. rewrite <- Hext in Hx, Hy. eauto.
    - intros j x Hx. rewrite <- Hext in Hx. eauto.
    - intros j x Hx Hd. rewrite <- Hext in Hx. intros Hbr s var val Hc Hv Hval. cbv zeta.
      destruct (G7 j x Hx Hd Hbr s var val Hc Hv Hval) as (t' & eid & Q). exists t', eid. rewrite <- Hext. exact Q.
    - intros k Hk j x Hjk Hx. rewrite <- Hext in Hx. eauto.
    - intros j x Hx. rewrite <- Hext in Hx. eauto.
  Qed.

  Lemma TI_initialize c ds polls : TI (initialize inp c ds polls).
  Proof.
    assert (Hnil : forall j (x : nat), In x (nth j (@nil (list nat)) []) -> False).
    { intros j x H. destruct j; simpl in H; destruct H. }
    split.
    - apply (Linv_initialize inp Hnocut Hwidth Hrd cov cov_refl c ds polls).
    - simpl. apply Nat.le_refl.
    - simpl. exact Hrd.
    - simpl. fold root. fold rd. lia.
    - apply wf_initialize.
    - split; [simpl; lia|]. split; [intros x; simpl; lia|]. intros x [<-|[]]. reflexivity.
    - intros j j' x y _ Hx. exfalso. exact (Hnil _ _ Hx).
    - intros j. simpl. destruct j; constructor.
    - intros j x eid y Hx. exfalso. exact (Hnil _ _ Hx).
    - intros j x Hx. exfalso. exact (Hnil _ _ Hx).
    - intros j x _ Hx. exfalso. exact (Hnil _ _ Hx).
    - intros j x _ Hx. exfalso. exact (Hnil _ _ Hx).
    - intros k Hk. discriminate.
  Qed.

  Definition LF (ml : mdd) : list (list nat) := m_layers (finalize_layers inp ml).

  Lemma layer_loop_TI : forall fuel (m m' : mdd),
    TI m -> layer_loop st_eqb inp fuel m = (m', LoopDone) -> FS m' (fun j => nth j (LF m') []).
  Proof.
    induction fuel as [|fuel IH]; intros m m' HT Hloop; [simpl in Hloop; inversion Hloop|].
    set (d := m_curr_depth m) in *.
    cbn [layer_loop] in Hloop. cbv zeta in Hloop.
    set (states := map (fun id => n_state (gn m id)) (m_next m)) in *.
    fold pb in Hloop.
    pose proof (T_d1 _ HT) as Hd1. pose proof (T_d2 _ HT) as Hd2. pose proof (T_oi _ HT) as (O1 & O2 & O3).
    destruct (next_variable pb (m_curr_depth m) states) as [var|] eqn:Eov.
    2:{ (* the variables are exhausted *)
      inversion Hloop; subst m'. clear Hloop.
      assert (HdN : d = N).
      { destruct (Nat.lt_ge_cases d N) as [Hlt|Hge]; [|fold d in Hd2; lia].
        destruct (nv_some d states Hlt) as [x Hx]. unfold d in Hx. rewrite Hx in Eov. discriminate. }
      set (ml := add_log m (EvNextVar (m_curr_depth m) states None)).
      unfold LF. destruct (finalize_layers_fields inp Hclean ml) as (_ & _ & _ & _ & F5). rewrite F5.
      change (m_next ml) with (m_next m). change (m_layers ml) with (m_layers m).
      change (m_layer_end ml) with (m_layer_end m). change (length (m_nodes ml)) with (length (m_nodes m)).
      set (lastl := seq (m_layer_end m) (length (m_nodes m) - m_layer_end m)).
      assert (Hlast : forall x, In x lastl <-> In x (m_next m)).
      { intros x. unfold lastl. rewrite in_seq, O2. lia. }
      pose proof (FS_of_TI m ml lastl HT eq_refl eq_refl eq_refl Hlast (seq_NoDup _ _)
                    (or_introl (conj HdN (conj eq_refl (conj eq_refl eq_refl))))) as HF.
      destruct (m_next m) as [|c0 cs] eqn:En; [|exact HF].
      (* empty last layer: the same layers, as functions *)
      assert (Elast : lastl = []).
      { destruct lastl as [|z zs] eqn:E; [reflexivity|]. exfalso. apply (proj1 (Hlast z)). left; reflexivity. }
      rewrite Elast in HF.
      assert (Heq : forall j, nth j (m_layers m) [] = nth j (m_layers m ++ [[]]) []).
      { intros j. destruct (Nat.lt_ge_cases j (length (m_layers m))) as [Hlt|Hge].
        - rewrite app_nth1 by exact Hlt. reflexivity.
        - rewrite nth_overflow by exact Hge. rewrite app_nth2 by exact Hge.
          destruct (j - length (m_layers m)) as [|k]; [reflexivity|destruct k; reflexivity]. }
      apply (FS_ext ml (fun j => nth j (m_layers m ++ [[]]) []) (fun j => nth j (m_layers m) [])); [|exact HF].
      intros j. symmetry. apply Heq. }
    set (m1 := add_log m (EvNextVar (m_curr_depth m) states (Some var))) in *.
    set (m2 := with_polls m1 (S (m_polls m1))) in *.
    rewrite Hnocut in Hloop. cbn [Nat.ltb Nat.leb andb] in Hloop.
    rewrite (not_pooled inp Hclean) in Hloop.
    assert (HdN : d < N).
    { destruct (Nat.lt_ge_cases d N) as [Hlt|Hge]; [exact Hlt|].
      pose proof (nv_none d states Hge) as Hn. unfold d in Hn. rewrite Hn in Eov. discriminate. }
    assert (Hvar : next_variable pb (m_curr_depth m) [] = Some var) by (rewrite (nv_static _ [] states); exact Eov).
    destruct (m_next m) as [|c0 cs] eqn:En.
    - (* the next layer is empty: the loop stops *)
      rewrite move_clean_unfold in Hloop. change (m_next m2) with (m_next m) in Hloop. rewrite En in Hloop.
      inversion Hloop; subst m'. clear Hloop.
      set (ml := push_layer (with_next m2 []) [] 0).
      unfold LF. destruct (finalize_layers_fields inp Hclean ml) as (_ & _ & _ & _ & F5). rewrite F5.
      change (m_next ml) with (@nil nat). change (m_layers ml) with (m_layers m ++ [[]]).
      apply (FS_of_TI m ml [] HT eq_refl eq_refl eq_refl).
      + intros x. rewrite En. reflexivity.
      + constructor.
      + right. split; [exact HdN|exact En].
    - destruct (iter_TI m var (EvNextVar (m_curr_depth m) states (Some var)) (S (m_polls m1)) HT HdN Hvar)
        as (m3 & l & Emv & HT5).
      { rewrite En. discriminate. }
      cbv zeta in HT5. fold m1 in Emv. fold m2 in Emv. rewrite Emv in Hloop.
      apply (IH _ m' HT5). exact Hloop.
  Qed.

  (* ================================================================ the flags set by _finalize *)
  Lemma fold_upd_flags (F : flags -> flags) ids : forall (m : mdd) x,
    let a := fold_left (fun m0 id => upd_node m0 id (fun n => set_flags n (F (n_flags n)))) ids m in
    (~ In x ids -> gn a x = gn m x) /\
    (forall h : flags -> bool, (forall f, h (F f) = h f) -> h (n_flags (gn a x)) = h (n_flags (gn m x))) /\
    (forall h : flags -> bool, (forall f, h (F f) = true) -> In x ids -> x < length (m_nodes m) -> h (n_flags (gn a x)) = true) /\
    length (m_nodes a) = length (m_nodes m).
  Proof.
    induction ids as [|id ids IH]; intros m x; cbv zeta; simpl.
    - split; [reflexivity|]. split; [reflexivity|]. split; [intros h _ []|reflexivity].
    - set (m1 := upd_node m id (fun n => set_flags n (F (n_flags n)))).
      destruct (IH m1 x) as (I1 & I2 & I3 & I4). cbv zeta in I1, I2, I3, I4.
      assert (L1 : length (m_nodes m1) = length (m_nodes m)) by (unfold m1; msimpl; apply upd_nth_length).
      split; [|split; [|split]].
      + intros Hn. rewrite I1 by (intros H; apply Hn; right; exact H).
        unfold m1. apply gn_upd_other. intros ->. apply Hn. left; reflexivity.
      + intros h Hh. rewrite (I2 h Hh). unfold m1.
        apply (get_node_upd_node_proj inp (fun n => h (n_flags n))). intros n. nsimpl. apply Hh.
      + intros h Hh Hin Hlt. destruct (classic_in x ids) as [Hi|Hi].
        * apply (I3 h Hh Hi). rewrite L1. exact Hlt.
        * rewrite I1 by exact Hi. destruct Hin as [->|Hin]; [|contradiction].
          unfold m1. rewrite gn_upd_same by exact Hlt. nsimpl. apply Hh.
      + rewrite I4. exact L1.
  Qed.

  Lemma lel_cutset_flags (m : mdd) k x :
    let a := lel_cutset m k in
    (f_cutset (n_flags (gn a x)) = true -> f_cutset (n_flags (gn m x)) = true \/ In x (nth k (m_layers m) [])) /\
    (f_above (n_flags (gn a x)) = true ->
       f_above (n_flags (gn m x)) = true \/ exists j, j <= k /\ In x (nth j (m_layers m) [])) /\
    (forall j, j <= k -> In x (nth j (m_layers m) []) -> x < length (m_nodes m) -> f_above (n_flags (gn a x)) = true) /\
    (forall h : flags -> bool, (forall f b, h (fl_set_above f b) = h f) -> (forall f b, h (fl_set_cutset f b) = h f) ->
       h (n_flags (gn a x)) = h (n_flags (gn m x))) /\
    (In x (nth k (m_layers m) []) -> x < length (m_nodes m) -> f_cutset (n_flags (gn a x)) = true).
  Proof.
    cbv zeta. unfold lel_cutset. cbv zeta.
    match goal with |- context [fold_left _ (concat (rev (firstn k (m_layers ?mm)))) ?mm] => set (m1 := mm) end.
    assert (Hly1 : m_layers m1 = m_layers m).
    { unfold m1. destruct (nth_error (m_layers m) k); [|reflexivity]. msimpl.
      apply (fold_left_proj (fun b : mdd => m_layers b)). intros; reflexivity. }
    rewrite Hly1.
    set (rest := concat (rev (firstn k (m_layers m)))).
    assert (H1 : (~ In x (nth k (m_layers m) []) -> gn m1 x = gn m x) /\
                 (forall h : flags -> bool, (forall f b, h (fl_set_above f b) = h f) -> (forall f b, h (fl_set_cutset f b) = h f) ->
                    h (n_flags (gn m1 x)) = h (n_flags (gn m x))) /\
                 (In x (nth k (m_layers m) []) -> x < length (m_nodes m) ->
                    f_above (n_flags (gn m1 x)) = true /\ f_cutset (n_flags (gn m1 x)) = true) /\
                 length (m_nodes m1) = length (m_nodes m)).
    { unfold m1. destruct (nth_error (m_layers m) k) as [ids|] eqn:En.
      - assert (Eids : nth k (m_layers m) [] = ids) by (apply nth_error_nth; exact En).
        rewrite Eids.
        destruct (fold_upd_flags (fun f => fl_set_above (fl_set_cutset f true) true) ids m x) as (G1 & G2 & G3 & G4).
        cbv zeta in G1, G2, G3, G4.
        match goal with |- context [with_cutset ?AA ?cc] => set (A := AA) in *; set (cs := cc) end.
        assert (Hw : forall y, gn (with_cutset A cs) y = gn A y) by reflexivity.
        change (length (m_nodes (with_cutset A cs))) with (length (m_nodes A)).
        split; [intros Hn; rewrite Hw; apply G1; exact Hn|]. split; [|split].
        + intros h Ha Hc. rewrite Hw. apply G2. intros f. rewrite Ha, Hc. reflexivity.
        + intros Hin Hlt. rewrite Hw. split; [apply (G3 f_above); auto|apply (G3 f_cutset); auto].
        + exact G4.
      - split; [reflexivity|]. split; [reflexivity|]. split; [|reflexivity].
        intros Hin. rewrite nth_overflow in Hin; [destruct Hin|]. apply nth_error_None. exact En. }
    destruct H1 as (A1 & A2 & A3 & A4).
    destruct (fold_upd_flags (fun f => fl_set_above f true) rest m1 x) as (B1 & B2 & B3 & B4).
    cbv zeta beta in B1, B2, B3, B4.
    assert (Hrest : In x rest <-> exists j, j < k /\ In x (nth j (m_layers m) [])).
    { unfold rest. rewrite in_concat. split.
      - intros (l0 & Hl0 & Hx). apply in_rev in Hl0. apply (In_nth _ _ []) in Hl0. destruct Hl0 as (j & Hj & Ej).
        rewrite firstn_length in Hj. exists j. split; [lia|]. rewrite <- Ej in Hx.
        rewrite nth_firstn_lt in Hx by lia. exact Hx.
      - intros (j & Hj & Hx). exists (nth j (m_layers m) []). split; [|exact Hx].
        apply in_rev. rewrite rev_involutive.
        pose proof (nth_in_len _ _ _ Hx) as Hjl.
        rewrite <- (nth_firstn_lt (m_layers m) k j []) by exact Hj.
        apply nth_In. rewrite firstn_length. lia. }
    split; [|split; [|split; [|split]]].
    - intros Hc. rewrite (B2 f_cutset) in Hc by (intros; reflexivity).
      destruct (classic_in x (nth k (m_layers m) [])) as [Hin|Hnin]; [right; exact Hin|left].
      rewrite <- (A1 Hnin). exact Hc.
    - intros Ha. destruct (classic_in x rest) as [Hr|Hr].
      + right. apply Hrest in Hr. destruct Hr as (j & Hj & Hx). exists j. split; [lia|exact Hx].
      + rewrite (B1 Hr) in Ha. destruct (classic_in x (nth k (m_layers m) [])) as [Hin|Hnin].
        * right. exists k. split; [lia|exact Hin].
        * left. rewrite <- (A1 Hnin). exact Ha.
    - intros j Hj Hx Hlt. destruct (Nat.eq_dec j k) as [->|Hne].
      + destruct (classic_in x rest) as [Hr|Hr].
        * apply (B3 f_above); [reflexivity|exact Hr|rewrite A4; exact Hlt].
        * rewrite (B1 Hr). apply A3; assumption.
      + apply (B3 f_above); [reflexivity| |rewrite A4; exact Hlt].
        apply Hrest. exists j. split; [lia|exact Hx].
    - intros h Ha Hc. rewrite (B2 h) by (intros f; apply Ha). apply A2; assumption.
    - intros Hin Hlt. rewrite (B2 f_cutset) by (intros; reflexivity). apply A3; assumption.
  Qed.

  Lemma flag_compute_local_bounds (h : flags -> bool) (m : mdd) x :
    (forall f b, h (fl_set_marked f b) = h f) ->
    h (n_flags (gn (compute_local_bounds inp m) x)) = h (n_flags (gn m x)).
  Proof.
    intros Hh. set (g := fun n : node => h (n_flags n)).
    assert (Hu : forall (a : mdd) k0 (v : node -> Z),
              g (gn (upd_node a k0 (fun n => set_vbot (set_flags n (fl_set_marked (n_flags n) true)) (v n))) x) = g (gn a x)).
    { intros a k0 v. apply (get_node_upd_node_proj inp g). intros n. unfold g. nsimpl. apply Hh. }
    change (g (gn (compute_local_bounds inp m) x) = g (gn m x)).
    unfold compute_local_bounds. cbv zeta. destruct (_ && _); [|reflexivity].
    rewrite (fold_left_proj (fun b : mdd => g (gn b x))).
    - apply (fold_left_proj (fun b : mdd => g (gn b x))). intros b id. apply (Hu b id (fun _ => 0%Z)).
    - intros b id. destruct (f_marked _); [|reflexivity].
      apply (fold_left_proj (fun c : mdd => g (gn c x))). intros c eid. apply Hu.
  Qed.

  (* frontier cut-set: flags *)
  Definition FQ (m a : mdd) : Prop :=
    FInv inp m a /\
    (forall x, f_above (n_flags (gn a x)) = true -> f_above (n_flags (gn m x)) = true \/ is_ex inp m x = true) /\
    (forall x, f_cutset (n_flags (gn a x)) = true -> f_cutset (n_flags (gn m x)) = true \/ is_ex inp m x = true) /\
    (forall x (h : flags -> bool), (forall f b, h (fl_set_above f b) = h f) -> (forall f b, h (fl_set_cutset f b) = h f) ->
       h (n_flags (gn a x)) = h (n_flags (gn m x))) /\
    (forall x, f_above (n_flags (gn m x)) = true -> f_above (n_flags (gn a x)) = true) /\
    (forall x, f_cutset (n_flags (gn m x)) = true -> f_cutset (n_flags (gn a x)) = true).

  Lemma upd_flag_cases (a : mdd) id (F : flags -> flags) x :
    gn (upd_node a id (fun n => set_flags n (F (n_flags n)))) x = gn a x \/
    (x = id /\ id < length (m_nodes a) /\
     gn (upd_node a id (fun n => set_flags n (F (n_flags n)))) x = set_flags (gn a id) (F (n_flags (gn a id)))).
  Proof.
    destruct (Nat.eq_dec id x) as [<-|Hne].
    - destruct (Nat.lt_ge_cases id (length (m_nodes a))) as [Hlt|Hge].
      + right. split; [reflexivity|]. split; [exact Hlt|]. rewrite gn_upd_same by exact Hlt. reflexivity.
      + left. apply gn_upd_out. exact Hge.
    - left. apply gn_upd_other. exact Hne.
  Qed.

  Lemma FQ_refl m : (forall x, x < length (m_nodes m) -> f_cutset (n_flags (gn m x)) = true -> In x (m_cutset m)) -> FQ m m.
  Proof. intros H0. split; [repeat split; auto|]. repeat split; auto. Qed.

  Lemma FQ_above (m a : mdd) id : FQ m a -> is_ex inp a id = true ->
    FQ m (upd_node a id (fun n => set_flags n (fl_set_above (n_flags n) true))).
  Proof.
    intros (Q1 & Q2 & Q3 & Q4 & Q5 & Q6) Hex.
    pose proof Q1 as (_ & _ & F3 & _). destruct (F3 id) as [_ Hexm]. rewrite Hex in Hexm.
    split; [apply FInv_upd_above; exact Q1|].
    split; [|split; [|split; [|split]]].
    - intros x Ha. destruct (upd_flag_cases a id (fun f => fl_set_above f true) x) as [E|(-> & _ & E)].
      + cbv beta in E. rewrite E in Ha. apply Q2. exact Ha.
      + right. symmetry. exact Hexm.
    - intros x Hc. destruct (upd_flag_cases a id (fun f => fl_set_above f true) x) as [E|(-> & _ & E)]; cbv beta in E; rewrite E in Hc.
      + apply Q3. exact Hc.
      + nsimpl_in Hc. apply Q3. exact Hc.
    - intros x h Ha Hc. destruct (upd_flag_cases a id (fun f => fl_set_above f true) x) as [E|(-> & _ & E)]; cbv beta in E; rewrite E.
      + apply Q4; assumption.
      + nsimpl. rewrite Ha. apply Q4; assumption.
    - intros x Hx. destruct (upd_flag_cases a id (fun f => fl_set_above f true) x) as [E|(-> & _ & E)]; cbv beta in E; rewrite E.
      + apply Q5. exact Hx.
      + reflexivity.
    - intros x Hx. destruct (upd_flag_cases a id (fun f => fl_set_above f true) x) as [E|(-> & _ & E)]; cbv beta in E; rewrite E.
      + apply Q6. exact Hx.
      + nsimpl. apply Q6. exact Hx.
  Qed.

  Lemma FQ_inner (m a : mdd) eid : FQ m a -> FQ m (fc_inner inp a eid).
  Proof.
    intros HQ. pose proof HQ as (Q1 & Q2 & Q3 & Q4 & Q5 & Q6).
    split; [apply (FInv_fc_inner inp m a eid Q1)|].
    unfold fc_inner. cbv zeta. set (p := e_from (get_edge a eid)).
    destruct (fl_is_exact (n_flags (gn a p)) && negb (f_cutset (n_flags (gn a p)))) eqn:Ec;
      [|repeat split; assumption].
    apply andb_true_iff in Ec. destruct Ec as [Hex _].
    pose proof Q1 as (_ & _ & F3 & _). destruct (F3 p) as [_ Hexm]. unfold is_ex in Hexm. rewrite Hex in Hexm.
    set (a1 := with_cutset a (m_cutset a ++ [p])).
    assert (Hg1 : forall y, gn a1 y = gn a y) by reflexivity.
    split; [|split; [|split; [|split]]].
    - intros x Ha. destruct (upd_flag_cases a1 p (fun f => fl_set_cutset f true) x) as [E|(-> & _ & E)]; cbv beta in E; rewrite E in Ha.
      + rewrite Hg1 in Ha. apply Q2. exact Ha.
      + rewrite Hg1 in Ha. nsimpl_in Ha. apply Q2. exact Ha.
    - intros x Hc. destruct (upd_flag_cases a1 p (fun f => fl_set_cutset f true) x) as [E|(-> & _ & E)]; cbv beta in E.
      + rewrite E, Hg1 in Hc. apply Q3. exact Hc.
      + right. symmetry. exact Hexm.
    - intros x h Ha Hc. destruct (upd_flag_cases a1 p (fun f => fl_set_cutset f true) x) as [E|(-> & _ & E)]; cbv beta in E; rewrite E, Hg1.
      + apply Q4; assumption.
      + nsimpl. rewrite Hc. apply Q4; assumption.
    - intros x Hx. destruct (upd_flag_cases a1 p (fun f => fl_set_cutset f true) x) as [E|(-> & _ & E)]; cbv beta in E; rewrite E, Hg1.
      + apply Q5. exact Hx.
      + nsimpl. apply Q5. exact Hx.
    - intros x Hx. destruct (upd_flag_cases a1 p (fun f => fl_set_cutset f true) x) as [E|(-> & _ & E)]; cbv beta in E; rewrite E, ?Hg1.
      + apply Q6. exact Hx.
      + reflexivity.
  Qed.

  Lemma FQ_step (m a : mdd) id : FQ m a -> FQ m (fc_step inp a id).
  Proof.
    intros HQ. unfold fc_step. cbv zeta. destruct (fl_is_exact (n_flags (gn a id))) eqn:Ex.
    - apply FQ_above; [exact HQ|exact Ex].
    - apply (MddExact.fold_left_inv (FQ m)); [exact HQ|]. intros b eid _ Hb. apply FQ_inner. exact Hb.
  Qed.

  Lemma frontier_flags (m : mdd) :
    (forall x, x < length (m_nodes m) -> f_cutset (n_flags (gn m x)) = true -> In x (m_cutset m)) ->
    FQ m (frontier_cutset inp m true) /\
    (forall x, In x (bottom_up m) -> x < length (m_nodes m) -> is_ex inp m x = true ->
       f_above (n_flags (gn (frontier_cutset inp m true) x)) = true) /\
    (forall c c' eid, In c' (bottom_up m) -> is_ex inp m c' = false -> In eid (n_inb (gn m c')) ->
       e_from (get_edge m eid) = c -> is_ex inp m c = true -> c < length (m_nodes m) ->
       f_cutset (n_flags (gn (frontier_cutset inp m true) c)) = true).
  Proof.
    intros H0. rewrite frontier_cutset_unfold.
    split; [|split].
    - apply (fold_left_inv2 (FQ m)); [apply FQ_refl; exact H0|]. intros a y Ha. apply FQ_step. exact Ha.
    - intros x Hx Hlt Hex.
      apply (fold_left_hit (FQ m) (fun a : mdd => f_above (n_flags (gn a x)) = true) (fc_step inp) (bottom_up m) m x Hx (FQ_refl m H0)).
      + intros a y _ Ha. apply FQ_step. exact Ha.
      + intros a Ha. pose proof Ha as ((_ & F2 & F3 & _) & _). destruct (F3 x) as [_ E]. rewrite Hex in E.
        unfold fc_step. cbv zeta. unfold is_ex in E. rewrite E. rewrite gn_upd_same by lia. reflexivity.
      + intros a y _ Ha Hp. destruct (FQ_step m a y Ha) as (_ & _ & _ & _ & _ & _).
        (* flags are only ever set *)
        unfold fc_step. cbv zeta. destruct (fl_is_exact (n_flags (gn a y))).
        * destruct (upd_flag_cases a y (fun f => fl_set_above f true) x) as [E|(-> & _ & E)]; cbv beta in E; rewrite E; [exact Hp|reflexivity].
        * rewrite (fold_left_proj (fun b : mdd => f_above (n_flags (gn b x)))); [exact Hp|].
          intros b eid. unfold fc_inner. cbv zeta. destruct (_ && _); [|reflexivity].
          rewrite (get_node_upd_node_proj inp (fun n => f_above (n_flags n))) by (intros n; reflexivity). reflexivity.
    - intros c c' eid Hc' Hnx Hin Hf Hx Hlt.
      apply (fold_left_hit (FQ m) (fun a : mdd => f_cutset (n_flags (gn a c)) = true) (fc_step inp) (bottom_up m) m c' Hc' (FQ_refl m H0)).
      + intros a y _ Ha. apply FQ_step. exact Ha.
      + intros a Ha. pose proof Ha as ((F1 & F2 & F3 & F4) & _). unfold fc_step. cbv zeta.
        destruct (F3 c') as [i1 x1]. unfold is_ex in x1, Hnx. rewrite x1, Hnx, i1.
        apply (fold_left_hit (FQ m) (fun b : mdd => f_cutset (n_flags (gn b c)) = true) (fc_inner inp) (n_inb (gn m c')) a eid Hin Ha).
        * intros b y _ Hb. apply FQ_inner. exact Hb.
        * intros b Hb. pose proof Hb as ((G1 & G2 & G3 & G4) & _). unfold fc_inner. cbv zeta.
          rewrite (ge_edges_eq m b eid G1), Hf.
          destruct (G3 c) as [_ x2]. unfold is_ex in x2, Hx. rewrite x2, Hx. simpl andb.
          destruct (f_cutset (n_flags (gn b c))) eqn:Ec; simpl negb; cbv iota; [exact Ec|].
          rewrite gn_upd_same by (change (length (m_nodes (with_cutset b (m_cutset b ++ [c])))) with (length (m_nodes b)); lia).
          reflexivity.
        * intros b y _ Hb Hp. destruct (FQ_inner m b y Hb) as (_ & _ & _ & _ & _ & _).
          unfold fc_inner. cbv zeta. destruct (_ && _); [|exact Hp].
          match goal with |- context [upd_node ?aa ?pp _] =>
            destruct (upd_flag_cases aa pp (fun f => fl_set_cutset f true) c) as [E|(_ & _ & E)] end; cbv beta in E; rewrite E; [exact Hp|reflexivity].
      + intros a y _ Ha Hp. unfold fc_step. cbv zeta. destruct (fl_is_exact (n_flags (gn a y))).
        * rewrite (get_node_upd_node_proj inp (fun n => f_cutset (n_flags n))) by (intros n; reflexivity). exact Hp.
        * apply (MddExact.fold_left_inv (fun b : mdd => f_cutset (n_flags (gn b c)) = true)); [exact Hp|].
          intros b eid0 _ Hb. unfold fc_inner. cbv zeta. destruct (_ && _); [|exact Hb].
          match goal with |- context [upd_node ?aa ?pp _] =>
            destruct (upd_flag_cases aa pp (fun f => fl_set_cutset f true) c) as [E|(_ & _ & E)] end; cbv beta in E; rewrite E; [exact Hb|reflexivity].
  Qed.

  Lemma frontier_all_exact (m : mdd) : (forall y, is_ex inp m y = true) ->
    forall x, f_cutset (n_flags (gn (frontier_cutset inp m true) x)) = f_cutset (n_flags (gn m x)).
  Proof.
    intros Hall x. rewrite frontier_cutset_unfold.
    apply (fold_left_inv2 (fun a : mdd => (forall y, is_ex inp a y = true) /\
                             f_cutset (n_flags (gn a x)) = f_cutset (n_flags (gn m x)))).
    - split; [exact Hall|reflexivity].
    - intros a y (Ha & Hc). unfold fc_step. cbv zeta. pose proof (Ha y) as Hy. unfold is_ex in Hy. rewrite Hy. split.
      + intros z. unfold is_ex. rewrite (get_node_upd_node_proj inp (fun n => fl_is_exact (n_flags n))) by (intros n; reflexivity).
        apply Ha.
      + rewrite (get_node_upd_node_proj inp (fun n => f_cutset (n_flags n))) by (intros n; reflexivity). exact Hc.
  Qed.

  Lemma dpath_cons (m : mdd) j x s d c eid :
    x < length (m_nodes m) -> cov (n_state (gn m x)) s -> In x (nth j (m_layers m) []) ->
    c < length (m_nodes m) -> eid < length (m_edges m) -> In eid (n_inb (gn m c)) ->
    e_from (get_edge m eid) = x -> e_dec (get_edge m eid) = d ->
    (transition_cost pb s (transition pb s d) d <= e_cost (get_edge m eid))%Z ->
    cov (n_state (gn m c)) (transition pb s d) ->
    forall ds T s', dpath m (S j) c (transition pb s d) ds T s' -> dpath m j x s (d :: ds) T s'.
  Proof.
    intros Hx Hcx Hlx Hc He Hin Hf Hd Hcost Hcc ds T s' Hp.
    remember (S j) as i eqn:Ei. remember (transition pb s d) as sc eqn:Es.
    induction Hp as [i u s0 Hu Hc0|i u s0 ds0 t s1 d' eid' t' Hp IH Hlay Ht' He' Hin' Hf' Hd' Hcost' Hcov']; subst i s0.
    - change [d] with ([] ++ [d]).
      apply (dp_snoc inp cov m j x s [] x s d eid u); auto.
      + apply dp_nil; assumption.
      + simpl. rewrite Nat.add_0_r. exact Hlx.
    - change (d :: ds0 ++ [d']) with ((d :: ds0) ++ [d']).
      apply (dp_snoc inp cov m j x s (d :: ds0) t s1 d' eid' t'); auto.
      simpl. replace (j + S (length ds0)) with (S j + length ds0) by lia. exact Hlay.
  Qed.

  (* ================================================================ the diagram handed to _compute_thresholds *)
  Section Final.
    Variables (tb tb2 : nat) (ml : mdd).
    Hypothesis HFS : FS ml (fun j => nth j (LF ml) []).
    Hypothesis HS : Sinv inp ml.
    Hypothesis HX : Xs inp ml.
    Hypothesis HN : Ninv inp ml.
    Hypothesis HN2 : Ninv2 ml.

    Let m3' := finalize_exact inp (find_best_node inp tb tb2 (finalize_layers inp ml)).
    Let m4 := finalize_cutset inp m3'.
    Let m5 := compute_local_bounds inp m4.
    Let mf := finalize st_eqb inp tb tb2 ml.

    Lemma mf_eq : mf = compute_thresholds st_eqb inp m5.
    Proof. reflexivity. Qed.

    Lemma gn3 x : gn m3' x = gn ml x.
    Proof. apply gn_nodes_eq. apply (pipe3 inp Hclean tb tb2 ml HS HX). Qed.

    Lemma m5_fields x :
      n_state (gn m5 x) = n_state (gn ml x) /\ n_vtop (gn m5 x) = n_vtop (gn ml x) /\
      n_inb (gn m5 x) = n_inb (gn ml x) /\ n_rub (gn m5 x) = n_rub (gn ml x) /\
      n_depth (gn m5 x) = n_depth (gn ml x) /\ n_theta (gn m5 x) = n_theta (gn ml x).
    Proof.
      assert (G : forall {Y} (g : node -> Y), (forall n f, g (set_flags n f) = g n) -> (forall n v, g (set_vbot n v) = g n) ->
                g (gn m5 x) = g (gn ml x)).
      { intros Y g H1 H2. unfold m5. rewrite (node_compute_local_bounds inp g) by assumption.
        unfold m4. rewrite (node_finalize_cutset inp Hclean g) by assumption. rewrite gn3. reflexivity. }
      repeat split; apply G; reflexivity.
    Qed.

    Lemma m5_flag (h : flags -> bool) x :
      (forall f b, h (fl_set_marked f b) = h f) -> (forall f b, h (fl_set_above f b) = h f) ->
      (forall f b, h (fl_set_cutset f b) = h f) -> h (n_flags (gn m5 x)) = h (n_flags (gn ml x)).
    Proof.
      intros H1 H2 H3. unfold m5. rewrite (flag_compute_local_bounds h) by exact H1.
      unfold m4. rewrite (flag_finalize_cutset inp Hclean h) by assumption. rewrite gn3. reflexivity.
    Qed.

    Lemma m5_cutflag (h : flags -> bool) x : (forall f b, h (fl_set_marked f b) = h f) ->
      h (n_flags (gn m5 x)) = h (n_flags (gn m4 x)).
    Proof. intros H1. unfold m5. apply (flag_compute_local_bounds h). exact H1. Qed.

    Lemma m5_layers : m_layers m5 = LF ml.
    Proof.
      unfold m5, m4. rewrite compute_local_bounds_layers, finalize_cutset_layers.
      apply (pipe3 inp Hclean tb tb2 ml HS HX).
    Qed.
    Lemma m5_edges : m_edges m5 = m_edges ml.
    Proof.
      destruct (compute_local_bounds_keq inp Hclean m4) as ((E5 & _) & _). fold m5 in E5.
      destruct (finalize_cutset_spec inp Hclean m3') as (((E4 & _) & _) & _).
      { apply (pipe3 inp Hclean tb tb2 ml HS HX). } { apply (pipe3 inp Hclean tb tb2 ml HS HX). }
      fold m4 in E4. rewrite E5, E4. apply (pipe3 inp Hclean tb tb2 ml HS HX).
    Qed.
    Lemma m5_len : length (m_nodes m5) = length (m_nodes ml).
    Proof.
      destruct (compute_local_bounds_keq inp Hclean m4) as ((_ & _ & E5 & _) & _). fold m5 in E5.
      destruct (finalize_cutset_spec inp Hclean m3') as (((_ & _ & E4 & _) & _) & _).
      { apply (pipe3 inp Hclean tb tb2 ml HS HX). } { apply (pipe3 inp Hclean tb tb2 ml HS HX). }
      fold m4 in E4. rewrite E5, E4. f_equal. apply (pipe3 inp Hclean tb tb2 ml HS HX).
    Qed.

    (* the effective index of the last exact layer *)
    Definition ke : nat := match m_lel ml with Some k => k | None => length (LF ml) end.
    Definition m1c : mdd :=
      match m_lel m3' with
      | None => with_lel_exact m3' (Some (length (m_layers m3'))) (m_is_exact m3')
      | Some _ => m3' end.

    Lemma m3_facts : m_nodes m3' = m_nodes ml /\ m_edges m3' = m_edges ml /\ m_layers m3' = LF ml /\
                     m_lel m3' = m_lel ml /\ m_cutset m3' = [].
    Proof.
      destruct (pipe3 inp Hclean tb tb2 ml HS HX) as (G1 & G2 & G3 & G4 & G5 & _). cbv zeta in G1, G2, G3, G4, G5.
      split; [exact G1|]. split; [exact G2|]. split; [exact G3|]. split; [exact G4|].
      transitivity (m_cutset ml); [exact G5|apply (X_cutset _ _ _ HX)].
    Qed.

    Lemma m4_eq : m4 = match ci_flavour inp with
                       | CleanLEL => lel_cutset m1c ke
                       | _ => frontier_cutset inp m1c true end.
    Proof.
      destruct m3_facts as (G1 & G2 & G3 & G4 & G5).
      unfold m4, finalize_cutset. cbv zeta. fold m1c. rewrite Hrel. cbn [is_relaxed_ct orb].
      assert (Eke : opt_default 0 (m_lel m1c) = ke).
      { unfold m1c, ke. rewrite <- G4. destruct (m_lel m3') as [k|] eqn:E3; cbn [m_lel with_lel_exact opt_default].
        - rewrite E3. reflexivity.
        - rewrite G3. reflexivity. }
      destruct Hclean as [Hf|Hf]; rewrite Hf; [rewrite Eke|]; reflexivity.
    Qed.

    Lemma gn1c x : gn m1c x = gn ml x.
    Proof. rewrite <- gn3. unfold m1c. destruct (m_lel m3'); reflexivity. Qed.
    Lemma m1c_layers : m_layers m1c = LF ml.
    Proof. destruct m3_facts as (_ & _ & G3 & _). rewrite <- G3. unfold m1c. destruct (m_lel m3'); reflexivity. Qed.
    Lemma m1c_len : length (m_nodes m1c) = length (m_nodes ml).
    Proof. destruct m3_facts as (G1 & _). rewrite <- G1. unfold m1c. destruct (m_lel m3'); reflexivity. Qed.
    Lemma m1c_edge k : get_edge m1c k = get_edge ml k.
    Proof. destruct m3_facts as (_ & G2 & _). apply ge_edges_eq. rewrite <- G2. unfold m1c. destruct (m_lel m3'); reflexivity. Qed.
    Lemma m1c_cutset : m_cutset m1c = [].
    Proof. destruct m3_facts as (_ & _ & _ & _ & G5). rewrite <- G5. unfold m1c. destruct (m_lel m3'); reflexivity. Qed.

    Notation lyf j := (nth j (LF ml) []).

    Lemma lay_uniq j j' x : In x (lyf j) -> In x (lyf j') -> j = j'.
    Proof.
      intros H1 H2. destruct (Nat.lt_trichotomy j j') as [Hlt|[E|Hgt]]; [|exact E|].
      - pose proof (F_ord1 _ _ HFS j j' x x Hlt H1 H2). lia.
      - pose proof (F_ord1 _ _ HFS j' j x x Hgt H2 H1). lia.
    Qed.

    Lemma no_flags_ml x : f_cutset (n_flags (gn ml x)) = false /\ f_above (n_flags (gn ml x)) = false /\
                          f_cache (n_flags (gn ml x)) = false /\ n_theta (gn ml x) = None.
    Proof.
      destruct (Nat.lt_ge_cases x (length (m_nodes ml))) as [Hlt|Hge].
      - unfold Ninv in HN. unfold Ninv2 in HN2. rewrite Forall_forall in HN, HN2.
        destruct (HN (gn ml x)) as (P1 & _); [apply nth_In; exact Hlt|].
        destruct (HN2 (gn ml x)) as (P2 & P3 & P4); [apply nth_In; exact Hlt|]. auto.
      - rewrite (gn_out_of_range inp ml x Hge). repeat split.
    Qed.

    Lemma all_exact_no_lel x : m_lel ml = None -> x < length (m_nodes ml) -> is_ex inp ml x = true.
    Proof. intros Hn Hlt. apply (X_lel_none _ _ _ HX Hn x Hlt). Qed.

    (* the flags of the cut-set stage *)
    Lemma cut_flags j x : In x (lyf j) ->
      (f_cutset (n_flags (gn m4 x)) = true -> is_ex inp ml x = true /\ In x (m_cutset m4)) /\
      (f_above (n_flags (gn m4 x)) = true -> is_ex inp ml x = true) /\
      (forall c eid, is_ex inp ml x = true -> f_above (n_flags (gn m4 x)) = true -> f_cutset (n_flags (gn m4 x)) = false ->
         In c (lyf (S j)) -> In eid (n_inb (gn ml c)) -> e_from (get_edge ml eid) = x ->
         is_ex inp ml c = true /\ f_above (n_flags (gn m4 c)) = true) /\
      (f_above (n_flags (gn m4 x)) = true -> rd + j = N -> ci_flavour inp = CleanLEL -> m_lel ml = None).
    Proof.
      intros Hx. pose proof (F_range _ _ HFS j x Hx) as Hxlt.
      destruct (no_flags_ml x) as (Nc & Na & _).
      rewrite m4_eq. destruct Hclean as [Hf|Hf]; rewrite Hf.
      - (* last exact layer *)
        destruct (lel_cutset_flags m1c ke x) as (L1 & L2 & L3 & L4 & L5). cbv zeta in L1, L2, L3, L4, L5.
        rewrite m1c_layers in L1, L2, L3, L5. rewrite gn1c in L1, L2. rewrite m1c_len in L3, L5.
        assert (Hex_le : forall j' y, j' <= ke -> In y (lyf j') -> is_ex inp ml y = true).
        { intros j' y Hj' Hy. unfold ke in Hj'. destruct (m_lel ml) as [k|] eqn:El.
          - apply (F_lel _ _ HFS k El j' y Hj' Hy).
          - apply all_exact_no_lel; [exact El|apply (F_range _ _ HFS j' y Hy)]. }
        split; [|split; [|split]].
        + intros Hc. destruct (L1 Hc) as [H|H]; [congruence|]. split; [apply (Hex_le ke x (Nat.le_refl _) H)|].
          destruct (lel_cutset_spec inp m1c ke) as [_ Ecs]. rewrite Ecs, m1c_cutset, m1c_layers. simpl.
          assert (Hk : ke < length (LF ml)) by (eapply nth_in_len; eauto).
          rewrite (nth_error_nth' (LF ml) [] Hk). exact H.
        + intros Ha. destruct (L2 Ha) as [H|(j' & Hj' & H)]; [congruence|]. apply (Hex_le j' x Hj' H).
        + intros c eid Hex Ha Hnc Hc Hin Hfrom.
          destruct (L2 Ha) as [H|(j' & Hj' & H)]; [congruence|].
          pose proof (lay_uniq j j' x Hx H). subst j'.
          assert (Hjk : j <> ke).
          { intros ->. rewrite (L5 Hx Hxlt) in Hnc. discriminate. }
          pose proof (F_range _ _ HFS (S j) c Hc) as Hclt.
          split; [apply (Hex_le (S j) c ltac:(lia) Hc)|].
          destruct (lel_cutset_flags m1c ke c) as (_ & _ & C3 & _). cbv zeta in C3.
          rewrite m1c_layers, m1c_len in C3. apply (C3 (S j)); [lia|exact Hc|exact Hclt].
        + intros Ha HjN _. destruct (L2 Ha) as [H|(j' & Hj' & H)]; [congruence|].
          pose proof (lay_uniq j j' x Hx H). subst j'.
          destruct (m_lel ml) as [k|] eqn:El; [exfalso|reflexivity].
          destruct (F_last _ _ HFS j x Hx HjN) as (_ & _ & Hlen).
          pose proof (X_lel_lt _ _ _ HX Hrel k El). unfold ke in Hj'. rewrite El in Hj'. lia.
      - (* frontier *)
        destruct (frontier_flags m1c) as ((FI & Q2 & Q3 & _) & Fab & Fhit).
        { intros y _ Hc. rewrite gn1c in Hc. destruct (no_flags_ml y) as (E & _). congruence. }
        assert (Hexeq : forall y, is_ex inp m1c y = is_ex inp ml y) by (intros y; unfold is_ex; rewrite gn1c; reflexivity).
        split; [|split; [|split]].
        + intros Hc. destruct (Q3 x Hc) as [H|H]; [rewrite gn1c in H; congruence|]. rewrite Hexeq in H. split; [exact H|].
          destruct FI as (_ & F2 & _ & F4). apply F4; [rewrite F2, m1c_len; exact Hxlt|exact Hc].
        + intros Ha. destruct (Q2 x Ha) as [H|H]; [rewrite gn1c in H; congruence|]. rewrite Hexeq in H. exact H.
        + intros c eid Hex Ha Hnc Hc Hin Hfrom.
          pose proof (F_range _ _ HFS (S j) c Hc) as Hclt.
          assert (Hcbu : In c (bottom_up m1c)).
          { unfold bottom_up. rewrite m1c_layers. apply in_concat. exists (lyf (S j)). split; [|exact Hc].
            apply in_rev. rewrite rev_involutive. apply nth_In. eapply nth_in_len; eauto. }
          destruct (is_ex inp ml c) eqn:Exc.
          * split; [reflexivity|]. apply Fab; [exact Hcbu|rewrite m1c_len; exact Hclt|rewrite Hexeq; exact Exc].
          * exfalso. rewrite (Fhit x c eid Hcbu) in Hnc; [discriminate| | | | |].
            -- rewrite Hexeq. exact Exc.
            -- rewrite gn1c. exact Hin.
            -- rewrite m1c_edge. exact Hfrom.
            -- rewrite Hexeq. exact Hex.
            -- rewrite m1c_len. exact Hxlt.
        + intros _ _ E. discriminate.
    Qed.

    (* ---------------------------------------------------------------- any diagram with the static data of m5 *)
    Variable m0 : mdd.
    Hypothesis S_lay : m_layers m0 = LF ml.
    Hypothesis S_edg : m_edges m0 = m_edges ml.
    Hypothesis S_len : length (m_nodes m0) = length (m_nodes ml).
    Hypothesis S_sk : forall x, sk (gn m0 x) = sk (gn m5 x).

    Lemma m0_fields x :
      n_state (gn m0 x) = n_state (gn ml x) /\ n_vtop (gn m0 x) = n_vtop (gn ml x) /\
      n_inb (gn m0 x) = n_inb (gn ml x) /\ n_rub (gn m0 x) = n_rub (gn ml x) /\
      n_depth (gn m0 x) = n_depth (gn ml x) /\ n_flags (gn m0 x) = n_flags (gn m5 x) /\
      n_vbot (gn m0 x) = n_vbot (gn m5 x).
    Proof.
      destruct (sk_fields _ _ (S_sk x)) as (a1 & a2 & a3 & a4 & a5 & a6 & a7).
      destruct (m5_fields x) as (b1 & b2 & b3 & b4 & b5 & _).
      repeat split; congruence.
    Qed.
    Lemma ge0 k : get_edge m0 k = get_edge ml k.
    Proof. apply ge_edges_eq. exact S_edg. Qed.

    Lemma lay_eq j x : lay m0 j x <-> In x (lyf j).
    Proof. unfold lay. rewrite S_lay. reflexivity. Qed.
    Lemma live_eq x : live inp m0 x <-> del ml x = false.
    Proof.
      unfold live, del. destruct (m0_fields x) as (_ & _ & _ & _ & _ & Ef & _). rewrite Ef.
      rewrite (m5_flag f_deleted) by (intros; reflexivity). reflexivity.
    Qed.
    Lemma isex_eq x : isex inp m0 x <-> is_ex inp ml x = true.
    Proof.
      unfold isex, is_ex. destruct (m0_fields x) as (_ & _ & _ & _ & _ & Ef & _). rewrite Ef.
      rewrite (m5_flag fl_is_exact) by (intros; reflexivity). reflexivity.
    Qed.
    Lemma above_eq x : above inp m0 x <-> f_above (n_flags (gn m4 x)) = true.
    Proof.
      unfold above. destruct (m0_fields x) as (_ & _ & _ & _ & _ & Ef & _). rewrite Ef.
      rewrite (m5_cutflag f_above) by (intros; reflexivity). reflexivity.
    Qed.
    Lemma cuts_eq x : cuts inp m0 x <-> f_cutset (n_flags (gn m4 x)) = true.
    Proof.
      unfold cuts. destruct (m0_fields x) as (_ & _ & _ & _ & _ & Ef & _). rewrite Ef.
      rewrite (m5_cutflag f_cutset) by (intros; reflexivity). reflexivity.
    Qed.
    Lemma st_eq x : st inp m0 x = n_state (gn ml x).
    Proof. apply m0_fields. Qed.
    Lemma vt_eq x : vt inp m0 x = n_vtop (gn ml x).
    Proof. apply m0_fields. Qed.
    Lemma rb_eq x : rb inp m0 x = n_rub (gn ml x).
    Proof. apply m0_fields. Qed.
    Lemma inb_eq x : n_inb (gn m0 x) = n_inb (gn ml x).
    Proof. apply m0_fields. Qed.

    Lemma P_range j x : lay m0 j x -> x < length (m_nodes m0).
    Proof. intros H. apply lay_eq in H. rewrite S_len. apply (F_range _ _ HFS j x H). Qed.

    Lemma P_uniq j j' x : lay m0 j x -> lay m0 j' x -> j = j'.
    Proof. intros H1 H2. apply lay_eq in H1. apply lay_eq in H2. eapply lay_uniq; eauto. Qed.

    Lemma P_ord done x rest : bottom_up m0 = done ++ x :: rest ->
      ~ In x done /\
      (forall eid, In eid (n_inb (gn m0 x)) -> ~ In (e_from (get_edge m0 eid)) (done ++ [x])) /\
      (forall j c, lay m0 j x -> lay m0 (S j) c -> In c done).
    Proof.
      intros H. unfold bottom_up in H. rewrite S_lay in H.
      destruct (bu_order (LF ml) (fun y p => exists eid, In eid (n_inb (gn ml y)) /\ p = e_from (get_edge ml eid))
                  (F_ord1 _ _ HFS) (F_ord2 _ _ HFS)) with (done := done) (x := x) (rest := rest) as (B1 & B2 & B3).
      - intros j y p z Hy (eid & Hin & ->) Hz. apply (F_ord3 _ _ HFS j y eid z Hy Hin Hz).
      - exact H.
      - split; [exact B1|]. split.
        + intros eid Hin. rewrite inb_eq in Hin. rewrite ge0. apply B2. exists eid. auto.
        + intros j c Hx Hc. apply lay_eq in Hx. apply lay_eq in Hc. apply (B3 j c Hx Hc).
    Qed.

    Lemma P_efrom j x eid : lay m0 j x -> In eid (n_inb (gn m0 x)) -> e_from (get_edge m0 eid) < length (m_nodes m0).
    Proof.
      intros Hx Hin. apply lay_eq in Hx. rewrite inb_eq in Hin. rewrite ge0, S_len.
      pose proof (F_ord3 _ _ HFS j x eid x Hx Hin Hx). pose proof (F_range _ _ HFS j x Hx). lia.
    Qed.

    Lemma P_depth j x : lay m0 j x -> live inp m0 x -> n_depth (gn m0 x) = rd + j.
    Proof.
      intros Hx Hv. apply lay_eq in Hx. apply live_eq in Hv. destruct (m0_fields x) as (_ & _ & _ & _ & E & _).
      rewrite E. apply (F_dep _ _ HFS j x Hx Hv).
    Qed.

    Lemma P_SC j x s var val : lay m0 j x -> live inp m0 x -> Adm inp cov m0 x s -> rd + j < N -> branched inp m0 x ->
      next_variable pb (rd + j) [] = Some var -> In val (domain pb var s) ->
      let d := {| d_var := var; d_val := val |} in
      exists c eid, lay m0 (S j) c /\ live inp m0 c /\ Adm inp cov m0 c (transition pb s d) /\
        In eid (n_inb (gn m0 c)) /\ e_from (get_edge m0 eid) = x /\ e_dec (get_edge m0 eid) = d /\
        (rcost inp s d <= e_cost (get_edge m0 eid))%Z.
    Proof.
      intros Hx Hv [Hcov Hexs] HjN Hbr Hvar Hval. cbv zeta.
      apply lay_eq in Hx. apply live_eq in Hv.
      unfold branched in Hbr. rewrite rb_eq, vt_eq in Hbr. rewrite st_eq in Hcov.
      destruct (F_exp _ _ HFS j x Hx Hv Hbr s var val Hcov Hvar Hval) as (c & eid & Q1 & Q2 & Q3 & Q4 & Q5 & Q6 & Q7 & Q8 & Q9).
      cbv zeta in Q7, Q8, Q9.
      exists c, eid. split; [apply lay_eq; exact Q1|]. split; [apply live_eq; exact Q2|].
      split.
      - split; [rewrite st_eq; exact Q9|]. intros Hexc. apply isex_eq in Hexc.
        destruct (F_einv _ _ HFS c eid Q3 Q5) as (_ & _ & G3). destruct (G3 Hexc) as (Hexx & Est).
        rewrite Q6 in Hexx, Est. rewrite Q7 in Est. rewrite st_eq, Est.
        rewrite (Hexs (proj2 (isex_eq x) Hexx)), st_eq. reflexivity.
      - rewrite inb_eq, ge0. auto.
    Qed.

    Lemma P_rub j x : lay m0 j x -> rb inp m0 x = IMAX \/ rb inp m0 x = fast_upper_bound rlx (st inp m0 x).
    Proof.
      intros Hx. apply lay_eq in Hx. pose proof (F_range _ _ HFS j x Hx) as Hlt. rewrite rb_eq, st_eq.
      unfold Ninv in HN. rewrite Forall_forall in HN. destruct (HN (gn ml x)) as (_ & _ & P); [apply nth_In; exact Hlt|exact P].
    Qed.

    Lemma P_cache j x : lay m0 j x -> f_cache (n_flags (gn m0 x)) = false.
    Proof.
      intros _. destruct (m0_fields x) as (_ & _ & _ & _ & _ & Ef & _). rewrite Ef.
      rewrite (m5_flag f_cache) by (intros; reflexivity). apply no_flags_ml.
    Qed.

    Lemma P_cut_ex j x : lay m0 j x -> cuts inp m0 x -> isex inp m0 x.
    Proof.
      intros Hx Hc. apply lay_eq in Hx. apply cuts_eq in Hc. apply isex_eq.
      destruct (cut_flags j x Hx) as (C1 & _). apply C1. exact Hc.
    Qed.

    Lemma P_kid j x c eid : lay m0 j x -> live inp m0 x -> isex inp m0 x -> above inp m0 x -> ~ cuts inp m0 x ->
      lay m0 (S j) c -> live inp m0 c -> In eid (n_inb (gn m0 c)) -> e_from (get_edge m0 eid) = x ->
      isex inp m0 c /\ above inp m0 c.
    Proof.
      intros Hx _ Hex Hab Hnc Hc _ Hin Hfrom.
      apply lay_eq in Hx. apply lay_eq in Hc. apply isex_eq in Hex. apply above_eq in Hab.
      rewrite inb_eq in Hin. rewrite ge0 in Hfrom.
      assert (Hnc' : f_cutset (n_flags (gn m4 x)) = false).
      { destruct (f_cutset (n_flags (gn m4 x))) eqn:E; [|reflexivity]. exfalso. apply Hnc. apply cuts_eq. exact E. }
      destruct (cut_flags j x Hx) as (_ & _ & C3 & _).
      destruct (C3 c eid Hex Hab Hnc' Hc Hin Hfrom) as [K1 K2].
      split; [apply isex_eq; exact K1|apply above_eq; exact K2].
    Qed.

    Lemma P_above_ex j x : lay m0 j x -> live inp m0 x -> above inp m0 x -> isex inp m0 x.
    Proof.
      intros Hx _ Hab. apply lay_eq in Hx. apply above_eq in Hab. apply isex_eq.
      destruct (cut_flags j x Hx) as (_ & C2 & _). apply C2. exact Hab.
    Qed.

    Lemma P_real j x : lay m0 j x -> live inp m0 x -> isex inp m0 x -> Start inp j (st inp m0 x) (vt inp m0 x).
    Proof.
      intros Hx Hv Hex. apply lay_eq in Hx. apply live_eq in Hv. apply isex_eq in Hex.
      pose proof (F_range _ _ HFS j x Hx) as Hlt.
      pose proof (Sinv_exact_flag_clean_chain inp ml HS x Hlt Hex) as Hcc.
      destruct (clean_chain_frun inp Hnocut Hwidth Hrd nv_static B HB Hguard ml x HS Hcc Hlt) as (ds & Hr & Hd).
      rewrite (F_dep _ _ HFS j x Hx Hv) in Hd.
      exists ds. rewrite st_eq, vt_eq. split; [exact Hr|]. fold root in Hd. fold rd in Hd. lia.
    Qed.

    (* values along a live path *)
    Lemma lpath_vtop j x s ds y s1 : lpath inp cov m0 j x s ds y s1 ->
      forall v v1, (v <= vt inp m0 x)%Z ->
        (forall ds1 s2 v2, frun pb (rd + j) s v ds1 = Some (s2, v2) -> in_isize v2) ->
        frun pb (rd + j) s v ds = Some (s1, v1) -> (v1 <= vt inp m0 y)%Z.
    Proof.
      intros Hp. induction Hp as [j x s H1 H2 H3|j x s d ds c eid t s' H1 H2 H3 H4 H5 H6 H7 Hp IH]; intros v v1 Hv Hiso Hr.
      - simpl in Hr. inversion Hr; subst. exact Hv.
      - cbn [frun] in Hr.
        destruct (var_ok pb (rd + j) d && in_domain pb s d) eqn:Eg; [|discriminate].
        assert (Hiso1 : in_isize (v + transition_cost pb s (transition pb s d) d)%Z).
        { apply (Hiso [d] (transition pb s d)). cbn [frun]. rewrite Eg. reflexivity. }
        destruct (lpath_start _ _ _ _ _ _ _ _ _ Hp) as (C1 & _ & _).
        apply lay_eq in C1. pose proof (F_range _ _ HFS (S j) c C1) as Hclt.
        rewrite inb_eq in H4. rewrite ge0 in H5, H7.
        destruct (F_einv _ _ HFS c eid Hclt H4) as (_ & G2 & _). rewrite H5 in G2.
        apply (IH (v + transition_cost pb s (transition pb s d) d)%Z v1).
        + rewrite !vt_eq in *. eapply Z.le_trans; [|exact G2]. apply sat_add_ge; [exact Hiso1|].
          unfold rcost in H7. fold pb in H7. lia.
        + intros ds1 s2 v2 Hr2. apply (Hiso (d :: ds1) s2). cbn [frun]. rewrite Eg.
          replace (S (rd + j)) with (rd + S j) by lia. exact Hr2.
        + replace (rd + S j) with (S (rd + j)) by lia. exact Hr.
    Qed.

    Lemma P_vtop j x ds1 y s1 v1 : lay m0 j x -> live inp m0 x -> isex inp m0 x ->
      lpath inp cov m0 j x (st inp m0 x) ds1 y s1 ->
      frun pb (rd + j) (st inp m0 x) (vt inp m0 x) ds1 = Some (s1, v1) -> (v1 <= vt inp m0 y)%Z.
    Proof.
      intros Hx Hv Hex Hp Hr.
      destruct (P_real j x Hx Hv Hex) as (pre & Hpre & Hl).
      apply (lpath_vtop j x _ ds1 y s1 Hp (vt inp m0 x) v1 (Z.le_refl _)); [|exact Hr].
      assert (Hpre' : frun pb rd rs rv pre = Some (st inp m0 x, vt inp m0 x)) by exact Hpre.
      intros ds2 s2 v2 Hr2. destruct (Hguard (pre ++ ds2) s2 v2) as [G1 G2].
      { rewrite frun_app, Hpre', Hl. exact Hr2. }
      unfold in_isize, IMIN, IMAX in *. lia.
    Qed.

    (* ---------------------------------------------------------------- local bounds and the drained cut-set *)
    Lemma LF_old j : j < length (m_layers ml) -> lyf j = nth j (m_layers ml) [].
    Proof.
      intros Hj. unfold LF. destruct (finalize_layers_fields inp Hclean ml) as (_ & _ & _ & _ & F5). rewrite F5.
      destruct (m_next ml); [reflexivity|]. apply app_nth1. exact Hj.
    Qed.

    Lemma lpath_dpath j x s ds T s' : lpath inp cov m0 j x s ds T s' ->
      j + length ds <= length (m_layers ml) -> dpath ml j x s ds T s'.
    Proof.
      intros Hp. induction Hp as [j x s H1 H2 H3|j x s d ds c eid t s' H1 H2 H3 H4 H5 H6 H7 Hp IH]; intros Hlen.
      - apply dp_nil; [rewrite <- S_len; eapply P_range; eauto|]. destruct H3 as [Hc _]. rewrite st_eq in Hc. exact Hc.
      - simpl in Hlen.
        destruct (lpath_start _ _ _ _ _ _ _ _ _ Hp) as (C1 & _ & [C3 _]).
        pose proof (P_range _ _ H1) as Hxlt. pose proof (P_range _ _ C1) as Hclt. rewrite S_len in Hxlt, Hclt.
        rewrite inb_eq in H4. rewrite ge0 in H5, H6, H7. rewrite st_eq in C3.
        destruct (F_einv _ _ HFS c eid Hclt H4) as (He & _).
        apply (dpath_cons ml j x s d c eid); auto.
        + destruct H3 as [Hc _]. rewrite st_eq in Hc. exact Hc.
        + apply lay_eq in H1. rewrite <- LF_old by lia. exact H1.
        + apply IH. lia.
    Qed.

    Lemma mf_field {Y} (g : node -> Y) x : (forall n t, g (set_theta n t) = g n) -> g (gn mf x) = g (gn m5 x).
    Proof. intros Hg. rewrite mf_eq. apply (node_compute_thresholds st_eqb inp Hnocache g). exact Hg. Qed.

    Lemma cuts_lel x : f_cutset (n_flags (gn m4 x)) = true -> exists k, m_lel ml = Some k.
    Proof.
      intros Hc. destruct (m_lel ml) as [k|] eqn:El; [exists k; reflexivity|]. exfalso.
      destruct (no_flags_ml x) as (Nc & _).
      rewrite m4_eq in Hc. destruct Hclean as [Hf|Hf]; rewrite Hf in Hc.
      - destruct (lel_cutset_flags m1c ke x) as (L1 & _). cbv zeta in L1. rewrite m1c_layers, gn1c in L1.
        destruct (L1 Hc) as [H|H]; [congruence|]. unfold ke in H. rewrite El in H.
        rewrite nth_overflow in H by lia. destruct H.
      - rewrite frontier_all_exact in Hc; [rewrite gn1c in Hc; congruence|].
        intros y. unfold is_ex. rewrite gn1c.
        destruct (Nat.lt_ge_cases y (length (m_nodes ml))) as [Hlt|Hge]; [apply (all_exact_no_lel y El Hlt)|].
        rewrite (gn_out_of_range inp ml y Hge). reflexivity.
    Qed.

    Lemma locb_drain j x ds T s' w0 w1 : lay m0 j x -> live inp m0 x -> cuts inp m0 x ->
      lpath inp cov m0 j x (st inp m0 x) ds T s' -> complete inp j ds ->
      frun pb (rd + j) (st inp m0 x) w0 ds = Some (s', w1) ->
      (forall ds1 ds2 s1 v1, ds = ds1 ++ ds2 -> frun pb (rd + j) (st inp m0 x) w0 ds1 = Some (s1, v1) -> in_isize (w1 - v1)) ->
      f_marked (n_flags (gn mf x)) = true /\ (w1 - w0 <= n_vbot (gn mf x))%Z /\ In T (m_next ml).
    Proof.
      intros Hx Hv Hc Hp Hcomp Hr Hiso.
      apply cuts_eq in Hc. destruct (cuts_lel x Hc) as [k Hk].
      destruct (lpath_end _ _ _ _ _ _ _ _ _ Hp) as (T1 & _ & _ & _). apply lay_eq in T1.
      unfold complete in Hcomp. change (rd + j + length ds = N) in Hcomp.
      destruct (F_last _ _ HFS (j + length ds) T T1 ltac:(lia)) as (T2 & T3 & T4).
      pose proof (lpath_dpath j x _ ds T s' Hp ltac:(lia)) as Hdp.
      destruct (locb_from_path st_eqb inp Hclean Hnocache Hnocut Hwidth Hrd cov tb tb2 ml k j x _ w0 ds T s' w1
                  Hrel HS HX Hk T4 T2 T3 Hdp Hr Hiso) as [M1 M2].
      split; [exact M1|]. split; [exact M2|exact T2].
    Qed.

    Lemma P_locb j x ds T s' w0 w1 : lay m0 j x -> live inp m0 x -> cuts inp m0 x ->
      lpath inp cov m0 j x (st inp m0 x) ds T s' -> complete inp j ds ->
      frun pb (rd + j) (st inp m0 x) w0 ds = Some (s', w1) ->
      (forall ds1 ds2 s1 v1, ds = ds1 ++ ds2 -> frun pb (rd + j) (st inp m0 x) w0 ds1 = Some (s1, v1) -> in_isize (w1 - v1)) ->
      (w1 - w0 <= vb inp m0 x)%Z.
    Proof.
      intros Hx Hv Hc Hp Hcomp Hr Hiso.
      destruct (locb_drain j x ds T s' w0 w1 Hx Hv Hc Hp Hcomp Hr Hiso) as (_ & M2 & _).
      unfold vb. destruct (m0_fields x) as (_ & _ & _ & _ & _ & _ & Eb). rewrite Eb.
      rewrite <- (mf_field (@n_vbot St) x) by reflexivity. exact M2.
    Qed.

    Definition Drn (x : nat) : Prop :=
      exists sp, In sp (drain_cutset inp mf) /\ sp_state sp = n_state (gn ml x) /\
                 sp_value sp = n_vtop (gn ml x) /\ sp_depth sp = n_depth (gn ml x).

    Lemma P_drain j x ds T s' w0 w1 : lay m0 j x -> live inp m0 x -> cuts inp m0 x ->
      lpath inp cov m0 j x (st inp m0 x) ds T s' -> complete inp j ds ->
      frun pb (rd + j) (st inp m0 x) w0 ds = Some (s', w1) ->
      (forall ds1 ds2 s1 v1, ds = ds1 ++ ds2 -> frun pb (rd + j) (st inp m0 x) w0 ds1 = Some (s1, v1) -> in_isize (w1 - v1)) ->
      Drn x.
    Proof.
      intros Hx Hv Hc Hp Hcomp Hr Hiso.
      destruct (locb_drain j x ds T s' w0 w1 Hx Hv Hc Hp Hcomp Hr Hiso) as (M1 & _ & HT).
      apply cuts_eq in Hc. apply lay_eq in Hx.
      destruct (cut_flags j x Hx) as (C1 & _). destruct (C1 Hc) as [_ Hin4].
      assert (Hcs : m_cutset mf = m_cutset m4).
      { destruct (compute_local_bounds_keq inp Hclean m4) as (_ & _ & _ & _ & K5). fold m5 in K5.
        destruct (compute_thresholds_keq st_eqb inp m5) as (_ & _ & _ & _ & K6). rewrite mf_eq. congruence. }
      destruct (best_ge st_eqb inp Hclean Hnocache Hnocut Hwidth Hrd tb tb2 ml T HS HX HT) as (b & Hb & _).
      fold mf in Hb.
      unfold Drn, drain_cutset, dd_best_value. rewrite Hb. cbn [option_map].
      eexists. split.
      - apply in_flat_map. exists x. split; [rewrite Hcs; exact Hin4|]. cbv zeta. rewrite M1. left. reflexivity.
      - cbn [sp_state sp_value sp_depth].
        rewrite (mf_field (@n_state St) x), (mf_field (@n_vtop St) x), (mf_field (@n_depth St) x) by reflexivity.
        destruct (m5_fields x) as (b1 & b2 & _ & _ & b5 & _). auto.
    Qed.

    (* ---------------------------------------------------------------- the terminal thresholds are pre-set *)
    Lemma exact_terminal_best x : In x (m_next ml) -> is_ex inp ml x = true -> exists be, m_best_exact mf = Some be.
    Proof.
      intros Hx Hex. destruct (m_has_ebp mf) eqn:Eb.
      - destruct (finalize_hdr st_eqb inp Hclean Hnocache tb tb2 ml) as (_ & _ & _ & H4). cbv zeta in H4. fold mf in H4.
        rewrite Eb in H4. destruct (best_ge st_eqb inp Hclean Hnocache Hnocut Hwidth Hrd tb tb2 ml x HS HX Hx) as (b & Hb & _).
        fold mf in Hb. exists b. rewrite H4. exact Hb.
      - destruct (best_exact_ge st_eqb inp Hclean Hnocache Hnocut Hwidth Hrd tb tb2 ml x HS HX Hx Hex Eb) as (b & Hb & _).
        exists b. exact Hb.
    Qed.

    (* everything _compute_thresholds needs to know about the diagram it starts from *)
    Lemma pre_pack :
      (forall j x, lay m0 j x -> x < length (m_nodes m0)) /\
      (forall j j' x, lay m0 j x -> lay m0 j' x -> j = j') /\
      (forall done x rest, bottom_up m0 = done ++ x :: rest ->
         ~ In x done /\
         (forall eid, In eid (n_inb (gn m0 x)) -> ~ In (e_from (get_edge m0 eid)) (done ++ [x])) /\
         (forall j c, lay m0 j x -> lay m0 (S j) c -> In c done)) /\
      (forall j x eid, lay m0 j x -> In eid (n_inb (gn m0 x)) -> e_from (get_edge m0 eid) < length (m_nodes m0)) /\
      (forall j x, lay m0 j x -> live inp m0 x -> n_depth (gn m0 x) = rd + j) /\
      (forall j x s var val, lay m0 j x -> live inp m0 x -> Adm inp cov m0 x s -> rd + j < N -> branched inp m0 x ->
         next_variable pb (rd + j) [] = Some var -> In val (domain pb var s) ->
         let d := {| d_var := var; d_val := val |} in
         exists c eid, lay m0 (S j) c /\ live inp m0 c /\ Adm inp cov m0 c (transition pb s d) /\
           In eid (n_inb (gn m0 c)) /\ e_from (get_edge m0 eid) = x /\ e_dec (get_edge m0 eid) = d /\
           (rcost inp s d <= e_cost (get_edge m0 eid))%Z) /\
      (forall j x, lay m0 j x -> rb inp m0 x = IMAX \/ rb inp m0 x = fast_upper_bound rlx (st inp m0 x)) /\
      (forall j x, lay m0 j x -> f_cache (n_flags (gn m0 x)) = false) /\
      (forall j x, lay m0 j x -> cuts inp m0 x -> isex inp m0 x) /\
      (forall j x c eid, lay m0 j x -> live inp m0 x -> isex inp m0 x -> above inp m0 x -> ~ cuts inp m0 x ->
         lay m0 (S j) c -> live inp m0 c -> In eid (n_inb (gn m0 c)) -> e_from (get_edge m0 eid) = x ->
         isex inp m0 c /\ above inp m0 c) /\
      (forall j x, lay m0 j x -> live inp m0 x -> isex inp m0 x -> Start inp j (st inp m0 x) (vt inp m0 x)) /\
      (forall j x ds1 y s1 v1, lay m0 j x -> live inp m0 x -> isex inp m0 x ->
         lpath inp cov m0 j x (st inp m0 x) ds1 y s1 ->
         frun pb (rd + j) (st inp m0 x) (vt inp m0 x) ds1 = Some (s1, v1) -> (v1 <= vt inp m0 y)%Z) /\
      (forall j x ds T s' w0 w1, lay m0 j x -> live inp m0 x -> cuts inp m0 x ->
         lpath inp cov m0 j x (st inp m0 x) ds T s' -> complete inp j ds ->
         frun pb (rd + j) (st inp m0 x) w0 ds = Some (s', w1) ->
         (forall ds1 ds2 s1 v1, ds = ds1 ++ ds2 -> frun pb (rd + j) (st inp m0 x) w0 ds1 = Some (s1, v1) -> in_isize (w1 - v1)) ->
         (w1 - w0 <= vb inp m0 x)%Z) /\
      (forall j x ds T s' w0 w1, lay m0 j x -> live inp m0 x -> cuts inp m0 x ->
         lpath inp cov m0 j x (st inp m0 x) ds T s' -> complete inp j ds ->
         frun pb (rd + j) (st inp m0 x) w0 ds = Some (s', w1) ->
         (forall ds1 ds2 s1 v1, ds = ds1 ++ ds2 -> frun pb (rd + j) (st inp m0 x) w0 ds1 = Some (s1, v1) -> in_isize (w1 - v1)) ->
         Drn x) /\
      (forall j x, lay m0 j x -> live inp m0 x -> above inp m0 x -> isex inp m0 x).
    Proof.
      split; [exact P_range|]. split; [exact P_uniq|]. split; [exact P_ord|]. split; [exact P_efrom|].
      split; [exact P_depth|]. split; [exact P_SC|]. split; [exact P_rub|]. split; [exact P_cache|].
      split; [exact P_cut_ex|]. split; [exact P_kid|]. split; [exact P_real|]. split; [exact P_vtop|].
      split; [exact P_locb|]. split; [exact P_drain|exact P_above_ex].
    Qed.

    (* terminal exact nodes above the cut-set: where they are, and what pre-sets their threshold *)
    Lemma terminal_above j x : lay m0 j x -> live inp m0 x -> isex inp m0 x -> above inp m0 x -> rd + j = N ->
      In x (m_next ml) /\ is_ex inp ml x = true /\ (ci_flavour inp = CleanLEL -> m_lel ml = None) /\
      exists be, m_best_exact mf = Some be.
    Proof.
      intros Hx Hv Hex Hab HjN. apply lay_eq in Hx. apply isex_eq in Hex. apply above_eq in Hab.
      destruct (F_last _ _ HFS j x Hx HjN) as (T2 & _ & _).
      destruct (cut_flags j x Hx) as (_ & _ & _ & C4).
      split; [exact T2|]. split; [exact Hex|]. split; [intros Hf; apply (C4 Hab HjN Hf)|].
      apply (exact_terminal_best x T2 Hex).
    Qed.

    (* nodes flagged "above" lie in a layer *)
    Lemma above_in_layer x : f_above (n_flags (gn m4 x)) = true -> exists j, In x (lyf j).
    Proof.
      intros Ha. destruct (no_flags_ml x) as (_ & Na & _).
      rewrite m4_eq in Ha. destruct Hclean as [Hf|Hf]; rewrite Hf in Ha.
      - destruct (lel_cutset_flags m1c ke x) as (_ & L2 & _). cbv zeta in L2. rewrite m1c_layers, gn1c in L2.
        destruct (L2 Ha) as [H|(j & _ & H)]; [congruence|]. exists j. exact H.
      - assert (G : f_above (n_flags (gn m1c x)) = true \/ In x (bottom_up m1c)).
        { revert Ha. rewrite frontier_cutset_unfold.
          apply (MddExact.fold_left_inv (fun a : mdd => f_above (n_flags (gn a x)) = true ->
                   f_above (n_flags (gn m1c x)) = true \/ In x (bottom_up m1c))); [auto|].
          intros a y Hy IHa. unfold fc_step. cbv zeta. destruct (fl_is_exact (n_flags (gn a y))).
          - destruct (upd_flag_cases a y (fun f => fl_set_above f true) x) as [E|(-> & _ & E)]; cbv beta in E; rewrite E; [exact IHa|].
            intros _. right. exact Hy.
          - rewrite (fold_left_proj (fun b : mdd => f_above (n_flags (gn b x)))); [exact IHa|].
            intros b eid. unfold fc_inner. cbv zeta. destruct (_ && _); [|reflexivity].
            rewrite (get_node_upd_node_proj inp (fun n => f_above (n_flags n))) by (intros n; reflexivity). reflexivity. }
        destruct G as [G|G]; [rewrite gn1c in G; congruence|].
        unfold bottom_up in G. rewrite m1c_layers in G. apply in_concat in G. destruct G as (l0 & Hl0 & Hx).
        apply in_rev in Hl0. apply (In_nth _ _ []) in Hl0. destruct Hl0 as (j & _ & Ej). exists j. rewrite Ej. exact Hx.
    Qed.
  End Final.
End Loop.


(* ================================================================== 4. with and without the cache *)
Local Open Scope nat_scope.

(* ================================================================== the same input without the cache *)
Definition nc {St} (i : @cinput St) : @cinput St :=
  {| ci_flavour := ci_flavour i; ci_type := ci_type i; ci_problem := ci_problem i; ci_relax := ci_relax i;
     ci_ranking := ci_ranking i; ci_domcmp := ci_domcmp i; ci_width := ci_width i; ci_root := ci_root i;
     ci_best_lb := ci_best_lb i; ci_use_cache := false; ci_domrule := ci_domrule i; ci_cutoff := ci_cutoff i |}.

Section CacheFrame.
  Context {St : Type}.
  Variable st_eqb : St -> St -> bool.
  Variable inp : @cinput St.
  Notation mdd := (@mdd St).
  Notation mc := (fun a : mdd => m_cache a).

  Lemma mc_append_edge (m : mdd) e : m_cache (append_edge inp m e) = m_cache m.
  Proof. reflexivity. Qed.
  Lemma mc_branch_on (m : mdd) id d : m_cache (branch_on st_eqb inp m id d) = m_cache m.
  Proof.
    unfold branch_on. cbv zeta.
    match goal with |- context [find_next ?a ?b ?c ?d] => destruct (find_next a b c d) end; reflexivity.
  Qed.
  Lemma mc_expand_node var (m : mdd) id : m_cache (expand_node st_eqb inp var m id) = m_cache m.
  Proof.
    unfold expand_node. cbv zeta. destruct (_ >? _)%Z; [|reflexivity].
    rewrite (fold_left_proj mc); [reflexivity|]. intros a x. apply mc_branch_on.
  Qed.
  Lemma mc_cache_get (m : mdd) s d : m_cache (fst (cache_get st_eqb inp m s d)) = m_cache m.
  Proof.
    unfold cache_get. destruct (ci_use_cache inp); [|reflexivity].
    destruct (get_threshold _ _ _ _); reflexivity.
  Qed.
  Lemma mc_filter_with_cache l : forall (m : mdd), m_cache (fst (filter_with_cache st_eqb inp m l)) = m_cache m.
  Proof.
    induction l as [|id l IH]; intros m; [reflexivity|].
    cbn [filter_with_cache]. cbv zeta.
    pose proof (mc_cache_get m (n_state (get_node inp m id)) (n_depth (get_node inp m id))) as Hg.
    destruct (cache_get st_eqb inp m (n_state (get_node inp m id)) (n_depth (get_node inp m id))) as [m1 th].
    cbn [fst] in Hg. destruct th as [t|].
    - destruct (_ >? _)%Z.
      + specialize (IH m1). destruct (filter_with_cache st_eqb inp m1 l) as [m2 r]. cbn [fst] in *. congruence.
      + match goal with |- context [filter_with_cache st_eqb inp ?mm l] => specialize (IH mm) end.
        rewrite IH. exact Hg.
    - specialize (IH m1). destruct (filter_with_cache st_eqb inp m1 l) as [m2 r]. cbn [fst] in *. congruence.
  Qed.
  Lemma mc_dom_query (m : mdd) s d v : m_cache (fst (dom_query inp m s d v)) = m_cache m.
  Proof.
    unfold dom_query. destruct (ci_domrule inp) as [[[[key nd] coord] usev]|]; [|reflexivity].
    destruct (is_dominated_or_insert _ _ _ _ _ _ _ _ _) as [[st' r]|]; reflexivity.
  Qed.
  Lemma mc_dom_retain l : forall (m : mdd), m_cache (fst (dom_retain inp m l)) = m_cache m.
  Proof.
    induction l as [|id l IH]; intros m; [reflexivity|].
    cbn [dom_retain]. cbv zeta. destruct (fl_is_exact _).
    - pose proof (mc_dom_query m (n_state (get_node inp m id)) (n_depth (get_node inp m id)) (n_vtop (get_node inp m id))) as Hq.
      destruct (dom_query inp m _ _ _) as [m1 r]. cbn [fst] in Hq. destruct (dc_dominated r).
      + match goal with |- context [dom_retain inp ?mm l] => specialize (IH mm) end. rewrite IH. exact Hq.
      + specialize (IH m1). destruct (dom_retain inp m1 l) as [m2 k]. cbn [fst] in *. congruence.
    - specialize (IH m). destruct (dom_retain inp m l) as [m2 k]. cbn [fst] in *. exact IH.
  Qed.
  Lemma mc_note_squash (m : mdd) : m_cache (note_squash inp m) = m_cache m.
  Proof. unfold note_squash. destruct (is_pooled _); [reflexivity|]. destruct (m_lel m); reflexivity. Qed.
  Lemma mc_redirect_edges (m : mdd) mg mid did : m_cache (redirect_edges inp m mg mid did) = m_cache m.
  Proof. unfold redirect_edges. apply (fold_left_proj mc). intros; reflexivity. Qed.
  Lemma mc_squash (m : mdd) l : m_cache (fst (squash_if_needed st_eqb inp m l)) = m_cache m.
  Proof.
    unfold squash_if_needed. destruct (ci_type inp); [reflexivity| |].
    - destruct (_ && _); [|reflexivity]. unfold relax_layer. cbv zeta.
      destruct (ci_width inp) as [|w1]; [cbn [fst]; apply mc_note_squash|].
      match goal with |- context [find ?f ?k] => destruct (find f k) end; cbn [fst].
      + cbn [m_cache upd_node with_nodes]. rewrite (fold_left_proj mc).
        * cbn [m_cache upd_node with_nodes add_log]. apply mc_note_squash.
        * intros a x. rewrite mc_redirect_edges. reflexivity.
      + rewrite (fold_left_proj mc).
        * cbn [m_cache upd_node with_nodes add_log]. apply mc_note_squash.
        * intros a x. rewrite mc_redirect_edges. reflexivity.
    - destruct (_ <? _); [|reflexivity]. unfold restrict_layer. cbv zeta. cbn [fst]. unfold mark_deleted.
      rewrite (fold_left_proj mc); [apply mc_note_squash|]. intros; reflexivity.
  Qed.
  Lemma mc_move (m : mdd) : m_cache (fst (move_to_next_layer_clean st_eqb inp m)) = m_cache m.
  Proof.
    rewrite move_clean_unfold. destruct (m_next m) as [|c0 cs]; [reflexivity|].
    set (curr := c0 :: cs).
    assert (Hb : m_cache (fst (prefilter st_eqb inp (with_next m []) curr)) = m_cache m).
    { unfold prefilter. destruct (Nat.ltb 0 _); [rewrite mc_filter_with_cache; reflexivity|reflexivity]. }
    destruct (prefilter st_eqb inp (with_next m []) curr) as [mb lb0]. cbn [fst] in Hb.
    assert (Hc : m_cache (fst (filter_with_dominance inp mb lb0)) = m_cache mb).
    { unfold filter_with_dominance. apply mc_dom_retain. }
    destruct (filter_with_dominance inp mb lb0) as [mc0 lc]. cbn [fst] in Hc.
    pose proof (mc_squash mc0 lc) as Hd.
    destruct (squash_if_needed st_eqb inp mc0 lc) as [md ld]. cbn [fst m_cache push_layer] in *. congruence.
  Qed.
  Hypothesis Hclean : ci_flavour inp = CleanLEL \/ ci_flavour inp = CleanFC.
  Lemma mc_layer_loop : forall fuel (m : mdd), m_cache (fst (layer_loop st_eqb inp fuel m)) = m_cache m.
  Proof.
    induction fuel as [|fuel IH]; intros m; [reflexivity|].
    rewrite layer_loop_iteration. cbv zeta.
    destruct (next_variable _ _ _) as [var|]; [|reflexivity].
    destruct (_ && _); [reflexivity|].
    unfold loop_move. rewrite (not_pooled inp Hclean).
    match goal with |- context [move_to_next_layer_clean st_eqb inp ?mm] =>
      pose proof (mc_move mm) as Hmv; destruct (move_to_next_layer_clean st_eqb inp mm) as [m3 ol] end.
    cbn [fst] in Hmv. destruct ol as [l|]; [|exact Hmv].
    rewrite IH. cbn [m_cache with_depth].
    rewrite (fold_left_proj mc) by (intros a x; apply mc_expand_node). exact Hmv.
  Qed.
End CacheFrame.

Section Twin.
  Context {St : Type}.
  Variable st_eqb : St -> St -> bool.
  Variable inp : @cinput St.
  Notation mdd := (@mdd St).
  Notation inp' := (nc inp).

  Lemma tw_gn (m : mdd) x : get_node inp' m x = get_node inp m x.
  Proof. reflexivity. Qed.
  Lemma tw_expand_node var (m : mdd) id : expand_node st_eqb inp' var m id = expand_node st_eqb inp var m id.
  Proof. reflexivity. Qed.
  Lemma tw_initialize c ds p : initialize inp' c ds p = initialize inp c ds p.
  Proof. reflexivity. Qed.
  Lemma tw_filter_with_dominance (m : mdd) l : filter_with_dominance inp' m l = filter_with_dominance inp m l.
  Proof. reflexivity. Qed.
  Lemma tw_squash (m : mdd) l : squash_if_needed st_eqb inp' m l = squash_if_needed st_eqb inp m l.
  Proof. reflexivity. Qed.
  Lemma tw_finalize_layers (m : mdd) : finalize_layers inp' m = finalize_layers inp m.
  Proof. reflexivity. Qed.
  Lemma tw_find_best_node a b (m : mdd) : find_best_node inp' a b m = find_best_node inp a b m.
  Proof. reflexivity. Qed.
  Lemma tw_finalize_exact (m : mdd) : finalize_exact inp' m = finalize_exact inp m.
  Proof. reflexivity. Qed.
  Lemma tw_finalize_cutset (m : mdd) : finalize_cutset inp' m = finalize_cutset inp m.
  Proof. reflexivity. Qed.
  Lemma tw_compute_local_bounds (m : mdd) : compute_local_bounds inp' m = compute_local_bounds inp m.
  Proof. reflexivity. Qed.
  Lemma tw_drain (m : mdd) : drain_cutset inp' m = drain_cutset inp m.
  Proof. reflexivity. Qed.
End Twin.

(* ================================================================== the bridge: an empty cache changes nothing before _compute_thresholds *)
Definition blank {St} (N : nat) (c : @cache St) : Prop :=
  (forall d l, nth_error c d = Some l -> l = []) /\ N < length c.

Lemma blank_init {St} N : @blank St N (init_cache N).
Proof.
  unfold init_cache. split.
  - intros d l H. apply nth_error_In in H. apply repeat_spec in H. exact H.
  - rewrite repeat_length. lia.
Qed.


(* ================================================================== the statement *)
Definition bk_of {St} (inp : @cinput St) (m : @mdd St) : Z :=
  match m_best_exact m with
  | Some be => Z.max (ci_best_lb inp) (n_vtop (get_node inp m be))
  | None => ci_best_lb inp
  end.

(* arriving at (depth k, state s) with value v is hopeless or taken care of by a sub-problem of the cut-set of m *)
Definition Safe {St} (inp : @cinput St) (m : @mdd St) (k : nat) (s : St) (v : Z) : Prop :=
  forall ds s' v', frun (ci_problem inp) k s v ds = Some (s', v') -> k + length ds = nb_vars (ci_problem inp) ->
    (v' <= bk_of inp m)%Z \/
    exists x ds1 ds2 s1 w, In x (drain_cutset inp m) /\ ds = ds1 ++ ds2 /\
      frun (ci_problem inp) k s v ds1 = Some (s1, w) /\
      sp_depth x = k + length ds1 /\ sp_state x = s1 /\ (w <= sp_value x)%Z.

Section Bridge.
  Context {St : Type}.
  Variable st_eqb : St -> St -> bool.
  Hypothesis st_eqb_spec : forall a b, st_eqb a b = true <-> a = b.
  Variable inp : @cinput St.
  Notation inp' := (nc inp).
  Let pb := ci_problem inp.
  Let rlx := ci_relax inp.
  Let lb := ci_best_lb inp.
  Let N := nb_vars pb.
  Let rd := sp_depth (ci_root inp).
  Let rs := sp_state (ci_root inp).
  Let rv := sp_value (ci_root inp).
  Hypothesis Hclean : ci_flavour inp = CleanLEL \/ ci_flavour inp = CleanFC.
  Hypothesis Hnodom : ci_domrule inp = None.
  Hypothesis Hnocut : ci_cutoff inp = 0.
  Hypothesis Hwidth : 1 <= ci_width inp.
  Hypothesis Hrel : ci_type inp = Relaxed.
  Hypothesis Hrd : rd <= N.
  Hypothesis nv_static : forall k l1 l2, next_variable pb k l1 = next_variable pb k l2.
  Hypothesis nv_some : forall k l, k < N -> exists x, next_variable pb k l = Some x.
  Hypothesis nv_none : forall k l, N <= k -> next_variable pb k l = None.
  Variable cov : St -> St -> Prop.
  Hypothesis cov_refl : forall s, cov s s.
  Hypothesis cov_sim : forall s s' x v, cov s s' -> In v (domain pb x s') ->
    let d := {| d_var := x; d_val := v |} in
    In v (domain pb x s) /\ cov (transition pb s d) (transition pb s' d) /\
    (transition_cost pb s' (transition pb s' d) d <= transition_cost pb s (transition pb s d) d)%Z.
  Hypothesis merge_cov : forall L s s', In s L -> cov s s' -> cov (merge rlx L) s'.
  Hypothesis relax_ge : forall src dst mg d c, (c <= relax rlx src dst mg d c)%Z.
  Hypothesis rub_adm : forall k s s' h, cov s s' -> H pb k s' = Some h -> (h <= fast_upper_bound rlx s)%Z.
  Variable B : Z.
  Hypothesis HB : (2 * B <= IMAX)%Z.
  Hypothesis Hguard : forall ds s' v', frun pb rd rs rv ds = Some (s', v') -> (- B <= v' <= B)%Z.

  Notation mdd := (@mdd St).
  Notation node := (@node St).
  Notation gn := (get_node inp).

  Lemma Hnocache' : ci_use_cache inp' = false.
  Proof. reflexivity. Qed.

  Lemma tw_fwc l : forall (m : mdd), blank N (m_cache m) ->
    (forall id, In id l -> n_depth (gn m id) <= N) ->
    filter_with_cache st_eqb inp m l = filter_with_cache st_eqb inp' m l.
  Proof.
    induction l as [|id l IH]; intros m Hb Hd; [reflexivity|].
    cbn [filter_with_cache]. cbv zeta.
    set (s := n_state (gn m id)). set (d := n_depth (gn m id)).
    change (n_state (get_node inp' m id)) with s. change (n_depth (get_node inp' m id)) with d.
    assert (Hdl : d <= N) by (apply Hd; left; reflexivity).
    assert (Hg : cache_get st_eqb inp m s d = (add_log m (EvCacheGet s d), None)).
    { unfold cache_get. destruct (ci_use_cache inp); [|reflexivity].
      cbn [m_cache add_log]. unfold get_threshold.
      destruct Hb as [Hb1 Hb2]. destruct (nth_error (m_cache m) d) as [l0|] eqn:En.
      - rewrite (Hb1 d l0 En). reflexivity.
      - apply nth_error_None in En. lia. }
    rewrite Hg. change (cache_get st_eqb inp' m s d) with (add_log m (EvCacheGet s d), @None threshold).
    cbv iota beta.
    rewrite (IH (add_log m (EvCacheGet s d))); [reflexivity|exact Hb|].
    intros y Hy. apply Hd. right; exact Hy.
  Qed.

  Lemma tw_move (m : mdd) : blank N (m_cache m) -> (forall id, In id (m_next m) -> n_depth (gn m id) <= N) ->
    move_to_next_layer_clean st_eqb inp m = move_to_next_layer_clean st_eqb inp' m.
  Proof.
    intros Hb Hd. rewrite !move_clean_unfold. destruct (m_next m) as [|c0 cs] eqn:En; [reflexivity|].
    unfold prefilter. change (m_layers (with_next m [])) with (m_layers m).
    destruct (Nat.ltb 0 (length (m_layers m))); [|reflexivity].
    rewrite (tw_fwc (c0 :: cs) (with_next m [])); [reflexivity|exact Hb|].
    intros id Hid. apply Hd. exact Hid.
  Qed.

  Lemma tw_layer_loop : forall fuel (m : mdd), TI inp' cov m -> blank N (m_cache m) ->
    layer_loop st_eqb inp fuel m = layer_loop st_eqb inp' fuel m.
  Proof.
    induction fuel as [|fuel IH]; intros m HT Hb; [reflexivity|].
    rewrite !layer_loop_iteration. cbv zeta.
    change (ci_problem inp') with (ci_problem inp). change (ci_cutoff inp') with (ci_cutoff inp).
    change (fun id => n_state (get_node inp' m id)) with (fun id => n_state (gn m id)).
    set (states := map (fun id => n_state (gn m id)) (m_next m)).
    destruct (next_variable (ci_problem inp) (m_curr_depth m) states) as [var|] eqn:Eov; [|reflexivity].
    set (m1 := add_log m (EvNextVar (m_curr_depth m) states (Some var))).
    set (m2 := with_polls m1 (S (m_polls m1))).
    rewrite Hnocut. cbn [Nat.ltb Nat.leb andb].
    unfold loop_move. change (ci_flavour inp') with (ci_flavour inp). rewrite (not_pooled inp Hclean).
    pose proof (T_C _ _ _ HT) as (HD & HX & Hnd & HE). pose proof (T_d2 _ _ _ HT) as Hd2.
    assert (Hdep : forall id, In id (m_next m2) -> n_depth (gn m2 id) <= N).
    { intros id Hid. change (n_depth (get_node inp' m id) <= N). rewrite (Hnd id Hid). exact Hd2. }
    rewrite (tw_move m2 Hb Hdep).
    destruct (m_next m) as [|c0 cs] eqn:En.
    - rewrite move_clean_unfold. change (m_next m2) with (m_next m). rewrite En. reflexivity.
    - assert (HdN : m_curr_depth m < N).
      { destruct (Nat.lt_ge_cases (m_curr_depth m) N) as [Hlt|Hge]; [exact Hlt|].
        pose proof (nv_none (m_curr_depth m) states Hge) as Hn. unfold pb in Hn. rewrite Hn in Eov. discriminate. }
      assert (Hvar : next_variable (ci_problem inp') (m_curr_depth m) [] = Some var).
      { change (next_variable pb (m_curr_depth m) [] = Some var). rewrite (nv_static _ [] states). exact Eov. }
      destruct (iter_TI st_eqb st_eqb_spec inp' Hclean Hnocache' Hnodom Hnocut Hwidth Hrel Hrd cov cov_sim merge_cov relax_ge
                  m var (EvNextVar (m_curr_depth m) states (Some var)) (S (m_polls m1)) HT HdN Hvar)
        as (m3 & l & Emv & HT5).
      { rewrite En. discriminate. }
      cbv zeta in HT5. fold m1 in Emv. fold m2 in Emv. rewrite Emv.
      change (fold_left (expand_node st_eqb inp var) l m3) with (fold_left (expand_node st_eqb inp' var) l m3).
      set (m4 := fold_left (expand_node st_eqb inp' var) l m3) in *.
      apply IH; [exact HT5|].
      change (blank N (m_cache m4)). unfold m4.
      rewrite (fold_left_proj (fun a : mdd => m_cache a)) by (intros a x; apply mc_expand_node).
      pose proof (mc_move st_eqb inp' m2) as Hm. rewrite Emv in Hm. cbn [fst] in Hm. rewrite Hm. exact Hb.
  Qed.

  (* ---------------------------------------------------------------- small frames *)
  Lemma lpath_tw (m0 : mdd) j x s ds t s' : lpath inp cov m0 j x s ds t s' -> lpath inp' cov m0 j x s ds t s'.
  Proof.
    intros H. induction H as [j x s H1 H2 H3|j x s d ds c eid t s' H1 H2 H3 H4 H5 H6 H7 Hp IH].
    - exact (lp_nil inp' cov m0 j x s H1 H2 H3).
    - exact (lp_cons inp' cov m0 j x s d ds c eid t s' H1 H2 H3 H4 H5 H6 H7 IH).
  Qed.

  Lemma th_preset_frame bk (m : mdd) :
    let a := th_preset inp bk m in
    m_layers a = m_layers m /\ m_edges a = m_edges m /\ length (m_nodes a) = length (m_nodes m) /\
    m_cache a = m_cache m /\ (forall x, sk (gn a x) = sk (gn m x)) /\ m_is_exact a = m_is_exact m.
  Proof.
    cbv zeta. unfold th_preset.
    apply (MddExact.fold_left_inv (fun a : mdd => m_layers a = m_layers m /\ m_edges a = m_edges m /\
             length (m_nodes a) = length (m_nodes m) /\ m_cache a = m_cache m /\
             (forall x, sk (gn a x) = sk (gn m x)) /\ m_is_exact a = m_is_exact m)).
    - repeat split; reflexivity.
    - intros a id _ (A1 & A2 & A3 & A4 & A5 & A6). cbv zeta.
      match goal with |- context [if ?c then _ else _] => destruct c end; [|repeat split; assumption].
      split; [exact A1|]. split; [exact A2|]. split; [cbn [m_nodes upd_node with_nodes]; rewrite upd_nth_length; exact A3|].
      split; [exact A4|]. split; [|exact A6].
      intros x. rewrite <- A5. destruct (Nat.eq_dec id x) as [<-|Hne].
      + destruct (Nat.lt_ge_cases id (length (m_nodes a))) as [Hlt|Hge].
        * rewrite gn_upd_same by exact Hlt. apply sk_set_theta.
        * rewrite gn_upd_out by exact Hge. reflexivity.
      + rewrite gn_upd_other by exact Hne. reflexivity.
  Qed.

  Lemma th_preset_theta bk (m : mdd) x : In x (m_next m) -> x < length (m_nodes m) ->
    (ci_flavour inp = CleanLEL -> m_is_exact m = true) ->
    fl_is_exact (n_flags (gn m x)) = true ->
    theta_of inp (th_preset inp bk m) x = Some bk.
  Proof.
    intros Hx Hlt Hlel Hex. unfold th_preset.
    set (Inv := fun a : mdd => length (m_nodes a) = length (m_nodes m) /\ (forall y, sk (gn a y) = sk (gn m y)) /\
                               m_is_exact a = m_is_exact m).
    assert (Hstep : forall a id, Inv a -> Inv (let cond := match ci_flavour inp with
                                       | CleanLEL => m_is_exact a | _ => fl_is_exact (n_flags (gn a id)) end in
                                     if cond then upd_node a id (fun n => set_theta n (Some bk)) else a)).
    { intros a id (A3 & A5 & A6). cbv zeta.
      match goal with |- context [if ?c then _ else _] => destruct c end; [|repeat split; assumption].
      split; [cbn [m_nodes upd_node with_nodes]; rewrite upd_nth_length; exact A3|]. split; [|exact A6].
      intros y. rewrite <- A5. destruct (Nat.eq_dec id y) as [<-|Hne].
      + destruct (Nat.lt_ge_cases id (length (m_nodes a))) as [Hl|Hge].
        * rewrite gn_upd_same by exact Hl. apply sk_set_theta.
        * rewrite gn_upd_out by exact Hge. reflexivity.
      + rewrite gn_upd_other by exact Hne. reflexivity. }
    apply (fold_left_hit Inv (fun a : mdd => theta_of inp a x = Some bk) _ (m_next m) m x Hx).
    - repeat split; reflexivity.
    - intros a y _ Ha. apply Hstep. exact Ha.
    - intros a (A3 & A5 & A6). cbv zeta.
      assert (Hc : match ci_flavour inp with CleanLEL => m_is_exact a | _ => fl_is_exact (n_flags (gn a x)) end = true).
      { destruct (sk_fields _ _ (A5 x)) as (_ & _ & _ & _ & Ef & _).
        destruct (ci_flavour inp) eqn:Ef'; [rewrite A6; apply Hlel; reflexivity|rewrite Ef; exact Hex|rewrite Ef; exact Hex]. }
      rewrite Hc. unfold theta_of. rewrite gn_upd_same by lia. reflexivity.
    - intros a y _ (A3 & A5 & A6) Hp. cbv zeta.
      match goal with |- context [if ?c then _ else _] => destruct c end; [|exact Hp].
      unfold theta_of in *. destruct (Nat.eq_dec y x) as [->|Hne].
      + rewrite gn_upd_same by lia. reflexivity.
      + rewrite gn_upd_other by exact Hne. exact Hp.
  Qed.

  Lemma walk_up_eq fuel : forall (a b : mdd) oe,
    (forall x, n_best (gn a x) = n_best (gn b x)) -> (forall k, get_edge a k = get_edge b k) ->
    walk_up inp fuel a oe = walk_up inp fuel b oe.
  Proof.
    induction fuel as [|fuel IH]; intros a b oe Hn He; [reflexivity|].
    cbn [walk_up]. destruct oe as [eid|]; [|reflexivity]. rewrite He, Hn. f_equal. apply IH; assumption.
  Qed.

  Lemma drain_eq (a b : mdd) :
    (forall x, sk (gn a x) = sk (gn b x)) -> m_edges a = m_edges b -> m_path a = m_path b ->
    m_best a = m_best b -> m_cutset a = m_cutset b -> length (m_nodes a) = length (m_nodes b) ->
    drain_cutset inp a = drain_cutset inp b.
  Proof.
    intros Hs He Hp Hb Hc Hl.
    assert (Hf : forall x, n_state (gn a x) = n_state (gn b x) /\ n_vtop (gn a x) = n_vtop (gn b x) /\
               n_vbot (gn a x) = n_vbot (gn b x) /\ n_rub (gn a x) = n_rub (gn b x) /\
               n_flags (gn a x) = n_flags (gn b x) /\ n_depth (gn a x) = n_depth (gn b x) /\ n_best (gn a x) = n_best (gn b x)).
    { intros x. destruct (sk_fields _ _ (Hs x)) as (a1 & a2 & a3 & a4 & a5 & a6 & a7).
      repeat split; auto. pose proof (f_equal (@n_best St) (Hs x)) as E. exact E. }
    unfold drain_cutset, dd_best_value. rewrite Hb.
    destruct (m_best b) as [bb|]; [|reflexivity]. cbn [option_map].
    destruct (Hf bb) as (_ & Ev & _). rewrite Ev. rewrite Hc.
    apply flat_map_ext. intros id. cbv zeta.
    destruct (Hf id) as (f1 & f2 & f3 & f4 & f5 & f6 & f7).
    rewrite f1, f2, f3, f4, f5, f6.
    unfold best_path. rewrite Hp, Hl, f7.
    rewrite (walk_up_eq _ a b); [reflexivity|intros x; apply Hf|intros k; apply ge_edges_eq; exact He].
  Qed.

  (* ---------------------------------------------------------------- the theorem *)
  Theorem thresholds_sound tb tb2 c ds polls (m : mdd) :
    blank N c -> compile st_eqb inp tb tb2 c ds polls = (m, Compiled) ->
    (forall u t, f_above (n_flags (gn m u)) = true -> f_deleted (n_flags (gn m u)) = false ->
       n_theta (gn m u) = Some t -> forall v, (IMIN + 2 * B < v)%Z -> (v <= t)%Z ->
       Safe inp m (n_depth (gn m u)) (n_state (gn m u)) v) /\
    (forall d l s th, nth_error (m_cache m) d = Some l -> In (s, th) l ->
       forall v, (IMIN + 2 * B < v)%Z -> (v <= th_value th)%Z -> Safe inp m d s v).
  Proof.
    intros Hblank Hc.
    unfold compile in Hc. cbv zeta in Hc.
    set (fuel := S (S (nb_vars (ci_problem inp)))) in *.
    assert (HT0 : TI inp' cov (initialize inp c ds polls)).
    { exact (TI_initialize inp' Hnocut Hwidth Hrd cov cov_refl c ds polls). }
    rewrite (tw_layer_loop fuel (initialize inp c ds polls) HT0 Hblank) in Hc.
    destruct (layer_loop st_eqb inp' fuel (initialize inp c ds polls)) as [ml e] eqn:El.
    destruct e; [|discriminate|discriminate]. inversion Hc; subst m. clear Hc.
    (* the loop, seen from the cache-less side *)
    pose proof (layer_loop_TI st_eqb st_eqb_spec inp' Hclean Hnocache' Hnodom Hnocut Hwidth Hrel Hrd nv_static nv_some nv_none
                  cov cov_sim merge_cov relax_ge fuel _ ml HT0 El) as HFS.
    destruct (layer_loop_Sinv st_eqb st_eqb_spec inp' Hclean fuel c ds polls) as [HS HX].
    change (initialize inp' c ds polls) with (initialize inp c ds polls) in HS, HX. rewrite El in HS, HX. cbn [fst] in HS, HX.
    pose proof (layer_loop_Ninv st_eqb inp' Hclean Hnocache' Hnodom Hnocut Hwidth Hrd fuel _ (Ninv_initialize inp' c ds polls)) as HN.
    change (initialize inp' c ds polls) with (initialize inp c ds polls) in HN. rewrite El in HN. cbn [fst] in HN.
    pose proof (layer_loop_Ninv2 st_eqb inp' Hclean Hnocache' Hnodom Hnocut Hwidth Hrel Hrd fuel _ (Ninv2_initialize inp' c ds polls)) as HN2.
    change (initialize inp' c ds polls) with (initialize inp c ds polls) in HN2. rewrite El in HN2. cbn [fst] in HN2.
    assert (Hcml : m_cache ml = c).
    { pose proof (mc_layer_loop st_eqb inp' Hclean fuel (initialize inp c ds polls)) as Hm.
      rewrite El in Hm. exact Hm. }
    (* the diagram handed to _compute_thresholds is the same on both sides *)
    set (m5 := compute_local_bounds inp' (finalize_cutset inp' (finalize_exact inp'
                 (find_best_node inp' tb tb2 (finalize_layers inp' ml))))).
    set (mf' := finalize st_eqb inp' tb tb2 ml).
    assert (Em : finalize st_eqb inp tb tb2 ml = compute_thresholds st_eqb inp m5).
    { unfold finalize, m5.
      rewrite tw_compute_local_bounds, tw_finalize_cutset, tw_finalize_exact, tw_find_best_node, tw_finalize_layers.
      reflexivity. }
    rewrite Em. clear Em.
    assert (Emf' : mf' = compute_thresholds st_eqb inp' m5) by reflexivity.
    pose proof (m5_layers inp' Hclean tb tb2 ml HS HX) as L5. fold m5 in L5.
    pose proof (m5_edges inp' Hclean tb tb2 ml HS HX) as E5. fold m5 in E5.
    pose proof (m5_len inp' Hclean tb tb2 ml HS HX) as N5. fold m5 in N5.
    assert (Hins : MddProgress.insens (fun a : mdd => m_cache a)) by (repeat split).
    assert (C5 : m_cache m5 = c).
    { rewrite <- Hcml. unfold m5.
      rewrite (MddProgress.ins_compute_local_bounds inp' _ Hins).
      rewrite (MddProgress.ins_finalize_cutset inp' Hclean _ Hins) by (intros; reflexivity).
      unfold finalize_exact, find_best_node, finalize_layers. cbv zeta. rewrite (not_pooled inp' Hclean).
      destruct (m_next ml); reflexivity. }
    set (M := compute_thresholds st_eqb inp m5).
    destruct (compute_thresholds_keq st_eqb inp m5) as ((KE & KP & KL & KC) & KN & KB & KBE & KCS). fold M in KE, KP, KL, KC, KN, KB, KBE, KCS.
    assert (Hnext5 : m_next m5 = m_next ml).
    { assert (Hi : MddProgress.insens (fun a : mdd => m_next a)) by (repeat split). unfold m5.
      rewrite (MddProgress.ins_compute_local_bounds inp' _ Hi).
      rewrite (MddProgress.ins_finalize_cutset inp' Hclean _ Hi) by (intros; reflexivity).
      change (m_next (finalize_layers inp' ml) = m_next ml). apply (finalize_layers_fields inp' Hclean ml). }
    assert (Hex5 : m_is_exact m5 = match m_lel ml with None => true | Some _ => false end).
    { destruct (finalize_hdr st_eqb inp' Hclean Hnocache' tb tb2 ml) as (H1 & _). cbv zeta in H1. fold mf' in H1.
      rewrite <- H1, Emf'. symmetry.
      apply (MddProgress.ins_compute_thresholds st_eqb inp' Hnocache' _ MddProgress.insens_is_exact). }
    assert (Hbe' : m_best_exact mf' = m_best_exact m5).
    { rewrite Emf'. apply (MddProgress.ins_compute_thresholds st_eqb inp' Hnocache' _ MddProgress.insens_best_exact). }
    (* the fold *)
    assert (Hfold : exists m0 bk, M = fold_left (th_step st_eqb inp bk) (bottom_up m0) m0 /\
              m_layers m0 = LF inp' ml /\ m_edges m0 = m_edges ml /\ length (m_nodes m0) = length (m_nodes ml) /\
              (forall x, sk (gn m0 x) = sk (gn m5 x)) /\ m_cache m0 = c /\ (lb <= bk)%Z /\ bk = bk_of inp M /\
              (forall x, In x (m_next ml) -> x < length (m_nodes ml) -> fl_is_exact (n_flags (gn m5 x)) = true ->
                 (ci_flavour inp = CleanLEL -> m_lel ml = None) ->
                 (exists be, m_best_exact m5 = Some be) -> theta_of inp m0 x = Some bk)).
    { unfold M at 1. rewrite compute_thresholds_unfold. rewrite Hrel. cbn [is_relaxed_ct orb].
      destruct (m_best_exact m5) as [be|] eqn:Ebe.
      - cbv zeta. set (bk := Z.max (ci_best_lb inp) (n_vtop (gn m5 be))).
        destruct (th_preset_frame bk m5) as (F1 & F2 & F3 & F4 & F5 & F6). cbv zeta in F1, F2, F3, F4, F5, F6.
        exists (th_preset inp bk m5), bk. split; [reflexivity|]. split; [congruence|]. split; [congruence|].
        split; [congruence|]. split; [exact F5|]. split; [congruence|]. split; [unfold bk, lb; lia|]. split.
        + unfold bk_of. rewrite KBE. rewrite ?Ebe. unfold bk. destruct (KC be) as (_ & Ev & _). rewrite Ev. reflexivity.
        + intros x Hx Hlt Hexx Hlel _. apply th_preset_theta.
          * rewrite Hnext5. exact Hx.
          * rewrite N5. exact Hlt.
          * intros Hf. rewrite Hex5, (Hlel Hf). reflexivity.
          * exact Hexx.
      - exists m5, (ci_best_lb inp). split; [reflexivity|]. split; [exact L5|]. split; [exact E5|]. split; [exact N5|].
        split; [reflexivity|]. split; [exact C5|]. split; [unfold lb; lia|]. split.
        + unfold bk_of. rewrite KBE. rewrite ?Ebe. reflexivity.
        + intros x _ _ _ _ (be & Hbe). discriminate. }
    destruct Hfold as (m0 & bk & EM & S_lay & S_edg & S_len & S_sk & S_cache & Hbk & Ebk & Hpre).
    destruct (pre_pack st_eqb inp' Hclean Hnocache' Hnocut Hwidth Hrel Hrd nv_static cov B HB Hguard tb tb2 ml
                HFS HS HX HN HN2 m0 S_lay S_edg S_len S_sk)
      as (Q1 & Q2 & Q3 & Q4 & Q5 & Q6 & Q7 & Q8 & Q9 & Q10 & Q11 & Q12 & Q13 & Q14 & Q15).
    set (Dr := Drn st_eqb inp' tb tb2 ml).
    assert (HPT : PT inp m0 bk m0 []).
    { intros x j _ Hl Hv Hex Hab HjN.
      destruct (terminal_above st_eqb inp' Hclean Hnocache' Hnocut Hwidth Hrel Hrd cov tb tb2 ml HFS HS HX HN HN2 m0 S_lay S_sk
                  j x Hl Hv Hex Hab HjN) as (T1 & T2 & T3 & (be & T4)).
      exists bk. split; [|lia]. apply Hpre.
      - exact T1.
      - rewrite <- S_len. apply (Q1 j x Hl).
      - exact (eq_trans (m5_flag inp' Hclean tb tb2 ml HS HX fl_is_exact x (fun _ _ => eq_refl) (fun _ _ => eq_refl) (fun _ _ => eq_refl)) T2).
      - exact T3.
      - exists be. rewrite <- Hbe'. exact T4. }
    assert (HCO : CacheOK inp B m0 bk Dr (m_cache m0)).
    { intros d l s th Hn Hin. rewrite S_cache in Hn. destruct Hblank as [Hb1 _]. rewrite (Hb1 d l Hn) in Hin. destruct Hin. }
    destruct (theta_fold_sound st_eqb st_eqb_spec inp nv_static nv_none cov cov_refl rub_adm B HB Hguard m0 bk Hbk Dr
                Q1 Q2 Q3 Q4 Q5 Q6 Q7 Q8 Q9 Q10 Q11) as (R1 & R2 & R3).
    { intros j x ds1 y s1 v1 H1 H2 H3 Hp. apply (Q12 j x ds1 y s1 v1 H1 H2 H3). apply lpath_tw. exact Hp. }
    { intros j x ds0 T s' w0 w1 H1 H2 H3 Hp. apply (Q13 j x ds0 T s' w0 w1 H1 H2 H3). apply lpath_tw. exact Hp. }
    { intros j x ds0 T s' w0 w1 H1 H2 H3 Hp. apply (Q14 j x ds0 T s' w0 w1 H1 H2 H3). apply lpath_tw. exact Hp. }
    { exact Q15. } { exact HPT. } { exact HCO. }
    cbv zeta in R1, R2, R3. rewrite <- EM in R1, R2, R3.
    (* from SafeAt to Safe *)
    assert (Hdrain : drain_cutset inp M = drain_cutset inp' mf').
    { rewrite tw_drain. transitivity (drain_cutset inp m5).
      - apply drain_eq; auto.
        intros x. destruct R1 as (_ & R12 & _). rewrite R12. apply S_sk.
      - symmetry. rewrite Emf'.
        destruct (compute_thresholds_keq st_eqb inp' m5) as ((KE' & KP' & KL' & _) & _ & KB' & _ & KCS').
        apply drain_eq; auto.
        intros x. apply (node_compute_thresholds st_eqb inp' Hnocache' (@sk St) m5 x). intros n t. apply sk_set_theta. }
    assert (Hconv : forall j s t, SafeAt inp B m0 bk Dr j s t ->
              forall v, (IMIN + 2 * B < v)%Z -> (v <= t)%Z -> Safe inp M (rd + j) s v).
    { intros j s t HSA v Hv1 Hv2 ds0 s' v' Hr Hlen.
      destruct (HSA v ds0 s' v' Hv1 Hv2 Hr Hlen) as [H1|H1]; [left; rewrite <- Ebk; exact H1|right].
      destruct H1 as (ds1 & ds2 & y & s1 & w1 & E & Hf & (sp & Hsp & P1 & P2 & P3) & Hs & Hdep & Hw).
      destruct (m0_fields inp' Hclean tb tb2 ml HS HX m0 S_sk y) as (f1 & f2 & _ & _ & f5 & _).
      exists sp, ds1, ds2, s1, w1. split; [rewrite Hdrain; exact Hsp|]. split; [exact E|]. split; [exact Hf|].
      split; [rewrite P3; rewrite <- f5; exact Hdep|]. split; [rewrite P1, <- f1; exact Hs|].
      rewrite P2, <- f2. exact Hw. }
    split.
    - intros u t Hab Hdel Hth v Hv1 Hv2.
      destruct R1 as (_ & R12 & _).
      destruct (sk_fields _ _ (R12 u)) as (g1 & _ & _ & _ & g5 & _ & g7).
      assert (Hab0 : above inp m0 u) by (unfold above; rewrite <- g5; exact Hab).
      assert (Hv0 : live inp m0 u) by (unfold live; rewrite <- g5; exact Hdel).
      destruct (above_in_layer inp' Hclean Hnocut Hwidth Hrel Hrd tb tb2 ml HS HX HN HN2 u) as [j Hj].
      { apply (above_eq inp' Hclean tb tb2 ml HS HX m0 S_sk u). exact Hab0. }
      assert (Hl0 : lay m0 j u) by (apply (lay_eq inp' ml m0 S_lay j u); exact Hj).
      pose proof (R2 u j t Hl0 Hv0 Hab0 Hth) as HSA.
      assert (Hd : n_depth (gn m0 u) = rd + j) by exact (Q5 j u Hl0 Hv0).
      rewrite g7, Hd, g1. apply (Hconv j _ t HSA v Hv1 Hv2).
    - intros d l s th Hn Hin v Hv1 Hv2.
      destruct (R3 d l s th Hn Hin) as (j & -> & HSA). apply (Hconv j s _ HSA v Hv1 Hv2).
  Qed.
End Bridge.


(* ================================================================== 5. statements and instances *)
Local Open Scope Z_scope.

(* ================================================================== the two statements asked for *)
(* Safe is downward closed in the arrival value *)
Lemma Safe_down {St} (inp : @cinput St) (m : @mdd St) k s v0 v : v <= v0 -> Safe inp m k s v0 -> Safe inp m k s v.
Proof.
  intros Hle HS ds0 s' v' Hr Hlen.
  pose proof (frun_shift (ci_problem inp) _ _ _ _ (v0 - v) _ _ Hr) as Hr0. replace (v + (v0 - v)) with v0 in Hr0 by lia.
  destruct (HS ds0 s' _ Hr0 Hlen) as [H1|(x & ds1 & ds2 & s1 & w & X1 & X2 & X3 & X4 & X5 & X6)].
  - left. lia.
  - right. exists x, ds1, ds2, s1, (w + - (v0 - v)). split; [exact X1|]. split; [exact X2|]. split.
    + pose proof (frun_shift (ci_problem inp) _ _ _ _ (- (v0 - v)) _ _ X3) as Hs. replace (v0 + - (v0 - v)) with v in Hs by lia. exact Hs.
    + split; [exact X4|]. split; [exact X5|lia].
Qed.

Section Statements.
  Context {St : Type}.
  Variable st_eqb : St -> St -> bool.
  Hypothesis st_eqb_spec : forall a b, st_eqb a b = true <-> a = b.
  Variable inp : @cinput St.
  Let pb := ci_problem inp.
  Let rlx := ci_relax inp.
  Let N := nb_vars pb.
  Let rd := sp_depth (ci_root inp).
  Let rs := sp_state (ci_root inp).
  Let rv := sp_value (ci_root inp).
  Hypothesis Hclean : ci_flavour inp = CleanLEL \/ ci_flavour inp = CleanFC.
  Hypothesis Hnodom : ci_domrule inp = None.
  Hypothesis Hnocut : ci_cutoff inp = 0%nat.
  Hypothesis Hwidth : (1 <= ci_width inp)%nat.
  Hypothesis Hrel : ci_type inp = Relaxed.
  Hypothesis Hrd : (rd <= N)%nat.
  Hypothesis nv_static : forall k l1 l2, next_variable pb k l1 = next_variable pb k l2.
  Hypothesis nv_some : forall k l, (k < N)%nat -> exists x, next_variable pb k l = Some x.
  Hypothesis nv_none : forall k l, (N <= k)%nat -> next_variable pb k l = None.
  Variable cov : St -> St -> Prop.
  Hypothesis cov_refl : forall s, cov s s.
  Hypothesis cov_sim : forall s s' x v, cov s s' -> In v (domain pb x s') ->
    let d := {| d_var := x; d_val := v |} in
    In v (domain pb x s) /\ cov (transition pb s d) (transition pb s' d) /\
    transition_cost pb s' (transition pb s' d) d <= transition_cost pb s (transition pb s d) d.
  Hypothesis merge_cov : forall L s s', In s L -> cov s s' -> cov (merge rlx L) s'.
  Hypothesis rub_adm : forall k s s' h, cov s s' -> H pb k s' = Some h -> h <= fast_upper_bound rlx s.
  Variable B : Z.
  Hypothesis HB : 2 * B <= IMAX.
  Hypothesis Hguard : forall ds s' v', frun pb rd rs rv ds = Some (s', v') -> - B <= v' <= B.

  Section Strong.
    Hypothesis relax_ge : forall src dst mg d c, c <= relax rlx src dst mg d c.

    (* every threshold above IMIN + 2B computed for a node at or above the cut-set is sound, for EVERY arrival value <= t *)
    Theorem threshold_sound tb tb2 c ds polls (m : @mdd St) :
      blank N c -> compile st_eqb inp tb tb2 c ds polls = (m, Compiled) ->
      forall u t, f_above (n_flags (get_node inp m u)) = true -> f_deleted (n_flags (get_node inp m u)) = false ->
        n_theta (get_node inp m u) = Some t -> IMIN + 2 * B < t ->
        forall v, v <= t -> Safe inp m (n_depth (get_node inp m u)) (n_state (get_node inp m u)) v.
    Proof.
      intros Hb Hc u t H1 H2 H3 Ht v Hv.
      apply (Safe_down inp m _ _ t v Hv).
      exact (proj1 (thresholds_sound st_eqb st_eqb_spec inp Hclean Hnodom Hnocut Hwidth Hrel Hrd nv_static nv_some nv_none
               cov cov_refl cov_sim merge_cov relax_ge rub_adm B HB Hguard tb tb2 c ds polls m Hb Hc) u t H1 H2 H3 t Ht (Z.le_refl _)).
    Qed.

    (* ... and so is every threshold written to the cache *)
    Corollary cache_writes_sound tb tb2 c ds polls (m : @mdd St) :
      blank N c -> compile st_eqb inp tb tb2 c ds polls = (m, Compiled) ->
      forall d l s th, nth_error (m_cache m) d = Some l -> In (s, th) l -> IMIN + 2 * B < th_value th ->
        forall v, v <= th_value th -> Safe inp m d s v.
    Proof.
      intros Hb Hc d l s th H1 H2 Ht v Hv.
      apply (Safe_down inp m _ _ (th_value th) v Hv).
      exact (proj2 (thresholds_sound st_eqb st_eqb_spec inp Hclean Hnodom Hnocut Hwidth Hrel Hrd nv_static nv_some nv_none
               cov cov_refl cov_sim merge_cov relax_ge rub_adm B HB Hguard tb tb2 c ds polls m Hb Hc) d l s th H1 H2 _ Ht (Z.le_refl _)).
    Qed.

    (* with a little more room in the guard, every arrival value a feasible run can carry is covered, whatever the threshold *)
    Corollary cache_writes_sound_guarded tb tb2 c ds polls (m : @mdd St) :
      3 * B <= IMAX ->
      blank N c -> compile st_eqb inp tb tb2 c ds polls = (m, Compiled) ->
      forall d l s th, nth_error (m_cache m) d = Some l -> In (s, th) l ->
        forall v, - B <= v -> v <= th_value th -> Safe inp m d s v.
    Proof.
      intros H3B Hb Hc d l s th H1 H2 v Hv1 Hv2.
      apply (proj2 (thresholds_sound st_eqb st_eqb_spec inp Hclean Hnodom Hnocut Hwidth Hrel Hrd nv_static nv_some nv_none
               cov cov_refl cov_sim merge_cov relax_ge rub_adm B HB Hguard tb tb2 c ds polls m Hb Hc) d l s th H1 H2 v); [|exact Hv2].
      unfold IMIN, IMAX in *. lia.
    Qed.
  End Strong.

  (* the machine-integer variant of relax_ge (the one real relaxations satisfy), through Assembly.clip_compile *)
  Section Isize.
    Hypothesis cost_isize : forall s d, in_isize (transition_cost pb s (transition pb s d) d).
    Hypothesis relax_isize : forall src dst mg d c, in_isize c -> in_isize (relax rlx src dst mg d c).
    Hypothesis relax_ge_isize : forall src dst mg d c, in_isize c -> c <= relax rlx src dst mg d c.

    Let inpc := set_relax inp (clip_relaxation (ci_relax inp)).

    Lemma clip_ge : forall src dst mg d c, c <= relax (ci_relax inpc) src dst mg d c.
    Proof.
      intros src dst mg d c. cbn [inpc set_relax ci_relax clip_relaxation relax].
      destruct (in_isize_b c) eqn:E; [|lia].
      apply relax_ge_isize. unfold in_isize_b in E. apply andb_true_iff in E. destruct E as [E1 E2].
      apply Z.leb_le in E1. apply Z.leb_le in E2. split; assumption.
    Qed.

    Theorem thresholds_sound_isize tb tb2 c ds polls (m : @mdd St) :
      blank N c -> compile st_eqb inp tb tb2 c ds polls = (m, Compiled) ->
      (forall u t, f_above (n_flags (get_node inp m u)) = true -> f_deleted (n_flags (get_node inp m u)) = false ->
         n_theta (get_node inp m u) = Some t ->
         forall v, IMIN + 2 * B < v -> v <= t ->
         Safe inp m (n_depth (get_node inp m u)) (n_state (get_node inp m u)) v) /\
      (forall d l s th, nth_error (m_cache m) d = Some l -> In (s, th) l ->
         forall v, IMIN + 2 * B < v -> v <= th_value th -> Safe inp m d s v).
    Proof.
      intros Hb Hc.
      rewrite <- (clip_compile st_eqb inp Hclean cost_isize relax_isize) in Hc. fold inpc in Hc.
      exact (thresholds_sound st_eqb st_eqb_spec inpc Hclean Hnodom Hnocut Hwidth Hrel Hrd nv_static nv_some nv_none
               cov cov_refl cov_sim merge_cov clip_ge rub_adm B HB Hguard tb tb2 c ds polls m Hb Hc).
    Qed.
  End Isize.
End Statements.

(* ================================================================== non-vacuity: the table family of TableWf.v *)
Definition root0 (ti : tinst) : @subproblem tstate :=
  {| sp_state := [t_init ti]; sp_value := t_initval ti; sp_path := []; sp_ub := IMAX; sp_depth := 0 |}.

Section TableInst.
  Variable ti : tinst.
  Variable C : Z.
  Hypothesis Hwf : t_wf ti C.
  Variable flv : flavour.
  Hypothesis Hflv : flv = CleanLEL \/ flv = CleanFC.
  Variable width : nat.
  Hypothesis Hwidth : (1 <= width)%nat.
  Variable lb : Z.
  Variable usecache : bool.

  Let inp := tb_input ti flv Relaxed width lb usecache false 0 (root0 ti).

  Theorem table_thresholds tb tb2 ds polls (m : @mdd tstate) :
    compile tstate_eqb inp tb tb2 (tb_cache_init ti) ds polls = (m, Compiled) ->
    (forall u t, f_above (n_flags (get_node inp m u)) = true -> f_deleted (n_flags (get_node inp m u)) = false ->
       n_theta (get_node inp m u) = Some t ->
       forall v, IMIN + 2 * tB ti C < v -> v <= t ->
       Safe inp m (n_depth (get_node inp m u)) (n_state (get_node inp m u)) v) /\
    (forall d l s th, nth_error (m_cache m) d = Some l -> In (s, th) l ->
       forall v, IMIN + 2 * tB ti C < v -> v <= th_value th -> Safe inp m d s v).
  Proof.
    intros Hc.
    pose proof (Horder ti C Hwf) as Ho. pose proof (HC ti C Hwf) as [HC0 HC1]. pose proof (Hcosts ti C Hwf) as Hco.
    apply (thresholds_sound_isize tstate_eqb tstate_eqb_spec inp Hflv eq_refl eq_refl Hwidth eq_refl (Nat.le_0_l _)
             (nv_static ti) (nv_some ti Ho) (nv_none ti Ho) TableWf.cov cov_refl (cov_sim ti) (merge_cov ti (Hmerge ti C Hwf))
             (table_rub_adm ti C Hwf flv width Hwidth 0) (tB ti C) (HB ti C Hwf) (guard0 ti Ho C HC0 Hco)) with (c := tb_cache_init ti) (ds := ds) (polls := polls) (tb := tb) (tb2 := tb2).
    - intros s d. pose proof (t_cost_bound ti Ho C HC0 Hco s d) as Hb. unfold in_isize, IMIN, IMAX in *. 
      change (ci_problem inp) with (t_problem ti). lia.
    - intros src dst mg d c _. apply relax_isize.
    - intros src dst mg d c Hcc. apply (relax_ge_isize ti (Hslack ti C Hwf)). exact Hcc.
    - apply blank_init.
    - exact Hc.
  Qed.
End TableInst.

(* ---------------------------------------------------------------- ex_ti, last-exact-layer flavour, width 1, cache enabled, no incumbent *)
Definition ex_inp : @cinput tstate := tb_input ex_ti CleanLEL Relaxed 1 IMIN true false 0 (root0 ex_ti).
Definition ex_m : @mdd tstate := fst (compile tstate_eqb ex_inp 0 0 (tb_cache_init ex_ti) (tb_dom_init ex_ti) 0).

Lemma ex_compiled : compile tstate_eqb ex_inp 0 0 (tb_cache_init ex_ti) (tb_dom_init ex_ti) 0 = (ex_m, Compiled).
Proof. vm_compute. reflexivity. Qed.

(* the thresholds written: (state, depth, theta, explored) *)
Lemma ex_cache : m_cache ex_m =
  [ [([0], {| th_value := 0; th_explored := true |})];
    [([0], {| th_value := 0; th_explored := false |}); ([1], {| th_value := 5; th_explored := false |})];
    []; [] ].
Proof. vm_compute. reflexivity. Qed.

Lemma ex_drain : map (fun x => (sp_state x, sp_depth x, sp_value x)) (drain_cutset ex_inp ex_m) = [([0], 1%nat, 0); ([1], 1%nat, 5)].
Proof. vm_compute. reflexivity. Qed.

Lemma ex_safe_aux : forall v, IMIN + 42 < v -> v <= 5 -> Safe ex_inp ex_m 1 [1] v.
Proof.
  intros v Hv1 Hv2.
  destruct (table_thresholds ex_ti 7 ex_wf CleanLEL (or_introl eq_refl) 1 (le_n 1) IMIN true 0%nat 0%nat (tb_dom_init ex_ti) 0%nat ex_m ex_compiled) as [_ Hw].
  apply (Hw 1%nat [([0], {| th_value := 0; th_explored := false |}); ([1], {| th_value := 5; th_explored := false |})]
            [1] {| th_value := 5; th_explored := false |}).
  - rewrite ex_cache. reflexivity.
  - right. left. reflexivity.
  - exact Hv1.
  - exact Hv2.
Qed.

(* a state entered with any value <= 5 at depth 1 in state [1] is hopeless or covered by the cut-set *)
Example ex_safe : forall v, v <= 5 -> Safe ex_inp ex_m 1 [1] v.
Proof.
  intros v Hv. apply (Safe_down ex_inp ex_m 1%nat [1] 5 v Hv). apply ex_safe_aux; unfold IMIN; lia.
Qed.


(* ---------------------------------------------------------------- a threshold strictly above the node's own value:
   frontier cut-set, width 2: node 1 = (state [0], depth 1) has value 0, local bound 5, threshold 7 = 12 - 5 *)
Definition ex_inp2 : @cinput tstate := tb_input ex_ti CleanFC Relaxed 2 IMIN true false 0 (root0 ex_ti).
Definition ex_m2 : @mdd tstate := fst (compile tstate_eqb ex_inp2 0 0 (tb_cache_init ex_ti) (tb_dom_init ex_ti) 0).

Lemma ex_compiled2 : compile tstate_eqb ex_inp2 0 0 (tb_cache_init ex_ti) (tb_dom_init ex_ti) 0 = (ex_m2, Compiled).
Proof. vm_compute. reflexivity. Qed.

Lemma ex_cache2 : m_cache ex_m2 =
  [ [([0], {| th_value := 0; th_explored := true |})];
    [([0], {| th_value := 7; th_explored := false |}); ([1], {| th_value := 5; th_explored := false |})];
    [([1], {| th_value := 5; th_explored := true |})];
    [([1], {| th_value := 12; th_explored := true |}); ([2], {| th_value := 12; th_explored := true |})] ].
Proof. vm_compute. reflexivity. Qed.

Lemma ex_node1 :
  let n := get_node ex_inp2 ex_m2 1 in
  (n_state n, n_depth n, n_vtop n, n_vbot n, n_theta n, f_cutset (n_flags n), f_above (n_flags n), f_deleted (n_flags n)) =
  ([0], 1%nat, 0, 5, Some 7, true, true, false) /\ bk_of ex_inp2 ex_m2 = 12.
Proof. vm_compute. split; reflexivity. Qed.

Lemma ex_safe2_aux : forall v, IMIN + 42 < v -> v <= 7 -> Safe ex_inp2 ex_m2 1 [0] v.
Proof.
  intros v Hv1 Hv2.
  destruct (table_thresholds ex_ti 7 ex_wf CleanFC (or_intror eq_refl) 2 (le_S 1 1 (le_n 1)) IMIN true 0%nat 0%nat (tb_dom_init ex_ti) 0%nat ex_m2 ex_compiled2) as [Hn _].
  exact (Hn 1%nat 7 eq_refl eq_refl eq_refl v Hv1 Hv2).
Qed.

(* node 1 has value 0, yet any arrival with a value up to 7 in its state is hopeless or covered *)
Example ex_safe2 : forall v, v <= 7 -> Safe ex_inp2 ex_m2 1 [0] v.
Proof.
  intros v Hv. apply (Safe_down ex_inp2 ex_m2 1%nat [0] 7 v Hv). apply ex_safe2_aux; unfold IMIN; lia.
Qed.



(* ------------------------------------------------------------------ assumptions *)
Check @thresholds_sound.
Check @threshold_sound.
Check @cache_writes_sound.
Check @cache_writes_sound_guarded.
Check @thresholds_sound_isize.
Check @table_thresholds.
Check ex_cache.
Check ex_safe.
Check ex_cache2.
Check ex_node1.
Check ex_safe2.
Print Assumptions thresholds_sound.
Print Assumptions threshold_sound.
Print Assumptions cache_writes_sound.
Print Assumptions cache_writes_sound_guarded.
Print Assumptions thresholds_sound_isize.
Print Assumptions table_thresholds.
Print Assumptions ex_safe.
Print Assumptions ex_safe2.
