(* ParNoDup.v — the parallel branch-and-bound theorems (C03 / C04 / C05, parallel) for the NoDupFringe configuration
   (sc_nodup cfg = true): the model Par.v (ddo/src/implementation/solver/parallel.rs) with the faithful indexed-heap model
   of NoDupFringe (Fringe.v / Fringe2.v, keyed by (state, depth)), which COALESCES a pushed node with the entry that has
   the same key.  ParProofs.v, ParAnytime.v and Assembly.v prove these statements for the SimpleFringe only.
   For EVERY schedule, EVERY fuel, EVERY number of workers T (upper_bounds sized like the number of workers).

   METHOD (reuse of ParProofs.v).  The invariants of ParProofs.v are predicates on [view s], whose first field is the
   SimpleFringe content p_simple s, and pstep_inv / pstep_binv / Mu_decreases / pstep_incumbent / pstep_slots / pstep_ab
   do NOT depend on sc_nodup cfg = false.  With sc_nodup cfg = true the field p_simple is never read nor written, so the
   abstract content of the heap is written into it:   gh s := s with p_simple := fl (p_nodup s)   (ghost state).
     nstep s w s'   = one transition, described on the ghost states:
        NS_plain     pstep (gh s) w (gh s')  -- the ten transitions that do not touch the fringe, and abort_search:
                     every lemma of ParProofs.v / ParAnytime.v about pstep applies verbatim;
        NS_starve / NS_item    a pop of the heap: fl f ~ x :: fl f' (k_pop_spec), x ub-maximal IF the heap is ordered;
        NS_enqueue   the fold of insert-or-coalesce pushes:  pushes (fl f) (fl f') (kept ..)  + open_by_layer tracks cnt.
     par_step_cases_nd : under NInv (= PInv (gh s) /\ krep (p_nodup s)) par_step refines nstep, keeps krep, and keeps the
        heap order kord when the ranking is a total preorder.
   Only the three fringe transitions are proved by hand, for each invariant.

   STOREY 1
   (A) ANY cutoff; premises of ParProofs part A + st_eqb_spec; NO premise on the ranking, NO coalesce_ok:
         par_no_deadlock_nodup, par_never_crashes_nodup, par_maximize_no_deadlock_no_crash_nodup,
         complete_only_when_idle_nodup
   (B) cutoff = 0; premises of ParProofs.par_terminates + st_eqb_spec; NO premise on the ranking, NO coalesce_ok:
         par_terminates_nodup      the SAME bound fuelP T (a coalescing push does not increase the measure Mu)
   (C) ANY cutoff; premises of ParAnytime.par_anytime_sound + st_eqb_spec + coalesce_ok + rank_ok:
         par_anytime_sound_nodup, par_anytime_sound_any_end_nodup
       invariant FInv = NInv /\ kord /\ SInv (Incumbent, Slots, CalmW | AbV); CalmW is ParAnytime.CalmV with the weakened
       witness SolverNoDup.Wit (best n >= OPT instead of best n = OPT: the survivor of a coalescing push may be worth more).
   (D) cutoff = 0; premises of ParProofs.par_optimal + st_eqb_spec + coalesce_ok + rank_ok:
         par_optimal_primal_nodup, par_optimal_nodup, par_correct_nodup     (from FInv + BInv: no abort ever happens)
   WHERE rank_ok IS FORCED: (i) get_workload discards the WHOLE fringe when the popped node has ub <= best_lb -- sound only
   if the popped node is ub-maximal, which for the indexed heap is the heap order (CutoffNoDup.k_pop_max, proved in
   FringeProofs.v for a ranking that is antisymmetric and transitive); (ii) abort_search covers the fringe by the ub of
   its top.  So rank_ok is needed for optimality too, not only for the anytime bounds (unlike the sequential solver,
   whose uninterrupted theorem SolverNoDup.seq_solver_correct_nodup does not need it: the sequential get_workload does
   not discard).  Deadlock-freedom, crash-freedom and termination do not need it.
   STOREY 2 (section MainParNoDup; hypotheses of Assembly.Main with sc_nodup cfg = true, contracts via flip_nodup):
         C04_parallel_no_deadlock_no_crash_nodup, C04_parallel_run_no_deadlock_nodup, C04_parallel_terminates_nodup,
         C03_parallel_optimal_finished_nodup, C03_parallel_optimal_nodup,
         C05_parallel_anytime_nodup, C05_parallel_anytime_any_end_nodup      (the last four: + rk_antisym, rk_trans)
   STOREY 3: the table family (C04_table_par_*_nodup, C03_table_par_nodup, C05_table_par_nodup) and the coalescing instance
         co_ti of SolverNoDup.v run by two (and three) workers: co_par_coalesces shows the coalescing push of worker 1
         happening while worker 0 still holds its node; co_par_run: optimum 8; co_par_cutoff: an aborted run.
   Stdlib only, no axioms (Print Assumptions at the end). *)
Require Import DDO.Base DDO.Fringe DDO.FringeProofs DDO.Fringe2 DDO.DP DDO.Cache DDO.Dom DDO.Mdd DDO.Solver DDO.Par.
Require Import DDO.SolverProofs DDO.SolverCutoff DDO.ParProofs.
Require Import DDO.MddProgress DDO.MddSim DDO.Assembly DDO.SolverNoDup DDO.CutoffNoDup DDO.ParAnytime.
From Coq Require Import Permutation Arith Lia List ZArith Bool.
Import ListNotations.
Open Scope Z_scope.

(* ================================================================== 0. a sequence of insert-or-coalesce pushes *)
Inductive pushes {St : Type} : list (@subproblem St) -> list (@subproblem St) -> list (@subproblem St) -> Prop :=
| pushes_nil L : pushes L L []
| pushes_cons L L1 L' n ks : pushed L L1 n -> pushes L1 L' ks -> pushes L L' (n :: ks).

Lemma sumf_scale_nat {A} (a : nat) (g : A -> nat) l : sumf (fun x => a * g x)%nat l = (a * sumf g l)%nat.
Proof. induction l as [|x l IH]; cbn [sumf]; [lia|]. rewrite IH. lia. Qed.

Section ParNoDup.
  Context {St : Type}.
  Variable st_eqb : St -> St -> bool.
  Hypothesis st_eqb_spec : forall a b, st_eqb a b = true <-> a = b.
  Variable cfg : @sconfig St.

  Notation pstate := (@pstate St).
  Notation pc := (@pc St).
  Notation subproblem := (@subproblem St).
  Local Notation N := (nb_vars (sc_problem cfg)).
  Local Notation rk := (sc_ranking cfg).

  (* ---------------- configuration: no cache, NoDupFringe *)
  Hypothesis no_cache : sc_use_cache cfg = false.
  Hypothesis nodup_fringe : sc_nodup cfg = true.

  Variable good : subproblem -> Prop.
  Hypothesis good_root : good (root_node cfg).
  Hypothesis good_set_ub : forall c u, good c -> good (set_ub c u).

  Local Notation PInv := (ParProofs.PInv st_eqb cfg good).
  Local Notation pstep := (ParProofs.pstep st_eqb cfg).
  Local Notation Rep f := (krep st_eqb f).
  Local Notation Ord f := (kord rk f).

  (* ------------------------------------------------------------------ the ghost state: the abstract content of the
     NoDupFringe is written into the (unused) SimpleFringe field, so that the views / invariants of ParProofs.v apply *)
  Definition FLs (s : pstate) : list subproblem := fl (p_nodup s).
  Definition gh (s : pstate) : pstate := with_fringe s (fl (p_nodup s)) (p_nodup s).

  Lemma view_gh s : view (gh s) =
    mkV (FLs s) (p_ongoing s) (p_open s) (p_ongoing_by_layer s) (p_lb s) (p_ub s) (p_sol s)
        (length (p_upper_bounds s)) (p_abort s) (p_crash s) (p_workers s).
  Proof. reflexivity. Qed.

  Definition NInv (s : pstate) : Prop := PInv (gh s) /\ Rep (p_nodup s).

  Ltac psimp := cbn [mk set_worker p_crashed with_fringe with_open with_cache_fal pf_clear gh
                     p_simple p_nodup p_ongoing p_explored p_open p_ongoing_by_layer p_fal p_lb p_ub p_sol
                     p_upper_bounds p_abort p_cache p_dom p_polls p_crash p_tie p_workers].
  Ltac psimp_in H := cbn [mk set_worker p_crashed with_fringe with_open with_cache_fal pf_clear gh
                     p_simple p_nodup p_ongoing p_explored p_open p_ongoing_by_layer p_fal p_lb p_ub p_sol
                     p_upper_bounds p_abort p_cache p_dom p_polls p_crash p_tie p_workers] in H.

  (* ------------------------------------------------------------------ the fringe in NoDupFringe mode *)
  Lemma pf_len_nd s : pf_len cfg s = nd_len (p_nodup s).
  Proof. unfold pf_len. rewrite nodup_fringe. reflexivity. Qed.
  Lemma pf_push_nd s n : pf_push st_eqb cfg s n =
    match k_push st_eqb rk (p_nodup s) n with
    | Some f => with_fringe s (p_simple s) f
    | None => p_crashed s
    end.
  Proof. unfold pf_push. rewrite nodup_fringe. reflexivity. Qed.
  Lemma pf_pop_nd s : pf_pop st_eqb cfg s =
    match k_pop st_eqb rk (p_nodup s) with
    | Some (f, r) => (with_fringe s (p_simple s) f, r)
    | None => (p_crashed s, None)
    end.
  Proof. unfold pf_pop. rewrite nodup_fringe. reflexivity. Qed.

  Lemma rep_len_nil f : Rep f -> nd_len f = O -> fl f = [].
  Proof. intros Hr H. pose proof (fl_len st_eqb f Hr) as E. apply length_zero_iff_nil. rewrite <- E. exact H. Qed.

  (* what the order of the heap gives, when the ranking is a total preorder *)
  Lemma pop_max f f' x : rank_ok cfg -> Rep f -> Ord f -> k_pop st_eqb rk f = Some (f', Some x) ->
    Ord f' /\ forall y, In y (fl f) -> sp_ub y <= sp_ub x.
  Proof. intros [Ha Ht]. apply (k_pop_max st_eqb st_eqb_spec rk Ha Ht). Qed.
  Lemma push_ord f n f' : rank_ok cfg -> Rep f -> Ord f -> k_push st_eqb rk f n = Some f' -> Ord f'.
  Proof. intros [Ha Ht]. apply (k_push_ord st_eqb st_eqb_spec rk Ha Ht). Qed.

  (* ------------------------------------------------------------------ get_workload *)
  Lemma clean_loop_shape fuel : forall s,
    (N < length (p_open s))%nat -> (N < length (p_ongoing_by_layer s))%nat ->
    exists c fal, p_clean_cache_loop cfg fuel s = with_cache_fal s c fal.
  Proof.
    induction fuel as [|fuel IH]; intros s Ho Hb; cbn [p_clean_cache_loop].
    - exists (p_cache s), (p_fal s). destruct s; reflexivity.
    - destruct (Nat.ltb (p_fal s) N) eqn:E.
      2:{ exists (p_cache s), (p_fal s). destruct s; reflexivity. }
      apply Nat.ltb_lt in E.
      destruct (nth_error_lt_Some (p_open s) (p_fal s)) as [a Ha]; [lia|].
      destruct (nth_error_lt_Some (p_ongoing_by_layer s) (p_fal s)) as [b Hb']; [lia|].
      rewrite Ha, Hb'. destruct (Nat.eqb (a + b) 0).
      2:{ exists (p_cache s), (p_fal s). destruct s; reflexivity. }
      rewrite no_cache.
      destruct (IH (with_cache_fal s (p_cache s) (S (p_fal s)))) as (c & fal & Hc); [psimp; exact Ho|psimp; exact Hb|].
      exists c, fal. rewrite Hc. reflexivity.
  Qed.

  Inductive gw_spec_nd (s s1 : pstate) : @gw_result St -> Prop :=
  | GN_complete : p_ongoing s = O -> FLs s = [] -> p_abort s = false -> p_nodup s1 = p_nodup s ->
      view (gh s1) = mkV (FLs s) (p_ongoing s) (p_open s) (p_ongoing_by_layer s) (p_lb s) (p_lb s) (p_sol s)
                         (length (p_upper_bounds s)) (p_abort s) (p_crash s) (p_workers s) ->
      gw_spec_nd s s1 GWComplete
  | GN_aborted : p_abort s = true -> p_nodup s1 = p_nodup s -> view (gh s1) = view (gh s) -> gw_spec_nd s s1 GWAborted
  | GN_wait : p_abort s = false -> FLs s = [] -> (0 < p_ongoing s)%nat -> p_nodup s1 = p_nodup s ->
      view (gh s1) = view (gh s) -> gw_spec_nd s s1 GWWait
  | GN_starve x f' : p_abort s = false -> k_pop st_eqb rk (p_nodup s) = Some (f', Some x) -> Rep f' ->
      Permutation (FLs s) (x :: fl f') -> sp_ub x <= p_lb s -> p_nodup s1 = nd_empty ->
      view (gh s1) = mkV [] (p_ongoing s) (map (fun _ => O) (p_open s)) (p_ongoing_by_layer s) (p_lb s) (p_ub s) (p_sol s)
                         (length (p_upper_bounds s)) (p_abort s) (p_crash s) (p_workers s) ->
      gw_spec_nd s s1 GWStarvation
  | GN_item x f' k : p_abort s = false -> k_pop st_eqb rk (p_nodup s) = Some (f', Some x) -> Rep f' ->
      Permutation (FLs s) (x :: fl f') -> p_lb s < sp_ub x ->
      nth_error (p_open s) (sp_depth x) = Some (S k) -> p_nodup s1 = f' ->
      view (gh s1) = mkV (fl f') (S (p_ongoing s)) (upd_nth (sp_depth x) (fun _ => k) (p_open s))
                         (upd_nth (sp_depth x) S (p_ongoing_by_layer s)) (p_lb s) (p_ub s) (p_sol s)
                         (length (p_upper_bounds s)) (p_abort s) (p_crash s) (p_workers s) ->
      gw_spec_nd s s1 (GWItem x).

  Lemma get_workload_spec_nd s w s1 r : NInv s -> (w < length (p_workers s))%nat ->
    get_workload st_eqb cfg s w = (s1, r) -> gw_spec_nd s s1 r.
  Proof.
    intros [HI Hrep] Hw. unfold ParProofs.PInv, PInvV in HI. rewrite view_gh in HI.
    cbn [v_simple v_ongoing v_open v_obl v_lb v_ub v_sol v_nubs v_abort v_crash v_workers] in HI.
    destruct HI as (I1 & I2 & I3 & I4 & I5 & I6 & I7 & I8 & I9 & I10).
    unfold get_workload.
    destruct (clean_loop_shape (S N) s) as (c & fal & Hsc); [lia|lia|]. rewrite Hsc. psimp.
    rewrite I1, pf_len_nd. psimp.
    destruct (p_abort s) eqn:Eab.
    { rewrite andb_false_r. intros H; inversion H; subst. apply GN_aborted; [exact Eab|reflexivity|].
      rewrite !view_gh. psimp. unfold FLs. psimp. reflexivity. }
    destruct (Nat.eqb (nd_len (p_nodup s)) 0) eqn:El.
    { apply Nat.eqb_eq in El. pose proof (rep_len_nil _ Hrep El) as Hnil.
      destruct (Nat.eqb (p_ongoing s) 0) eqn:Eo; cbn [andb negb]; intros H; inversion H; subst.
      - apply Nat.eqb_eq in Eo. apply GN_complete; [exact Eo|exact Hnil|exact Eab|reflexivity|]. rewrite view_gh. psimp. unfold FLs. psimp. rewrite Eab, I1. reflexivity.
      - apply Nat.eqb_neq in Eo. apply GN_wait; [exact Eab|exact Hnil|lia|reflexivity|]. rewrite !view_gh. psimp. unfold FLs. psimp. reflexivity. }
    rewrite andb_false_r. cbn [andb]. rewrite pf_pop_nd. psimp.
    apply Nat.eqb_neq in El.
    destruct (k_pop_spec st_eqb st_eqb_spec rk (p_nodup s) Hrep El) as (x & f' & Hpop & Hrep' & Hperm).
    rewrite Hpop. rewrite (gw_select_S st_eqb cfg no_cache). psimp.
    destruct (sp_ub x <=? p_lb s) eqn:Eub.
    { intros H; inversion H; subst. apply Z.leb_le in Eub. eapply GN_starve; [exact Eab|exact Hpop|exact Hrep'|exact Hperm|exact Eub|reflexivity|].
      rewrite view_gh. psimp. unfold FLs. psimp. rewrite ?Eab, ?I1. reflexivity. }
    apply Z.leb_gt in Eub. psimp.
    destruct (nth_error (p_upper_bounds s) w) as [u|] eqn:Eu.
    2:{ apply nth_error_None in Eu. lia. }
    destruct I8 as [I8|I8]; [discriminate|].
    assert (Hx : In x (FLs s)) by (eapply Permutation_in; [apply Permutation_sym; exact Hperm|left; reflexivity]).
    destruct (I7 x Hx) as [_ Hdx].
    rewrite (I8 _ Hdx), (I5 _ Hdx), (cnt_perm _ _ _ Hperm), cnt_cons_same.
    intros H; inversion H; subst.
    eapply GN_item; [exact Eab|exact Hpop|exact Hrep'|exact Hperm|exact Eub| |reflexivity|].
    - rewrite (I8 _ Hdx), (cnt_perm _ _ _ Hperm), cnt_cons_same. reflexivity.
    - rewrite view_gh. psimp. unfold FLs. psimp. rewrite ?upd_nth_length, ?Eab, ?I1. reflexivity.
  Qed.

  (* ------------------------------------------------------------------ sequences of pushes *)
  Lemma pushes_fringe L L' ks : pushes L L' ks -> FringeOK cfg good L ->
    (forall n, In n ks -> good n /\ (sp_depth n <= N)%nat) -> FringeOK cfg good L'.
  Proof.
    induction 1 as [L|L L1 L' n ks Hp Hps IH]; intros HF Hk; [exact HF|].
    apply IH.
    - destruct (Hk n (or_introl eq_refl)) as [Hg Hd]. exact (pushed_fringe cfg good good_set_ub _ _ _ Hp HF Hg Hd).
    - intros n0 Hn0. apply Hk. right. exact Hn0.
  Qed.

  Lemma pushed_weight (f : subproblem -> nat) L L' n :
    (forall x y, sp_depth x = sp_depth y -> f x = f y) -> pushed L L' n -> (sumf f L' <= sumf f L + f n)%nat.
  Proof.
    intros Hf [HP|(old & rest & HP & Hs & Hd & HP')].
    - rewrite (sumf_perm _ _ _ HP). cbn [sumf]. lia.
    - rewrite (sumf_perm _ _ _ HP'), (sumf_perm _ _ _ HP). cbn [sumf].
      rewrite (Hf (coalesce old n) old) by (rewrite coalesce_depth by exact Hd; symmetry; exact Hd). lia.
  Qed.

  Lemma pushes_weight (f : subproblem -> nat) L L' ks :
    (forall x y, sp_depth x = sp_depth y -> f x = f y) -> pushes L L' ks -> (sumf f L' <= sumf f L + sumf f ks)%nat.
  Proof.
    intros Hf. induction 1 as [L|L L1 L' n ks Hp Hps IH]; cbn [sumf]; [lia|].
    pose proof (pushed_weight f _ _ _ Hf Hp). lia.
  Qed.

  (* ------------------------------------------------------------------ enqueue_cutset *)
  (* the fields a push does not touch *)
  Definition Same (s s' : pstate) : Prop :=
    p_ongoing s' = p_ongoing s /\ p_ongoing_by_layer s' = p_ongoing_by_layer s /\ p_lb s' = p_lb s /\ p_ub s' = p_ub s /\
    p_sol s' = p_sol s /\ p_upper_bounds s' = p_upper_bounds s /\ p_abort s' = p_abort s /\ p_crash s' = p_crash s /\
    p_workers s' = p_workers s.
  Lemma Same_refl s : Same s s. Proof. repeat split. Qed.
  Lemma Same_trans s s1 s2 : Same s s1 -> Same s1 s2 -> Same s s2.
  Proof.
    intros (A1 & A2 & A3 & A4 & A5 & A6 & A7 & A8 & A9) (B1 & B2 & B3 & B4 & B5 & B6 & B7 & B8 & B9).
    repeat split; congruence.
  Qed.

  Definition OpenTrack (s s' : pstate) : Prop :=
    length (p_open s') = length (p_open s) /\
    forall d, nth_error (p_open s) d = Some (cnt d (FLs s)) -> nth_error (p_open s') d = Some (cnt d (FLs s')).

  Lemma enq_step_false lb ub s c : (Z.min ub (sp_ub c) >? lb) = false -> enq_stepP st_eqb cfg lb ub s c = s.
  Proof. intros E. unfold enq_stepP. rewrite E. reflexivity. Qed.

  Lemma enq_step_true lb ub s c : (Z.min ub (sp_ub c) >? lb) = true ->
    Rep (p_nodup s) -> (sp_depth c < length (p_open s))%nat ->
    Rep (p_nodup (enq_stepP st_eqb cfg lb ub s c)) /\
    (rank_ok cfg -> Ord (p_nodup s) -> Ord (p_nodup (enq_stepP st_eqb cfg lb ub s c))) /\
    pushed (FLs s) (FLs (enq_stepP st_eqb cfg lb ub s c)) (set_ub c (Z.min ub (sp_ub c))) /\
    OpenTrack s (enq_stepP st_eqb cfg lb ub s c) /\ Same s (enq_stepP st_eqb cfg lb ub s c).
  Proof.
    intros E Hrep Hd. unfold enq_stepP. rewrite E. fold (set_ub c (Z.min ub (sp_ub c))).
    set (c' := set_ub c (Z.min ub (sp_ub c))).
    rewrite pf_push_nd.
    destruct (k_push_spec st_eqb st_eqb_spec rk (p_nodup s) c' Hrep) as (f' & Hpush & Hrep' & Hpd).
    rewrite Hpush. rewrite !pf_len_nd. psimp.
    destruct (nth_error_lt_Some _ _ Hd) as [k0 Hk0]. rewrite Hk0. psimp.
    split; [exact Hrep'|]. split; [intros Hrk Ho; exact (push_ord _ _ _ Hrk Hrep Ho Hpush)|].
    split; [exact Hpd|]. split; [|repeat split].
    split; [apply upd_nth_length|].
    intros d Hcd. unfold FLs in *. psimp.
    pose proof (fl_len st_eqb f' Hrep') as L1. pose proof (fl_len st_eqb (p_nodup s) Hrep) as L0.
    destruct (Nat.eq_dec (sp_depth c) d) as [Heq|Hne].
    - subst d. erewrite nth_error_upd_nth_same; [|exact Hcd]. f_equal.
      change (sp_depth c) with (sp_depth c'). rewrite (pushed_cnt_same _ _ c' Hpd).
      rewrite L1, L0. reflexivity.
    - rewrite nth_error_upd_nth_other by exact Hne. rewrite Hcd. f_equal. symmetry.
      apply (pushed_cnt_other _ _ c' d Hpd). exact Hne.
  Qed.

  Lemma enq_fold_nd lb ub cs : forall s, Rep (p_nodup s) ->
    (forall c, In c cs -> (sp_depth c < length (p_open s))%nat) ->
    Rep (p_nodup (fold_left (enq_stepP st_eqb cfg lb ub) cs s)) /\
    (rank_ok cfg -> Ord (p_nodup s) -> Ord (p_nodup (fold_left (enq_stepP st_eqb cfg lb ub) cs s))) /\
    pushes (FLs s) (FLs (fold_left (enq_stepP st_eqb cfg lb ub) cs s)) (kept lb ub cs) /\
    OpenTrack s (fold_left (enq_stepP st_eqb cfg lb ub) cs s) /\ Same s (fold_left (enq_stepP st_eqb cfg lb ub) cs s).
  Proof.
    induction cs as [|c cs IH]; intros s Hrep Hd; cbn [fold_left].
    - split; [exact Hrep|]. split; [auto|]. split; [apply pushes_nil|]. split; [split; auto|apply Same_refl].
    - rewrite kept_cons. destruct (Z.min ub (sp_ub c) >? lb) eqn:E.
      + destruct (enq_step_true lb ub s c E Hrep (Hd c (or_introl eq_refl))) as (R1 & O1 & P1 & [T1 T1'] & S1).
        destruct (IH (enq_stepP st_eqb cfg lb ub s c) R1) as (R2 & O2 & P2 & [T2 T2'] & S2).
        { intros c0 Hc0. rewrite T1. apply Hd. right. exact Hc0. }
        split; [exact R2|]. split; [intros Hrk Ho; apply O2; [exact Hrk|apply O1; assumption]|].
        split; [eapply pushes_cons; eauto|]. split; [split; [congruence|auto]|eapply Same_trans; eauto].
      + rewrite (enq_step_false lb ub s c E). apply IH; [exact Hrep|]. intros c0 Hc0. apply Hd. right. exact Hc0.
  Qed.

  (* ------------------------------------------------------------------ the transition relation on the ghost states *)
  Inductive nstep (s : pstate) (w : nat) (s' : pstate) : Prop :=
  | NS_plain : pstep (gh s) w (gh s') -> nstep s w s'
  | NS_starve x f' : nth_error (p_workers s) w = Some PGetWork -> p_abort s = false ->
      k_pop st_eqb rk (p_nodup s) = Some (f', Some x) -> Permutation (FLs s) (x :: fl f') -> sp_ub x <= p_lb s ->
      view (gh s') = mkV [] (p_ongoing s) (map (fun _ => O) (p_open s)) (p_ongoing_by_layer s) (p_lb s) (p_ub s) (p_sol s)
                         (length (p_upper_bounds s)) (p_abort s) (p_crash s) (setw s w PGetWork) ->
      nstep s w s'
  | NS_item x f' k : nth_error (p_workers s) w = Some PGetWork -> p_abort s = false ->
      k_pop st_eqb rk (p_nodup s) = Some (f', Some x) -> Permutation (FLs s) (x :: fl f') -> p_lb s < sp_ub x ->
      nth_error (p_open s) (sp_depth x) = Some (S k) ->
      view (gh s') = mkV (fl f') (S (p_ongoing s)) (upd_nth (sp_depth x) (fun _ => k) (p_open s))
                         (upd_nth (sp_depth x) S (p_ongoing_by_layer s)) (p_lb s) (p_ub s) (p_sol s)
                         (length (p_upper_bounds s)) (p_abort s) (p_crash s) (setw s w (PReadLb1 x)) ->
      nstep s w s'
  | NS_enqueue n inp m : nth_error (p_workers s) w = Some (PEnqueue n inp m) ->
      pushes (FLs s) (FLs s') (kept (p_lb s) (sp_ub n) (drain_cutset inp m)) ->
      length (p_open s') = length (p_open s) ->
      (forall d, nth_error (p_open s) d = Some (cnt d (FLs s)) -> nth_error (p_open s') d = Some (cnt d (FLs s'))) ->
      view (gh s') = mkV (FLs s') (p_ongoing s) (p_open s') (p_ongoing_by_layer s) (p_lb s) (p_ub s) (p_sol s)
                         (length (p_upper_bounds s)) (p_abort s) (p_crash s) (setw s w (PNotify n false)) ->
      nstep s w s'.

  Lemma view_gh_set_worker s w p : view (gh (set_worker s w p)) =
    mkV (FLs s) (p_ongoing s) (p_open s) (p_ongoing_by_layer s) (p_lb s) (p_ub s) (p_sol s)
        (length (p_upper_bounds s)) (p_abort s) (p_crash s) (upd_nth w (fun _ => p) (p_workers s)).
  Proof. reflexivity. Qed.

  Lemma view_gh_proj s a b c d e f g h i j k : view (gh s) = mkV a b c d e f g h i j k ->
    FLs s = a /\ p_ongoing s = b /\ p_open s = c /\ p_ongoing_by_layer s = d /\ p_lb s = e /\ p_ub s = f /\
    p_sol s = g /\ length (p_upper_bounds s) = h /\ p_abort s = i /\ p_crash s = j /\ p_workers s = k.
  Proof. intros H. apply view_proj in H. exact H. Qed.

  Ltac vg Hv :=
    let H := fresh in
    pose proof Hv as H; apply view_gh_proj in H;
    let V1 := fresh "V1" in let V2 := fresh "V2" in let V3 := fresh "V3" in let V4 := fresh "V4" in
    let V5 := fresh "V5" in let V6 := fresh "V6" in let V7 := fresh "V7" in let V8 := fresh "V8" in
    let V9 := fresh "V9" in let V10 := fresh "V10" in let V11 := fresh "V11" in
    destruct H as (V1 & V2 & V3 & V4 & V5 & V6 & V7 & V8 & V9 & V10 & V11);
    rewrite view_gh_set_worker; unfold vW, setw; psimp;
    rewrite ?V1, ?V2, ?V3, ?V4, ?V5, ?V6, ?V7, ?V8, ?V9, ?V10, ?V11; reflexivity.

  Lemma p_compile_nd s ct n lb s1 inp m o :
    p_compile st_eqb cfg s ct n lb = (s1, inp, m, o) ->
    inp = mk_input cfg ct n lb /\
    compile st_eqb (mk_input cfg ct n lb) 0 0 (p_cache s) (p_dom s) (p_polls s) = (m, o) /\
    p_nodup s1 = p_nodup s /\
    view (gh s1) = mkV (FLs s) (p_ongoing s) (p_open s) (p_ongoing_by_layer s) (p_lb s) (p_ub s) (p_sol s)
                       (length (p_upper_bounds s)) (p_abort s) (p_crash s || m_crash m)%bool (p_workers s).
  Proof.
    unfold p_compile.
    destruct (compile st_eqb (mk_input cfg ct n lb) 0 0 (p_cache s) (p_dom s) (p_polls s)) as [m0 o0] eqn:E.
    intros H; inversion H; subst. auto.
  Qed.

  Lemma mub_nd (s : pstate) inp m : p_nodup (p_maybe_update_best s inp m) = p_nodup s.
  Proof. unfold p_maybe_update_best. destruct (_ >? _); reflexivity. Qed.

  Lemma view_gh_mub s inp m : view (gh (p_maybe_update_best s inp m)) =
    mkV (FLs s) (p_ongoing s) (p_open s) (p_ongoing_by_layer s) (mub_lb (p_lb s) inp m) (p_ub s)
        (mub_sol (p_lb s) (p_sol s) inp m) (length (p_upper_bounds s)) (p_abort s) (p_crash s) (p_workers s).
  Proof.
    unfold p_maybe_update_best, mub_lb, mub_sol.
    destruct (opt_default IMIN (dd_best_exact_value inp m) >? p_lb s); reflexivity.
  Qed.

  Lemma k_pop_total f : Rep f -> exists f' r, k_pop st_eqb rk f = Some (f', r).
  Proof.
    intros [Hc _].
    destruct (nd_pop_core (key_eqb st_eqb) (key_eqb_spec st_eqb st_eqb_spec) (kcmp rk) f Hc) as [f' [r [Hp _]]].
    exists f', (option_map unembed r). unfold k_pop. rewrite Hp. reflexivity.
  Qed.

  (* ================================================================== PART A: no deadlock, no crash (ANY cutoff) *)
  Section PartA.
  Hypothesis HA_nocrash : forall ct n lb c ds polls m out,
    dd_ct ct -> good n -> (sp_depth n <= N)%nat ->
    compile st_eqb (mk_input cfg ct n lb) 0 0 c ds polls = (m, out) -> m_crash m = false.
  Hypothesis HA_cut : forall n lb c ds polls m,
    good n -> (sp_depth n <= N)%nat ->
    compile st_eqb (mk_input cfg Relaxed n lb) 0 0 c ds polls = (m, Compiled) ->
    dd_is_exact m = false ->
    forall x, In x (drain_cutset (mk_input cfg Relaxed n lb) m) -> good x /\ (sp_depth x <= N)%nat.

  Lemma par_step_cases_nd s w s' st : NInv s -> par_step st_eqb cfg s w = Some (s', st) ->
    nstep s w s' /\ Rep (p_nodup s') /\ (rank_ok cfg -> Ord (p_nodup s) -> Ord (p_nodup s')).
  Proof.
    intros [HI Hrep]. pose proof HI as HI'. unfold ParProofs.PInv, PInvV in HI'. rewrite view_gh in HI'.
    cbn [v_simple v_ongoing v_open v_obl v_lb v_ub v_sol v_nubs v_abort v_crash v_workers] in HI'.
    destruct HI' as (I1 & I2 & I3 & I4 & I5 & I6 & I7 & I8 & I9 & I10).
    unfold par_step. destruct (nth_error (p_workers s) w) as [p|] eqn:Ew; [|discriminate].
    assert (Hw : (w < length (p_workers s))%nat) by (eapply nth_error_Some_lt; eauto).
    pose proof (Forall_nth_error _ _ _ _ I6 Ew) as Hok.
    destruct p; try discriminate.
    - (* PGetWork *)
      destruct (get_workload st_eqb cfg s w) as [s1 r] eqn:Eg.
      apply (get_workload_spec_nd s w s1 r (conj HI Hrep) Hw) in Eg.
      intros H; inversion H; subst s' st; clear H.
      destruct Eg as [G1 G2 G3 Hn Hv|G1 Hn Hv|G1 G2 G3 Hn Hv|x f' G1 G2 Hr' G3 G4 Hn Hv|x f' k G1 G2 Hr' G3 G4 G5 Hn Hv]; psimp; rewrite Hn.
      + split; [|split; [exact Hrep|auto]]. apply NS_plain. apply ST_complete; auto. vg Hv.
      + split; [|split; [exact Hrep|auto]]. apply NS_plain. apply ST_aborted; auto. vg Hv.
      + split; [|split; [exact Hrep|auto]]. apply NS_plain. apply ST_wait; auto. vg Hv.
      + split; [|split; [exact (krep_empty st_eqb)|intros _ _; exact (kord_empty st_eqb rk)]].
        eapply NS_starve; eauto. vg Hv.
      + split; [|split; [exact Hr'|intros Hrk Ho; exact (proj1 (pop_max _ _ _ Hrk Hrep Ho G2))]].
        eapply NS_item; eauto. vg Hv.
    - (* PReadLb1 *)
      intros H; inversion H; subst s' st; clear H.
      destruct (sp_ub n <=? p_lb s) eqn:E.
      + apply Z.leb_le in E. psimp. split; [|split; [exact Hrep|auto]].
        apply NS_plain. apply ST_prune with (n := n); auto.
      + apply Z.leb_gt in E.
        destruct (p_compile st_eqb cfg s Restricted n (p_lb s)) as [[[s1 inp] m] o] eqn:Ec.
        apply p_compile_nd in Ec. destruct Ec as (-> & Hc & Hn & Hv).
        assert (Hn' : p_nodup (match o with Compiled => set_worker s1 w (PUpdate1 n (mk_input cfg Restricted n (p_lb s)) m)
                                | _ => set_worker s1 w (PAbort n) end) = p_nodup s) by (destruct o; exact Hn).
        rewrite Hn'. split; [|split; [exact Hrep|auto]].
        apply NS_plain. eapply ST_compile1; eauto. destruct o; vg Hv.
    - (* PUpdate1 *)
      intros H; inversion H; subst s' st; clear H.
      assert (Hn' : p_nodup (if dd_is_exact m then set_worker (p_maybe_update_best s inp m) w (PNotify n false)
                             else set_worker (p_maybe_update_best s inp m) w (PReadLb2 n)) = p_nodup s)
        by (destruct (dd_is_exact m); psimp; apply mub_nd).
      rewrite Hn'. split; [|split; [exact Hrep|auto]].
      apply NS_plain. eapply ST_update1; eauto. pose proof (view_gh_mub s inp m) as Hv.
      destruct (dd_is_exact m); vg Hv.
    - (* PReadLb2 *)
      destruct (p_compile st_eqb cfg s Relaxed n (p_lb s)) as [[[s1 inp] m] o] eqn:Ec.
      apply p_compile_nd in Ec. destruct Ec as (-> & Hc & Hn & Hv).
      intros H; inversion H; subst s' st; clear H.
      assert (Hn' : p_nodup (match o with Compiled => set_worker s1 w (PUpdate2 n (mk_input cfg Relaxed n (p_lb s)) m)
                              | _ => set_worker s1 w (PAbort n) end) = p_nodup s) by (destruct o; exact Hn).
      rewrite Hn'. split; [|split; [exact Hrep|auto]].
      apply NS_plain. eapply ST_compile2; eauto. destruct o; vg Hv.
    - (* PUpdate2 *)
      intros H; inversion H; subst s' st; clear H.
      assert (Hn' : p_nodup (if dd_is_exact m then set_worker (p_maybe_update_best s inp m) w (PNotify n false)
                             else set_worker (p_maybe_update_best s inp m) w (PEnqueue n inp m)) = p_nodup s)
        by (destruct (dd_is_exact m); psimp; apply mub_nd).
      rewrite Hn'. split; [|split; [exact Hrep|auto]].
      apply NS_plain. eapply ST_update2; eauto. pose proof (view_gh_mub s inp m) as Hv.
      destruct (dd_is_exact m); vg Hv.
    - (* PEnqueue *)
      intros H; inversion H; subst s' st; clear H.
      cbn [pc_ok] in Hok. destruct Hok as (Hg & Hd & (lb0 & c & ds & polls & Hlb0 & -> & Hc) & Hex & Hev).
      rewrite p_enqueue_cutset_fold. psimp.
      destruct (enq_fold_nd (p_lb s) (sp_ub n) (drain_cutset (mk_input cfg Relaxed n lb0) m) s Hrep)
        as (R & O & P & [T1 T2] & (S1 & S2 & S3 & S4 & S5 & S6 & S7 & S8 & S9)).
      { intros x Hx. destruct (HA_cut _ _ _ _ _ _ Hg Hd Hc Hex x Hx) as [_ Hdx]. lia. }
      split; [|split; [exact R|exact O]].
      eapply NS_enqueue; eauto. rewrite view_gh_set_worker. unfold setw.
      rewrite S1, S2, S3, S4, S5, S6, S7, S8, S9. reflexivity.
    - (* PAbort *)
      rewrite pf_pop_nd. destruct (k_pop_total _ Hrep) as (f' & r & Hp). rewrite Hp.
      intros H; inversion H; subst s' st; clear H. psimp.
      split; [|split; [exact (krep_empty st_eqb)|intros _ _; exact (kord_empty st_eqb rk)]].
      apply NS_plain. eapply ST_abort; [exact Ew|]. reflexivity.
    - (* PNotify *)
      assert (Hb : busy_node (PNotify n exit_after) = Some n) by reflexivity.
      pose proof (busy_cnt_pos cfg _ _ _ Ew eq_refl) as P1. rewrite <- I2 in P1.
      pose proof (busy_at_cnt_pos cfg _ _ _ _ Ew Hb) as P2.
      cbn [pc_ok] in Hok. destruct Hok as [Hg Hd]. rewrite (I5 _ Hd).
      destruct (p_ongoing s) as [|k] eqn:Eo; [lia|].
      destruct (cntp (busy_at (sp_depth n)) (p_workers s)) as [|j] eqn:Ej; [lia|].
      destruct (nth_error_lt_Some (p_upper_bounds s) w) as [u Hu]; [lia|]. rewrite Hu.
      intros H; inversion H; subst s' st; clear H. psimp.
      split; [|split; [exact Hrep|auto]].
      apply NS_plain. eapply ST_notify; eauto.
      + psimp. rewrite (I5 _ Hd), Ej. reflexivity.
      + rewrite view_gh_set_worker. unfold FLs. psimp. rewrite upd_nth_length. reflexivity.
  Qed.

  (* ------------------------------------------------------------------ PInv (on the ghost state) is preserved *)
  Lemma nstep_pinv s w s' : PInv (gh s) -> nstep s w s' -> PInv (gh s').
  Proof.
    intros HI Hst. pose proof HI as HI'. unfold ParProofs.PInv, PInvV in HI'. rewrite view_gh in HI'.
    cbn [v_simple v_ongoing v_open v_obl v_lb v_ub v_sol v_nubs v_abort v_crash v_workers] in HI'.
    destruct HI' as (I1 & I2 & I3 & I4 & I5 & I6 & I7 & I8 & I9 & I10).
    destruct Hst as [Hps|x f' Ew G1 G2 G3 G4 Hv|x f' k Ew G1 G2 G3 G4 G5 Hv|n inp m Ew P L1 L2 Hv].
    - exact (pstep_inv st_eqb cfg good good_set_ub HA_nocrash HA_cut _ _ _ HI Hps).
    - (* starve *)
      unfold ParProofs.PInv. rewrite Hv. unfold setw.
      apply (PInvV_frame st_eqb cfg good (view (gh s)) w PGetWork PGetWork); auto; try reflexivity; try discriminate;
        try (cbn; lia).
      + rewrite map_length. exact I3.
      + right. intros d Hd. rewrite nth_error_map.
        destruct (nth_error_lt_Some (p_open s) d) as [a Ha]; [lia|]. rewrite Ha. reflexivity.
    - (* item *)
      destruct I8 as [I8|I8]; [congruence|].
      assert (Hx : In x (FLs s)) by (eapply Permutation_in; [apply Permutation_sym; exact G3|left; reflexivity]).
      assert (Hrest : forall y, In y (fl f') -> In y (FLs s))
        by (intros y Hy; eapply Permutation_in; [apply Permutation_sym; exact G3|right; exact Hy]).
      destruct (I7 x Hx) as [Hgx Hdx].
      unfold ParProofs.PInv. rewrite Hv. unfold PInvV, setw.
      cbn [v_simple v_ongoing v_open v_obl v_lb v_ub v_sol v_nubs v_abort v_crash v_workers].
      split; [exact I1|]. split.
      { pose proof (cntp_upd_nth is_busy w (PReadLb1 x) PGetWork _ Ew) as H. cbn in H. lia. }
      split; [rewrite upd_nth_length; exact I3|]. split; [rewrite upd_nth_length; exact I4|]. split.
      { intros d Hd. pose proof (cntp_upd_nth (busy_at d) w (PReadLb1 x) PGetWork _ Ew) as H.
        unfold busy_at in H at 2 4. cbn [busy_node] in H.
        destruct (Nat.eq_dec (sp_depth x) d) as [Heq|Hne].
        - subst d. rewrite Nat.eqb_refl in H. erewrite nth_error_upd_nth_same; [|apply I5; exact Hd]. f_equal. lia.
        - rewrite nth_error_upd_nth_other by exact Hne. rewrite (I5 d Hd). f_equal.
          apply Nat.eqb_neq in Hne. rewrite Hne in H. lia. }
      split.
      { apply Forall_upd_nth; [exact I6|]. cbn [pc_ok]. auto. }
      split; [intros n Hn; apply I7; apply Hrest; exact Hn|]. split.
      { right. intros d Hd. destruct (Nat.eq_dec (sp_depth x) d) as [Heq|Hne].
        - subst d. erewrite nth_error_upd_nth_same; [|exact G5]. f_equal.
          rewrite (I8 _ Hd), (cnt_perm _ _ _ G3), cnt_cons_same in G5. congruence.
        - rewrite nth_error_upd_nth_other by exact Hne. rewrite (I8 _ Hd), (cnt_perm _ _ _ G3), cnt_cons_other by exact Hne.
          reflexivity. }
      split; [rewrite upd_nth_length; exact I9|]. intros _. lia.
    - (* enqueue *)
      pose proof (Forall_nth_error _ _ _ _ I6 Ew) as Hok. cbn [pc_ok] in Hok.
      destruct Hok as (Hg & Hd & (lb0 & c & ds & polls & Hlb0 & -> & Hc) & Hex & Hev).
      assert (Hkept : forall x, In x (kept (p_lb s) (sp_ub n) (drain_cutset (mk_input cfg Relaxed n lb0) m)) ->
                good x /\ (sp_depth x <= N)%nat).
      { intros x Hx. apply (In_kept cfg) in Hx. destruct Hx as (c0 & Hc0 & _ & ->).
        destruct (HA_cut _ _ _ _ _ _ Hg Hd Hc Hex c0 Hc0) as [Hg0 Hd0]. split; [apply good_set_ub; exact Hg0|exact Hd0]. }
      assert (HF' : FringeOK cfg good (FLs s')) by (eapply pushes_fringe; [exact P|exact I7|exact Hkept]).
      unfold ParProofs.PInv. rewrite Hv. unfold setw.
      apply (PInvV_frame st_eqb cfg good (view (gh s)) w (PEnqueue n (mk_input cfg Relaxed n lb0) m) (PNotify n false)); auto;
        try reflexivity; try discriminate; try (cbn; lia).
      + cbn [pc_ok]. auto.
      + destruct I8 as [I8|I8]; [left; exact I8|right]. intros d Hd'. apply L2. apply I8. exact Hd'.
  Qed.

  Theorem par_step_inv_nd s w s' st : NInv s -> par_step st_eqb cfg s w = Some (s', st) -> NInv s'.
  Proof.
    intros HN H. destruct (par_step_cases_nd _ _ _ _ HN H) as (Hst & Hr & _).
    split; [eapply nstep_pinv; [apply HN|exact Hst]|exact Hr].
  Qed.

  (* ------------------------------------------------------------------ initial state *)
  Lemma init_nd c n primal : exists f,
    k_push st_eqb rk nd_empty (root_node cfg) = Some f /\ Rep f /\ fl f = [root_node cfg] /\
    p_nodup (init_pstate st_eqb cfg c n primal) = f /\
    p_upper_bounds (init_pstate st_eqb cfg c n primal) = repeat IMIN c /\
    view (gh (init_pstate st_eqb cfg c n primal)) =
      mkV [root_node cfg] O (upd_nth O S (repeat O (S N))) (repeat O (S N)) (init_lb primal) IMAX (init_sol primal)
          c false false (repeat PGetWork n).
  Proof.
    destruct (k_push_spec st_eqb st_eqb_spec rk nd_empty (root_node cfg) (krep_empty st_eqb)) as (f & Hpush & Hrep & Hpd).
    assert (Hfl : fl f = [root_node cfg]).
    { change (fl nd_empty) with (@nil subproblem) in Hpd. destruct Hpd as [HP|(old & rest & HP & _)].
      - apply Permutation_length_1_inv. apply Permutation_sym. exact HP.
      - apply Permutation_nil in HP. discriminate. }
    exists f. split; [exact Hpush|]. split; [exact Hrep|]. split; [exact Hfl|].
    unfold init_pstate. rewrite nodup_fringe, Hpush.
    destruct primal as [[v sl]|]; [destruct (v >? IMIN) eqn:E|]; rewrite view_gh; unfold FLs; psimp;
      unfold init_lb, init_sol; rewrite ?E, ?repeat_length, Hfl; auto.
  Qed.

  Lemma NInv_init T primal : NInv (init_pstate st_eqb cfg T T primal).
  Proof.
    destruct (init_nd T T primal) as (f & _ & Hrep & _ & Hn & _ & Hv). split; [|rewrite Hn; exact Hrep].
    pose proof (PInv_init st_eqb (flip_nodup cfg) eq_refl good good_root T primal) as H.
    unfold ParProofs.PInv in *. rewrite (view_init st_eqb (flip_nodup cfg) eq_refl) in H. rewrite Hv. exact H.
  Qed.

  (* ------------------------------------------------------------------ runs *)
  Lemma no_deadlock_state_nd s : NInv s -> all_exited s = false -> Par.enabled s <> [].
  Proof. intros [HI _] Hne. exact (ParProofs.no_deadlock_state st_eqb cfg good (gh s) HI Hne). Qed.

  Lemma par_run_inv_nd : forall fuel s sched last trace s' tr e, NInv s ->
    par_run st_eqb cfg fuel s sched last trace = (s', tr, e) -> NInv s' /\ e <> PDeadlock.
  Proof.
    induction fuel as [|fuel IH]; intros s sched last trace s' tr e HI; cbn [par_run].
    - intros H; inversion H; subst. split; [exact HI|discriminate].
    - destruct (all_exited s) eqn:Eall.
      + intros H; inversion H; subst. split; [exact HI|discriminate].
      + pose proof (no_deadlock_state_nd s HI Eall) as Hen.
        destruct (ParProofs.choose_spec cfg (Par.enabled s) sched last Hen) as (w & rest & Hch & Hin). rewrite Hch.
        destruct (ParProofs.par_step_enabled st_eqb cfg s w Hin) as (s1 & st & Hst). rewrite Hst.
        apply IH. eapply par_step_inv_nd; eauto.
  Qed.

  (* C04, NoDupFringe, first half: for every schedule, thread count and fuel the run never deadlocks ... *)
  Theorem par_no_deadlock_nodup T primal fuel sched s' tr e :
    par_run st_eqb cfg fuel (init_pstate st_eqb cfg T T primal) sched None [] = (s', tr, e) ->
    e = PFinished \/ e = POutOfFuel.
  Proof.
    intros H. apply par_run_inv_nd in H; [|apply NInv_init]. destruct H as [_ H]. destruct e; auto. congruence.
  Qed.

  (* ... and no worker ever panics (in particular: no operation of the indexed heap panics, no counter underflows) *)
  Theorem par_never_crashes_nodup T primal fuel sched s' tr e :
    par_run st_eqb cfg fuel (init_pstate st_eqb cfg T T primal) sched None [] = (s', tr, e) -> p_crash s' = false.
  Proof.
    intros H. apply par_run_inv_nd in H; [|apply NInv_init]. destruct H as [[H _] _]. apply H.
  Qed.

  Corollary par_maximize_no_deadlock_no_crash_nodup T primal fuel sched :
    pr_end (par_maximize st_eqb cfg fuel T T primal sched) <> PDeadlock /\
    pr_crash (par_maximize st_eqb cfg fuel T T primal sched) = false.
  Proof.
    unfold par_maximize.
    destruct (par_run st_eqb cfg fuel (init_pstate st_eqb cfg T T primal) sched None []) as [[s' tr] e] eqn:E.
    cbn [pr_end pr_crash]. apply par_run_inv_nd in E; [|apply NInv_init]. destruct E as [[HI _] He]. split; [exact He|apply HI].
  Qed.

  Inductive reachable_nd (T : nat) (primal : option (Z * list decision)) : pstate -> Prop :=
  | RN_init : reachable_nd T primal (init_pstate st_eqb cfg T T primal)
  | RN_step s w s' st : reachable_nd T primal s -> par_step st_eqb cfg s w = Some (s', st) -> reachable_nd T primal s'.

  Lemma reachable_NInv T primal s : reachable_nd T primal s -> NInv s.
  Proof. induction 1; [apply NInv_init|eapply par_step_inv_nd; eauto]. Qed.

  (* C04, second half: completion is declared only when nothing is open or in progress *)
  Theorem complete_only_when_idle_nodup T primal s w s1 : reachable_nd T primal s -> (w < length (p_workers s))%nat ->
    get_workload st_eqb cfg s w = (s1, GWComplete) ->
    p_ongoing s = O /\ FLs s = [] /\ pf_len cfg s = O /\ p_abort s = false /\
    (forall w' p, nth_error (p_workers s) w' = Some p -> busy_node p = None /\ p <> PParked).
  Proof.
    intros HR Hw Hg. pose proof (reachable_NInv _ _ _ HR) as HN.
    pose proof (get_workload_spec_nd s w s1 _ HN Hw Hg) as Hs. inversion Hs as [G1 G2 G3 Hn Hv| | | |].
    destruct HN as [HI Hrep].
    split; [exact G1|]. split; [exact G2|]. split.
    { rewrite pf_len_nd. pose proof (fl_len st_eqb _ Hrep) as E. unfold FLs in G2. rewrite G2 in E. exact E. }
    split; [exact G3|].
    unfold ParProofs.PInv, PInvV in HI. rewrite view_gh in HI.
    cbn [v_simple v_ongoing v_open v_obl v_lb v_ub v_sol v_nubs v_abort v_crash v_workers] in HI.
    destruct HI as (I1 & I2 & I3 & I4 & I5 & I6 & I7 & I8 & I9 & I10).
    intros w' p Hp. split.
    - destruct (busy_node p) eqn:Eb; [|reflexivity].
      assert (Hb : is_busy p = true) by (unfold is_busy; rewrite Eb; reflexivity).
      pose proof (busy_cnt_pos cfg _ _ _ Hp Hb). lia.
    - intros ->. apply nth_error_In in Hp. specialize (I10 Hp). lia.
  Qed.
  End PartA.

  (* ================================================================== PART B: termination (cutoff = 0) *)
  Section PartB.
  Hypothesis no_cutoff : sc_cutoff cfg = O.
  Variable M : nat.
  Hypothesis K0 : forall ct n lb c ds polls m out,
    dd_ct ct -> good n -> (sp_depth n <= N)%nat ->
    compile st_eqb (mk_input cfg ct n lb) 0 0 c ds polls = (m, out) ->
    out = Compiled /\ m_crash m = false.
  Hypothesis K3_good : forall n lb c ds polls m out,
    good n -> (sp_depth n <= N)%nat ->
    compile st_eqb (mk_input cfg Relaxed n lb) 0 0 c ds polls = (m, out) ->
    dd_is_exact m = false ->
    forall x, In x (drain_cutset (mk_input cfg Relaxed n lb) m) -> good x.
  Hypothesis K3_depth : forall n lb c ds polls m out,
    good n -> (sp_depth n <= N)%nat ->
    compile st_eqb (mk_input cfg Relaxed n lb) 0 0 c ds polls = (m, out) ->
    dd_is_exact m = false ->
    forall x, In x (drain_cutset (mk_input cfg Relaxed n lb) m) -> (sp_depth n < sp_depth x <= N)%nat.
  Hypothesis K5 : forall n lb c ds polls m out,
    good n -> (sp_depth n <= N)%nat ->
    compile st_eqb (mk_input cfg Relaxed n lb) 0 0 c ds polls = (m, out) ->
    dd_is_exact m = false ->
    (length (drain_cutset (mk_input cfg Relaxed n lb) m) <= M)%nat.

  Lemma HA_nocrash_B : forall ct n lb c ds polls m out,
    dd_ct ct -> good n -> (sp_depth n <= N)%nat ->
    compile st_eqb (mk_input cfg ct n lb) 0 0 c ds polls = (m, out) -> m_crash m = false.
  Proof. intros. eapply K0; eauto. Qed.
  Lemma HA_cut_B : forall n lb c ds polls m,
    good n -> (sp_depth n <= N)%nat ->
    compile st_eqb (mk_input cfg Relaxed n lb) 0 0 c ds polls = (m, Compiled) ->
    dd_is_exact m = false ->
    forall x, In x (drain_cutset (mk_input cfg Relaxed n lb) m) -> good x /\ (sp_depth x <= N)%nat.
  Proof.
    intros n lb c ds polls m Hg Hd Hc Hex x Hx. split; [eapply K3_good; eauto|].
    pose proof (K3_depth _ _ _ _ _ _ _ Hg Hd Hc Hex x Hx). lia.
  Qed.

  Local Notation wtM := (wt cfg M).
  Local Notation fnodeT T := (fnode cfg M T).
  Local Notation fwT T := (fw cfg M T).
  Local Notation MuT T := (Mu cfg M T).

  Lemma nstep_binv T s w s' : PInv (gh s) -> BInv T (gh s) -> nstep s w s' -> BInv T (gh s').
  Proof.
    intros HI HB Hst. pose proof HB as (B1 & B2 & B3). rewrite view_gh in B1, B2, B3.
    cbn [v_simple v_ongoing v_open v_obl v_lb v_ub v_sol v_nubs v_abort v_crash v_workers] in B1, B2, B3.
    destruct Hst as [Hps|x f' Ew G1 G2 G3 G4 Hv|x f' k Ew G1 G2 G3 G4 G5 Hv|n inp m Ew P L1 L2 Hv].
    - exact (pstep_binv st_eqb cfg good K0 T _ _ _ HI HB Hps).
    - unfold BInv, BInvV. rewrite Hv. unfold setw.
      cbn [v_simple v_ongoing v_open v_obl v_lb v_ub v_sol v_nubs v_abort v_crash v_workers].
      split; [exact B1|]. split; [apply Forall_upd_nth; [exact B2|exact I]|exact B3].
    - unfold BInv, BInvV. rewrite Hv. unfold setw.
      cbn [v_simple v_ongoing v_open v_obl v_lb v_ub v_sol v_nubs v_abort v_crash v_workers].
      split; [exact B1|]. split; [apply Forall_upd_nth; [exact B2|exact I]|exact B3].
    - unfold BInv, BInvV. rewrite Hv. unfold setw.
      cbn [v_simple v_ongoing v_open v_obl v_lb v_ub v_sol v_nubs v_abort v_crash v_workers].
      split; [exact B1|]. split; [apply Forall_upd_nth; [exact B2|exact I]|exact B3].
  Qed.

  Lemma fnode_depth T (x y : subproblem) : sp_depth x = sp_depth y -> fnodeT T x = fnodeT T y.
  Proof. intros H. unfold fnode. rewrite (wt_depth cfg M x y H). reflexivity. Qed.

  Lemma nstep_mu T s w s' : PInv (gh s) -> BInv T (gh s) -> nstep s w s' ->
    (MuT T (view (gh s')) < MuT T (view (gh s)))%nat.
  Proof.
    intros HI HB Hst. pose proof HI as HI'. unfold ParProofs.PInv, PInvV in HI'. rewrite view_gh in HI'.
    cbn [v_simple v_ongoing v_open v_obl v_lb v_ub v_sol v_nubs v_abort v_crash v_workers] in HI'.
    destruct HI' as (I1 & I2 & I3 & I4 & I5 & I6 & I7 & I8 & I9 & I10).
    destruct Hst as [Hps|x f' Ew G1 G2 G3 G4 Hv|x f' k Ew G1 G2 G3 G4 G5 Hv|n inp m Ew P L1 L2 Hv].
    - exact (Mu_decreases st_eqb cfg good no_cutoff M K0 K3_depth K5 T _ _ _ HI HB Hps).
    - rewrite Hv, view_gh. unfold Mu, setw.
      cbn [v_simple v_ongoing v_open v_obl v_lb v_ub v_sol v_nubs v_abort v_crash v_workers].
      pose proof (sumf_upd_nth (fwT T) w PGetWork _ _ Ew) as H. cbn [fw] in H.
      rewrite (sumf_perm _ _ _ G3). cbn [sumf]. unfold fnode at 1, AA.
      pose proof (wt_pos cfg M x). nia.
    - rewrite Hv, view_gh. unfold Mu, setw.
      cbn [v_simple v_ongoing v_open v_obl v_lb v_ub v_sol v_nubs v_abort v_crash v_workers].
      pose proof (sumf_upd_nth (fwT T) w (PReadLb1 x) _ _ Ew) as H. cbn [fw] in H.
      rewrite (sumf_perm _ _ _ G3). cbn [sumf]. unfold fnode at 2. unfold AA in *.
      pose proof (wt_pos cfg M x). destruct (wtM x) as [|q]; [lia|]. replace (S q - 1)%nat with q in H by lia. nia.
    - pose proof (Forall_nth_error _ _ _ _ I6 Ew) as Hok. cbn [pc_ok] in Hok.
      destruct Hok as (Hg & Hd & (lb0 & c & ds & polls & Hlb0 & -> & Hc) & Hex & Hev).
      rewrite Hv, view_gh. unfold Mu, setw.
      cbn [v_simple v_ongoing v_open v_obl v_lb v_ub v_sol v_nubs v_abort v_crash v_workers].
      pose proof (sumf_upd_nth (fwT T) w (PNotify n false) _ _ Ew) as H. cbn [fw] in H.
      set (cs := drain_cutset (mk_input cfg Relaxed n lb0) m) in *.
      assert (Hk : (sumf wtM cs < wtM n)%nat).
      { apply kids_weight; [eapply K5; eauto|]. intros c0 Hc0. eapply K3_depth; eauto. }
      pose proof (pushes_weight (fnodeT T) _ _ _ (fnode_depth T) P) as Hw.
      pose proof (sumf_kept_le cfg (fnodeT T) (p_lb s) (sp_ub n) cs) as Hle.
      assert (Hsc : sumf (fun c0 => fnodeT T (set_ub c0 (Z.min (sp_ub n) (sp_ub c0)))) cs = (AA T * sumf wtM cs)%nat).
      { rewrite <- sumf_scale_nat. apply sumf_ext. intros c0 _. reflexivity. }
      rewrite Hsc in Hle.
      assert (AA T * sumf wtM cs <= AA T * (wtM n - 1))%nat by (apply Nat.mul_le_mono_l; lia).
      lia.
  Qed.

  Lemma par_run_terminates_nd T : forall fuel s sched last trace s' tr e, NInv s -> BInv T (gh s) ->
    (MuT T (view (gh s)) < fuel)%nat ->
    par_run st_eqb cfg fuel s sched last trace = (s', tr, e) -> e = PFinished.
  Proof.
    induction fuel as [|fuel IH]; intros s sched last trace s' tr e HN HB Hmu; [lia|]. cbn [par_run].
    destruct (all_exited s) eqn:Eall.
    - intros H; inversion H; subst. reflexivity.
    - pose proof (no_deadlock_state_nd s HN Eall) as Hen.
      destruct (ParProofs.choose_spec cfg (Par.enabled s) sched last Hen) as (w & rest & Hch & Hin). rewrite Hch.
      destruct (ParProofs.par_step_enabled st_eqb cfg s w Hin) as (s1 & st & Hst). rewrite Hst.
      destruct (par_step_cases_nd HA_cut_B _ _ _ _ HN Hst) as (Hns & Hr & _).
      pose proof (nstep_pinv HA_nocrash_B HA_cut_B _ _ _ (proj1 HN) Hns) as HI1.
      apply IH; [split; assumption|eapply nstep_binv; [apply HN|exact HB|exact Hns]|].
      pose proof (nstep_mu T s w s1 (proj1 HN) HB Hns). lia.
  Qed.

  Lemma BInv_init_nd T primal : BInv T (gh (init_pstate st_eqb cfg T T primal)).
  Proof.
    destruct (init_nd T T primal) as (f & _ & _ & _ & _ & _ & Hv).
    pose proof (BInv_init st_eqb (flip_nodup cfg) eq_refl T primal) as H.
    unfold BInv in *. rewrite (view_init st_eqb (flip_nodup cfg) eq_refl) in H. rewrite Hv. exact H.
  Qed.

  Lemma Mu_init_nd T primal : MuT T (view (gh (init_pstate st_eqb cfg T T primal))) = ((T + 8) * (S M) ^ N + 2 * T)%nat.
  Proof.
    destruct (init_nd T T primal) as (f & _ & _ & _ & _ & _ & Hv).
    pose proof (Mu_init st_eqb (flip_nodup cfg) eq_refl no_cutoff M T primal) as H.
    rewrite (view_init st_eqb (flip_nodup cfg) eq_refl) in H. rewrite Hv. exact H.
  Qed.

  (* B, NoDupFringe: every run, whatever the schedule, finishes within fuelP T transitions (the SAME bound as for the
     SimpleFringe: a coalescing push does not increase the measure) *)
  Theorem par_terminates_nodup T primal fuel sched : (fuelP cfg M T <= fuel)%nat ->
    pr_end (par_maximize st_eqb cfg fuel T T primal sched) = PFinished.
  Proof.
    intros Hf. unfold par_maximize.
    destruct (par_run st_eqb cfg fuel (init_pstate st_eqb cfg T T primal) sched None []) as [[s' tr] e] eqn:E.
    cbn [pr_end].
    eapply (par_run_terminates_nd T); [apply NInv_init|apply BInv_init_nd| |exact E].
    rewrite Mu_init_nd. unfold fuelP in Hf. lia.
  Qed.
  End PartB.
End ParNoDup.

(* ================================================================== PART C: the bounds (ANY cutoff) *)
Section ParNoDupSem.
  Context {St : Type}.
  Variable st_eqb : St -> St -> bool.
  Hypothesis st_eqb_spec : forall a b, st_eqb a b = true <-> a = b.
  Variable cfg : @sconfig St.

  Notation pstate := (@pstate St).
  Notation pc := (@pc St).
  Notation subproblem := (@subproblem St).
  Local Notation N := (nb_vars (sc_problem cfg)).
  Local Notation rk := (sc_ranking cfg).

  Hypothesis no_cache : sc_use_cache cfg = false.
  Hypothesis nodup_fringe : sc_nodup cfg = true.

  Variable good : subproblem -> Prop.
  Variable best : subproblem -> option Z.
  Variable feasible : list decision -> Z -> Prop.
  Hypothesis HK : contracts st_eqb good best feasible cfg.
  Hypothesis HS : semantics good best feasible cfg.
  (* NEW with respect to ParAnytime.v (as in SolverNoDup.v / CutoffNoDup.v) *)
  Hypothesis Hco : CutoffNoDup.coalesce_ok good best.
  Hypothesis Hrk : rank_ok cfg.

  Local Notation OPT := (@OPT St cfg best).
  Local Notation PInv := (ParProofs.PInv st_eqb cfg good).
  Local Notation pstep := (ParProofs.pstep st_eqb cfg).
  Local Notation NInv := (NInv st_eqb cfg good).
  Local Notation nstep := (nstep st_eqb cfg).
  Local Notation Incumbent := (Incumbent feasible).
  Local Notation WitB := (Wit best).
  Local Notation Rep f := (krep st_eqb f).
  Local Notation Ord f := (kord rk f).

  Lemma Kcrash : KC_crash st_eqb good cfg. Proof. apply HK. Qed.
  Lemma K1c : KC1 st_eqb good feasible cfg. Proof. apply HK. Qed.
  Lemma K2c : KC2 st_eqb good best cfg. Proof. apply HK. Qed.
  Lemma K3c_good : KC3_good st_eqb good cfg. Proof. apply HK. Qed.
  Lemma K3c_depth : KC3_depth st_eqb good cfg. Proof. apply HK. Qed.
  Lemma K3c_ub : KC3_ub st_eqb good best cfg. Proof. apply HK. Qed.
  Lemma K4c : KC4 st_eqb good best cfg. Proof. apply HK. Qed.
  Lemma good_root_c : good (root_node cfg). Proof. apply HS. Qed.
  Lemma feasible_le_opt_c : forall sol v, feasible sol v -> exists o, OPT = Some o /\ v <= o. Proof. apply HS. Qed.
  Lemma opt_in_isize_c : forall o, OPT = Some o -> IMIN < o <= IMAX. Proof. apply HS. Qed.
  Lemma good_set_ub_c : forall c u, good c -> good (set_ub c u). Proof. apply HS. Qed.
  Lemma best_set_ub_c : forall c u, best (set_ub c u) = best c. Proof. apply HS. Qed.

  Lemma HA_cut_c : forall n lb c ds polls m,
    good n -> (sp_depth n <= N)%nat ->
    compile st_eqb (mk_input cfg Relaxed n lb) 0 0 c ds polls = (m, Compiled) ->
    dd_is_exact m = false ->
    forall x, In x (drain_cutset (mk_input cfg Relaxed n lb) m) -> good x /\ (sp_depth x <= N)%nat.
  Proof.
    intros n lb c ds polls m Hg Hd Hc Hex x Hx. split; [eapply K3c_good; eauto|eapply K3c_depth; eauto].
  Qed.

  Lemma step_cases_c s w s' st : NInv s -> par_step st_eqb cfg s w = Some (s', st) ->
    nstep s w s' /\ Rep (p_nodup s') /\ (Ord (p_nodup s) -> Ord (p_nodup s')).
  Proof.
    intros HN H.
    destruct (par_step_cases_nd st_eqb st_eqb_spec cfg no_cache nodup_fringe good HA_cut_c _ _ _ _ HN H) as (A & B & C).
    split; [exact A|]. split; [exact B|]. exact (C Hrk).
  Qed.
  Lemma step_pinv_c s w s' : PInv (gh s) -> nstep s w s' -> PInv (gh s').
  Proof. apply (nstep_pinv st_eqb cfg good good_set_ub_c Kcrash HA_cut_c). Qed.
  Lemma pstep_pinv_c s w s' : PInv s -> pstep s w s' -> PInv s'.
  Proof. apply (pstep_inv st_eqb cfg good good_set_ub_c Kcrash HA_cut_c). Qed.

  (* ------------------------------------------------------------------ sequences of pushes and the witnesses *)
  Lemma pushes_wit_old L L' ks o : pushes L L' ks -> FringeOK cfg good L ->
    (forall n, In n ks -> good n /\ (sp_depth n <= N)%nat) ->
    (exists x, In x L /\ WitB o x) -> exists x, In x L' /\ WitB o x.
  Proof.
    induction 1 as [L|L L1 L' n ks Hp Hps IH]; intros HF Hk Hex; [exact Hex|].
    destruct (Hk n (or_introl eq_refl)) as [Hg Hd].
    apply IH.
    - exact (pushed_fringe cfg good good_set_ub_c _ _ _ Hp HF Hg Hd).
    - intros n0 Hn0. apply Hk. right. exact Hn0.
    - exact (pushed_wit_old cfg good best best_set_ub_c Hco _ _ _ o Hp HF Hg Hex).
  Qed.

  Lemma pushes_wit_new L L' ks o c : pushes L L' ks -> FringeOK cfg good L ->
    (forall n, In n ks -> good n /\ (sp_depth n <= N)%nat) ->
    In c ks -> WitB o c -> exists x, In x L' /\ WitB o x.
  Proof.
    induction 1 as [L|L L1 L' n ks Hp Hps IH]; intros HF Hk Hin Hw; [destruct Hin|].
    destruct (Hk n (or_introl eq_refl)) as [Hg Hd].
    assert (HF1 : FringeOK cfg good L1) by exact (pushed_fringe cfg good good_set_ub_c _ _ _ Hp HF Hg Hd).
    assert (Hk1 : forall n0, In n0 ks -> good n0 /\ (sp_depth n0 <= N)%nat) by (intros n0 Hn0; apply Hk; right; exact Hn0).
    destruct Hin as [<-|Hin].
    - eapply pushes_wit_old; [exact Hps|exact HF1|exact Hk1|].
      exact (pushed_wit_new cfg good best best_set_ub_c Hco _ _ _ o Hp HF Hg Hw).
    - apply IH; assumption.
  Qed.

  (* ================================================================== the invariant, with the weakened witness
     (SolverNoDup.Wit: best n >= o instead of best n = o -- the survivor of a coalescing push may be worth more) *)
  Definition CoverW (simple : list subproblem) (ws : list pc) (lb : Z) : Prop :=
    forall o, OPT = Some o ->
      o <= lb \/ exists n, WitB o n /\ (In n simple \/ exists p, In p ws /\ resp p = Some n).

  Lemma CoverW_frame simple ws lb ws0 w p p' simple' lb' :
    CoverW simple ws lb ->
    nth_error ws0 w = Some p ->
    (forall p0, In p0 ws -> resp p0 = None \/ In p0 ws0) ->
    lb <= lb' ->
    (forall n o, In n simple -> WitB o n ->
       (exists c, In c simple' /\ WitB o c) \/ resp p' = Some n \/ o <= lb') ->
    (forall n o, resp p = Some n -> OPT = Some o -> WitB o n ->
       resp p' = Some n \/ o <= lb' \/ exists c, In c simple' /\ WitB o c) ->
    CoverW simple' (upd_nth w (fun _ => p') ws0) lb'.
  Proof.
    intros C4 Ew Hown Hlb Hsim Hresp o Ho.
    destruct (C4 o Ho) as [Hle|(n & Hw & [Hn|(p0 & Hp0 & Hown0)])].
    - left. lia.
    - destruct (Hsim n o Hn Hw) as [(c & Hc & Hwc)|[H|H]].
      + right. exists c. auto.
      + right. exists n. split; [exact Hw|]. right. exists p'. split; [eapply nth_error_upd_In; eauto|exact H].
      + left. exact H.
    - destruct (Hown p0 Hp0) as [H|H]; [congruence|].
      destruct (In_upd_nth_keep w p' p0 ws0 H) as [H'|H'].
      + right. exists n. split; [exact Hw|]. right. exists p0. auto.
      + assert (p0 = p) by congruence. subst p0.
        destruct (Hresp n o Hown0 Ho Hw) as [H1|[H1|(c & Hc & Hwc)]].
        * right. exists n. split; [exact Hw|]. right. exists p'. split; [eapply nth_error_upd_In; eauto|exact H1].
        * left. exact H1.
        * right. exists c. auto.
  Qed.

  Definition CalmW (v : @vw St) : Prop :=
    v_abort v = false /\ CoverW (v_simple v) (v_workers v) (v_lb v) /\
    (In PExited (v_workers v) -> v_simple v = [] /\ v_ongoing v = O /\ v_ub v = v_lb v) /\
    Forall quiet (v_workers v) /\
    (~ In PExited (v_workers v) -> v_ub v = IMAX).

  Lemma CalmW_frame v ws0 w p p' simple' ongoing' open' obl' lb' ub' sol' nubs' crash' :
    CalmW v -> nth_error ws0 w = Some p ->
    (forall p0, In p0 (v_workers v) -> resp p0 = None \/ In p0 ws0) ->
    Forall quiet ws0 -> quiet p' -> v_lb v <= lb' ->
    (forall n o, In n (v_simple v) -> WitB o n ->
       (exists c, In c simple' /\ WitB o c) \/ resp p' = Some n \/ o <= lb') ->
    (forall n o, resp p = Some n -> OPT = Some o -> WitB o n ->
       resp p' = Some n \/ o <= lb' \/ exists c, In c simple' /\ WitB o c) ->
    (In PExited (upd_nth w (fun _ => p') ws0) -> simple' = [] /\ ongoing' = O /\ ub' = lb') ->
    (~ In PExited (upd_nth w (fun _ => p') ws0) -> ub' = IMAX) ->
    CalmW (mkV simple' ongoing' open' obl' lb' ub' sol' nubs' false crash' (upd_nth w (fun _ => p') ws0)).
  Proof.
    intros (C1 & C4 & C5 & C2 & C7) Ew Hown Hq0 Hq Hlb Hsim Hresp Hexit Hnoexit.
    unfold CalmW. cbn [v_simple v_ongoing v_open v_obl v_lb v_ub v_sol v_nubs v_abort v_crash v_workers].
    split; [reflexivity|]. split; [eapply CoverW_frame; eauto|]. split; [exact Hexit|].
    split; [apply Forall_upd_nth; assumption|exact Hnoexit].
  Qed.

  Ltac exit_busy s HI C5 Ew :=
    let Hin := fresh "Hin" in
    intros Hin; apply In_upd_nth in Hin; destruct Hin as [Hin|Hin];
    [try discriminate|exfalso; eapply (busy_excl st_eqb cfg good s _ _ HI C5 Ew); [reflexivity|exact Hin]].
  Ltac noexit C7 Ew :=
    let Hn := fresh "Hn" in
    intros Hn; apply C7; eapply noexit_keep; [exact Ew|discriminate|exact Hn].

  (* the copy of ParAnytime.pstep_calm for the weakened witness (on ANY state; used on the ghost states) *)
  Lemma pstep_calmW s w s' : PInv s -> CalmW (view s) -> pstep s w s' ->
    (forall n, nth_error (p_workers s) w <> Some (PAbort n)) -> CalmW (view s').
  Proof.
    intros HI HC Hst Hnab. pose proof HI as HI'. unfold ParProofs.PInv, PInvV, view in HI'.
    cbn [v_simple v_ongoing v_open v_obl v_lb v_ub v_sol v_nubs v_abort v_crash v_workers] in HI'.
    destruct HI' as (I1 & I2 & I3 & I4 & I5 & I6 & I7 & I8 & I9 & I10).
    pose proof HC as HC'. unfold CalmW, view in HC'.
    cbn [v_simple v_ongoing v_open v_obl v_lb v_ub v_sol v_nubs v_abort v_crash v_workers] in HC'.
    destruct HC' as (C1 & C4 & C5 & C2 & C7).
    assert (Hownid : forall p0, In p0 (v_workers (view s)) -> resp p0 = None \/ In p0 (p_workers s)) by (intros; right; assumption).
    assert (Hsimid : forall (p' : pc) lb' n o, In n (v_simple (view s)) -> WitB o n ->
       (exists c, In c (p_simple s) /\ WitB o c) \/ resp p' = Some n \/ o <= lb') by (intros; left; eauto).
    assert (Hlbid : v_lb (view s) <= p_lb s) by (cbn; lia).
    destruct Hst as [Ew G1 G2 G3 Hv|Ew G1 Hv|Ew G1 G2 G3 Hv|x rest Ew G1 G2 G3 Hv|x rest k Ew G1 G2 G3 G4 Hv
                    |n Ew G1 Hv|n m o c ds polls Ew G1 Hc Hv|n inp m Ew Hv|n m o c ds polls Ew Hc Hv|n inp m Ew Hv
                    |n inp m op' Ew L1 L2 Hv|n ub' Ew Hv|n ea k j Ew G1 G2 Hv];
      rewrite Hv; unfold vW, setw; rewrite ?C1;
      pose proof (Forall_nth_error _ _ _ _ I6 Ew) as Hok; cbn [pc_ok] in Hok;
      pose proof (Forall_nth_error _ _ _ _ C2 Ew) as Hq; cbn [quiet] in Hq.
    - (* complete *)
      apply (CalmW_frame (view s) (p_workers s) w PGetWork PExited); auto; try exact I; try (intros; discriminate).
      intros Hn. exfalso. apply Hn. eapply nth_error_upd_In; eauto.
    - congruence.
    - (* wait *)
      apply (CalmW_frame (view s) (p_workers s) w PGetWork PParked); auto; try exact I; try (intros; discriminate).
      + intros Hin. apply In_upd_nth in Hin. destruct Hin as [Hin|Hin]; [discriminate|].
        destruct (C5 Hin) as (_ & H0 & _). lia.
      + noexit C7 Ew.
    - (* starvation *)
      apply (CalmW_frame (view s) (p_workers s) w PGetWork PGetWork); auto; try exact I; try (intros; discriminate).
      + intros n o Hn (o' & Hb & Hoo & Hu). right; right. pose proof (pq_pop_max cfg _ _ _ G2 n Hn). lia.
      + intros Hin. apply In_upd_nth in Hin. destruct Hin as [Hin|Hin]; [discriminate|].
        destruct (C5 Hin) as (H0 & _). rewrite H0 in G2. discriminate.
      + noexit C7 Ew.
    - (* item *)
      apply (CalmW_frame (view s) (p_workers s) w PGetWork (PReadLb1 x)); auto; try exact I; try (intros; discriminate).
      + intros n o Hn Hw. pose proof (pq_pop_perm _ _ _ _ G2) as Hperm.
        eapply Permutation_in in Hn; [|exact Hperm].
        destruct Hn as [Hn|Hn]; [right; left; subst; reflexivity|left; exists n; auto].
      + intros Hin. apply In_upd_nth in Hin. destruct Hin as [Hin|Hin]; [discriminate|].
        destruct (C5 Hin) as (H0 & _). rewrite H0 in G2. discriminate.
      + noexit C7 Ew.
    - (* prune *)
      apply (CalmW_frame (view s) (p_workers s) w (PReadLb1 n) (PNotify n false)); auto; try exact I; try (intros; discriminate).
      + intros n0 o Hown _ (o' & Hb & Hoo & Hu). injection Hown as <-. right; left. lia.
      + exit_busy s HI C5 Ew.
      + noexit C7 Ew.
    - (* compile1 *)
      apply (CalmW_frame (view s) (p_workers s) w (PReadLb1 n)
               (match o with Compiled => PUpdate1 n (mk_input cfg Restricted n (p_lb s)) m | _ => PAbort n end));
        auto; try exact I; try (intros; discriminate).
      + destruct o; exact I.
      + intros n0 o0 Hown _ Hw. left. destruct o; exact Hown.
      + intros Hin. apply In_upd_nth in Hin. destruct Hin as [Hin|Hin]; [destruct o; discriminate|].
        exfalso. eapply (busy_excl st_eqb cfg good s _ _ HI C5 Ew); [reflexivity|exact Hin].
      + noexit C7 Ew.
    - (* update1 *)
      destruct Hok as (Hg & Hd & (lb0 & c & ds & polls & Hlb0 & -> & Hc)).
      destruct (ParProofs.mub_lb_ge cfg (p_lb s) (mk_input cfg Restricted n lb0) m) as [Hge Hev].
      apply (CalmW_frame (view s) (p_workers s) w (PUpdate1 n (mk_input cfg Restricted n lb0) m)
               (if dd_is_exact m then PNotify n false else PReadLb2 n)); auto; try exact I; try (intros; discriminate).
      + destruct (dd_is_exact m); exact I.
      + intros n0 o Hown _ (o' & Hb & Hoo & Hu). injection Hown as <-. destruct (dd_is_exact m) eqn:Eex; [|left; reflexivity].
        right; left. destruct (Z_le_gt_dec o' lb0) as [Hle|Hgt]; [lia|].
        assert (o' <= mub_lb (p_lb s) (mk_input cfg Restricted n lb0) m); [|lia].
        apply Hev. eapply (K2c Restricted); eauto. left; reflexivity.
      + intros Hin. apply In_upd_nth in Hin. destruct Hin as [Hin|Hin]; [destruct (dd_is_exact m); discriminate|].
        exfalso. eapply (busy_excl st_eqb cfg good s _ _ HI C5 Ew); [reflexivity|exact Hin].
      + noexit C7 Ew.
    - (* compile2 *)
      apply (CalmW_frame (view s) (p_workers s) w (PReadLb2 n)
               (match o with Compiled => PUpdate2 n (mk_input cfg Relaxed n (p_lb s)) m | _ => PAbort n end));
        auto; try exact I; try (intros; discriminate).
      + destruct o; exact I.
      + intros n0 o0 Hown _ Hw. left. destruct o; exact Hown.
      + intros Hin. apply In_upd_nth in Hin. destruct Hin as [Hin|Hin]; [destruct o; discriminate|].
        exfalso. eapply (busy_excl st_eqb cfg good s _ _ HI C5 Ew); [reflexivity|exact Hin].
      + noexit C7 Ew.
    - (* update2 *)
      destruct Hok as (Hg & Hd & (lb0 & c & ds & polls & Hlb0 & -> & Hc)).
      destruct (ParProofs.mub_lb_ge cfg (p_lb s) (mk_input cfg Relaxed n lb0) m) as [Hge Hev].
      apply (CalmW_frame (view s) (p_workers s) w (PUpdate2 n (mk_input cfg Relaxed n lb0) m)
               (if dd_is_exact m then PNotify n false else PEnqueue n (mk_input cfg Relaxed n lb0) m));
        auto; try exact I; try (intros; discriminate).
      + destruct (dd_is_exact m); exact I.
      + intros n0 o Hown _ (o' & Hb & Hoo & Hu). injection Hown as <-. destruct (dd_is_exact m) eqn:Eex; [|left; reflexivity].
        right; left. destruct (Z_le_gt_dec o' lb0) as [Hle|Hgt]; [lia|].
        assert (o' <= mub_lb (p_lb s) (mk_input cfg Relaxed n lb0) m); [|lia].
        apply Hev. eapply (K2c Relaxed); eauto. right; reflexivity.
      + intros Hin. apply In_upd_nth in Hin. destruct Hin as [Hin|Hin]; [destruct (dd_is_exact m); discriminate|].
        exfalso. eapply (busy_excl st_eqb cfg good s _ _ HI C5 Ew); [reflexivity|exact Hin].
      + noexit C7 Ew.
    - (* enqueue (the SimpleFringe form: every kept node is added) *)
      destruct Hok as (Hg & Hd & (lb0 & c & ds & polls & Hlb0 & -> & Hc) & Hex & Hev).
      apply (CalmW_frame (view s) (p_workers s) w (PEnqueue n (mk_input cfg Relaxed n lb0) m) (PNotify n false));
        auto; try exact I; try (intros; discriminate).
      + intros n0 o Hn0 Hw. left. exists n0. split; [apply in_or_app; right; exact Hn0|exact Hw].
      + intros n0 o Hown _ (o' & Hb & Hoo & Hu). injection Hown as <-. right.
        destruct (Z_le_gt_dec o (p_lb s)) as [Hle|Hgt]; [left; exact Hle|right].
        assert (Hgt0 : o' > lb0) by lia.
        destruct (K4c _ _ _ _ _ _ Hg Hd Hc Hex o' Hb Hgt0) as (x & Hx & Hbx).
        { intros e He. specialize (Hev e He). lia. }
        assert (Hux : o' <= sp_ub x) by (eapply K3c_ub; eauto).
        exists (set_ub x (Z.min (sp_ub n) (sp_ub x))). split.
        * apply in_or_app. left. apply -> in_rev. apply (In_kept cfg). exists x. split; [exact Hx|]. split; [lia|reflexivity].
        * exists o'. rewrite best_set_ub_c. split; [exact Hbx|]. split; [exact Hoo|]. cbn [set_ub sp_ub]. lia.
      + exit_busy s HI C5 Ew.
      + noexit C7 Ew.
    - exfalso. eapply Hnab; eauto.
    - (* notify *)
      destruct ea; [destruct Hq|].
      apply (CalmW_frame (view s) (map wake (p_workers s)) w (PNotify n false) PGetWork); auto; try exact I; try (intros; discriminate).
      + rewrite nth_error_map, Ew. reflexivity.
      + intros p0 Hp0. destruct (resp p0) eqn:E; [right|left; reflexivity]. apply in_map_iff. exists p0.
        split; [destruct p0; try discriminate; reflexivity|exact Hp0].
      + rewrite Forall_map. eapply Forall_impl; [|exact C2]. intros a. apply quiet_wake.
      + intros Hin. apply In_upd_nth in Hin. destruct Hin as [Hin|Hin]; [discriminate|].
        apply in_map_iff in Hin. destruct Hin as (a & Ha & Hin). assert (a = PExited) by (destruct a; try discriminate; reflexivity).
        subst a. exfalso. eapply (busy_excl st_eqb cfg good s w (PNotify n false)); eauto.
      + intros Hn. apply C7. intros Hin. apply Hn.
        assert (Hin' : In PExited (map wake (p_workers s))) by (apply in_map_iff; exists PExited; split; [reflexivity|exact Hin]).
        destruct (In_upd_nth_keep w PGetWork PExited _ Hin') as [H|H]; [exact H|].
        rewrite nth_error_map, Ew in H. discriminate.
  Qed.

  (* ------------------------------------------------------------------ the three transitions that touch the NoDupFringe *)
  Lemma nstep_calmW s w s' : NInv s -> Ord (p_nodup s) -> CalmW (view (gh s)) -> nstep s w s' ->
    (forall n, nth_error (p_workers s) w <> Some (PAbort n)) -> CalmW (view (gh s')).
  Proof.
    intros [HI Hrep] Hord HC Hst Hnab.
    destruct Hst as [Hps|x f' Ew G1 G2 G3 G4 Hv|x f' k Ew G1 G2 G3 G4 G5 Hv|n inp m Ew P L1 L2 Hv];
      [exact (pstep_calmW (gh s) w (gh s') HI HC Hps Hnab)| | |];
      pose proof HI as HI'; unfold ParProofs.PInv, PInvV in HI'; rewrite view_gh in HI';
      cbn [v_simple v_ongoing v_open v_obl v_lb v_ub v_sol v_nubs v_abort v_crash v_workers] in HI';
      destruct HI' as (I1 & I2 & I3 & I4 & I5 & I6 & I7 & I8 & I9 & I10);
      pose proof HC as HC'; unfold CalmW in HC'; rewrite view_gh in HC';
      cbn [v_simple v_ongoing v_open v_obl v_lb v_ub v_sol v_nubs v_abort v_crash v_workers] in HC';
      destruct HC' as (C1 & C4 & C5 & C2 & C7);
      assert (Hownid : forall p0, In p0 (v_workers (view (gh s))) -> resp p0 = None \/ In p0 (p_workers s)) by (intros; right; assumption);
      assert (Hlbid : v_lb (view (gh s)) <= p_lb s) by (cbn; lia);
      rewrite Hv; unfold setw; rewrite ?C1.
    - (* starvation: the popped node has the largest upper bound of the fringe (heap order) *)
      destruct (pop_max st_eqb st_eqb_spec cfg _ _ _ Hrk Hrep Hord G2) as [_ Hmax].
      apply (CalmW_frame (view (gh s)) (p_workers s) w PGetWork PGetWork); auto; try exact I; try (intros; discriminate).
      + intros n o Hn (o' & Hb & Hoo & Hu). right; right. pose proof (Hmax n Hn). lia.
      + intros Hin. apply In_upd_nth in Hin. destruct Hin as [Hin|Hin]; [discriminate|].
        destruct (C5 Hin) as (H0 & _). rewrite H0 in G3. apply Permutation_nil in G3. discriminate.
      + noexit C7 Ew.
    - (* item *)
      apply (CalmW_frame (view (gh s)) (p_workers s) w PGetWork (PReadLb1 x)); auto; try exact I; try (intros; discriminate).
      + intros n o Hn Hw. eapply Permutation_in in Hn; [|exact G3].
        destruct Hn as [Hn|Hn]; [right; left; subst; reflexivity|left; exists n; auto].
      + intros Hin. apply In_upd_nth in Hin. destruct Hin as [Hin|Hin]; [discriminate|].
        destruct (C5 Hin) as (H0 & _). rewrite H0 in G3. apply Permutation_nil in G3. discriminate.
      + noexit C7 Ew.
    - (* enqueue, with coalescing *)
      pose proof (Forall_nth_error _ _ _ _ I6 Ew) as Hok. cbn [pc_ok] in Hok.
      destruct Hok as (Hg & Hd & (lb0 & c & ds & polls & Hlb0 & -> & Hc) & Hex & Hev).
      assert (Hkept : forall x, In x (kept (p_lb s) (sp_ub n) (drain_cutset (mk_input cfg Relaxed n lb0) m)) ->
                good x /\ (sp_depth x <= N)%nat).
      { intros x Hx. apply (In_kept cfg) in Hx. destruct Hx as (c0 & Hc0 & _ & ->).
        destruct (HA_cut_c _ _ _ _ _ _ Hg Hd Hc Hex c0 Hc0) as [Hg0 Hd0]. split; [apply good_set_ub_c; exact Hg0|exact Hd0]. }
      apply (CalmW_frame (view (gh s)) (p_workers s) w (PEnqueue n (mk_input cfg Relaxed n lb0) m) (PNotify n false));
        auto; try exact I; try (intros; discriminate).
      + intros n0 o Hn0 Hw. left. eapply pushes_wit_old; [exact P|exact I7|exact Hkept|]. exists n0. auto.
      + intros n0 o Hown _ (o' & Hb & Hoo & Hu). injection Hown as <-. right.
        destruct (Z_le_gt_dec o (p_lb s)) as [Hle|Hgt]; [left; exact Hle|right].
        assert (Hgt0 : o' > lb0) by lia.
        destruct (K4c _ _ _ _ _ _ Hg Hd Hc Hex o' Hb Hgt0) as (x & Hx & Hbx).
        { intros e He. specialize (Hev e He). lia. }
        assert (Hux : o' <= sp_ub x) by (eapply K3c_ub; eauto).
        eapply (pushes_wit_new _ _ _ o (set_ub x (Z.min (sp_ub n) (sp_ub x)))); [exact P|exact I7|exact Hkept| |].
        * apply (In_kept cfg). exists x. split; [exact Hx|]. split; [lia|reflexivity].
        * exists o'. rewrite best_set_ub_c. split; [exact Hbx|]. split; [exact Hoo|]. cbn [set_ub sp_ub]. lia.
      + exit_busy (gh s) HI C5 Ew.
      + noexit C7 Ew.
  Qed.

  Lemma nstep_incumbent s w s' : PInv (gh s) -> Incumbent (p_lb s) (p_sol s) -> nstep s w s' ->
    Incumbent (p_lb s') (p_sol s').
  Proof.
    intros HI HInc Hst.
    destruct Hst as [Hps|x f' Ew G1 G2 G3 G4 Hv|x f' k Ew G1 G2 G3 G4 G5 Hv|n inp m Ew P L1 L2 Hv].
    - exact (pstep_incumbent st_eqb cfg good best feasible HK (gh s) w (gh s') HI HInc Hps).
    - apply view_gh_proj in Hv. destruct Hv as (V1 & V2 & V3 & V4 & V5 & V6 & V7 & V8 & V9 & V10 & V11). rewrite V5, V7. exact HInc.
    - apply view_gh_proj in Hv. destruct Hv as (V1 & V2 & V3 & V4 & V5 & V6 & V7 & V8 & V9 & V10 & V11). rewrite V5, V7. exact HInc.
    - apply view_gh_proj in Hv. destruct Hv as (V1 & V2 & V3 & V4 & V5 & V6 & V7 & V8 & V9 & V10 & V11). rewrite V5, V7. exact HInc.
  Qed.

  Lemma nstep_workers_len s w s' : nstep s w s' -> length (p_workers s') = length (p_workers s).
  Proof.
    intros Hst.
    destruct Hst as [Hps|x f' Ew G1 G2 G3 G4 Hv|x f' k Ew G1 G2 G3 G4 G5 Hv|n inp m Ew P L1 L2 Hv].
    - exact (pstep_workers_len st_eqb cfg (gh s) w (gh s') Hps).
    - apply view_gh_proj in Hv. destruct Hv as (V1 & V2 & V3 & V4 & V5 & V6 & V7 & V8 & V9 & V10 & V11). rewrite V11. apply upd_nth_length.
    - apply view_gh_proj in Hv. destruct Hv as (V1 & V2 & V3 & V4 & V5 & V6 & V7 & V8 & V9 & V10 & V11). rewrite V11. apply upd_nth_length.
    - apply view_gh_proj in Hv. destruct Hv as (V1 & V2 & V3 & V4 & V5 & V6 & V7 & V8 & V9 & V10 & V11). rewrite V11. apply upd_nth_length.
  Qed.

  (* ------------------------------------------------------------------ upper_bounds and the value given to best_ub by abort_search *)
  Definition abort_ub_nd (s : pstate) (n : subproblem) : Z :=
    let cur := ubfold (p_upper_bounds s) (Z.max (sp_ub n) (p_lb s)) in
    let cur' := match k_pop st_eqb rk (p_nodup s) with Some (_, Some t) => Z.max cur (sp_ub t) | _ => cur end in
    if p_abort s then Z.max cur' (p_ub s) else cur'.

  Definition ubs_spec_nd (s : pstate) (w : nat) (s' : pstate) : Prop :=
    match nth_error (p_workers s) w with
    | Some PGetWork =>
        (forall x, nth_error (p_workers s') w = Some (PReadLb1 x) ->
                   p_upper_bounds s' = upd_nth w (fun _ => sp_ub x) (p_upper_bounds s)) /\
        ((forall x, nth_error (p_workers s') w <> Some (PReadLb1 x)) -> p_upper_bounds s' = p_upper_bounds s)
    | Some (PNotify n ea) => p_crash s' = true \/ p_upper_bounds s' = upd_nth w (fun _ => IMIN) (p_upper_bounds s)
    | Some (PAbort n) => p_upper_bounds s' = p_upper_bounds s /\ p_ub s' = abort_ub_nd s n
    | Some _ => p_upper_bounds s' = p_upper_bounds s
    | None => True
    end.

  Lemma step_ubs_nd s w s' st : par_step st_eqb cfg s w = Some (s', st) -> ubs_spec_nd s w s'.
  Proof.
    unfold par_step, ubs_spec_nd. destruct (nth_error (p_workers s) w) as [p|] eqn:Ew; [|discriminate].
    destruct p; try discriminate.
    - (* PGetWork *)
      destruct (get_workload st_eqb cfg s w) as [s1 r] eqn:Eg. apply get_workload_fr in Eg.
      destruct Eg as [W [[Hni U]|(n & -> & U)]].
      + intros H; inversion H; subst s' st; clear H.
        destruct r; try (exfalso; eapply Hni; reflexivity);
          cbn [set_worker p_crashed mk p_workers p_upper_bounds]; rewrite W;
          (split; [intros x Hx; rewrite (nth_error_upd_nth_same _ _ _ _ Ew) in Hx; discriminate|intros _; exact U]).
      + intros H; inversion H; subst s' st; clear H.
        cbn [set_worker mk p_workers p_upper_bounds]. rewrite W. split.
        * intros x Hx. rewrite (nth_error_upd_nth_same _ _ _ _ Ew) in Hx. inversion Hx; subst. exact U.
        * intros Hno. exfalso. apply (Hno n). apply (nth_error_upd_nth_same w (fun _ => PReadLb1 n) _ _ Ew).
    - (* PReadLb1 *)
      intros H; inversion H; subst s' st; clear H.
      destruct (sp_ub n <=? p_lb s); [reflexivity|].
      unfold p_compile.
      destruct (compile st_eqb (mk_input cfg Restricted n (p_lb s)) 0 0 (p_cache s) (p_dom s) (p_polls s)) as [m o].
      destruct o; reflexivity.
    - (* PUpdate1 *)
      intros H; inversion H; subst s' st; clear H.
      unfold p_maybe_update_best.
      destruct (opt_default IMIN (dd_best_exact_value inp m) >? p_lb s); destruct (dd_is_exact m); reflexivity.
    - (* PReadLb2 *)
      unfold p_compile.
      destruct (compile st_eqb (mk_input cfg Relaxed n (p_lb s)) 0 0 (p_cache s) (p_dom s) (p_polls s)) as [m o].
      intros H; inversion H; subst s' st; clear H. destruct o; reflexivity.
    - (* PUpdate2 *)
      intros H; inversion H; subst s' st; clear H.
      unfold p_maybe_update_best.
      destruct (opt_default IMIN (dd_best_exact_value inp m) >? p_lb s); destruct (dd_is_exact m); reflexivity.
    - (* PEnqueue *)
      intros H; inversion H; subst s' st; clear H.
      cbn [set_worker mk p_upper_bounds]. apply (Fr_enqueue st_eqb cfg s inp m (sp_ub n)).
    - (* PAbort *)
      rewrite (pf_pop_nd st_eqb cfg nodup_fringe). unfold abort_ub_nd, ubfold.
      destruct (k_pop st_eqb rk (p_nodup s)) as [[f [t|]]|]; intros H; inversion H; subst s' st; clear H;
        cbn [set_worker pf_clear with_fringe p_crashed mk p_upper_bounds p_ub p_lb p_abort]; split; reflexivity.
    - (* PNotify *)
      destruct (p_ongoing s) as [|k]; [intros H; inversion H; subst; left; reflexivity|].
      destruct (nth_error (p_ongoing_by_layer s) (sp_depth n)) as [[|j]|];
        try (intros H; inversion H; subst; left; reflexivity).
      destruct (nth_error (p_upper_bounds s) w) as [u|]; intros H; inversion H; subst; [right|left]; reflexivity.
  Qed.

  Lemma ubs_to_spec s w s' : ubs_spec_nd s w s' -> (forall n, nth_error (p_workers s) w <> Some (PAbort n)) ->
    ubs_spec cfg (gh s) w (gh s').
  Proof.
    unfold ubs_spec_nd, ubs_spec.
    change (p_workers (gh s)) with (p_workers s). change (p_workers (gh s')) with (p_workers s').
    change (p_upper_bounds (gh s)) with (p_upper_bounds s). change (p_upper_bounds (gh s')) with (p_upper_bounds s').
    change (p_crash (gh s')) with (p_crash s').
    intros H Hnab. destruct (nth_error (p_workers s) w) as [[]|]; auto. exfalso. eapply Hnab. reflexivity.
  Qed.

  Lemma abort_ub_nd_cur s n : ubfold (p_upper_bounds s) (Z.max (sp_ub n) (p_lb s)) <= abort_ub_nd s n.
  Proof. unfold abort_ub_nd. destruct (k_pop st_eqb rk (p_nodup s)) as [[f [t|]]|]; destruct (p_abort s); lia. Qed.
  Lemma abort_ub_nd_lb s n : p_lb s <= abort_ub_nd s n.
  Proof.
    pose proof (abort_ub_nd_cur s n). pose proof (ubfold_ge_init (p_upper_bounds s) (Z.max (sp_ub n) (p_lb s))). lia.
  Qed.
  Lemma abort_ub_nd_slot s n w u : nth_error (p_upper_bounds s) w = Some u -> u <= abort_ub_nd s n.
  Proof.
    intros H. pose proof (abort_ub_nd_cur s n).
    pose proof (ubfold_ge_slot (p_upper_bounds s) (Z.max (sp_ub n) (p_lb s)) w u H). lia.
  Qed.
  Lemma abort_ub_nd_top s n f t : k_pop st_eqb rk (p_nodup s) = Some (f, Some t) -> sp_ub t <= abort_ub_nd s n.
  Proof. intros H. unfold abort_ub_nd. rewrite H. destruct (p_abort s); lia. Qed.
  Lemma abort_ub_nd_old s n : p_abort s = true -> p_ub s <= abort_ub_nd s n.
  Proof. intros H. unfold abort_ub_nd. rewrite H. lia. Qed.

  (* ------------------------------------------------------------------ Slots *)
  Lemma nstep_slots s w s' : PInv (gh s) -> PInv (gh s') -> Slots s -> nstep s w s' -> ubs_spec_nd s w s' -> Slots s'.
  Proof.
    intros HI HI2 HSl Hst Hub.
    assert (Hid : forall w' (p0 : pc), nth_error (p_workers s) w' = Some p0 ->
                    exists p1, nth_error (p_workers s) w' = Some p1 /\ busy_node p1 = busy_node p0) by eauto.
    pose proof HI as HI'. unfold ParProofs.PInv, PInvV in HI'. rewrite view_gh in HI'.
    cbn [v_simple v_ongoing v_open v_obl v_lb v_ub v_sol v_nubs v_abort v_crash v_workers] in HI'.
    destruct HI' as (I1 & I2 & I3 & I4 & I5 & I6 & I7 & I8 & I9 & I10).
    destruct Hst as [Hps|x f' Ew G1 G2 G3 G4 Hv|x f' k Ew G1 G2 G3 G4 G5 Hv|n inp m Ew P L1 L2 Hv].
    - assert (Hcase : (exists n, nth_error (p_workers s) w = Some (PAbort n)) \/
                      (forall n, nth_error (p_workers s) w <> Some (PAbort n))).
      { destruct (nth_error (p_workers s) w) as [[]|]; try (right; intros; discriminate). left. eauto. }
      destruct Hcase as [[n Ew]|Hnab].
      + unfold ubs_spec_nd in Hub. rewrite Ew in Hub. destruct Hub as [Hub _].
        destruct Hps as [Ew' G1 G2 G3 Hv|Ew' G1 Hv|Ew' G1 G2 G3 Hv|x rest Ew' G1 G2 G3 Hv|x rest k Ew' G1 G2 G3 G4 Hv
                    |n' Ew' G1 Hv|n' m o c ds polls Ew' G1 Hc Hv|n' inp m Ew' Hv|n' m o c ds polls Ew' Hc Hv|n' inp m Ew' Hv
                    |n' inp m op' Ew' L1 L2 Hv|n' ub' Ew' Hv|n' ea k j Ew' G1 G2 Hv];
          change (p_workers (gh s)) with (p_workers s) in Ew'; try congruence.
        assert (n' = n) by congruence. subst n'.
        apply view_gh_proj in Hv. destruct Hv as (V1 & V2 & V3 & V4 & V5 & V6 & V7 & V8 & V9 & V10 & V11).
        unfold Slots. rewrite V11, Hub. unfold setw. change (p_workers (gh s)) with (p_workers s).
        eapply (Slots_frame cfg); [exact HSl|exact Hid|intros; reflexivity|].
        intros n0 Hn0. eapply HSl; [exact Ew|exact Hn0].
      + exact (pstep_slots st_eqb cfg good (gh s) w (gh s') HI HI2 HSl Hps (ubs_to_spec s w s' Hub Hnab)).
    - unfold ubs_spec_nd in Hub. rewrite Ew in Hub. destruct Hub as [_ Hub].
      apply view_gh_proj in Hv. destruct Hv as (V1 & V2 & V3 & V4 & V5 & V6 & V7 & V8 & V9 & V10 & V11).
      unfold Slots. rewrite V11 in *. rewrite Hub.
      + unfold setw. eapply (Slots_frame cfg); [exact HSl|exact Hid|intros; reflexivity|]. intros n0 Hn0. discriminate.
      + intros x0 Hx0. unfold setw in Hx0. apply (nth_error_upd_nth_inv cfg) in Hx0. discriminate.
    - unfold ubs_spec_nd in Hub. rewrite Ew in Hub. destruct Hub as [Hub _].
      apply view_gh_proj in Hv. destruct Hv as (V1 & V2 & V3 & V4 & V5 & V6 & V7 & V8 & V9 & V10 & V11).
      unfold Slots. rewrite V11 in *. rewrite (Hub x) by (apply (nth_error_upd_nth_same w (fun _ => PReadLb1 x) _ _ Ew)).
      unfold setw. eapply (Slots_frame cfg); [exact HSl|exact Hid| |].
      + intros w' Hne. apply nth_error_upd_nth_other. auto.
      + intros n0 Hn0. cbn [busy_node] in Hn0. inversion Hn0; subst n0.
        destruct (nth_error_lt_Some (p_upper_bounds s) w) as [u Hu].
        { rewrite I9. eapply nth_error_Some_lt; eauto. }
        apply (nth_error_upd_nth_same w (fun _ => sp_ub x) _ _ Hu).
    - unfold ubs_spec_nd in Hub. rewrite Ew in Hub.
      apply view_gh_proj in Hv. destruct Hv as (V1 & V2 & V3 & V4 & V5 & V6 & V7 & V8 & V9 & V10 & V11).
      unfold Slots. rewrite V11, Hub. unfold setw.
      eapply (Slots_frame cfg); [exact HSl|exact Hid|intros; reflexivity|].
      intros n0 Hn0. eapply HSl; [exact Ew|exact Hn0].
  Qed.

  (* ------------------------------------------------------------------ the regime after an abort *)
  Lemma nstep_ab s w s' : PInv (gh s) -> Incumbent (p_lb s) (p_sol s) -> AbV cfg best (view (gh s)) -> nstep s w s' ->
    (forall n, nth_error (p_workers s) w <> Some (PAbort n)) -> AbV cfg best (view (gh s')).
  Proof.
    intros HI HInc HA Hst Hnab. pose proof HA as (A1 & A2 & A3). rewrite view_gh in A1, A2, A3.
    cbn [v_simple v_ongoing v_open v_obl v_lb v_ub v_sol v_nubs v_abort v_crash v_workers] in A1, A2, A3.
    destruct Hst as [Hps|x f' Ew G1 G2 G3 G4 Hv|x f' k Ew G1 G2 G3 G4 G5 Hv|n inp m Ew P L1 L2 Hv]; try congruence.
    - exact (pstep_ab st_eqb cfg good best feasible HK HS (gh s) w (gh s') HI HInc HA Hps Hnab).
    - rewrite Hv. unfold AbV. cbn [v_simple v_ongoing v_open v_obl v_lb v_ub v_sol v_nubs v_abort v_crash v_workers]. auto.
  Qed.

  Lemma abort_step_nd s w s' n : NInv s -> Ord (p_nodup s) -> Incumbent (p_lb s) (p_sol s) -> Slots s ->
    (p_abort s = false -> CalmW (view (gh s))) -> (p_abort s = true -> AbV cfg best (view (gh s))) ->
    nth_error (p_workers s) w = Some (PAbort n) ->
    nstep s w s' -> p_ub s' = abort_ub_nd s n -> AbV cfg best (view (gh s')).
  Proof.
    intros [HI Hrep] Hord HInc HSl HCalm HAb Ew Hst Hub.
    destruct Hst as [Hps|x f' Ew' G1 G2 G3 G4 Hv|x f' k Ew' G1 G2 G3 G4 G5 Hv|n' inp m Ew' P L1 L2 Hv]; try congruence.
    destruct Hps as [Ew' G1 G2 G3 Hv|Ew' G1 Hv|Ew' G1 G2 G3 Hv|x rest Ew' G1 G2 G3 Hv|x rest k Ew' G1 G2 G3 G4 Hv
                    |n' Ew' G1 Hv|n' m o c ds polls Ew' G1 Hc Hv|n' inp m Ew' Hv|n' m o c ds polls Ew' Hc Hv|n' inp m Ew' Hv
                    |n' inp m op' Ew' L1 L2 Hv|n' ub' Ew' Hv|n' ea k j Ew' G1 G2 Hv];
      change (p_workers (gh s)) with (p_workers s) in Ew'; try congruence.
    assert (n' = n) by congruence. subst n'.
    assert (Eub : ub' = abort_ub_nd s n).
    { pose proof Hv as Hv'. apply view_gh_proj in Hv'. destruct Hv' as (_ & _ & _ & _ & _ & V6 & _). congruence. }
    rewrite Hv. subst ub'. unfold AbV, setw.
    cbn [v_simple v_ongoing v_open v_obl v_lb v_ub v_sol v_nubs v_abort v_crash v_workers].
    change (p_lb (gh s)) with (p_lb s).
    split; [reflexivity|]. split; [apply abort_ub_nd_lb|]. intros o Ho.
    destruct (p_abort s) eqn:Eab.
    - destruct (HAb eq_refl) as (_ & _ & A3). rewrite view_gh in A3. cbn [v_ub] in A3. pose proof (A3 o Ho).
      pose proof (abort_ub_nd_old s n Eab). lia.
    - destruct (HCalm eq_refl) as (_ & C4 & _). rewrite view_gh in C4. cbn [v_simple v_lb v_workers] in C4.
      destruct (C4 o Ho) as [Hle|(n0 & (o' & Hb & Hoo & Hu) & [Hn0|(p0 & Hp0 & Hr0)])].
      + pose proof (abort_ub_nd_lb s n). lia.
      + assert (Hne : nd_len (p_nodup s) <> O).
        { pose proof (fl_len st_eqb _ Hrep) as E. unfold FLs in Hn0. destruct (fl (p_nodup s)); [destruct Hn0|].
          cbn [length] in E. lia. }
        destruct (k_pop_spec st_eqb st_eqb_spec rk (p_nodup s) Hrep Hne) as (t & f' & Hpop & _ & _).
        destruct (pop_max st_eqb st_eqb_spec cfg _ _ _ Hrk Hrep Hord Hpop) as [_ Hmax].
        pose proof (Hmax n0 Hn0). pose proof (abort_ub_nd_top s n f' t Hpop). lia.
      + apply In_nth_error in Hp0. destruct Hp0 as [w' Hw'].
        pose proof (HSl _ _ _ Hw' (resp_busy _ _ Hr0)) as Hslot.
        pose proof (abort_ub_nd_slot s n w' _ Hslot). lia.
  Qed.

  (* ------------------------------------------------------------------ the whole invariant *)
  Definition SInv (T : nat) (s : pstate) : Prop :=
    Incumbent (p_lb s) (p_sol s) /\ Slots s /\ length (p_workers s) = T /\
    (p_abort s = false -> CalmW (view (gh s))) /\ (p_abort s = true -> AbV cfg best (view (gh s))).

  Definition FInv (T : nat) (s : pstate) : Prop := NInv s /\ Ord (p_nodup s) /\ SInv T s.

  Lemma step_finv T s w s' st : FInv T s -> par_step st_eqb cfg s w = Some (s', st) -> FInv T s'.
  Proof.
    intros (HN & Hord & HInc & HSl & Hlen & HCalm & HAb) Hstep.
    destruct (step_cases_c _ _ _ _ HN Hstep) as (Hns & Hrep' & Hord').
    pose proof (step_pinv_c _ _ _ (proj1 HN) Hns) as HI2.
    pose proof (step_ubs_nd _ _ _ _ Hstep) as Hubs.
    split; [split; assumption|]. split; [exact (Hord' Hord)|].
    split; [exact (nstep_incumbent s w s' (proj1 HN) HInc Hns)|].
    split; [exact (nstep_slots s w s' (proj1 HN) HI2 HSl Hns Hubs)|].
    split; [rewrite (nstep_workers_len _ _ _ Hns); exact Hlen|].
    assert (Hcase : (exists n, nth_error (p_workers s) w = Some (PAbort n)) \/
                    (forall n, nth_error (p_workers s) w <> Some (PAbort n))).
    { destruct (nth_error (p_workers s) w) as [[]|]; try (right; intros; discriminate). left. eauto. }
    destruct Hcase as [[n Ew]|Hnab].
    - assert (HA : AbV cfg best (view (gh s'))).
      { apply (abort_step_nd s w s' n HN Hord HInc HSl HCalm HAb Ew Hns). unfold ubs_spec_nd in Hubs. rewrite Ew in Hubs. apply Hubs. }
      split; [|intros _; exact HA]. intros E. destruct HA as [HA _]. rewrite view_gh in HA. cbn [v_abort] in HA. congruence.
    - destruct (p_abort s) eqn:Eab.
      + assert (HA : AbV cfg best (view (gh s'))) by (exact (nstep_ab s w s' (proj1 HN) HInc (HAb eq_refl) Hns Hnab)).
        split; [|intros _; exact HA]. intros E. destruct HA as [HA _]. rewrite view_gh in HA. cbn [v_abort] in HA. congruence.
      + assert (HC : CalmW (view (gh s'))) by (exact (nstep_calmW s w s' HN Hord (HCalm eq_refl) Hns Hnab)).
        split; [intros _; exact HC|]. intros E. destruct HC as [HC _]. rewrite view_gh in HC. cbn [v_abort] in HC. congruence.
  Qed.

  Lemma FInv_init T primal : primal_okP feasible primal -> FInv T (init_pstate st_eqb cfg T T primal).
  Proof.
    intros Hp.
    destruct (init_nd st_eqb st_eqb_spec cfg nodup_fringe T T primal) as (f & Hpush & Hrep & Hfl & Hn & Hubs & Hv).
    split; [exact (NInv_init st_eqb st_eqb_spec cfg nodup_fringe good good_root_c T primal)|].
    split.
    { rewrite Hn. exact (push_ord st_eqb st_eqb_spec cfg _ _ _ Hrk (krep_empty st_eqb) (kord_empty st_eqb rk) Hpush). }
    pose proof Hv as Hv'. apply view_gh_proj in Hv'.
    destruct Hv' as (V1 & V2 & V3 & V4 & V5 & V6 & V7 & V8 & V9 & V10 & V11).
    split; [|split; [|split; [|split]]].
    - rewrite V5, V7. unfold init_lb, init_sol. destruct primal as [[v sl]|].
      + destruct (v >? IMIN) eqn:E.
        * rewrite Z.gtb_ltb in E. apply Z.ltb_lt in E. split; [lia|]. right. exists sl. split; [reflexivity|]. apply Hp. reflexivity.
        * split; [lia|]. left. auto.
      + split; [lia|]. left. auto.
    - intros w p n Hw Hb. rewrite V11 in Hw. apply nth_error_In in Hw. apply repeat_spec in Hw. subst p. discriminate.
    - rewrite V11. apply repeat_length.
    - intros _. rewrite Hv. unfold CalmW.
      cbn [v_simple v_ongoing v_open v_obl v_lb v_ub v_sol v_nubs v_abort v_crash v_workers].
      split; [reflexivity|]. split.
      { intros o Ho. right. exists (root_node cfg). split; [|left; left; reflexivity].
        exists o. split; [exact Ho|]. split; [lia|]. cbn [root_node sp_ub]. apply opt_in_isize_c. exact Ho. }
      split; [intros Hin; apply repeat_spec in Hin; discriminate|]. split; [|reflexivity].
      apply Forall_forall. intros p Hin. apply repeat_spec in Hin. subst p. exact I.
    - intros E. congruence.
  Qed.

  Lemma finv_sound T s : (1 <= T)%nat -> FInv T s -> SoundS cfg best feasible s.
  Proof.
    intros HT ([HI Hrep] & _ & HInc & HSl & Hlen & HCalm & HAb).
    pose proof HI as (I1 & I2 & _). rewrite view_gh in I1, I2. cbn [v_crash v_ongoing v_workers] in I1, I2.
    assert (Hmax : p_lb s <= IMAX).
    { destruct OPT as [o|] eqn:Ho.
      - pose proof (incumbent_le_opt cfg good best feasible HS _ _ o HInc Ho). pose proof (opt_in_isize_c o Ho). lia.
      - destruct (incumbent_none cfg good best feasible HS _ _ HInc Ho) as [-> _]. unfold IMIN, IMAX. lia. }
    destruct (p_abort s) eqn:Eab.
    - destruct (HAb eq_refl) as (_ & A2 & A3). rewrite view_gh in A2, A3. cbn [v_lb v_ub] in A2, A3.
      split; [exact I1|]. split; [exact HInc|]. split; [exact A2|]. split; [exact A3|]. intros _ E. congruence.
    - destruct (HCalm eq_refl) as (_ & C4 & C5 & C2 & C7). rewrite view_gh in C4, C5, C7.
      cbn [v_simple v_ongoing v_lb v_ub v_workers] in C4, C5, C7.
      assert (Hexit : In PExited (p_workers s) -> forall o, OPT = Some o -> o <= p_lb s).
      { intros Hin o Ho. destruct (C5 Hin) as (E1 & E2 & E3).
        destruct (C4 o Ho) as [H|(n & _ & [Hn|(p & Hp & Hr)])]; [exact H| |].
        - rewrite E1 in Hn. destruct Hn.
        - apply In_nth_error in Hp. destruct Hp as [w Hw].
          assert (Hb : is_busy p = true) by (unfold is_busy; rewrite (resp_busy _ _ Hr); reflexivity).
          pose proof (busy_cnt_pos cfg _ _ _ Hw Hb). lia. }
      split; [exact I1|]. split; [exact HInc|].
      destruct (exited_dec (p_workers s)) as [Hin|Hno].
      + destruct (C5 Hin) as (E1 & E2 & E3). split; [lia|]. split; [intros o Ho; specialize (Hexit Hin o Ho); lia|].
        intros _ _. exact (Hexit Hin).
      + rewrite (C7 Hno). split; [exact Hmax|]. split; [intros o Ho; apply (opt_in_isize_c o Ho)|].
        intros Hall _. exfalso. apply Hno. destruct (p_workers s) as [|p ws] eqn:E; [cbn [length] in Hlen; lia|].
        rewrite (all_exited_spec s Hall p); [left; reflexivity|rewrite E; left; reflexivity].
  Qed.

  (* what a run that ended without any abort has computed (used for the optimality theorem) *)
  Lemma finv_final T s : (1 <= T)%nat -> FInv T s -> all_exited s = true -> p_abort s = false -> FinalP cfg best feasible s.
  Proof.
    intros HT HF Hall Eab. pose proof (finv_sound T s HT HF) as (F1 & F2 & F3 & F4 & F5).
    destruct HF as ([HI Hrep] & _ & HInc & HSl & Hlen & HCalm & HAb).
    destruct (HCalm Eab) as (_ & C4 & C5 & C2 & C7). rewrite view_gh in C5. cbn [v_simple v_ongoing v_lb v_ub v_workers] in C5.
    assert (Hin : In PExited (p_workers s)).
    { destruct (p_workers s) as [|p ws] eqn:E; [cbn [length] in Hlen; lia|].
      rewrite <- (all_exited_spec s Hall p); [left; reflexivity|rewrite E; left; reflexivity]. }
    destruct (C5 Hin) as (E1 & E2 & E3).
    split; [exact F1|]. split; [exact Eab|]. split; [exact E3|]. split; [exact F2|]. exact (F5 Hall Eab).
  Qed.

  (* ------------------------------------------------------------------ runs *)
  Lemma par_run_finv T : forall fuel s sched last trace s' tr e, FInv T s ->
    par_run st_eqb cfg fuel s sched last trace = (s', tr, e) ->
    FInv T s' /\ (e = PFinished -> all_exited s' = true).
  Proof.
    induction fuel as [|fuel IH]; intros s sched last trace s' tr e HF; cbn [par_run].
    - intros H; inversion H; subst. split; [exact HF|discriminate].
    - destruct (all_exited s) eqn:Eall.
      + intros H; inversion H; subst. auto.
      + destruct (choose (Par.enabled s) sched last) as [[w|] rest] eqn:Ech.
        2:{ intros H; inversion H; subst. split; [exact HF|discriminate]. }
        destruct (par_step st_eqb cfg s w) as [[s1 st]|] eqn:Hst.
        2:{ intros H; inversion H; subst. split; [exact HF|discriminate]. }
        apply IH. exact (step_finv T _ _ _ _ HF Hst).
  Qed.

  (* ================================================================== STOREY 1, C05 (parallel), NoDupFringe *)
  Theorem par_anytime_sound_any_end_nodup T primal fuel sched :
    (1 <= T)%nat -> primal_okP feasible primal ->
    sound_result cfg best feasible (par_maximize st_eqb cfg fuel T T primal sched).
  Proof.
    intros HT Hp. unfold par_maximize.
    destruct (par_run st_eqb cfg fuel (init_pstate st_eqb cfg T T primal) sched None []) as [[s' tr] e] eqn:E.
    destruct (par_run_finv T _ _ _ _ _ _ _ _ (FInv_init T primal Hp) E) as (HF & Hall).
    apply (sound_of_state cfg good best feasible HS); [|exact Hall]. exact (finv_sound T s' HT HF).
  Qed.

  Theorem par_anytime_sound_nodup T primal fuel sched :
    (1 <= T)%nat -> primal_okP feasible primal ->
    let r := par_maximize st_eqb cfg fuel T T primal sched in
    pr_end r = PFinished ->
    pr_crash r = false /\ pr_lb r <= pr_ub r /\
    (forall o, OPT = Some o -> pr_lb r <= o <= pr_ub r) /\
    (OPT = None -> pr_value r = None /\ pr_sol r = None) /\
    (forall v, pr_value r = Some v ->
       pr_lb r = v /\ exists sol, pr_sol r = Some (sort_by dec_var_cmp sol) /\ feasible sol v) /\
    (pr_exact r = true -> pr_value r = OPT).
  Proof.
    intros HT Hp r He.
    destruct (par_anytime_sound_any_end_nodup T primal fuel sched HT Hp) as (A1 & A2 & A3 & A4 & A5 & A6).
    split; [exact A1|]. split; [exact A2|]. split; [exact A3|]. split; [exact A4|]. split; [exact A5|]. exact (A6 He).
  Qed.
End ParNoDupSem.

(* ================================================================== PART D: optimality (cutoff = 0; the premises of ParProofs.par_optimal
   + coalesce_ok + rank_ok) *)
Section ParNoDupOpt.
  Context {St : Type}.
  Variable st_eqb : St -> St -> bool.
  Hypothesis st_eqb_spec : forall a b, st_eqb a b = true <-> a = b.
  Variable cfg : @sconfig St.
  Notation pstate := (@pstate St).
  Notation subproblem := (@subproblem St).
  Local Notation N := (nb_vars (sc_problem cfg)).

  Hypothesis no_cache : sc_use_cache cfg = false.
  Hypothesis nodup_fringe : sc_nodup cfg = true.

  Variable good : subproblem -> Prop.
  Hypothesis good_root : good (root_node cfg).
  Hypothesis good_set_ub : forall c u, good c -> good (set_ub c u).
  Variable best : subproblem -> option Z.
  Variable feasible : list decision -> Z -> Prop.
  Notation OPT := (@OPT St cfg best).

  Hypothesis no_cutoff : sc_cutoff cfg = O.
  Hypothesis feasible_le_opt : forall sol v, feasible sol v -> exists o, OPT = Some o /\ v <= o.
  Hypothesis opt_in_isize : forall o, OPT = Some o -> IMIN < o <= IMAX.
  Hypothesis best_set_ub : forall c u, best (set_ub c u) = best c.
  (* NEW (SolverNoDup.v): the value-to-go of a sub-problem is a function of its (state, depth) *)
  Hypothesis coalesce_ok : forall a b, good a -> good b -> sp_state a = sp_state b -> sp_depth a = sp_depth b ->
    forall oa, best a = Some oa -> best b = Some (oa - sp_value a + sp_value b).
  (* NEW (CutoffNoDup.v): the state ranking is a total preorder -- the whole-fringe discard of get_workload is sound only
     because the popped node is ub-maximal, and for the indexed heap that is the heap order *)
  Hypothesis Hrk : rank_ok cfg.

  Variable M : nat.
  Hypothesis K0 : forall ct n lb c ds polls m out,
    dd_ct ct -> good n -> (sp_depth n <= N)%nat ->
    compile st_eqb (mk_input cfg ct n lb) 0 0 c ds polls = (m, out) ->
    out = Compiled /\ m_crash m = false.
  Hypothesis K1 : forall ct n lb c ds polls m out,
    dd_ct ct -> good n -> (sp_depth n <= N)%nat ->
    compile st_eqb (mk_input cfg ct n lb) 0 0 c ds polls = (m, out) ->
    forall v, dd_best_exact_value (mk_input cfg ct n lb) m = Some v ->
    exists sol, dd_best_exact_solution (mk_input cfg ct n lb) m = Some sol /\ feasible sol v.
  Hypothesis K2 : forall ct n lb c ds polls m out,
    dd_ct ct -> good n -> (sp_depth n <= N)%nat ->
    compile st_eqb (mk_input cfg ct n lb) 0 0 c ds polls = (m, out) ->
    dd_is_exact m = true ->
    forall o, best n = Some o -> o > lb -> dd_best_exact_value (mk_input cfg ct n lb) m = Some o.
  Hypothesis K3_good : forall n lb c ds polls m out,
    good n -> (sp_depth n <= N)%nat ->
    compile st_eqb (mk_input cfg Relaxed n lb) 0 0 c ds polls = (m, out) ->
    dd_is_exact m = false ->
    forall x, In x (drain_cutset (mk_input cfg Relaxed n lb) m) -> good x.
  Hypothesis K3_depth : forall n lb c ds polls m out,
    good n -> (sp_depth n <= N)%nat ->
    compile st_eqb (mk_input cfg Relaxed n lb) 0 0 c ds polls = (m, out) ->
    dd_is_exact m = false ->
    forall x, In x (drain_cutset (mk_input cfg Relaxed n lb) m) -> (sp_depth n < sp_depth x <= N)%nat.
  Hypothesis K3_ub : forall n lb c ds polls m out,
    good n -> (sp_depth n <= N)%nat ->
    compile st_eqb (mk_input cfg Relaxed n lb) 0 0 c ds polls = (m, out) ->
    dd_is_exact m = false ->
    forall x, In x (drain_cutset (mk_input cfg Relaxed n lb) m) ->
    forall o, best x = Some o -> o > lb -> o <= sp_ub x.
  Hypothesis K4 : forall n lb c ds polls m out,
    good n -> (sp_depth n <= N)%nat ->
    compile st_eqb (mk_input cfg Relaxed n lb) 0 0 c ds polls = (m, out) ->
    dd_is_exact m = false ->
    forall o, best n = Some o -> o > lb ->
    (forall e, dd_best_exact_value (mk_input cfg Relaxed n lb) m = Some e -> e < o) ->
    exists x, In x (drain_cutset (mk_input cfg Relaxed n lb) m) /\ best x = Some o.
  Hypothesis K5 : forall n lb c ds polls m out,
    good n -> (sp_depth n <= N)%nat ->
    compile st_eqb (mk_input cfg Relaxed n lb) 0 0 c ds polls = (m, out) ->
    dd_is_exact m = false ->
    (length (drain_cutset (mk_input cfg Relaxed n lb) m) <= M)%nat.

  (* the packaging of SolverCutoff.v / ParAnytime.v follows from the contracts K0 .. K4 *)
  Lemma contracts_of_K : contracts st_eqb good best feasible cfg.
  Proof.
    split; [|split; [|split; [|split; [|split; [|split]]]]].
    - intros ct n lb c ds polls m out Hct Hg Hd Hc. exact (proj2 (K0 _ _ _ _ _ _ _ _ Hct Hg Hd Hc)).
    - intros ct n lb c ds polls m Hct Hg Hd Hc. exact (K1 _ _ _ _ _ _ _ _ Hct Hg Hd Hc).
    - intros ct n lb c ds polls m Hct Hg Hd Hc. exact (K2 _ _ _ _ _ _ _ _ Hct Hg Hd Hc).
    - intros n lb c ds polls m Hg Hd Hc. exact (K3_good _ _ _ _ _ _ _ Hg Hd Hc).
    - intros n lb c ds polls m Hg Hd Hc Hex x Hx. pose proof (K3_depth _ _ _ _ _ _ _ Hg Hd Hc Hex x Hx). lia.
    - intros n lb c ds polls m Hg Hd Hc. exact (K3_ub _ _ _ _ _ _ _ Hg Hd Hc).
    - intros n lb c ds polls m Hg Hd Hc. exact (K4 _ _ _ _ _ _ _ Hg Hd Hc).
  Qed.

  Lemma semantics_of_K : semantics good best feasible cfg.
  Proof. repeat split; auto; apply opt_in_isize; assumption. Qed.

  Local Notation HKc := contracts_of_K.
  Local Notation HSc := semantics_of_K.
  Local Notation FInvT T := (FInv st_eqb cfg good best feasible T).

  Lemma par_run_fb T : forall fuel s sched last trace s' tr e, FInvT T s -> BInv T (gh s) ->
    par_run st_eqb cfg fuel s sched last trace = (s', tr, e) ->
    FInvT T s' /\ BInv T (gh s') /\ (e = PFinished -> all_exited s' = true).
  Proof.
    induction fuel as [|fuel IH]; intros s sched last trace s' tr e HF HB; cbn [par_run].
    - intros H; inversion H; subst. split; [exact HF|]. split; [exact HB|discriminate].
    - destruct (all_exited s) eqn:Eall.
      + intros H; inversion H; subst. auto.
      + destruct (choose (Par.enabled s) sched last) as [[w|] rest] eqn:Ech.
        2:{ intros H; inversion H; subst. split; [exact HF|]. split; [exact HB|discriminate]. }
        destruct (par_step st_eqb cfg s w) as [[s1 st]|] eqn:Hst.
        2:{ intros H; inversion H; subst. split; [exact HF|]. split; [exact HB|discriminate]. }
        apply IH.
        * exact (step_finv st_eqb st_eqb_spec cfg no_cache nodup_fringe good best feasible HKc HSc coalesce_ok Hrk T _ _ _ _ HF Hst).
        * destruct HF as (HN & _).
          destruct (par_step_cases_nd st_eqb st_eqb_spec cfg no_cache nodup_fringe good
                      (HA_cut_c st_eqb cfg good best feasible HKc) _ _ _ _ HN Hst) as (Hns & _).
          exact (nstep_binv st_eqb cfg good K0 T _ _ _ (proj1 HN) HB Hns).
  Qed.

  (* C03 (and the warm-start variant), NoDupFringe: every finished run, whatever the schedule, the number of workers and
     the fuel, returns the optimum *)
  Theorem par_optimal_primal_nodup T primal fuel sched : (1 <= T)%nat -> primal_okP feasible primal ->
    pr_end (par_maximize st_eqb cfg fuel T T primal sched) = PFinished ->
    presult_ok cfg best feasible (par_maximize st_eqb cfg fuel T T primal sched).
  Proof.
    intros HT Hp. unfold par_maximize.
    destruct (par_run st_eqb cfg fuel (init_pstate st_eqb cfg T T primal) sched None []) as [[s' tr] e] eqn:E.
    cbn [pr_end]. intros He. subst e.
    destruct (par_run_fb T _ _ _ _ _ _ _ _
                (FInv_init st_eqb st_eqb_spec cfg nodup_fringe good best feasible HSc Hrk T primal Hp)
                (BInv_init_nd st_eqb st_eqb_spec cfg nodup_fringe T primal) E) as (HF0 & HB & Hall).
    assert (Eab : p_abort s' = false) by apply HB.
    pose proof (finv_final st_eqb cfg good best feasible HSc T s' HT HF0 (Hall eq_refl) Eab) as HF.
    destruct (finalP_result cfg best feasible no_cutoff feasible_le_opt opt_in_isize s' HF) as [Hsome Hnone].
    destruct HF as (F1 & F2 & F3 & F4 & F5).
    unfold presult_ok. cbn [pr_crash pr_exact pr_value pr_lb pr_ub pr_sol].
    split; [exact F1|]. split; [rewrite F2; reflexivity|].
    assert (Hcase : forall x : option Z, (exists v, x = Some v) \/ x = None) by (intros [v|]; eauto).
    destruct (Hcase OPT) as [[v EO]|EO]; rewrite EO.
    - destruct (Hsome v EO) as (Hlb & sol & Hsol & Hfeas). rewrite Hsol, Hlb. cbn [option_map].
      split; [reflexivity|]. split; [|discriminate].
      intros v' Hv'. inversion Hv'; subst v'. split; [reflexivity|]. split; [rewrite F3; exact Hlb|].
      exists sol. auto.
    - destruct (Hnone EO) as [Hsol Hlb]. rewrite Hsol, Hlb. cbn [option_map].
      split; [reflexivity|]. split; [discriminate|]. auto.
  Qed.

  Theorem par_optimal_nodup T fuel sched : (1 <= T)%nat ->
    pr_end (par_maximize st_eqb cfg fuel T T None sched) = PFinished ->
    presult_ok cfg best feasible (par_maximize st_eqb cfg fuel T T None sched).
  Proof. intros HT. apply par_optimal_primal_nodup; [exact HT|]. intros pv psol H; discriminate. Qed.

  (* B + C: total correctness for every schedule and every number of workers, NoDupFringe; same fuel bound *)
  Theorem par_correct_nodup T primal fuel sched : (1 <= T)%nat -> primal_okP feasible primal -> (fuelP cfg M T <= fuel)%nat ->
    pr_end (par_maximize st_eqb cfg fuel T T primal sched) = PFinished /\
    presult_ok cfg best feasible (par_maximize st_eqb cfg fuel T T primal sched).
  Proof.
    intros HT Hp Hf.
    pose proof (par_terminates_nodup st_eqb st_eqb_spec cfg no_cache nodup_fringe good good_root good_set_ub no_cutoff M
                  K0 K3_good K3_depth K5 T primal fuel sched Hf) as He.
    split; [exact He|]. apply par_optimal_primal_nodup; assumption.
  Qed.
End ParNoDupOpt.

(* ================================================================== STOREY 2: the clean flavours of Mdd.compile.
   The hypotheses of Assembly.Main with sc_nodup cfg = true (+ the total-preorder ranking where the heap order matters);
   the contracts are imported through flip_nodup (mk_input does not read sc_nodup). *)
Section MainParNoDup.
  Context {St : Type}.
  Variable st_eqb : St -> St -> bool.
  Hypothesis st_eqb_spec : forall a b, st_eqb a b = true <-> a = b.
  Variable cfg : @sconfig St.
  Local Notation pb := (sc_problem cfg).
  Local Notation N := (nb_vars (sc_problem cfg)).

  Hypothesis cfg_clean : sc_flavour cfg = CleanLEL \/ sc_flavour cfg = CleanFC.
  Hypothesis cfg_nocache : sc_use_cache cfg = false.
  Hypothesis cfg_nodom : sc_domrule cfg = None.
  Hypothesis cfg_nodup : sc_nodup cfg = true.
  Hypothesis cfg_width : (1 <= sc_width cfg)%nat.
  (* NEW (used by C03 and C05 only): StateRanking::compare is a total preorder *)
  Hypothesis rk_antisym : forall a b, sc_ranking cfg a b = CompOpp (sc_ranking cfg b a).
  Hypothesis rk_trans : forall a b c, sc_ranking cfg a b <> Gt -> sc_ranking cfg b c <> Gt -> sc_ranking cfg a c <> Gt.
  Hypothesis nv_static : forall k l1 l2, next_variable pb k l1 = next_variable pb k l2.
  Hypothesis nv_some : forall k l, (k < N)%nat -> exists x, next_variable pb k l = Some x.
  Hypothesis nv_none : forall k l, (N <= k)%nat -> next_variable pb k l = None.
  Hypothesis Hwf : wf_relaxation cfg.
  Variable D : nat.
  Hypothesis dom_bound : forall x s, (length (domain pb x s) <= D)%nat.
  Variable B : Z.
  Hypothesis HB : 2 * B <= IMAX.
  Hypothesis guard0 : forall ds s' v', frun pb 0 (init_state pb) (init_value pb) ds = Some (s', v') -> - B <= v' <= B.

  Local Notation cfgF := (flip_nodup cfg).
  Local Notation good := (sgood pb).
  Local Notation feas := (sfeasible pb).
  Local Notation bst := (MddSim.best cfg).

  Lemma HwfF_p : wf_relaxation cfgF. Proof. exact Hwf. Qed.

  Lemma HA_nocrash_n : forall ct n lb c ds polls m out,
    dd_ct ct -> good n -> (sp_depth n <= N)%nat ->
    compile st_eqb (mk_input cfg ct n lb) 0 0 c ds polls = (m, out) -> m_crash m = false.
  Proof. exact (Assembly.HA_nocrash st_eqb st_eqb_spec cfgF cfg_clean cfg_nocache cfg_nodom eq_refl cfg_width nv_some nv_none). Qed.

  Lemma HA_cut_n : forall n lb c ds polls m,
    good n -> (sp_depth n <= N)%nat ->
    compile st_eqb (mk_input cfg Relaxed n lb) 0 0 c ds polls = (m, Compiled) ->
    dd_is_exact m = false ->
    forall x, In x (drain_cutset (mk_input cfg Relaxed n lb) m) -> good x /\ (sp_depth x <= N)%nat.
  Proof.
    exact (Assembly.HA_cut st_eqb st_eqb_spec cfgF cfg_clean cfg_nocache cfg_nodom eq_refl cfg_width nv_static nv_some nv_none
             B HB guard0).
  Qed.

  (* C04, first half, NoDupFringe: the parallel protocol neither deadlocks nor crashes, ANY cutoff, NO premise on the ranking *)
  Theorem C04_parallel_no_deadlock_no_crash_nodup : forall T primal fuel sched,
    pr_end (par_maximize st_eqb cfg fuel T T primal sched) <> PDeadlock /\
    pr_crash (par_maximize st_eqb cfg fuel T T primal sched) = false.
  Proof.
    exact (par_maximize_no_deadlock_no_crash_nodup st_eqb st_eqb_spec cfg cfg_nocache cfg_nodup good (Assembly.good_root cfg)
             (fun c u => sgood_set_ub pb c u) HA_nocrash_n HA_cut_n).
  Qed.

  Theorem C04_parallel_run_no_deadlock_nodup : forall T primal fuel sched s' tr e,
    par_run st_eqb cfg fuel (init_pstate st_eqb cfg T T primal) sched None [] = (s', tr, e) ->
    (e = PFinished \/ e = POutOfFuel) /\ p_crash s' = false.
  Proof.
    intros T primal fuel sched s' tr e H. split.
    - exact (par_no_deadlock_nodup st_eqb st_eqb_spec cfg cfg_nocache cfg_nodup good (Assembly.good_root cfg)
               (fun c u => sgood_set_ub pb c u) HA_nocrash_n HA_cut_n T primal fuel sched s' tr e H).
    - exact (par_never_crashes_nodup st_eqb st_eqb_spec cfg cfg_nocache cfg_nodup good (Assembly.good_root cfg)
               (fun c u => sgood_set_ub pb c u) HA_nocrash_n HA_cut_n T primal fuel sched s' tr e H).
  Qed.

  (* ---------------- C05 (parallel), NoDupFringe: ANY cutoff *)
  Let HK : contracts st_eqb good bst feas cfg :=
    contracts_hold_nodup st_eqb st_eqb_spec cfg cfg_clean cfg_nocache cfg_nodom cfg_width nv_static nv_some nv_none Hwf B HB guard0.
  Let HSem : semantics good bst feas cfg := semantics_hold cfg cfg_width nv_static nv_some nv_none B HB guard0.
  Let rko : rank_ok cfg := conj rk_antisym rk_trans.
  Let cok : CutoffNoDup.coalesce_ok good bst := fun a b _ _ => best_coalesce_ok cfg a b.

  Theorem C05_parallel_anytime_any_end_nodup : forall T primal fuel sched,
    (1 <= T)%nat -> primal_okP feas primal ->
    sound_result_enum cfg (par_maximize st_eqb cfg fuel T T primal sched).
  Proof.
    intros T primal fuel sched HT Hp. apply (sound_result_to_enum cfg B HB guard0).
    exact (par_anytime_sound_any_end_nodup st_eqb st_eqb_spec cfg cfg_nocache cfg_nodup good bst feas HK HSem cok rko
             T primal fuel sched HT Hp).
  Qed.

  Theorem C05_parallel_anytime_nodup : forall T primal fuel sched,
    (1 <= T)%nat -> primal_okP feas primal ->
    let r := par_maximize st_eqb cfg fuel T T primal sched in
    pr_end r = PFinished ->
    pr_crash r = false /\
    pr_lb r <= pr_ub r /\
    (forall o, opt_enum pb = Some o -> pr_lb r <= o <= pr_ub r) /\
    (opt_enum pb = None -> pr_value r = None /\ pr_sol r = None) /\
    (forall v, pr_value r = Some v ->
       pr_lb r = v /\ exists sol, pr_sol r = Some (sort_by dec_var_cmp sol) /\ feas sol v /\ MddProgress.feasible pb sol v) /\
    (pr_exact r = true -> pr_value r = opt_enum pb).
  Proof.
    intros T primal fuel sched HT Hp r He.
    destruct (C05_parallel_anytime_any_end_nodup T primal fuel sched HT Hp) as (A1 & A2 & A3 & A4 & A5 & A6).
    split; [exact A1|]. split; [exact A2|]. split; [exact A3|]. split; [exact A4|]. split; [exact A5|]. exact (A6 He).
  Qed.

  (* ---------------- no cutoff: C03 / C04 (termination) *)
  Hypothesis cfg_nocut : sc_cutoff cfg = 0%nat.

  Local Notation K0' := (SolverNoDup.K0n st_eqb st_eqb_spec cfg cfg_clean cfg_nocache cfg_nodom cfg_width nv_some nv_none cfg_nocut).
  Local Notation K1' := (SolverNoDup.K1n st_eqb st_eqb_spec cfg cfg_clean cfg_nocache cfg_nodom cfg_width nv_static nv_some nv_none
                           B HB guard0 cfg_nocut).
  Local Notation K2' := (SolverNoDup.K2n st_eqb st_eqb_spec cfg cfg_clean cfg_nocache cfg_nodom cfg_width nv_static nv_some nv_none
                           Hwf B HB guard0 cfg_nocut).
  Local Notation K3g' := (SolverNoDup.K3_goodn st_eqb st_eqb_spec cfg cfg_clean cfg_nocache cfg_nodom cfg_width nv_static nv_some nv_none
                           B HB guard0 cfg_nocut).
  Local Notation K3d' := (SolverNoDup.K3_depthn st_eqb st_eqb_spec cfg cfg_clean cfg_nocache cfg_nodom cfg_width nv_some nv_none cfg_nocut).
  Local Notation K3u' := (SolverNoDup.K3_ubn st_eqb st_eqb_spec cfg cfg_clean cfg_nocache cfg_nodom cfg_width nv_static nv_some nv_none
                           Hwf B HB guard0 cfg_nocut).
  Local Notation K4' := (SolverNoDup.K4n st_eqb st_eqb_spec cfg cfg_clean cfg_nocache cfg_nodom cfg_width nv_static nv_some nv_none
                           Hwf B HB guard0 cfg_nocut).
  Local Notation K5' := (SolverNoDup.K5n st_eqb st_eqb_spec cfg cfg_clean cfg_nocache cfg_nodom cfg_width nv_some nv_none
                           D dom_bound cfg_nocut).

  (* C04 (termination), NoDupFringe: every run finishes within the SAME number of transitions as with the SimpleFringe;
     NO premise on the ranking *)
  Theorem C04_parallel_terminates_nodup : forall T primal fuel sched,
    (fuelP cfg (Kbound cfg D) T <= fuel)%nat ->
    pr_end (par_maximize st_eqb cfg fuel T T primal sched) = PFinished.
  Proof.
    intros T primal fuel sched Hf.
    exact (par_terminates_nodup st_eqb st_eqb_spec cfg cfg_nocache cfg_nodup good (Assembly.good_root cfg)
             (fun c u => sgood_set_ub pb c u) cfg_nocut (Kbound cfg D) K0' K3g' K3d' K5' T primal fuel sched Hf).
  Qed.

  (* C03 (partial correctness), NoDupFringe: every finished run returns the optimum *)
  Theorem C03_parallel_optimal_finished_nodup : forall T primal fuel sched,
    (1 <= T)%nat -> primal_okP feas primal ->
    let r := par_maximize st_eqb cfg fuel T T primal sched in
    pr_end r = PFinished ->
    pr_crash r = false /\ pr_exact r = true /\ pr_value r = opt_enum pb /\
    (forall v, opt_enum pb = Some v ->
       pr_lb r = v /\ pr_ub r = v /\
       exists sol, pr_sol r = Some (sort_by dec_var_cmp sol) /\ feas sol v /\ MddProgress.feasible pb sol v) /\
    (opt_enum pb = None -> pr_sol r = None /\ pr_lb r = IMIN).
  Proof.
    intros T primal fuel sched HT Hp r He. apply (presult_unfold cfg B HB guard0).
    exact (par_optimal_primal_nodup st_eqb st_eqb_spec cfg cfg_nocache cfg_nodup good (Assembly.good_root cfg)
             (fun c u => sgood_set_ub pb c u) bst feas cfg_nocut
             (Assembly.feasible_le_opt cfg nv_static nv_none)
             (Assembly.opt_in_isize cfg cfg_width nv_static nv_some nv_none B HB guard0)
             (Assembly.best_set_ub cfg) (fun a b _ _ => best_coalesce_ok cfg a b) rko
             K0' K1' K2' K3g' K3d' K3u' K4' T primal fuel sched HT Hp He).
  Qed.

  (* C03 + C04 (total correctness), NoDupFringe *)
  Theorem C03_parallel_optimal_nodup : forall T primal fuel sched,
    (1 <= T)%nat -> primal_okP feas primal -> (fuelP cfg (Kbound cfg D) T <= fuel)%nat ->
    let r := par_maximize st_eqb cfg fuel T T primal sched in
    pr_end r = PFinished /\
    pr_crash r = false /\ pr_exact r = true /\ pr_value r = opt_enum pb /\
    (forall v, opt_enum pb = Some v ->
       pr_lb r = v /\ pr_ub r = v /\
       exists sol, pr_sol r = Some (sort_by dec_var_cmp sol) /\ feas sol v /\ MddProgress.feasible pb sol v) /\
    (opt_enum pb = None -> pr_sol r = None /\ pr_lb r = IMIN).
  Proof.
    intros T primal fuel sched HT Hp Hf r.
    pose proof (C04_parallel_terminates_nodup T primal fuel sched Hf) as He. split; [exact He|].
    exact (C03_parallel_optimal_finished_nodup T primal fuel sched HT Hp He).
  Qed.
End MainParNoDup.


(* ================================================================== STOREY 3: non-vacuity -- the table family of TableWf.v *)
Require Import DDO.Table DDO.Run DDO.TableWf.

Section TableParNoDup.
  Variable ti : tinst.
  Variable C : Z.
  Hypothesis Hwf : t_wf ti C.
  Variable flv : flavour.
  Hypothesis Hflv : flv = CleanLEL \/ flv = CleanFC.
  Variable width : nat.
  Hypothesis Hwidth : (1 <= width)%nat.

  (* tb_sconfig ti flv (cache := false) (nodup := TRUE) (dominance := false) width cutoff *)
  Local Notation tcfg := (tb_sconfig ti flv false true false width).

  Local Ltac table_side cutoff :=
    destruct (table_premises ti C Hwf flv Hflv width Hwidth cutoff)
      as (P1 & P2 & P3 & P4 & P5 & P6 & P7 & P8 & P9 & P10 & P11 & P12 & P13).

  (* C04 on the whole family, NoDupFringe: every cutoff, schedule, fuel, number of workers, warm start *)
  Theorem C04_table_par_no_deadlock_no_crash_nodup : forall cutoff T primal fuel sched,
    pr_end (par_maximize tstate_eqb (tcfg cutoff) fuel T T primal sched) <> PDeadlock /\
    pr_crash (par_maximize tstate_eqb (tcfg cutoff) fuel T T primal sched) = false.
  Proof.
    intros cutoff. table_side cutoff.
    exact (C04_parallel_no_deadlock_no_crash_nodup tstate_eqb P1 (tcfg cutoff) P2 P3 P4 eq_refl P6 P7 P8 P9 (tB ti C) P12 P13).
  Qed.

  Theorem C04_table_par_terminates_nodup : forall T primal fuel sched,
    (fuelP (tcfg 0) (Kbound (tcfg 0) (length (t_trans ti))) T <= fuel)%nat ->
    pr_end (par_maximize tstate_eqb (tcfg 0) fuel T T primal sched) = PFinished.
  Proof.
    table_side 0%nat.
    exact (C04_parallel_terminates_nodup tstate_eqb P1 (tcfg 0) P2 P3 P4 eq_refl P6 P7 P8 P9 (length (t_trans ti)) P11
             (tB ti C) P12 P13 eq_refl).
  Qed.

  (* C03 on the whole family, NoDupFringe: every finished run returns the optimum (the table ranking is lexicographic on
     lists of integers: a total preorder) *)
  Theorem C03_table_par_nodup : forall T fuel sched, (1 <= T)%nat ->
    let r := par_maximize tstate_eqb (tcfg 0) fuel T T None sched in
    pr_end r = PFinished ->
    pr_crash r = false /\ pr_exact r = true /\ pr_value r = opt_enum (t_problem ti) /\
    (forall v, opt_enum (t_problem ti) = Some v ->
       pr_lb r = v /\ pr_ub r = v /\
       exists sol, pr_sol r = Some (sort_by dec_var_cmp sol) /\ MddProgress.feasible (t_problem ti) sol v).
  Proof.
    intros T fuel sched HT r He. table_side 0%nat.
    assert (Hp : primal_okP (sfeasible (t_problem ti)) None) by (intros pv psol E; discriminate).
    destruct (C03_parallel_optimal_finished_nodup tstate_eqb P1 (tcfg 0) P2 P3 P4 eq_refl P6 t_ranking_antisym t_ranking_trans
                P7 P8 P9 P10 (tB ti C) P12 P13 eq_refl T None fuel sched HT Hp He) as (A1 & A2 & A3 & A4 & _).
    split; [exact A1|]. split; [exact A2|]. split; [exact A3|].
    intros v Hv. destruct (A4 v Hv) as (E1 & E2 & sol & S1 & _ & S3). split; [exact E1|]. split; [exact E2|]. exists sol. auto.
  Qed.

  (* C05 (parallel) on the whole family, NoDupFringe: every cutoff, every schedule, every fuel *)
  Theorem C05_table_par_nodup : forall cutoff T fuel sched, (1 <= T)%nat ->
    sound_result_enum (tcfg cutoff) (par_maximize tstate_eqb (tcfg cutoff) fuel T T None sched).
  Proof.
    intros cutoff T fuel sched HT. table_side cutoff.
    assert (Hp : primal_okP (sfeasible (t_problem ti)) None) by (intros pv psol E; discriminate).
    exact (C05_parallel_anytime_any_end_nodup tstate_eqb P1 (tcfg cutoff) P2 P3 P4 eq_refl P6 t_ranking_antisym t_ranking_trans
             P7 P8 P9 P10 (tB ti C) P12 P13 T None fuel sched HT Hp).
  Qed.
End TableParNoDup.

(* ------------------------------------------------------------------ the coalescing instance co_ti of SolverNoDup.v, two workers.
   Schedule co_sched: worker 0 processes the root (7 transitions) and leaves [1] (ub 11) and [2] (ub 9) in the fringe; worker 0
   takes [1], worker 1 takes [2]; the two workers then advance in lock-step (restricted compilation, update, relaxed
   compilation, update, enqueue).  Transition 18 = worker 0 enqueues ([3], depth 2, value 0, ub 7); transition 19 = worker 1
   enqueues ([3], depth 2, value 1, ub 8): a COALESCING push, performed while worker 0 still holds its node [1]
   (pc = PNotify, ongoing = 2, ongoing_by_layer[1] = 2).  Afterwards the default policy applies. *)
Definition co_pcfg (nodupf : bool) (cutoff : nat) : @sconfig tstate := tb_sconfig co_ti CleanLEL false nodupf false 2 cutoff.
Definition co_sched : list nat := [0;0;0;0;0;0;0; 0;1; 0;1;0;1;0;1;0;1;0;1]%nat.

(* the state after k transitions: (pcs, nodes held, fringe content, open_by_layer, ongoing, ongoing_by_layer) *)
Definition co_par_after (nodupf : bool) (k : nat) :=
  let '(s, _, _) := par_run tstate_eqb (co_pcfg nodupf 0) k (init_pstate tstate_eqb (co_pcfg nodupf 0) 2 2 None) co_sched None [] in
  (map pc_tag (p_workers s), map (fun p => option_map co_entry (busy_node p)) (p_workers s),
   if nodupf then map co_entry (fl (p_nodup s)) else map co_entry (p_simple s),
   p_open s, p_ongoing s, p_ongoing_by_layer s).

Example co_par_coalesces :
  (* before: worker 0 at PNotify holding [1], worker 1 at PEnqueue holding [2]; the fringe holds ([3], 2, 0, 7) *)
  co_par_after true 18 =
    ([8; 6]%nat, [Some ([1], 1%nat, 0, 11); Some ([2], 1%nat, 0, 9)], [([3], 2%nat, 0, 7)],
     [0; 0; 1; 0; 0]%nat, 2%nat, [0; 2; 0; 0; 0]%nat) /\
  (* after worker 1's enqueue_cutset: ONE entry, with the larger value and the larger ub; open_by_layer[2] stays 1 *)
  co_par_after true 19 =
    ([8; 8]%nat, [Some ([1], 1%nat, 0, 11); Some ([2], 1%nat, 0, 9)], [([3], 2%nat, 1, 8)],
     [0; 0; 1; 0; 0]%nat, 2%nat, [0; 2; 0; 0; 0]%nat) /\
  (* the SimpleFringe, same schedule: two copies, open_by_layer[2] = 2 *)
  co_par_after false 19 =
    ([8; 8]%nat, [Some ([1], 1%nat, 0, 11); Some ([2], 1%nat, 0, 9)], [([3], 2%nat, 1, 8); ([3], 2%nat, 0, 7)],
     [0; 0; 2; 0; 0]%nat, 2%nat, [0; 2; 0; 0; 0]%nat).
Proof. vm_compute. repeat split; reflexivity. Qed.

Definition psumm (r : @presult) := (pr_end r, pr_crash r, pr_exact r, pr_value r, pr_lb r, pr_ub r).

(* the run returns the optimum 8 -- under the interleaving schedule, under the default one, and with three workers *)
Example co_par_run :
  psumm (par_maximize tstate_eqb (co_pcfg true 0) 200 2 2 None co_sched) = (PFinished, false, true, Some 8, 8, 8) /\
  psumm (par_maximize tstate_eqb (co_pcfg true 0) 200 2 2 None []) = (PFinished, false, true, Some 8, 8, 8) /\
  psumm (par_maximize tstate_eqb (co_pcfg true 0) 200 3 3 None (co_sched ++ [2; 1; 0; 2; 2; 1]%nat)) = (PFinished, false, true, Some 8, 8, 8) /\
  map fst (firstn 19 (pr_trace (par_maximize tstate_eqb (co_pcfg true 0) 200 2 2 None co_sched))) = co_sched.
Proof. vm_compute. repeat split; reflexivity. Qed.

(* ... as the theorem says it must (the conclusion comes from C03_table_par_nodup, only `the run finished' is computed) *)
Example co_par_by_theorem :
  let r := par_maximize tstate_eqb (co_pcfg true 0) 200 2 2 None co_sched in
  pr_crash r = false /\ pr_exact r = true /\ pr_value r = Some 8 /\ pr_lb r = 8 /\ pr_ub r = 8.
Proof.
  assert (He : pr_end (par_maximize tstate_eqb (co_pcfg true 0) 200 2 2 None co_sched) = PFinished) by (vm_compute; reflexivity).
  destruct (C03_table_par_nodup co_ti 7 co_wf CleanLEL (or_introl eq_refl) 2 (le_S 1 1 (le_n 1)) 2 200 co_sched
              (le_S 1 1 (le_n 1)) He) as (A1 & A2 & A3 & A4).
  rewrite co_opt in A3. destruct (A4 8 co_opt) as (B1 & B2 & _). cbv zeta. repeat split; assumption.
Qed.

(* the anytime theorem: cutoff 22 stops worker 1 while it compiles the coalesced entry ([3], 2, 1, 8); worker 0 still holds
   [1] (bound 11): the run is not exact, lb = 4 <= 8 <= 11 = ub *)
Example co_par_cutoff :
  let r := par_maximize tstate_eqb (co_pcfg true 22) 200 2 2 None co_sched in
  psumm r = (PFinished, false, false, Some 4, 4, 11) /\ pr_lb r <= 8 <= pr_ub r.
Proof.
  split; [vm_compute; reflexivity|].
  destruct (C05_table_par_nodup co_ti 7 co_wf CleanLEL (or_introl eq_refl) 2 (le_S 1 1 (le_n 1)) 22 2 200 co_sched
              (le_S 1 1 (le_n 1))) as (_ & _ & A3 & _).
  exact (A3 8 co_opt).
Qed.

(* ------------------------------------------------------------------ statements and assumptions *)
Check @par_no_deadlock_nodup.
Check @par_never_crashes_nodup.
Check @par_terminates_nodup.
Check @par_optimal_nodup.
Check @par_optimal_primal_nodup.
Check @par_correct_nodup.
Check @par_anytime_sound_nodup.
Check @par_anytime_sound_any_end_nodup.
Check @C03_parallel_optimal_nodup.
Check @C03_parallel_optimal_finished_nodup.
Check @C04_parallel_terminates_nodup.
Check @C04_parallel_no_deadlock_no_crash_nodup.
Check @C04_parallel_run_no_deadlock_nodup.
Check @C05_parallel_anytime_nodup.
Check @C05_parallel_anytime_any_end_nodup.

Print Assumptions par_step_cases_nd.
Print Assumptions par_no_deadlock_nodup.
Print Assumptions par_never_crashes_nodup.
Print Assumptions par_maximize_no_deadlock_no_crash_nodup.
Print Assumptions complete_only_when_idle_nodup.
Print Assumptions par_terminates_nodup.
Print Assumptions par_optimal_nodup.
Print Assumptions par_optimal_primal_nodup.
Print Assumptions par_correct_nodup.
Print Assumptions par_anytime_sound_nodup.
Print Assumptions par_anytime_sound_any_end_nodup.
Print Assumptions C03_parallel_optimal_nodup.
Print Assumptions C03_parallel_optimal_finished_nodup.
Print Assumptions C04_parallel_terminates_nodup.
Print Assumptions C04_parallel_no_deadlock_no_crash_nodup.
Print Assumptions C04_parallel_run_no_deadlock_nodup.
Print Assumptions C05_parallel_anytime_nodup.
Print Assumptions C05_parallel_anytime_any_end_nodup.
Print Assumptions C04_table_par_no_deadlock_no_crash_nodup.
Print Assumptions C04_table_par_terminates_nodup.
Print Assumptions C03_table_par_nodup.
Print Assumptions C05_table_par_nodup.
Print Assumptions co_par_coalesces.
Print Assumptions co_par_run.
Print Assumptions co_par_by_theorem.
Print Assumptions co_par_cutoff.
