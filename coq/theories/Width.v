(* Width.v — the width-heuristic combinators of ddo/src/implementation/heuristics/width.rs.
   usize arithmetic is written explicitly: in a debug build `k * w` panics on overflow (None),
   in a release build it wraps modulo 2^64. *)
Require Import DDO.Base.
Open Scope Z_scope.

Definition USIZE : Z := 18446744073709551616.   (* 2^64 *)
Definition in_usize (z : Z) : Prop := 0 <= z < USIZE.

(* Times(k, inner).max_width = 1.max(k * inner) *)
Definition times_debug (k w : Z) : option Z := if k * w <? USIZE then Some (Z.max 1 (k * w)) else None.
Definition times_release (k w : Z) : Z := Z.max 1 ((k * w) mod USIZE).
(* DivBy(k, inner).max_width = 1.max(inner / k) ; k = 0 panics in both profiles *)
Definition divby (k w : Z) : option Z := if k =? 0 then None else Some (Z.max 1 (w / k)).

Lemma times_debug_nonzero k w r : times_debug k w = Some r -> 1 <= r.
Proof. unfold times_debug. destruct (k * w <? USIZE); intros H; inversion H. lia. Qed.
Lemma times_release_nonzero k w : 1 <= times_release k w.
Proof. unfold times_release. lia. Qed.
Lemma times_release_in_usize k w : in_usize (times_release k w).
Proof.
  unfold times_release, in_usize. pose proof (Z.mod_pos_bound (k * w) USIZE ltac:(unfold USIZE; lia)). unfold USIZE in *. lia.
Qed.
Lemma divby_nonzero k w r : divby k w = Some r -> 1 <= r.
Proof. unfold divby. destruct (k =? 0); intros H; inversion H. lia. Qed.
Lemma times_agree k w r : 0 <= k -> 0 <= w -> times_debug k w = Some r -> times_release k w = r.
Proof.
  unfold times_debug, times_release. intros Hk Hw. destruct (k * w <? USIZE) eqn:E; intros H; inversion H.
  apply Z.ltb_lt in E. rewrite Z.mod_small; [reflexivity|]. split; [apply Z.mul_nonneg_nonneg; auto|auto].
Qed.
