(* FringeProofs.v — property C11: the duplicate-free fringe (NoDupFringe) is a faithful
   priority queue.  All statements are about the executable model of Fringe.v.

   Part A : representation invariant, no panic, preservation by push / pop / clear.
   Part B : abstraction to a list of sub-problems, refinement of the abstract coalescing queue.
   Part C : with the MaxUB ranking, successive pops are non-increasing in (ub, value).
   Part D : the de-duplication clause (what survives a coalescing push; the map ignores depth). *)
Require Import DDO.Base DDO.Fringe.
Require Import List Lia Arith ZArith Permutation Bool.
Import ListNotations.
Local Open Scope nat_scope.

(* ------------------------------------------------------------------ list utilities *)
Lemma set_nth_length {A} n (x : A) l : length (set_nth n x l) = length l.
Proof. unfold set_nth. apply upd_nth_length. Qed.

Lemma nth_error_set_nth_same {A} n (x : A) l :
  n < length l -> nth_error (set_nth n x l) n = Some x.
Proof.
  intros Hn. unfold set_nth.
  destruct (nth_error l n) as [y|] eqn:E.
  - apply (nth_error_upd_nth_same n (fun _ => x) l y E).
  - apply nth_error_None in E. lia.
Qed.

Lemma nth_error_set_nth_other {A} n m (x : A) l :
  n <> m -> nth_error (set_nth n x l) m = nth_error l m.
Proof. intros Hnm. unfold set_nth. apply nth_error_upd_nth_other. exact Hnm. Qed.

Lemma nth_error_lt {A} (l : list A) n x : nth_error l n = Some x -> n < length l.
Proof. intros H. apply nth_error_Some. congruence. Qed.

Lemma nth_error_lt_some {A} (l : list A) n : n < length l -> exists x, nth_error l n = Some x.
Proof.
  intros H. destruct (nth_error l n) as [x|] eqn:E; [eauto|].
  apply nth_error_None in E. lia.
Qed.

Lemma nth_error_snoc_other {A} (l : list A) (x : A) j :
  j <> length l -> nth_error (l ++ [x]) j = nth_error l j.
Proof.
  intros Hj. destruct (Nat.lt_ge_cases j (length l)) as [Hlt|Hge].
  - apply nth_error_app1. exact Hlt.
  - transitivity (@None A).
    + apply nth_error_None. rewrite app_length. cbn [length]. lia.
    + symmetry. apply nth_error_None. lia.
Qed.

Lemma nth_error_snoc_same {A} (l : list A) (x : A) : nth_error (l ++ [x]) (length l) = Some x.
Proof. rewrite nth_error_app2 by lia. rewrite Nat.sub_diag. reflexivity. Qed.

Lemma rev_eq_cons {A} (l : list A) x r : rev l = x :: r -> l = rev r ++ [x].
Proof. intros H. rewrite <- (rev_involutive l), H. reflexivity. Qed.

Lemma rev_eq_nil {A} (l : list A) : rev l = [] -> l = [].
Proof. intros H. rewrite <- (rev_involutive l), H. reflexivity. Qed.

(* ------------------------------------------------------------------ heap arithmetic *)
Ltac divmod2 q :=
  pose proof (Nat.div_mod q 2 ltac:(lia)); pose proof (Nat.mod_upper_bound q 2 ltac:(lia)).

Lemma parent_left_child p : parent (left_child p) = p.
Proof.
  unfold parent, left_child, is_root, is_left.
  destruct (Nat.eqb_spec (p * 2 + 1) 0) as [E|E]; [lia|].
  divmod2 (p * 2 + 1).
  destruct (Nat.eqb_spec ((p * 2 + 1) mod 2) 1) as [E1|E1]; lia.
Qed.

Lemma parent_right_child p : parent (right_child p) = p.
Proof.
  unfold parent, right_child, is_root, is_left.
  destruct (Nat.eqb_spec (p * 2 + 2) 0) as [E|E]; [lia|].
  divmod2 (p * 2 + 2).
  destruct (Nat.eqb_spec ((p * 2 + 2) mod 2) 1) as [E1|E1]; lia.
Qed.

Lemma parent_root : parent 0 = 0.
Proof. reflexivity. Qed.

Lemma parent_lt p : p > 0 -> parent p < p.
Proof.
  intros Hp. unfold parent, is_root, is_left.
  destruct (Nat.eqb_spec p 0) as [E|E]; [lia|].
  divmod2 p.
  destruct (Nat.eqb_spec (p mod 2) 1) as [E1|E1]; lia.
Qed.

(* the children of [p] are exactly the positions whose parent is [p] *)
Lemma parent_child_iff q p :
  q > 0 -> (parent q = p <-> q = left_child p \/ q = right_child p).
Proof.
  intros Hq. split.
  - unfold parent, left_child, right_child, is_root, is_left.
    destruct (Nat.eqb_spec q 0) as [E|E]; [lia|].
    divmod2 q.
    destruct (Nat.eqb_spec (q mod 2) 1) as [E1|E1]; lia.
  - intros [-> | ->]; [apply parent_left_child | apply parent_right_child].
Qed.

Lemma child_gt q p : q > 0 -> parent q = p -> left_child p <= q.
Proof.
  intros Hq Hp. apply parent_child_iff in Hp; [|exact Hq].
  unfold left_child, right_child in *. lia.
Qed.

Local Opaque parent.

(* index transposition *)
Definition sw (a b q : nat) : nat := if q =? a then b else if q =? b then a else q.

Lemma sw_invol a b q : sw a b (sw a b q) = q.
Proof.
  unfold sw.
  destruct (Nat.eqb_spec q a) as [E1|E1].
  - destruct (Nat.eqb_spec b a) as [E2|E2]; [congruence|].
    rewrite Nat.eqb_refl. congruence.
  - destruct (Nat.eqb_spec q b) as [E2|E2].
    + rewrite Nat.eqb_refl. congruence.
    + destruct (Nat.eqb_spec q a) as [E3|E3]; [congruence|].
      destruct (Nat.eqb_spec q b) as [E4|E4]; congruence.
Qed.

Ltac sw_simpl :=
  unfold sw;
  repeat match goal with
         | |- context [Nat.eqb ?x ?y] => destruct (Nat.eqb_spec x y); try lia
         end.

Section FringeProofs.
  Context {St : Type}.
  Variable st_eqb : St -> St -> bool.
  Hypothesis st_eqb_spec : forall a b, st_eqb a b = true <-> a = b.
  Variable cmp : @subproblem St -> @subproblem St -> comparison.

  Notation sub := (@subproblem St).
  Notation fringe := (@Fringe.nodup St).

  Lemma st_eqb_refl s : st_eqb s s = true.
  Proof. apply st_eqb_spec. reflexivity. Qed.

  Lemma st_eqb_false a b : a <> b -> st_eqb a b = false.
  Proof.
    intros Hab. destruct (st_eqb a b) eqn:E; [|reflexivity].
    apply st_eqb_spec in E. contradiction.
  Qed.

  (* ================================================================ PART A : structure *)

  (* the sub-problem stored at heap position [p] *)
  Definition node_at (f : fringe) (p : nat) : option sub :=
    match nth_error (nd_heap f) p with
    | Some id => nth_error (nd_nodes f) id
    | None => None
    end.

  (* [pos] inverts [heap] and every heap entry designates an allocated node *)
  Definition hp_ok (f : fringe) : Prop :=
    forall p id, nth_error (nd_heap f) p = Some id ->
                 nth_error (nd_pos f) id = Some p /\ id < length (nd_nodes f).

  Lemma hp_ok_NoDup f : hp_ok f -> NoDup (nd_heap f).
  Proof.
    intros Hok. apply NoDup_nth_error. intros i j Hi Hij.
    destruct (nth_error_lt_some _ _ Hi) as [x Hx].
    assert (Hj : nth_error (nd_heap f) j = Some x) by congruence.
    destruct (Hok _ _ Hx) as [H1 _]. destruct (Hok _ _ Hj) as [H2 _]. congruence.
  Qed.

  Lemma hp_ok_node f p id :
    hp_ok f -> nth_error (nd_heap f) p = Some id -> exists x, nth_error (nd_nodes f) id = Some x.
  Proof. intros Hok Hp. apply nth_error_lt_some. apply (Hok _ _ Hp). Qed.

  Lemma node_at_some f p :
    hp_ok f -> p < length (nd_heap f) -> exists x, node_at f p = Some x.
  Proof.
    intros Hok Hp. destruct (nth_error_lt_some _ _ Hp) as [id Hid].
    destruct (hp_ok_node _ _ _ Hok Hid) as [x Hx]. exists x. unfold node_at. rewrite Hid. exact Hx.
  Qed.

  Lemma node_at_lt f p x : node_at f p = Some x -> p < length (nd_heap f).
  Proof.
    unfold node_at. intros H. destruct (nth_error (nd_heap f) p) as [id|] eqn:E; [|discriminate].
    eapply nth_error_lt; eauto.
  Qed.

  Lemma compare_at_pos_some f x y nx ny :
    node_at f x = Some nx -> node_at f y = Some ny -> compare_at_pos cmp f x y = Some (cmp nx ny).
  Proof.
    unfold node_at, compare_at_pos. intros Hx Hy.
    destruct (nth_error (nd_heap f) x) as [ix|]; [|discriminate].
    destruct (nth_error (nd_heap f) y) as [iy|]; [|discriminate].
    rewrite Hx, Hy. reflexivity.
  Qed.

  Lemma compare_at_pos_inv f x y c :
    compare_at_pos cmp f x y = Some c ->
    exists nx ny, node_at f x = Some nx /\ node_at f y = Some ny /\ c = cmp nx ny.
  Proof.
    unfold node_at, compare_at_pos. intros H.
    destruct (nth_error (nd_heap f) x) as [ix|]; [|discriminate].
    destruct (nth_error (nd_heap f) y) as [iy|]; [|discriminate].
    destruct (nth_error (nd_nodes f) ix) as [nx|]; [|discriminate].
    destruct (nth_error (nd_nodes f) iy) as [ny|]; [|discriminate].
    exists nx, ny. inversion H. auto.
  Qed.

  (* ---------------------------------------------------------------- swap_slots *)
  Record swapped (f f' : fringe) (a b : nat) : Prop := {
    sw_states : nd_states f' = nd_states f;
    sw_nodes : nd_nodes f' = nd_nodes f;
    sw_bin : nd_bin f' = nd_bin f;
    sw_lpos : length (nd_pos f') = length (nd_pos f);
    sw_lheap : length (nd_heap f') = length (nd_heap f);
    sw_heap : forall q, nth_error (nd_heap f') q = nth_error (nd_heap f) (sw a b q);
    sw_ok : hp_ok f' }.

  Lemma swap_slots_ok f id a b idb :
    hp_ok f -> nth_error (nd_heap f) a = Some id -> nth_error (nd_heap f) b = Some idb -> a <> b ->
    exists f', swap_slots f id a b = Some f' /\ swapped f f' a b.
  Proof.
    intros Hok Ha Hb Hab.
    destruct (Hok _ _ Ha) as [Hpa Hia]. destruct (Hok _ _ Hb) as [Hpb Hib].
    assert (La : a < length (nd_heap f)) by (eapply nth_error_lt; eauto).
    assert (Lb : b < length (nd_heap f)) by (eapply nth_error_lt; eauto).
    assert (Lpa : id < length (nd_pos f)) by (eapply nth_error_lt; eauto).
    assert (Lpb : idb < length (nd_pos f)) by (eapply nth_error_lt; eauto).
    assert (Hne : id <> idb) by (intros Heq; subst idb; congruence).
    unfold swap_slots. rewrite Hb.
    destruct (Nat.ltb_spec idb (length (nd_pos f))) as [_|Hc]; [|lia].
    destruct (Nat.ltb_spec id (length (nd_pos f))) as [_|Hc]; [|lia].
    destruct (Nat.ltb_spec a (length (nd_heap f))) as [_|Hc]; [|lia].
    cbn [andb]. eexists. split; [reflexivity|].
    assert (Hheap : forall q,
      nth_error (set_nth b id (set_nth a idb (nd_heap f))) q = nth_error (nd_heap f) (sw a b q)).
    { intros q. unfold sw. destruct (Nat.eqb_spec q a) as [E1|E1].
      - subst q. rewrite nth_error_set_nth_other by auto.
        rewrite nth_error_set_nth_same by auto. auto.
      - destruct (Nat.eqb_spec q b) as [E2|E2].
        + subst q. rewrite nth_error_set_nth_same by (rewrite set_nth_length; auto). auto.
        + rewrite !nth_error_set_nth_other by auto. reflexivity. }
    constructor; cbn [nd_states nd_nodes nd_bin nd_pos nd_heap]; auto.
    - rewrite !set_nth_length. reflexivity.
    - rewrite !set_nth_length. reflexivity.
    - intros p i Hp. cbn [nd_states nd_nodes nd_bin nd_pos nd_heap] in *.
      rewrite Hheap in Hp. destruct (Hok _ _ Hp) as [Hpi Hli]. split; [|exact Hli].
      revert Hp Hpi. unfold sw.
      destruct (Nat.eqb_spec p a) as [E1|E1].
      + intros Hp Hpi. subst p. assert (i = idb) by congruence. subst i.
        rewrite nth_error_set_nth_other by auto.
        rewrite nth_error_set_nth_same by auto. reflexivity.
      + destruct (Nat.eqb_spec p b) as [E2|E2].
        * intros Hp Hpi. subst p. assert (i = id) by congruence. subst i.
          rewrite nth_error_set_nth_same by (rewrite set_nth_length; auto). reflexivity.
        * intros Hp Hpi.
          assert (i <> id) by (intros Heq; subst i; congruence).
          assert (i <> idb) by (intros Heq; subst i; congruence).
          rewrite !nth_error_set_nth_other by auto. exact Hpi.
  Qed.

  Lemma node_at_swapped f f' a b q : swapped f f' a b -> node_at f' q = node_at f (sw a b q).
  Proof. intros Hs. unfold node_at. rewrite (sw_heap _ _ _ _ Hs), (sw_nodes _ _ _ _ Hs). reflexivity. Qed.

  (* what bubble_up / bubble_down leave untouched *)
  Record same_content (f f' : fringe) : Prop := {
    sc_states : nd_states f' = nd_states f;
    sc_nodes : nd_nodes f' = nd_nodes f;
    sc_bin : nd_bin f' = nd_bin f;
    sc_lpos : length (nd_pos f') = length (nd_pos f);
    sc_perm : Permutation (nd_heap f') (nd_heap f) }.

  Lemma same_content_refl f : same_content f f.
  Proof. constructor; auto. Qed.

  Lemma same_content_trans f g h : same_content f g -> same_content g h -> same_content f h.
  Proof.
    intros [A1 A2 A3 A4 A5] [B1 B2 B3 B4 B5]. constructor; try congruence.
    eapply Permutation_trans; eauto.
  Qed.

  Lemma swapped_same_content f f' a b : hp_ok f -> swapped f f' a b -> same_content f f'.
  Proof.
    intros Hok Hs. constructor; try apply Hs.
    apply NoDup_Permutation.
    - apply hp_ok_NoDup. apply Hs.
    - apply hp_ok_NoDup. exact Hok.
    - intros x. split; intros Hin.
      + apply In_nth_error in Hin. destruct Hin as [q Hq].
        rewrite (sw_heap _ _ _ _ Hs) in Hq. eapply nth_error_In; eauto.
      + apply In_nth_error in Hin. destruct Hin as [q Hq].
        apply (nth_error_In _ (sw a b q)). rewrite (sw_heap _ _ _ _ Hs), sw_invol. exact Hq.
  Qed.

  (* ---------------------------------------------------------------- bubble_up never panics *)
  Lemma bubble_up_loop_struct : forall fuel f id me,
    hp_ok f -> nth_error (nd_heap f) me = Some id -> me < fuel ->
    exists f', bubble_up_loop cmp fuel f id me = Some f' /\ hp_ok f' /\ same_content f f'.
  Proof.
    induction fuel as [|fuel IH]; intros f id me Hok Hme Hfuel; [lia|].
    cbn [bubble_up_loop]. unfold is_root.
    destruct (Nat.eqb_spec me 0) as [E|E].
    - exists f. auto using same_content_refl.
    - assert (Hpl : parent me < me) by (apply parent_lt; lia).
      assert (Lme : me < length (nd_heap f)) by (eapply nth_error_lt; eauto).
      destruct (node_at_some f me Hok Lme) as [nme Hnme].
      destruct (node_at_some f (parent me) Hok ltac:(lia)) as [np Hnp].
      rewrite (compare_at_pos_some _ _ _ _ _ Hnme Hnp).
      destruct (cmp nme np); try solve [exists f; auto using same_content_refl].
      destruct (nth_error_lt_some (nd_heap f) (parent me) ltac:(lia)) as [idp Hidp].
      destruct (swap_slots_ok f id me (parent me) idp Hok Hme Hidp ltac:(lia)) as [f1 [Hsw Hs]].
      rewrite Hsw.
      destruct (IH f1 id (parent me)) as [f' [Hrun [Hok' Hsc]]].
      + apply Hs.
      + rewrite (sw_heap _ _ _ _ Hs). unfold sw. rewrite Nat.eqb_refl.
        destruct (Nat.eqb_spec (parent me) me); [lia|]. exact Hme.
      + lia.
      + exists f'. split; [exact Hrun|]. split; [exact Hok'|].
        eapply same_content_trans; [|exact Hsc]. eapply swapped_same_content; eauto.
  Qed.

  Lemma bubble_up_struct f id p :
    hp_ok f -> nth_error (nd_heap f) p = Some id ->
    exists f', bubble_up cmp f id = Some f' /\ hp_ok f' /\ same_content f f'.
  Proof.
    intros Hok Hp. unfold bubble_up. destruct (Hok _ _ Hp) as [Hpos _]. rewrite Hpos.
    apply bubble_up_loop_struct; auto.
    apply nth_error_lt in Hp. unfold nd_len. lia.
  Qed.

  (* ---------------------------------------------------------------- bubble_down never panics *)
  Lemma max_child_struct f me :
    hp_ok f ->
    exists kid, max_child_of cmp f me = Some kid /\
                (kid = 0 \/ (me < kid < length (nd_heap f))).
  Proof.
    intros Hok. unfold max_child_of, nd_len.
    destruct (Nat.leb_spec (length (nd_heap f)) (left_child me)) as [H1|H1].
    - exists 0. auto.
    - destruct (Nat.leb_spec (length (nd_heap f)) (right_child me)) as [H2|H2].
      + exists (left_child me). split; [reflexivity|]. right. unfold left_child in *. lia.
      + destruct (node_at_some f (left_child me) Hok H1) as [nl Hnl].
        destruct (node_at_some f (right_child me) Hok H2) as [nr Hnr].
        rewrite (compare_at_pos_some _ _ _ _ _ Hnl Hnr).
        unfold left_child, right_child in *.
        destruct (cmp nl nr); eexists; (split; [reflexivity|]); right; lia.
  Qed.

  Lemma bubble_down_loop_struct : forall fuel f id me,
    hp_ok f -> nth_error (nd_heap f) me = Some id -> length (nd_heap f) < me + fuel ->
    exists f', bubble_down_loop cmp fuel f id me = Some f' /\ hp_ok f' /\ same_content f f'.
  Proof.
    induction fuel as [|fuel IH]; intros f id me Hok Hme Hfuel.
    - apply nth_error_lt in Hme. lia.
    - cbn [bubble_down_loop].
      destruct (max_child_struct f me Hok) as [kid [Hkid Hrange]]. rewrite Hkid.
      destruct (Nat.ltb_spec 0 kid) as [Hk|Hk]; [|exists f; auto using same_content_refl].
      destruct Hrange as [Hz|[Hk1 Hk2]]; [lia|].
      assert (Lme : me < length (nd_heap f)) by (eapply nth_error_lt; eauto).
      destruct (node_at_some f me Hok Lme) as [nme Hnme].
      destruct (node_at_some f kid Hok Hk2) as [nk Hnk].
      rewrite (compare_at_pos_some _ _ _ _ _ Hnme Hnk).
      destruct (cmp nme nk); try solve [exists f; auto using same_content_refl].
      destruct (nth_error_lt_some (nd_heap f) kid Hk2) as [idk Hidk].
      destruct (swap_slots_ok f id me kid idk Hok Hme Hidk ltac:(lia)) as [f1 [Hsw Hs]].
      rewrite Hsw.
      destruct (IH f1 id kid) as [f' [Hrun [Hok' Hsc]]].
      + apply Hs.
      + rewrite (sw_heap _ _ _ _ Hs). unfold sw. rewrite Nat.eqb_refl.
        destruct (Nat.eqb_spec kid me); [lia|]. exact Hme.
      + rewrite (sw_lheap _ _ _ _ Hs). lia.
      + exists f'. split; [exact Hrun|]. split; [exact Hok'|].
        eapply same_content_trans; [|exact Hsc]. eapply swapped_same_content; eauto.
  Qed.

  Lemma bubble_down_struct f id p :
    hp_ok f -> nth_error (nd_heap f) p = Some id ->
    exists f', bubble_down cmp f id = Some f' /\ hp_ok f' /\ same_content f f'.
  Proof.
    intros Hok Hp. unfold bubble_down. destruct (Hok _ _ Hp) as [Hpos _]. rewrite Hpos.
    apply bubble_down_loop_struct; auto.
    unfold nd_len. lia.
  Qed.


  (* ---------------------------------------------------------------- the states map *)
  Lemma states_get_none m s : states_get st_eqb m s = None <-> ~ In s (map fst m).
  Proof.
    induction m as [|[k v] m IH]; cbn [states_get map fst In].
    - tauto.
    - destruct (st_eqb k s) eqn:E.
      + apply st_eqb_spec in E. split; [discriminate|]. intros H. exfalso. apply H. auto.
      + rewrite IH. split.
        * intros H [H1|H1]; [|auto]. subst k. rewrite st_eqb_refl in E. discriminate.
        * intros H H1. apply H. auto.
  Qed.

  Lemma states_remove_incl m s k : In k (map fst (states_remove st_eqb m s)) -> In k (map fst m).
  Proof.
    induction m as [|[k' v] m IH]; cbn [states_remove map fst In]; [tauto|].
    destruct (st_eqb k' s); cbn [map fst In]; intuition.
  Qed.

  Lemma states_remove_keys m s : NoDup (map fst m) -> NoDup (map fst (states_remove st_eqb m s)).
  Proof.
    induction m as [|[k v] m IH]; cbn [states_remove map fst]; intros Hnd; [constructor|].
    inversion Hnd as [|k0 l0 Hnotin Hnd']; subst.
    destruct (st_eqb k s); [exact Hnd'|].
    cbn [map fst]. constructor; [|auto].
    intros Hin. apply Hnotin. eapply states_remove_incl; eauto.
  Qed.

  Lemma states_get_remove m s s' :
    NoDup (map fst m) ->
    states_get st_eqb (states_remove st_eqb m s) s' =
    if st_eqb s s' then None else states_get st_eqb m s'.
  Proof.
    induction m as [|[k v] m IH]; cbn [states_remove states_get map fst]; intros Hnd.
    - destruct (st_eqb s s'); reflexivity.
    - inversion Hnd as [|k0 l0 Hnotin Hnd']; subst.
      destruct (st_eqb k s) eqn:E.
      + apply st_eqb_spec in E. subst k.
        destruct (st_eqb s s') eqn:E'; [|reflexivity].
        apply st_eqb_spec in E'. subst s'. apply states_get_none. exact Hnotin.
      + cbn [states_get]. destruct (st_eqb k s') eqn:E1.
        * apply st_eqb_spec in E1. subst s'.
          destruct (st_eqb s k) eqn:E2; [|reflexivity].
          apply st_eqb_spec in E2. subst s. rewrite st_eqb_refl in E. discriminate.
        * apply IH. exact Hnd'.
  Qed.

  (* ---------------------------------------------------------------- the structural invariant *)
  Record nd_core (f : fringe) : Prop := {
    c_len : length (nd_pos f) = length (nd_nodes f);
    c_hp : hp_ok f;
    c_bin_nodup : NoDup (nd_bin f);
    c_bin_lt : forall id, In id (nd_bin f) -> id < length (nd_nodes f);
    c_disj : forall id, In id (nd_bin f) -> ~ In id (nd_heap f);
    c_cover : forall id, id < length (nd_nodes f) -> In id (nd_heap f) \/ In id (nd_bin f);
    c_keys : NoDup (map fst (nd_states f));
    c_states : forall s id,
      states_get st_eqb (nd_states f) s = Some id <->
      (In id (nd_heap f) /\ exists n, nth_error (nd_nodes f) id = Some n /\ sp_state n = s) }.

  Lemma nd_core_empty : nd_core nd_empty.
  Proof.
    constructor; cbn [nd_empty nd_states nd_nodes nd_pos nd_heap nd_bin map length In states_get].
    - reflexivity.
    - intros p id H. destruct p; discriminate.
    - constructor.
    - tauto.
    - tauto.
    - intros id H. lia.
    - constructor.
    - intros s id. split; [discriminate|]. intros [[] _].
  Qed.

  Lemma core_same_content f f' : nd_core f -> same_content f f' -> hp_ok f' -> nd_core f'.
  Proof.
    intros Hc [E1 E2 E3 E4 E5] Hok.
    assert (Hin : forall x, In x (nd_heap f') <-> In x (nd_heap f)).
    { intros x. split; apply Permutation_in; [exact E5 | apply Permutation_sym; exact E5]. }
    constructor.
    - rewrite E4, E2. apply Hc.
    - exact Hok.
    - rewrite E3. apply Hc.
    - rewrite E3, E2. apply Hc.
    - rewrite E3. intros id Hb Hh. apply Hin in Hh. eapply (c_disj _ Hc); eauto.
    - rewrite E3, E2. intros id Hl. rewrite Hin. apply (c_cover _ Hc). exact Hl.
    - rewrite E1. apply Hc.
    - rewrite E1, E2. intros s id. rewrite Hin. apply (c_states _ Hc).
  Qed.

  (* ---------------------------------------------------------------- push, vacant entry *)
  Lemma push_fresh_core f id node nodes' pos' bin' :
    nd_core f ->
    states_get st_eqb (nd_states f) (sp_state node) = None ->
    ~ In id (nd_heap f) ->
    length pos' = length nodes' ->
    (forall x, x < length nodes' <-> x < length (nd_nodes f) \/ x = id) ->
    nth_error nodes' id = Some node ->
    (forall j, j <> id -> nth_error nodes' j = nth_error (nd_nodes f) j) ->
    (forall j, j <> id -> nth_error pos' j = nth_error (nd_pos f) j) ->
    NoDup bin' -> (forall x, In x bin' <-> In x (nd_bin f) /\ x <> id) ->
    nd_core {| nd_states := (sp_state node, id) :: nd_states f; nd_nodes := nodes';
               nd_pos := set_nth id (length (nd_heap f)) pos';
               nd_heap := nd_heap f ++ [id]; nd_bin := bin' |}.
  Proof.
    intros Hc Hnone Hnotin Hlen Hrange Hnode Hnodes Hpos Hnd Hbin.
    assert (Hid : id < length nodes') by (apply Hrange; auto).
    constructor; cbn [nd_states nd_nodes nd_pos nd_heap nd_bin].
    - rewrite set_nth_length. exact Hlen.
    - intros p i Hp. cbn [nd_states nd_nodes nd_pos nd_heap nd_bin] in *.
      destruct (Nat.eq_dec p (length (nd_heap f))) as [E|E].
      + subst p. rewrite nth_error_snoc_same in Hp. inversion Hp; subst i.
        split; [apply nth_error_set_nth_same; lia | exact Hid].
      + rewrite nth_error_snoc_other in Hp by exact E.
        destruct (c_hp _ Hc _ _ Hp) as [H1 H2].
        assert (Hne : i <> id).
        { intros Heq; subst i; apply Hnotin; eapply nth_error_In; eauto. }
        split.
        * rewrite nth_error_set_nth_other by auto. rewrite Hpos by auto. exact H1.
        * apply Hrange. auto.
    - exact Hnd.
    - intros x Hx. apply Hbin in Hx. destruct Hx as [Hx _]. apply Hrange. left.
      apply (c_bin_lt _ Hc); auto.
    - intros x Hx Hin. apply Hbin in Hx. destruct Hx as [Hx Hne].
      apply in_app_or in Hin. destruct Hin as [Hin|[Hin|[]]].
      + apply (c_disj _ Hc x); auto.
      + congruence.
    - intros x Hx. apply Hrange in Hx. destruct (Nat.eq_dec x id) as [Heq|Hne].
      + subst x. left. apply in_or_app. right. left; auto.
      + destruct Hx as [Hx|Hx]; [|contradiction]. destruct (c_cover _ Hc x Hx) as [H|H].
        * left. apply in_or_app; auto.
        * right. apply Hbin. auto.
    - cbn [map fst]. constructor; [|apply (c_keys _ Hc)]. apply states_get_none; auto.
    - intros s i. cbn [states_get]. destruct (st_eqb (sp_state node) s) eqn:E.
      + apply st_eqb_spec in E. split.
        * intros Hi. inversion Hi; subst i. split.
          -- apply in_or_app; right; left; auto.
          -- exists node; auto.
        * intros [Hin [x [Hx Hs]]]. f_equal.
          destruct (Nat.eq_dec i id) as [|Hne]; [auto|]. exfalso.
          apply in_app_or in Hin. destruct Hin as [Hin|[Hin|[]]]; [|congruence].
          rewrite Hnodes in Hx by auto.
          assert (Hg : states_get st_eqb (nd_states f) s = Some i) by (apply (c_states _ Hc); eauto).
          congruence.
      + split.
        * intros Hg. apply (c_states _ Hc) in Hg. destruct Hg as [Hin [x [Hx Hs]]].
          assert (Hne : i <> id) by (intros Heq; subst i; auto).
          split; [apply in_or_app; auto|]. exists x. rewrite Hnodes by auto. auto.
        * intros [Hin [x [Hx Hs]]]. apply in_app_or in Hin. destruct Hin as [Hin|[Hin|[]]].
          -- assert (Hne : i <> id) by (intros Heq; subst i; auto).
             rewrite Hnodes in Hx by auto. apply (c_states _ Hc). eauto.
          -- subst i. rewrite Hnode in Hx. inversion Hx; subst x.
             rewrite Hs, st_eqb_refl in E. discriminate.
  Qed.

  Record fresh_ins (f f1 : fringe) (id : nat) (n : sub) : Prop := {
    fi_none : states_get st_eqb (nd_states f) (sp_state n) = None;
    fi_core : nd_core f1;
    fi_heap : nd_heap f1 = nd_heap f ++ [id];
    fi_notin : ~ In id (nd_heap f);
    fi_node : nth_error (nd_nodes f1) id = Some n;
    fi_nodes : forall j, j <> id -> nth_error (nd_nodes f1) j = nth_error (nd_nodes f) j }.

  Lemma nd_push_vacant f n :
    nd_core f -> states_get st_eqb (nd_states f) (sp_state n) = None ->
    exists id f1 f',
      fresh_ins f f1 id n /\ nd_push st_eqb cmp f n = Some f' /\
      bubble_up cmp f1 id = Some f' /\ hp_ok f' /\ same_content f1 f'.
  Proof.
    intros Hc Hnone. unfold nd_push. rewrite Hnone.
    destruct (rev (nd_bin f)) as [|id rbin'] eqn:Erev.
    - apply rev_eq_nil in Erev.
      cbv beta iota zeta.
      rewrite !app_length. cbn [length].
      destruct (Nat.ltb_spec (length (nd_nodes f)) (length (nd_pos f) + 1)) as [_|Hx];
        [|rewrite (c_len _ Hc) in Hx; lia].
      destruct (Nat.ltb_spec (length (nd_nodes f)) (length (nd_nodes f) + 1)) as [_|Hx]; [|lia].
      cbn [andb].
      replace (length (nd_heap f) + 1 - 1) with (length (nd_heap f)) by lia.
      set (id := length (nd_nodes f)).
      assert (Hnotin : ~ In id (nd_heap f)).
      { intros Hin. apply In_nth_error in Hin. destruct Hin as [p Hp].
        apply (c_hp _ Hc) in Hp. unfold id in Hp. lia. }
      match goal with |- context [bubble_up cmp ?F id] => set (f1 := F) end.
      assert (Hc1 : nd_core f1).
      { unfold f1. apply push_fresh_core; auto.
        - rewrite !app_length. cbn [length]. rewrite (c_len _ Hc). reflexivity.
        - intros x. rewrite app_length. cbn [length]. unfold id. lia.
        - apply nth_error_snoc_same.
        - intros j Hj. apply nth_error_snoc_other. exact Hj.
        - intros j Hj. apply nth_error_snoc_other. rewrite (c_len _ Hc). exact Hj.
        - apply Hc.
        - intros x. rewrite Erev. cbn [In]. tauto. }
      destruct (bubble_up_struct f1 id (length (nd_heap f)) (c_hp _ Hc1)) as [f' [Hb [Hok' Hsc]]].
      { unfold f1. cbn [nd_heap]. apply nth_error_snoc_same. }
      exists id, f1, f'. split; [|auto].
      constructor; auto.
      + unfold f1. cbn [nd_nodes]. apply nth_error_snoc_same.
      + intros j Hj. unfold f1. cbn [nd_nodes]. apply nth_error_snoc_other. exact Hj.
    - apply rev_eq_cons in Erev.
      cbv beta iota zeta.
      assert (Hinb : In id (nd_bin f)) by (rewrite Erev; apply in_or_app; right; left; auto).
      assert (Hlt : id < length (nd_nodes f)) by (apply (c_bin_lt _ Hc); auto).
      assert (Hnotin : ~ In id (nd_heap f)) by (apply (c_disj _ Hc); auto).
      rewrite set_nth_length.
      destruct (Nat.ltb_spec id (length (nd_pos f))) as [_|Hx]; [|rewrite (c_len _ Hc) in Hx; lia].
      destruct (Nat.ltb_spec id (length (nd_nodes f))) as [_|Hx]; [|lia].
      cbn [andb].
      rewrite app_length. cbn [length].
      replace (length (nd_heap f) + 1 - 1) with (length (nd_heap f)) by lia.
      match goal with |- context [bubble_up cmp ?F id] => set (f1 := F) end.
      assert (Hndb : NoDup (rev rbin' ++ [id])) by (rewrite <- Erev; apply Hc).
      assert (Hc1 : nd_core f1).
      { unfold f1. apply push_fresh_core; auto.
        - rewrite set_nth_length. apply Hc.
        - intros x. rewrite set_nth_length. lia.
        - apply nth_error_set_nth_same. exact Hlt.
        - intros j Hj. apply nth_error_set_nth_other. auto.
        - apply NoDup_remove_1 in Hndb. rewrite app_nil_r in Hndb. exact Hndb.
        - intros x. rewrite Erev. rewrite in_app_iff. cbn [In].
          apply NoDup_remove_2 in Hndb. rewrite app_nil_r in Hndb.
          split.
          + intros Hx. split; [auto|]. intros Heq; subst x. auto.
          + intros [[Hx|[Hx|[]]] Hne]; [auto|congruence]. }
      destruct (bubble_up_struct f1 id (length (nd_heap f)) (c_hp _ Hc1)) as [f' [Hb [Hok' Hsc]]].
      { unfold f1. cbn [nd_heap]. apply nth_error_snoc_same. }
      exists id, f1, f'. split; [|auto].
      constructor; auto.
      + unfold f1. cbn [nd_nodes]. apply nth_error_set_nth_same. exact Hlt.
      + intros j Hj. unfold f1. cbn [nd_nodes]. apply nth_error_set_nth_other. auto.
  Qed.

  (* ---------------------------------------------------------------- push, occupied entry *)
  Definition with_ub (n : sub) (u : Z) : sub :=
    {| sp_state := sp_state n; sp_value := sp_value n; sp_path := sp_path n;
       sp_ub := u; sp_depth := sp_depth n |}.

  (* the [nodes] vector after the two conditional assignments of the Occupied branch *)
  Definition push_nodes (nodes : list sub) (id : nat) (old node : sub) : list sub :=
    let node' := with_ub node (Z.max (sp_ub node) (sp_ub old)) in
    let nodes1 := if (sp_value node >? sp_value old)%Z then set_nth id node' nodes else nodes in
    if (sp_ub node >? sp_ub old)%Z
    then upd_nth id (fun n => with_ub n (sp_ub node)) nodes1 else nodes1.

  Lemma nd_push_occupied_eq f node id old :
    states_get st_eqb (nd_states f) (sp_state node) = Some id ->
    nth_error (nd_nodes f) id = Some old ->
    nd_push st_eqb cmp f node =
    let f1 := {| nd_states := nd_states f; nd_nodes := push_nodes (nd_nodes f) id old node;
                 nd_pos := nd_pos f; nd_heap := nd_heap f; nd_bin := nd_bin f |} in
    if is_gt (cmp (with_ub node (Z.max (sp_ub node) (sp_ub old))) old)
    then bubble_up cmp f1 id else Some f1.
  Proof. intros H1 H2. unfold nd_push. rewrite H1, H2. reflexivity. Qed.

  Lemma with_ub_id (n : sub) : with_ub n (sp_ub n) = n.
  Proof. destruct n; reflexivity. Qed.

  (* the Occupied branch stores exactly [coalesce old node] *)
  Lemma push_nodes_spec nodes id old node :
    nth_error nodes id = Some old ->
    length (push_nodes nodes id old node) = length nodes /\
    nth_error (push_nodes nodes id old node) id = Some (coalesce old node) /\
    forall j, j <> id -> nth_error (push_nodes nodes id old node) j = nth_error nodes j.
  Proof.
    intros Hold. assert (Hlt : id < length nodes) by (eapply nth_error_lt; eauto).
    unfold push_nodes, coalesce.
    destruct (sp_value node >? sp_value old)%Z eqn:Ev;
      destruct (sp_ub node >? sp_ub old)%Z eqn:Eu;
      rewrite ?Z.gtb_ltb in Eu; [apply Z.ltb_lt in Eu | apply Z.ltb_ge in Eu
                                 | apply Z.ltb_lt in Eu | apply Z.ltb_ge in Eu].
    - split; [rewrite upd_nth_length; apply set_nth_length|]. split.
      + rewrite (nth_error_upd_nth_same id _ _ _ (nth_error_set_nth_same id _ nodes Hlt)).
        unfold with_ub. cbn [sp_state sp_value sp_path sp_ub sp_depth].
        rewrite Z.max_l by lia. reflexivity.
      + intros j Hj. rewrite nth_error_upd_nth_other by auto. apply nth_error_set_nth_other; auto.
    - split; [apply set_nth_length|]. split.
      + rewrite nth_error_set_nth_same by exact Hlt. reflexivity.
      + intros j Hj. apply nth_error_set_nth_other; auto.
    - split; [apply upd_nth_length|]. split.
      + rewrite (nth_error_upd_nth_same id _ _ _ Hold). unfold with_ub.
        rewrite Z.max_l by lia. reflexivity.
      + intros j Hj. apply nth_error_upd_nth_other; auto.
    - split; [reflexivity|]. split; [|reflexivity].
      rewrite Hold. rewrite Z.max_r by lia. destruct old; reflexivity.
  Qed.

  Lemma coalesce_state (old n : sub) : sp_state old = sp_state n -> sp_state (coalesce old n) = sp_state n.
  Proof. intros H. unfold coalesce. destruct (sp_value n >? sp_value old)%Z; cbn [sp_state]; auto. Qed.

  Lemma core_update_node f id old x nodes' :
    nd_core f -> nth_error (nd_nodes f) id = Some old -> sp_state x = sp_state old ->
    length nodes' = length (nd_nodes f) ->
    nth_error nodes' id = Some x ->
    (forall j, j <> id -> nth_error nodes' j = nth_error (nd_nodes f) j) ->
    nd_core {| nd_states := nd_states f; nd_nodes := nodes'; nd_pos := nd_pos f;
               nd_heap := nd_heap f; nd_bin := nd_bin f |}.
  Proof.
    intros Hc Hold Hst Hlen Hx Hoth.
    constructor; cbn [nd_states nd_nodes nd_pos nd_heap nd_bin]; try rewrite Hlen; try apply Hc.
    - intros p i Hp. cbn [nd_states nd_nodes nd_pos nd_heap nd_bin] in *. rewrite Hlen.
      apply (c_hp _ Hc). exact Hp.
    - intros s i. rewrite (c_states _ Hc).
      destruct (Nat.eq_dec i id) as [E|E].
      + subst i. rewrite Hx, Hold. split; intros [Hin [y [Hy Hs]]]; (split; [exact Hin|]);
          inversion Hy; subst y; eexists; split; try reflexivity; congruence.
      + rewrite Hoth by exact E. tauto.
  Qed.

  Record coal_upd (f f1 : fringe) (id : nat) (old n : sub) : Prop := {
    cu_get : states_get st_eqb (nd_states f) (sp_state n) = Some id;
    cu_in : In id (nd_heap f);
    cu_old : nth_error (nd_nodes f) id = Some old;
    cu_state : sp_state old = sp_state n;
    cu_core : nd_core f1;
    cu_heap : nd_heap f1 = nd_heap f;
    cu_node : nth_error (nd_nodes f1) id = Some (coalesce old n);
    cu_nodes : forall j, j <> id -> nth_error (nd_nodes f1) j = nth_error (nd_nodes f) j }.

  Lemma nd_push_occupied f n id :
    nd_core f -> states_get st_eqb (nd_states f) (sp_state n) = Some id ->
    exists old f1 f',
      coal_upd f f1 id old n /\ nd_push st_eqb cmp f n = Some f' /\
      ((cmp (with_ub n (Z.max (sp_ub n) (sp_ub old))) old = Gt /\
        bubble_up cmp f1 id = Some f' /\ hp_ok f' /\ same_content f1 f')
       \/ (cmp (with_ub n (Z.max (sp_ub n) (sp_ub old))) old <> Gt /\ f' = f1)).
  Proof.
    intros Hc Hget.
    destruct (proj1 (c_states _ Hc _ _) Hget) as [Hin [old [Hold Hst]]].
    rewrite (nd_push_occupied_eq f n id old Hget Hold). cbv zeta.
    destruct (push_nodes_spec (nd_nodes f) id old n Hold) as [Hlen [Hnew Hoth]].
    set (f1 := {| nd_states := nd_states f; nd_nodes := push_nodes (nd_nodes f) id old n;
                  nd_pos := nd_pos f; nd_heap := nd_heap f; nd_bin := nd_bin f |}).
    assert (Hc1 : nd_core f1).
    { unfold f1. apply (core_update_node f id old (coalesce old n)); auto.
      rewrite coalesce_state; auto. }
    assert (Hcu : coal_upd f f1 id old n) by (constructor; auto).
    destruct (cmp (with_ub n (Z.max (sp_ub n) (sp_ub old))) old) eqn:Ec; cbn [is_gt].
    - exists old, f1, f1. split; [exact Hcu|]. split; [reflexivity|]. right. split; [congruence|reflexivity].
    - exists old, f1, f1. split; [exact Hcu|]. split; [reflexivity|]. right. split; [congruence|reflexivity].
    - apply In_nth_error in Hin. destruct Hin as [p Hp].
      destruct (bubble_up_struct f1 id p (c_hp _ Hc1) Hp) as [f' [Hb [Hok' Hsc]]].
      exists old, f1, f'. split; [exact Hcu|]. split; [exact Hb|]. left. auto.
  Qed.

  Theorem nd_push_core f n : nd_core f -> exists f', nd_push st_eqb cmp f n = Some f' /\ nd_core f'.
  Proof.
    intros Hc. destruct (states_get st_eqb (nd_states f) (sp_state n)) as [id|] eqn:Hget.
    - destruct (nd_push_occupied f n id Hc Hget) as [old [f1 [f' [Hcu [Hp Hcase]]]]].
      exists f'. split; [exact Hp|].
      destruct Hcase as [[_ [_ [Hok Hsc]]]|[_ Heq]].
      + apply (core_same_content f1 f'); auto. apply Hcu.
      + subst f'. apply Hcu.
    - destruct (nd_push_vacant f n Hc Hget) as [id [f1 [f' [Hfi [Hp [_ [Hok Hsc]]]]]]].
      exists f'. split; [exact Hp|]. apply (core_same_content f1 f'); auto. apply Hfi.
  Qed.

  (* ---------------------------------------------------------------- pop *)
  Lemma swap_remove0_spec x t :
    exists h', swap_remove0 (x :: t) = Some (x, h') /\
      length h' = length t /\ Permutation (x :: t) (x :: h') /\
      (forall q, 0 < q -> q < length h' -> nth_error h' q = nth_error (x :: t) q) /\
      (forall h0, nth_error h' 0 = Some h0 -> nth_error (x :: t) (length t) = Some h0).
  Proof.
    unfold swap_remove0. destruct (rev t) as [|lst rt'] eqn:Erev.
    - apply rev_eq_nil in Erev. subst t. exists []. split; [reflexivity|]. split; [reflexivity|].
      split; [apply Permutation_refl|]. split.
      + intros q H1 H2. cbn [length] in H2. lia.
      + intros h0 H. discriminate.
    - apply rev_eq_cons in Erev. subst t. exists (lst :: rev rt'). split; [reflexivity|]. split.
      { rewrite app_length. cbn [length]. lia. }
      split.
      { apply perm_skip. apply Permutation_sym. apply Permutation_cons_append. }
      split.
      + intros q H1 H2. destruct q as [|q']; [lia|]. cbn [length] in H2. cbn [nth_error].
        symmetry. apply nth_error_app1. lia.
      + intros h0 H. cbn [nth_error] in H. inversion H; subst h0.
        rewrite app_length. cbn [length]. rewrite Nat.add_1_r. cbn [nth_error].
        apply nth_error_snoc_same.
  Qed.

  Lemma nd_pop_empty f : nd_heap f = [] -> nd_pop st_eqb cmp f = Some (f, None).
  Proof. intros H. unfold nd_pop. rewrite H. reflexivity. Qed.

  Definition popped_state (f f1 : fringe) (id : nat) (x : sub) : fringe :=
    {| nd_states := states_remove st_eqb (nd_states f) (sp_state x); nd_nodes := nd_nodes f;
       nd_pos := nd_pos f1; nd_heap := nd_heap f1; nd_bin := nd_bin f ++ [id] |}.

  Lemma nd_pop_nonempty f id t :
    nd_core f -> nd_heap f = id :: t ->
    exists x f0 f1,
      nth_error (nd_nodes f) id = Some x /\
      nd_pop st_eqb cmp f = Some (popped_state f f1 id x, Some x) /\
      hp_ok f0 /\ nd_nodes f0 = nd_nodes f /\
      Permutation (nd_heap f) (id :: nd_heap f0) /\
      (forall q y, q > 0 -> node_at f0 q = Some y -> node_at f q = Some y) /\
      hp_ok f1 /\ same_content f0 f1 /\ length (nd_pos f1) = length (nd_pos f) /\
      ((nd_heap f0 = [] /\ f1 = f0) \/
       (exists h0, nth_error (nd_heap f0) 0 = Some h0 /\ bubble_down cmp f0 h0 = Some f1)).
  Proof.
    intros Hc Hheap.
    assert (Hid0 : nth_error (nd_heap f) 0 = Some id) by (rewrite Hheap; reflexivity).
    destruct (hp_ok_node f 0 id (c_hp _ Hc) Hid0) as [x Hx].
    destruct (swap_remove0_spec id t) as [h' [Hsr [Hlen [Hperm [Hmid Hlast]]]]].
    unfold nd_pop. rewrite Hheap, Hsr. cbv beta iota.
    destruct h' as [|h0 h''].
    - cbn [nd_nodes]. rewrite Hx.
      set (f0 := {| nd_states := nd_states f; nd_nodes := nd_nodes f; nd_pos := nd_pos f;
                    nd_heap := []; nd_bin := nd_bin f |}).
      exists x, f0, f0. split; [reflexivity|]. split; [reflexivity|].
      assert (Hok0 : hp_ok f0) by (intros p i Hp; destruct p; discriminate).
      split; [exact Hok0|]. split; [reflexivity|].
      split; [exact Hperm|].
      split.
      { intros q y _ Hq. unfold node_at, f0 in Hq. cbn [nd_heap] in Hq. destruct q; discriminate. }
      split; [exact Hok0|]. split; [apply same_content_refl|]. split; [reflexivity|].
      left. auto.
    - assert (Hh0 : nth_error (nd_heap f) (length t) = Some h0).
      { rewrite Hheap. apply Hlast. reflexivity. }
      destruct (c_hp _ Hc _ _ Hh0) as [Hpos0 Hlt0].
      assert (Hltp : h0 < length (nd_pos f)) by (eapply nth_error_lt; eauto).
      destruct (Nat.ltb_spec h0 (length (nd_pos f))) as [_|Hcontra]; [|lia].
      set (f0 := {| nd_states := nd_states f; nd_nodes := nd_nodes f;
                    nd_pos := set_nth h0 0 (nd_pos f); nd_heap := h0 :: h''; nd_bin := nd_bin f |}).
      assert (Hheap0 : forall q i, q > 0 -> nth_error (nd_heap f0) q = Some i ->
                                   nth_error (nd_heap f) q = Some i).
      { intros q i Hq Hqi. unfold f0 in Hqi. cbn [nd_heap] in Hqi.
        rewrite Hheap. rewrite <- Hmid; [exact Hqi | lia | eapply nth_error_lt; eauto]. }
      assert (Hok0 : hp_ok f0).
      { intros p i Hp. destruct (Nat.eq_dec p 0) as [E|E].
        - subst p. unfold f0 in Hp |- *. cbn [nd_heap nd_pos nd_nodes] in *.
          inversion Hp; subst i. split; [apply nth_error_set_nth_same; exact Hltp | exact Hlt0].
        - assert (Hp' := Hheap0 p i ltac:(lia) Hp).
          destruct (c_hp _ Hc _ _ Hp') as [H1 H2].
          assert (Hpl : p < length (h0 :: h'')) by (eapply nth_error_lt; exact Hp).
          assert (Hne : i <> h0).
          { intros Heq. subst i. rewrite Hpos0 in H1. inversion H1. lia. }
          unfold f0. cbn [nd_heap nd_pos nd_nodes].
          split; [|exact H2]. rewrite nth_error_set_nth_other by auto. exact H1. }
      destruct (bubble_down_struct f0 h0 0 Hok0 eq_refl) as [f1 [Hbd [Hok1 Hsc]]].
      fold f0. rewrite Hbd.
      rewrite (sc_nodes _ _ Hsc), (sc_states _ _ Hsc), (sc_bin _ _ Hsc).
      unfold f0 at 1 2 3 4. cbn [nd_nodes nd_states nd_bin]. rewrite Hx.
      exists x, f0, f1. split; [reflexivity|]. split; [reflexivity|].
      split; [exact Hok0|]. split; [reflexivity|].
      split; [exact Hperm|].
      split.
      { intros q y Hq Hqy. unfold node_at in *.
        destruct (nth_error (nd_heap f0) q) as [i|] eqn:Ei; [|discriminate].
        rewrite (Hheap0 q i Hq Ei). exact Hqy. }
      split; [exact Hok1|]. split; [exact Hsc|]. split.
      { rewrite (sc_lpos _ _ Hsc). unfold f0. cbn [nd_pos]. apply set_nth_length. }
      right. exists h0. split; [reflexivity|exact Hbd].
  Qed.

  Lemma pop_core f id x pos1 heap1 :
    nd_core f -> In id (nd_heap f) -> nth_error (nd_nodes f) id = Some x ->
    Permutation (nd_heap f) (id :: heap1) ->
    length pos1 = length (nd_pos f) ->
    (forall p i, nth_error heap1 p = Some i -> nth_error pos1 i = Some p) ->
    nd_core {| nd_states := states_remove st_eqb (nd_states f) (sp_state x); nd_nodes := nd_nodes f;
               nd_pos := pos1; nd_heap := heap1; nd_bin := nd_bin f ++ [id] |}.
  Proof.
    intros Hc Hin Hx Hperm Hlen Hpos.
    assert (Hnd : NoDup (id :: heap1)).
    { eapply Permutation_NoDup; [exact Hperm|]. apply hp_ok_NoDup. apply Hc. }
    inversion Hnd as [|a l Hnotin1 Hnd1]; subst.
    assert (Hsub : forall y, In y heap1 -> In y (nd_heap f)).
    { intros y Hy. eapply Permutation_in; [apply Permutation_sym; exact Hperm|]. right. exact Hy. }
    assert (Hsplit : forall y, In y (nd_heap f) -> y = id \/ In y heap1).
    { intros y Hy. apply (Permutation_in _ Hperm) in Hy. destruct Hy as [Hy|Hy]; auto. }
    assert (Hidlt : id < length (nd_nodes f)) by (eapply nth_error_lt; eauto).
    assert (Hnb : ~ In id (nd_bin f)) by (intros Hb; apply (c_disj _ Hc id Hb Hin)).
    constructor; cbn [nd_states nd_nodes nd_pos nd_heap nd_bin].
    - rewrite Hlen. apply Hc.
    - intros p i Hp. cbn [nd_states nd_nodes nd_pos nd_heap nd_bin] in *. split; [auto|].
      assert (Hi : In i (nd_heap f)) by (apply Hsub; eapply nth_error_In; eauto).
      apply In_nth_error in Hi. destruct Hi as [p' Hp']. apply (c_hp _ Hc _ _ Hp').
    - eapply Permutation_NoDup; [apply Permutation_cons_append|].
      constructor; [exact Hnb | apply Hc].
    - intros y Hy. apply in_app_or in Hy. destruct Hy as [Hy|[Hy|[]]].
      + apply (c_bin_lt _ Hc); auto.
      + subst y. exact Hidlt.
    - intros y Hy Hh. apply in_app_or in Hy. destruct Hy as [Hy|[Hy|[]]].
      + apply (c_disj _ Hc y Hy). auto.
      + subst y. auto.
    - intros y Hy. rewrite in_app_iff. cbn [In].
      destruct (c_cover _ Hc y Hy) as [H|H]; [|auto].
      destruct (Hsplit y H); auto.
    - apply states_remove_keys. apply Hc.
    - intros s i. rewrite states_get_remove by apply Hc.
      destruct (st_eqb (sp_state x) s) eqn:E.
      + apply st_eqb_spec in E. split; [discriminate|].
        intros [Hi [n [Hn Hs]]]. exfalso.
        assert (G1 : states_get st_eqb (nd_states f) s = Some i) by (apply (c_states _ Hc); eauto).
        assert (G2 : states_get st_eqb (nd_states f) s = Some id) by (apply (c_states _ Hc); eauto).
        assert (i = id) by congruence. subst i. auto.
      + rewrite (c_states _ Hc). split.
        * intros [Hi [n [Hn Hs]]]. split; [|eauto].
          destruct (Hsplit i Hi) as [Heq|Hi1]; [|exact Hi1].
          subst i. rewrite Hx in Hn. inversion Hn; subst n. rewrite Hs, st_eqb_refl in E. discriminate.
        * intros [Hi [n [Hn Hs]]]. split; eauto.
  Qed.

  Theorem nd_pop_core f :
    nd_core f -> exists f' r, nd_pop st_eqb cmp f = Some (f', r) /\ nd_core f'.
  Proof.
    intros Hc. destruct (nd_heap f) as [|id t] eqn:Hheap.
    - exists f, None. split; [apply nd_pop_empty; exact Hheap | exact Hc].
    - destruct (nd_pop_nonempty f id t Hc Hheap)
        as [x [f0 [f1 [Hx [Hpop [Hok0 [Hn0 [Hperm [_ [Hok1 [Hsc [Hl1 _]]]]]]]]]]]].
      exists (popped_state f f1 id x), (Some x). split; [exact Hpop|].
      unfold popped_state. apply pop_core; auto.
      + rewrite Hheap. left. reflexivity.
      + eapply Permutation_trans; [exact Hperm|]. apply perm_skip. apply Permutation_sym. apply Hsc.
      + intros p i Hp. apply (Hok1 _ _ Hp).
  Qed.

  Lemma nd_clear_core f : nd_core (nd_clear f).
  Proof. apply nd_core_empty. Qed.

  (* no operation sequence can make the fringe panic, whatever the comparator *)
  Theorem nd_step_core f o : nd_core f -> exists f' ob, nd_step st_eqb cmp f o = Some (f', ob) /\ nd_core f'.
  Proof.
    intros Hc. destruct o as [n| |]; cbn [nd_step].
    - destruct (nd_push_core f n Hc) as [f' [Hp Hc']]. rewrite Hp. eauto.
    - destruct (nd_pop_core f Hc) as [f' [r [Hp Hc']]]. rewrite Hp. eauto.
    - eexists _, _. split; [reflexivity|]. apply nd_clear_core.
  Qed.

  Theorem nd_run_core : forall ops f,
    nd_core f -> exists f' obs, nd_run st_eqb cmp f ops = Some (f', obs) /\ nd_core f'.
  Proof.
    induction ops as [|o ops IH]; intros f Hc; cbn [nd_run].
    - eauto.
    - destruct (nd_step_core f o Hc) as [f1 [ob [Hs Hc1]]]. rewrite Hs.
      destruct (IH f1 Hc1) as [f' [obs [Hr Hc']]]. rewrite Hr. eauto.
  Qed.

  (* ================================================================ PART A : heap order *)
  Hypothesis cmp_antisym : forall x y, cmp x y = CompOpp (cmp y x).
  Hypothesis cmp_trans_le : forall x y z, cmp x y <> Gt -> cmp y z <> Gt -> cmp x z <> Gt.

  Lemma cmp_refl x : cmp x x = Eq.
  Proof. pose proof (cmp_antisym x x) as H. destruct (cmp x x); cbn in H; congruence. Qed.

  Lemma cmp_gt_flip x y : cmp x y = Gt -> cmp y x <> Gt.
  Proof. intros H. rewrite cmp_antisym, H. discriminate. Qed.

  Lemma cmp_lt_le x y : cmp x y = Lt -> cmp x y <> Gt.
  Proof. intros H. rewrite H. discriminate. Qed.

  Lemma cmp_not_lt_flip x y : cmp x y <> Lt -> cmp y x <> Gt.
  Proof. intros H. rewrite cmp_antisym. destruct (cmp x y); cbn; congruence. Qed.

  (* "the node at position p is not greater than the node at position q" (vacuous out of range) *)
  Definition ale (f : fringe) (p q : nat) : Prop :=
    forall x y, node_at f p = Some x -> node_at f q = Some y -> cmp x y <> Gt.

  Definition heap_ord (f : fringe) : Prop := forall p, p > 0 -> ale f p (parent p).

  Lemma ale_trans f p q r y :
    node_at f q = Some y -> ale f p q -> ale f q r -> ale f p r.
  Proof. intros Hq H1 H2 x z Hx Hz. eapply cmp_trans_le; [apply (H1 x y) | apply (H2 y z)]; auto. Qed.

  Lemma ale_refl f p : ale f p p.
  Proof. intros x y Hx Hy. assert (x = y) by congruence. subst y. rewrite cmp_refl. discriminate. Qed.

  Lemma ale_none f p q : node_at f p = None -> ale f p q.
  Proof. intros H x y Hx. congruence. Qed.

  Lemma node_at_ge f p : length (nd_heap f) <= p -> node_at f p = None.
  Proof.
    intros H. unfold node_at. replace (nth_error (nd_heap f) p) with (@None nat); [reflexivity|].
    symmetry. apply nth_error_None. exact H.
  Qed.

  Lemma ale_swapped f f' a b p q : swapped f f' a b -> ale f (sw a b p) (sw a b q) -> ale f' p q.
  Proof.
    intros Hs H x y Hx Hy. rewrite (node_at_swapped _ _ _ _ _ Hs) in Hx. rewrite (node_at_swapped _ _ _ _ _ Hs) in Hy. apply (H x y); auto.
  Qed.

  (* sift-up invariant: order everywhere except on the edge me -> parent me, and the
     children of me are below the parent of me *)
  Definition up_inv (f : fringe) (me : nat) : Prop :=
    (forall p, p > 0 -> p <> me -> ale f p (parent p)) /\
    (me > 0 -> forall c, parent c = me -> ale f c (parent me)).

  Lemma up_inv_done f me : up_inv f me -> (me > 0 -> ale f me (parent me)) -> heap_ord f.
  Proof.
    intros [H1 _] H2 p Hp. destruct (Nat.eq_dec p me) as [E|E].
    - subst p. auto.
    - auto.
  Qed.

  Lemma up_inv_step f f1 me x y :
    swapped f f1 me (parent me) -> me > 0 ->
    node_at f me = Some x -> node_at f (parent me) = Some y -> cmp x y = Gt ->
    up_inv f me -> up_inv f1 (parent me).
  Proof.
    intros Hs Hme Hx Hy Hgt [H1 H2].
    assert (Hpl := parent_lt me Hme).
    assert (Hyx : ale f (parent me) me).
    { intros a b Ha Hb. assert (a = y) by congruence. assert (b = x) by congruence. subst.
      apply cmp_gt_flip. exact Hgt. }
    split.
    - intros q Hq Hqp. assert (Hql := parent_lt q Hq).
      apply (ale_swapped _ _ _ _ _ _ Hs).
      destruct (Nat.eq_dec q me) as [E|E].
      + subst q. replace (sw me (parent me) me) with (parent me) by (sw_simpl; reflexivity).
        replace (sw me (parent me) (parent me)) with me by (sw_simpl; reflexivity).
        exact Hyx.
      + replace (sw me (parent me) q) with q by (sw_simpl; reflexivity).
        destruct (Nat.eq_dec (parent q) me) as [E1|E1].
        * rewrite E1. replace (sw me (parent me) me) with (parent me) by (sw_simpl; reflexivity).
          apply (H2 Hme q E1).
        * destruct (Nat.eq_dec (parent q) (parent me)) as [E2|E2].
          -- rewrite E2. replace (sw me (parent me) (parent me)) with me by (sw_simpl; reflexivity).
             apply (ale_trans f q (parent me) me y Hy); [|exact Hyx].
             rewrite <- E2. apply H1; auto.
          -- replace (sw me (parent me) (parent q)) with (parent q) by (sw_simpl; reflexivity).
             apply H1; auto.
    - intros Hp c Hc.
      assert (Hc0 : c > 0) by (destruct c; [rewrite parent_root in Hc; lia | lia]).
      assert (Hcl := parent_lt c Hc0). assert (Hppl := parent_lt (parent me) Hp).
      apply (ale_swapped _ _ _ _ _ _ Hs).
      replace (sw me (parent me) (parent (parent me))) with (parent (parent me)) by (sw_simpl; reflexivity).
      destruct (Nat.eq_dec c me) as [E|E].
      + subst c. replace (sw me (parent me) me) with (parent me) by (sw_simpl; reflexivity).
        apply H1; lia.
      + replace (sw me (parent me) c) with c by (sw_simpl; reflexivity).
        apply (ale_trans f c (parent me) (parent (parent me)) y Hy).
        * rewrite <- Hc. apply H1; auto.
        * apply H1; lia.
  Qed.

  Lemma bubble_up_loop_ord : forall fuel f id me f',
    hp_ok f -> nth_error (nd_heap f) me = Some id -> me < fuel -> up_inv f me ->
    bubble_up_loop cmp fuel f id me = Some f' -> heap_ord f'.
  Proof.
    induction fuel as [|fuel IH]; intros f id me f' Hok Hme Hfuel Hinv Hrun; [lia|].
    cbn [bubble_up_loop] in Hrun. unfold is_root in Hrun.
    destruct (Nat.eqb_spec me 0) as [E|E].
    - inversion Hrun; subst f'. apply (up_inv_done f me Hinv). lia.
    - assert (Hpl : parent me < me) by (apply parent_lt; lia).
      assert (Lme : me < length (nd_heap f)) by (eapply nth_error_lt; eauto).
      destruct (node_at_some f me Hok Lme) as [nme Hnme].
      destruct (node_at_some f (parent me) Hok ltac:(lia)) as [np Hnp].
      rewrite (compare_at_pos_some _ _ _ _ _ Hnme Hnp) in Hrun.
      destruct (cmp nme np) eqn:Ec.
      + inversion Hrun; subst f'. apply (up_inv_done f me Hinv). intros _ a b Ha Hb.
        assert (a = nme) by congruence. assert (b = np) by congruence. subst. congruence.
      + inversion Hrun; subst f'. apply (up_inv_done f me Hinv). intros _ a b Ha Hb.
        assert (a = nme) by congruence. assert (b = np) by congruence. subst. congruence.
      + destruct (nth_error_lt_some (nd_heap f) (parent me) ltac:(lia)) as [idp Hidp].
        destruct (swap_slots_ok f id me (parent me) idp Hok Hme Hidp ltac:(lia)) as [f1 [Hsw Hs]].
        rewrite Hsw in Hrun.
        apply (IH f1 id (parent me) f'); auto.
        * apply Hs.
        * rewrite (sw_heap _ _ _ _ Hs). unfold sw. rewrite Nat.eqb_refl.
          destruct (Nat.eqb_spec (parent me) me); [lia|]. exact Hme.
        * lia.
        * eapply up_inv_step; eauto. lia.
  Qed.

  Lemma bubble_up_ord f id p f' :
    hp_ok f -> nth_error (nd_heap f) p = Some id -> up_inv f p ->
    bubble_up cmp f id = Some f' -> heap_ord f'.
  Proof.
    intros Hok Hp Hinv. unfold bubble_up. destruct (Hok _ _ Hp) as [Hpos _]. rewrite Hpos.
    apply bubble_up_loop_ord; auto.
    apply nth_error_lt in Hp. unfold nd_len. lia.
  Qed.

  (* sift-down invariant: order everywhere except on the edges me -> children of me, and
     the children of me are below the parent of me *)
  Definition down_inv (f : fringe) (me : nat) : Prop :=
    (forall q, q > 0 -> parent q <> me -> ale f q (parent q)) /\
    (me > 0 -> forall c, c > 0 -> parent c = me -> ale f c (parent me)).

  Lemma down_inv_done f me :
    down_inv f me -> (forall c, c > 0 -> parent c = me -> ale f c me) -> heap_ord f.
  Proof.
    intros [H1 _] H2 q Hq. destruct (Nat.eq_dec (parent q) me) as [E|E].
    - rewrite E. apply H2; auto.
    - apply H1; auto.
  Qed.

  Lemma max_child_zero f me :
    max_child_of cmp f me = Some 0 -> forall c, c > 0 -> parent c = me -> node_at f c = None.
  Proof.
    unfold max_child_of, nd_len. intros H c Hc Hpc.
    assert (Hge := child_gt c me Hc Hpc).
    destruct (Nat.leb_spec (length (nd_heap f)) (left_child me)) as [H1|H1].
    - apply node_at_ge. lia.
    - exfalso. destruct (Nat.leb_spec (length (nd_heap f)) (right_child me)) as [H2|H2].
      + inversion H. unfold left_child in *. lia.
      + destruct (compare_at_pos cmp f (left_child me) (right_child me)) as [c0|]; [|discriminate].
        unfold left_child, right_child in *. destruct c0; inversion H; lia.
  Qed.

  Lemma max_child_ord f me kid :
    max_child_of cmp f me = Some kid -> kid > 0 ->
    parent kid = me /\ forall c, c > 0 -> parent c = me -> ale f c kid.
  Proof.
    unfold max_child_of, nd_len. intros H Hk.
    destruct (Nat.leb_spec (length (nd_heap f)) (left_child me)) as [H1|H1].
    - inversion H. lia.
    - destruct (Nat.leb_spec (length (nd_heap f)) (right_child me)) as [H2|H2].
      + inversion H; subst kid. split; [apply parent_left_child|].
        intros c Hc Hpc. apply parent_child_iff in Hpc; [|exact Hc].
        destruct Hpc as [E|E]; subst c; [apply ale_refl | apply ale_none; apply node_at_ge; exact H2].
      + destruct (compare_at_pos cmp f (left_child me) (right_child me)) as [c0|] eqn:Ec; [|discriminate].
        apply compare_at_pos_inv in Ec. destruct Ec as [nl [nr [Hl [Hr Hc0]]]].
        assert (Hcases : (c0 = Gt /\ kid = left_child me) \/ (c0 <> Gt /\ kid = right_child me)).
        { destruct c0; inversion H; [right|right|left]; split; congruence. }
        destruct Hcases as [[Hg Hkid]|[Hg Hkid]]; subst kid.
        * split; [apply parent_left_child|].
          intros c Hc Hpc. apply parent_child_iff in Hpc; [|exact Hc].
          destruct Hpc as [E|E]; subst c; [apply ale_refl|].
          intros a b Ha Hb. assert (a = nr) by congruence. assert (b = nl) by congruence. subst a b.
          apply cmp_gt_flip. congruence.
        * split; [apply parent_right_child|].
          intros c Hc Hpc. apply parent_child_iff in Hpc; [|exact Hc].
          destruct Hpc as [E|E]; subst c; [|apply ale_refl].
          intros a b Ha Hb. assert (a = nl) by congruence. assert (b = nr) by congruence. subst a b.
          congruence.
  Qed.

  Lemma down_inv_step f f1 me kid x y :
    swapped f f1 me kid -> kid > 0 -> parent kid = me ->
    node_at f me = Some x -> node_at f kid = Some y -> cmp x y = Lt ->
    (forall c, c > 0 -> parent c = me -> ale f c kid) ->
    down_inv f me -> down_inv f1 kid.
  Proof.
    intros Hs Hk Hpk Hx Hy Hlt Hmax [H1 H2].
    assert (Hkl := parent_lt kid Hk). rewrite Hpk in Hkl.
    assert (Hxy : ale f me kid).
    { intros a b Ha Hb. assert (a = x) by congruence. assert (b = y) by congruence. subst.
      apply cmp_lt_le. exact Hlt. }
    split.
    - intros q Hq Hqp. assert (Hql := parent_lt q Hq).
      apply (ale_swapped _ _ _ _ _ _ Hs).
      destruct (Nat.eq_dec q kid) as [E|E].
      + subst q. rewrite Hpk. replace (sw me kid kid) with me by (sw_simpl; reflexivity).
        replace (sw me kid me) with kid by (sw_simpl; reflexivity). exact Hxy.
      + destruct (Nat.eq_dec (parent q) me) as [E1|E1].
        * rewrite E1. replace (sw me kid me) with kid by (sw_simpl; reflexivity).
          replace (sw me kid q) with q by (sw_simpl; reflexivity).
          apply Hmax; auto.
        * replace (sw me kid (parent q)) with (parent q) by (sw_simpl; reflexivity).
          destruct (Nat.eq_dec q me) as [E2|E2].
          -- subst q. replace (sw me kid me) with kid by (sw_simpl; reflexivity).
             apply H2; auto.
          -- replace (sw me kid q) with q by (sw_simpl; reflexivity). apply H1; auto.
    - intros _ c Hc Hpc. assert (Hcl := parent_lt c Hc). rewrite Hpk.
      apply (ale_swapped _ _ _ _ _ _ Hs).
      replace (sw me kid me) with kid by (sw_simpl; reflexivity).
      replace (sw me kid c) with c by (sw_simpl; reflexivity).
      rewrite <- Hpc. apply H1; auto. lia.
  Qed.

  Lemma bubble_down_loop_ord : forall fuel f id me f',
    hp_ok f -> nth_error (nd_heap f) me = Some id -> length (nd_heap f) < me + fuel ->
    down_inv f me -> bubble_down_loop cmp fuel f id me = Some f' -> heap_ord f'.
  Proof.
    induction fuel as [|fuel IH]; intros f id me f' Hok Hme Hfuel Hinv Hrun.
    - apply nth_error_lt in Hme. lia.
    - cbn [bubble_down_loop] in Hrun.
      destruct (max_child_struct f me Hok) as [kid [Hkid Hrange]]. rewrite Hkid in Hrun.
      destruct (Nat.ltb_spec 0 kid) as [Hk|Hk].
      + destruct Hrange as [Hz|[Hk1 Hk2]]; [lia|].
        destruct (max_child_ord f me kid Hkid Hk) as [Hpk Hmax].
        assert (Lme : me < length (nd_heap f)) by (eapply nth_error_lt; eauto).
        destruct (node_at_some f me Hok Lme) as [nme Hnme].
        destruct (node_at_some f kid Hok Hk2) as [nk Hnk].
        rewrite (compare_at_pos_some _ _ _ _ _ Hnme Hnk) in Hrun.
        assert (Hstop : cmp nme nk <> Lt -> heap_ord f).
        { intros Hnl. apply (down_inv_done f me Hinv). intros c Hc Hpc.
          apply (ale_trans f c kid me nk Hnk); [apply Hmax; auto|].
          intros a b Ha Hb. assert (a = nk) by congruence. assert (b = nme) by congruence. subst a b.
          apply cmp_not_lt_flip. exact Hnl. }
        destruct (cmp nme nk) eqn:Ec.
        * inversion Hrun; subst f'. apply Hstop. discriminate.
        * destruct (nth_error_lt_some (nd_heap f) kid Hk2) as [idk Hidk].
          destruct (swap_slots_ok f id me kid idk Hok Hme Hidk ltac:(lia)) as [f1 [Hsw Hs]].
          rewrite Hsw in Hrun.
          apply (IH f1 id kid f'); auto.
          -- apply Hs.
          -- rewrite (sw_heap _ _ _ _ Hs). unfold sw. rewrite Nat.eqb_refl.
             destruct (Nat.eqb_spec kid me); [lia|]. exact Hme.
          -- rewrite (sw_lheap _ _ _ _ Hs). lia.
          -- eapply down_inv_step; eauto.
        * inversion Hrun; subst f'. apply Hstop. discriminate.
      + inversion Hrun; subst f'. assert (kid = 0) by lia. subst kid.
        apply (down_inv_done f me Hinv). intros c Hc Hpc. apply ale_none.
        eapply max_child_zero; eauto.
  Qed.

  Lemma bubble_down_ord f id p f' :
    hp_ok f -> nth_error (nd_heap f) p = Some id -> down_inv f p ->
    bubble_down cmp f id = Some f' -> heap_ord f'.
  Proof.
    intros Hok Hp Hinv. unfold bubble_down. destruct (Hok _ _ Hp) as [Hpos _]. rewrite Hpos.
    apply bubble_down_loop_ord; auto.
    unfold nd_len. lia.
  Qed.

  (* ---------------------------------------------------------------- push / pop keep the heap ordered *)
  Lemma heap_ord_ext f f' : (forall q, node_at f' q = node_at f q) -> heap_ord f -> heap_ord f'.
  Proof. intros He Ho p Hp x y Hx Hy. rewrite He in Hx. rewrite He in Hy. apply (Ho p Hp x y); auto. Qed.

  Lemma fresh_node_at f f1 id n q :
    fresh_ins f f1 id n -> q < length (nd_heap f) -> node_at f1 q = node_at f q.
  Proof.
    intros Hfi Hq. unfold node_at. rewrite (fi_heap _ _ _ _ Hfi).
    rewrite nth_error_app1 by exact Hq.
    destruct (nth_error (nd_heap f) q) as [i|] eqn:Ei; [|reflexivity].
    apply (fi_nodes _ _ _ _ Hfi). intros Heq. subst i.
    apply (fi_notin _ _ _ _ Hfi). eapply nth_error_In; eauto.
  Qed.

  Lemma fresh_node_at_gt f f1 id n q :
    fresh_ins f f1 id n -> length (nd_heap f) < q -> node_at f1 q = None.
  Proof.
    intros Hfi Hq. apply node_at_ge. rewrite (fi_heap _ _ _ _ Hfi), app_length. cbn [length]. lia.
  Qed.

  Lemma fresh_up_inv f f1 id n :
    fresh_ins f f1 id n -> heap_ord f -> up_inv f1 (length (nd_heap f)).
  Proof.
    intros Hfi Ho. split.
    - intros p Hp Hne. destruct (Nat.lt_ge_cases p (length (nd_heap f))) as [Hlt|Hge].
      + assert (Hpl := parent_lt p Hp). intros x y Hx Hy.
        rewrite (fresh_node_at _ _ _ _ _ Hfi) in Hx by lia.
        rewrite (fresh_node_at _ _ _ _ _ Hfi) in Hy by lia.
        apply (Ho p Hp x y); auto.
      + apply ale_none. eapply fresh_node_at_gt; eauto. lia.
    - intros Hme c Hc.
      assert (Hc0 : c > 0) by (destruct c; [rewrite parent_root in Hc; lia | lia]).
      assert (Hcl := parent_lt c Hc0).
      apply ale_none. eapply fresh_node_at_gt; eauto. lia.
  Qed.

  (* what the comparator must satisfy w.r.t. the coalescing update of an Occupied entry:
     the update never lowers the priority, and when the code decides not to bubble up
     (it compares the *pushed* node, with ub = max, against the old one) the stored node
     did not get a higher priority.  Both hold for MaxUB (see maxub_coalesce_ge/up below);
     they FAIL for other total preorders (see minub_breaks_heap_order at the end). *)
  Hypothesis cmp_coalesce_ge : forall old n : sub,
    sp_state old = sp_state n -> cmp old (coalesce old n) <> Gt.
  Hypothesis cmp_coalesce_up : forall old n : sub,
    sp_state old = sp_state n ->
    cmp (with_ub n (Z.max (sp_ub n) (sp_ub old))) old <> Gt -> cmp (coalesce old n) old <> Gt.

  Lemma coal_node_at f f1 id old n p q :
    coal_upd f f1 id old n -> hp_ok f -> nth_error (nd_heap f) p = Some id ->
    q <> p -> node_at f1 q = node_at f q.
  Proof.
    intros Hcu Hok Hp Hq. unfold node_at. rewrite (cu_heap _ _ _ _ _ Hcu).
    destruct (nth_error (nd_heap f) q) as [i|] eqn:Ei; [|reflexivity].
    apply (cu_nodes _ _ _ _ _ Hcu). intros Heq. subst i.
    destruct (Hok _ _ Hp) as [H1 _]. destruct (Hok _ _ Ei) as [H2 _]. congruence.
  Qed.

  Lemma coal_node_at_p f f1 id old n p :
    coal_upd f f1 id old n -> nth_error (nd_heap f) p = Some id ->
    node_at f1 p = Some (coalesce old n) /\ node_at f p = Some old.
  Proof.
    intros Hcu Hp. unfold node_at. rewrite (cu_heap _ _ _ _ _ Hcu), Hp.
    split; [apply Hcu | apply Hcu].
  Qed.

  Lemma coal_up_inv f f1 id old n p :
    coal_upd f f1 id old n -> hp_ok f -> nth_error (nd_heap f) p = Some id ->
    heap_ord f -> up_inv f1 p.
  Proof.
    intros Hcu Hok Hp Ho.
    destruct (coal_node_at_p _ _ _ _ _ _ Hcu Hp) as [Hnew Hold].
    assert (Hge := cmp_coalesce_ge old n (cu_state _ _ _ _ _ Hcu)).
    split.
    - intros q Hq Hne. assert (Hql := parent_lt q Hq).
      intros x y Hx Hy. rewrite (coal_node_at _ _ _ _ _ _ _ Hcu Hok Hp Hne) in Hx.
      destruct (Nat.eq_dec (parent q) p) as [E|E].
      + rewrite E in Hy. assert (y = coalesce old n) by congruence. subst y.
        apply (cmp_trans_le x old); [|exact Hge].
        apply (Ho q Hq x old); [exact Hx | rewrite E; exact Hold].
      + rewrite (coal_node_at _ _ _ _ _ _ _ Hcu Hok Hp E) in Hy. apply (Ho q Hq x y); auto.
    - intros Hp0 c Hc.
      assert (Hc0 : c > 0) by (destruct c; [rewrite parent_root in Hc; lia | lia]).
      assert (Hcl := parent_lt c Hc0). assert (Hpl := parent_lt p Hp0).
      intros x y Hx Hy.
      rewrite (coal_node_at _ _ _ _ _ _ c Hcu Hok Hp) in Hx by lia.
      rewrite (coal_node_at _ _ _ _ _ _ (parent p) Hcu Hok Hp) in Hy by lia.
      apply (cmp_trans_le x old y).
      + apply (Ho c Hc0 x old); [exact Hx | rewrite Hc; exact Hold].
      + apply (Ho p Hp0 old y); auto.
  Qed.

  Lemma coal_heap_ord_noup f f1 id old n p :
    coal_upd f f1 id old n -> hp_ok f -> nth_error (nd_heap f) p = Some id ->
    heap_ord f -> cmp (coalesce old n) old <> Gt -> heap_ord f1.
  Proof.
    intros Hcu Hok Hp Ho Hle.
    destruct (coal_node_at_p _ _ _ _ _ _ Hcu Hp) as [Hnew Hold].
    apply (up_inv_done f1 p); [eapply coal_up_inv; eauto|].
    intros Hp0 x y Hx Hy. assert (Hpl := parent_lt p Hp0).
    assert (x = coalesce old n) by congruence. subst x.
    rewrite (coal_node_at _ _ _ _ _ _ (parent p) Hcu Hok Hp) in Hy by lia.
    apply (cmp_trans_le _ old y); [exact Hle|]. apply (Ho p Hp0 old y); auto.
  Qed.

  (* ---------------------------------------------------------------- the representation invariant *)
  Record nd_inv (f : fringe) : Prop := {
    inv_len : length (nd_pos f) = length (nd_nodes f);
    inv_heap_lt : forall id, In id (nd_heap f) -> id < length (nd_nodes f);
    inv_heap_nodup : NoDup (nd_heap f);
    inv_pos : forall p id, nth_error (nd_heap f) p = Some id -> nth_error (nd_pos f) id = Some p;
    inv_bin_nodup : NoDup (nd_bin f);
    inv_bin_lt : forall id, In id (nd_bin f) -> id < length (nd_nodes f);
    inv_disj : forall id, In id (nd_bin f) -> ~ In id (nd_heap f);
    inv_cover : forall id, id < length (nd_nodes f) -> In id (nd_heap f) \/ In id (nd_bin f);
    inv_keys : NoDup (map fst (nd_states f));
    inv_states : forall s id,
      states_get st_eqb (nd_states f) s = Some id <->
      (In id (nd_heap f) /\ exists n, nth_error (nd_nodes f) id = Some n /\ sp_state n = s);
    inv_live : forall p, p < length (nd_heap f) -> exists x, node_at f p = Some x;
    inv_order : forall p x y,
      p > 0 -> node_at f p = Some x -> node_at f (parent p) = Some y -> cmp x y <> Gt }.

  Lemma nd_inv_iff f : nd_inv f <-> nd_core f /\ heap_ord f.
  Proof.
    split.
    - intros H. split.
      + constructor; try apply H.
        intros p id Hp. split; [apply (inv_pos _ H); exact Hp|].
        apply (inv_heap_lt _ H). eapply nth_error_In; eauto.
      + intros p Hp x y Hx Hy. apply (inv_order _ H p x y); auto.
    - intros [Hc Ho]. constructor; try apply Hc.
      + intros id Hin. apply In_nth_error in Hin. destruct Hin as [p Hp]. apply (c_hp _ Hc _ _ Hp).
      + apply hp_ok_NoDup. apply Hc.
      + intros p Hp. apply node_at_some; [apply Hc | exact Hp].
      + intros p x y Hp Hx Hy. apply (Ho p Hp x y); auto.
  Qed.

  Lemma nd_inv_core f : nd_inv f -> nd_core f.
  Proof. intros H. apply nd_inv_iff in H. apply H. Qed.
  Lemma nd_inv_ord f : nd_inv f -> heap_ord f.
  Proof. intros H. apply nd_inv_iff in H. apply H. Qed.

  (* distinct live nodes have distinct states *)
  Lemma nd_inv_states_inj f i j x y :
    nd_inv f -> In i (nd_heap f) -> In j (nd_heap f) ->
    nth_error (nd_nodes f) i = Some x -> nth_error (nd_nodes f) j = Some y ->
    sp_state x = sp_state y -> i = j.
  Proof.
    intros H Hi Hj Hx Hy Hs.
    assert (G1 : states_get st_eqb (nd_states f) (sp_state x) = Some i) by (apply (inv_states _ H); eauto).
    assert (G2 : states_get st_eqb (nd_states f) (sp_state x) = Some j) by (apply (inv_states _ H); eauto).
    congruence.
  Qed.

  Theorem nd_inv_empty : nd_inv nd_empty.
  Proof.
    apply nd_inv_iff. split; [apply nd_core_empty|].
    intros p Hp x y Hx. unfold node_at in Hx. cbn [nd_empty nd_heap] in Hx. destruct p; discriminate.
  Qed.

  Theorem nd_push_inv_partial f n :
    nd_inv f -> exists f', nd_push st_eqb cmp f n = Some f' /\ nd_inv f'.
  Proof.
    intros Hinv. apply nd_inv_iff in Hinv. destruct Hinv as [Hc Ho].
    destruct (states_get st_eqb (nd_states f) (sp_state n)) as [id|] eqn:Hget.
    - destruct (nd_push_occupied f n id Hc Hget) as [old [f1 [f' [Hcu [Hp Hcase]]]]].
      exists f'. split; [exact Hp|]. apply nd_inv_iff.
      destruct (In_nth_error _ _ (cu_in _ _ _ _ _ Hcu)) as [p Hpos].
      destruct Hcase as [[_ [Hb [Hok Hsc]]]|[Hng Heq]].
      + split; [apply (core_same_content f1 f'); auto; apply Hcu|].
        apply (bubble_up_ord f1 id p f'); auto.
        * apply (c_hp _ (cu_core _ _ _ _ _ Hcu)).
        * rewrite (cu_heap _ _ _ _ _ Hcu). exact Hpos.
        * eapply coal_up_inv; eauto. apply Hc.
      + subst f'. split; [apply Hcu|].
        eapply coal_heap_ord_noup; eauto; [apply Hc|].
        apply cmp_coalesce_up; [apply Hcu | exact Hng].
    - destruct (nd_push_vacant f n Hc Hget) as [id [f1 [f' [Hfi [Hp [Hb [Hok Hsc]]]]]]].
      exists f'. split; [exact Hp|]. apply nd_inv_iff.
      split; [apply (core_same_content f1 f'); auto; apply Hfi|].
      apply (bubble_up_ord f1 id (length (nd_heap f)) f'); auto.
      + apply (c_hp _ (fi_core _ _ _ _ Hfi)).
      + rewrite (fi_heap _ _ _ _ Hfi). apply nth_error_snoc_same.
      + eapply fresh_up_inv; eauto.
  Qed.

  Lemma pop_heap_ord f id t x f0 f1 :
    heap_ord f -> nd_heap f = id :: t ->
    hp_ok f0 -> nd_nodes f0 = nd_nodes f ->
    (forall q y, q > 0 -> node_at f0 q = Some y -> node_at f q = Some y) ->
    same_content f0 f1 ->
    ((nd_heap f0 = [] /\ f1 = f0) \/
     (exists h0, nth_error (nd_heap f0) 0 = Some h0 /\ bubble_down cmp f0 h0 = Some f1)) ->
    heap_ord (popped_state f f1 id x).
  Proof.
    intros Ho Hheap Hok0 Hn0 Hmono Hsc Hcase.
    apply (heap_ord_ext f1).
    { intros q. unfold node_at, popped_state. cbn [nd_heap nd_nodes].
      rewrite (sc_nodes _ _ Hsc), Hn0. reflexivity. }
    destruct Hcase as [[Hnil Heq]|[h0 [Hh0 Hbd]]].
    - subst f1. intros p Hp a b Ha. unfold node_at in Ha. rewrite Hnil in Ha. destruct p; discriminate.
    - apply (bubble_down_ord f0 h0 0 f1 Hok0 Hh0); [|exact Hbd].
      split; [|lia].
      intros q Hq Hpq a b Ha Hb.
      apply (Ho q Hq a b); apply Hmono; auto. lia.
  Qed.

  Theorem nd_pop_inv f :
    nd_inv f -> exists f' r, nd_pop st_eqb cmp f = Some (f', r) /\ nd_inv f'.
  Proof.
    intros Hinv. assert (Hinv' := Hinv). apply nd_inv_iff in Hinv'. destruct Hinv' as [Hc Ho].
    destruct (nd_heap f) as [|id t] eqn:Hheap.
    - exists f, None. split; [apply nd_pop_empty; exact Hheap | exact Hinv].
    - destruct (nd_pop_nonempty f id t Hc Hheap)
        as [x [f0 [f1 [Hx [Hpop [Hok0 [Hn0 [Hperm [Hmono [Hok1 [Hsc [Hl1 Hcase]]]]]]]]]]]].
      exists (popped_state f f1 id x), (Some x). split; [exact Hpop|].
      apply nd_inv_iff. split.
      + unfold popped_state. apply pop_core; auto.
        * rewrite Hheap. left. reflexivity.
        * eapply Permutation_trans; [exact Hperm|]. apply perm_skip. apply Permutation_sym. apply Hsc.
        * intros p i Hp. apply (Hok1 _ _ Hp).
      + apply (pop_heap_ord f id t x f0 f1); auto.
  Qed.

  Theorem nd_clear_inv f : nd_inv (nd_clear f).
  Proof. apply nd_inv_empty. Qed.

  Theorem nd_step_inv_partial f o :
    nd_inv f -> exists f' ob, nd_step st_eqb cmp f o = Some (f', ob) /\ nd_inv f'.
  Proof.
    intros Hi. destruct o as [n| |]; cbn [nd_step].
    - destruct (nd_push_inv_partial f n Hi) as [f' [Hp Hi']]. rewrite Hp. eauto.
    - destruct (nd_pop_inv f Hi) as [f' [r [Hp Hi']]]. rewrite Hp. eauto.
    - eexists _, _. split; [reflexivity|]. apply nd_clear_inv.
  Qed.

  Theorem nd_run_inv_partial : forall ops f,
    nd_inv f -> exists f' obs, nd_run st_eqb cmp f ops = Some (f', obs) /\ nd_inv f'.
  Proof.
    induction ops as [|o ops IH]; intros f Hi; cbn [nd_run].
    - eauto.
    - destruct (nd_step_inv_partial f o Hi) as [f1 [ob [Hs Hi1]]]. rewrite Hs.
      destruct (IH f1 Hi1) as [f' [obs [Hr Hi']]]. rewrite Hr. eauto.
  Qed.

  (* every operation list, run from the empty fringe: never panics, invariant at the end *)
  Corollary nd_run_from_empty_partial ops :
    exists f obs, nd_run st_eqb cmp nd_empty ops = Some (f, obs) /\ nd_inv f.
  Proof. apply nd_run_inv_partial. apply nd_inv_empty. Qed.

  (* ================================================================ PART B : abstraction *)
  Fixpoint collect (nodes : list sub) (h : list nat) : list sub :=
    match h with
    | [] => []
    | i :: h' => match nth_error nodes i with
                 | Some n => n :: collect nodes h'
                 | None => collect nodes h'
                 end
    end.

  (* the content of the fringe: the live nodes, in heap-array order (used up to Permutation) *)
  Definition abs (f : fringe) : list sub := collect (nd_nodes f) (nd_heap f).

  Lemma collect_app nodes h1 h2 : collect nodes (h1 ++ h2) = collect nodes h1 ++ collect nodes h2.
  Proof.
    induction h1 as [|i h1 IH]; cbn [collect app]; [reflexivity|].
    destruct (nth_error nodes i); rewrite IH; reflexivity.
  Qed.

  Lemma collect_perm nodes h h' : Permutation h h' -> Permutation (collect nodes h) (collect nodes h').
  Proof.
    intros HP. induction HP as [|i h h' HP IH|i j h|h1 h2 h3 HP1 IH1 HP2 IH2]; cbn [collect].
    - constructor.
    - destruct (nth_error nodes i); [constructor|]; exact IH.
    - destruct (nth_error nodes i), (nth_error nodes j); try apply Permutation_refl. apply perm_swap.
    - eapply Permutation_trans; eauto.
  Qed.

  Lemma collect_ext nodes nodes' h :
    (forall i, In i h -> nth_error nodes' i = nth_error nodes i) -> collect nodes' h = collect nodes h.
  Proof.
    induction h as [|i h IH]; intros He; cbn [collect]; [reflexivity|].
    rewrite (He i (or_introl eq_refl)). rewrite IH; [reflexivity|].
    intros j Hj. apply He. right. exact Hj.
  Qed.

  Lemma collect_In nodes h y :
    In y (collect nodes h) <-> exists i, In i h /\ nth_error nodes i = Some y.
  Proof.
    induction h as [|i h IH]; cbn [collect In].
    - split; [tauto|]. intros [i [[] _]].
    - destruct (nth_error nodes i) as [n|] eqn:E.
      + cbn [In]. rewrite IH. split.
        * intros [H|[j [Hj Hy]]]; [subst; eauto|eauto].
        * intros [j [[Hj|Hj] Hy]]; [subst j; left; congruence | right; eauto].
      + rewrite IH. split.
        * intros [j [Hj Hy]]. eauto.
        * intros [j [[Hj|Hj] Hy]]; [subst j; congruence | eauto].
  Qed.

  Lemma collect_nth nodes h :
    (forall i, In i h -> i < length nodes) ->
    forall p, nth_error (collect nodes h) p =
              match nth_error h p with Some i => nth_error nodes i | None => None end.
  Proof.
    induction h as [|i h IH]; intros Hlt p; cbn [collect].
    - destruct p; reflexivity.
    - destruct (nth_error_lt_some nodes i (Hlt i (or_introl eq_refl))) as [n Hn]. rewrite Hn.
      destruct p as [|p]; cbn [nth_error]; [auto|].
      apply IH. intros j Hj. apply Hlt. right. exact Hj.
  Qed.

  Lemma collect_length nodes h :
    (forall i, In i h -> i < length nodes) -> length (collect nodes h) = length h.
  Proof.
    induction h as [|i h IH]; intros Hlt; cbn [collect length]; [reflexivity|].
    destruct (nth_error_lt_some nodes i (Hlt i (or_introl eq_refl))) as [n Hn]. rewrite Hn.
    cbn [length]. rewrite IH; [reflexivity|]. intros j Hj. apply Hlt. right. exact Hj.
  Qed.

  Lemma hp_ok_lt f : hp_ok f -> forall i, In i (nd_heap f) -> i < length (nd_nodes f).
  Proof. intros Hok i Hi. apply In_nth_error in Hi. destruct Hi as [p Hp]. apply (Hok _ _ Hp). Qed.

  Lemma abs_nth f p : hp_ok f -> nth_error (abs f) p = node_at f p.
  Proof. intros Hok. unfold abs, node_at. apply collect_nth. apply hp_ok_lt. exact Hok. Qed.

  Theorem abs_len f : nd_core f -> nd_len f = length (abs f).
  Proof.
    intros Hc. unfold nd_len, abs. symmetry. apply collect_length. apply hp_ok_lt. apply Hc.
  Qed.

  Lemma abs_In f y : In y (abs f) <-> exists p, node_at f p = Some y.
  Proof.
    unfold abs, node_at. rewrite collect_In. split.
    - intros [i [Hi Hy]]. apply In_nth_error in Hi. destruct Hi as [p Hp]. exists p. rewrite Hp. exact Hy.
    - intros [p Hp]. destruct (nth_error (nd_heap f) p) as [i|] eqn:Ei; [|discriminate].
      exists i. split; [eapply nth_error_In; eauto | exact Hp].
  Qed.

  Lemma abs_same_content f f' : same_content f f' -> Permutation (abs f') (abs f).
  Proof. intros Hsc. unfold abs. rewrite (sc_nodes _ _ Hsc). apply collect_perm. apply Hsc. Qed.

  Lemma abs_empty : abs nd_empty = [].
  Proof. reflexivity. Qed.

  Theorem abs_clear f : abs (nd_clear f) = [].
  Proof. reflexivity. Qed.

  (* ---------------------------------------------------------------- push refines coalescing insert *)
  Theorem abs_push_vacant f n f' :
    nd_core f -> states_get st_eqb (nd_states f) (sp_state n) = None ->
    nd_push st_eqb cmp f n = Some f' ->
    Permutation (abs f') (n :: abs f) /\ (forall y, In y (abs f) -> sp_state y <> sp_state n).
  Proof.
    intros Hc Hget Hpush.
    destruct (nd_push_vacant f n Hc Hget) as [id [f1 [f2 [Hfi [Hp [_ [_ Hsc]]]]]]].
    rewrite Hp in Hpush. inversion Hpush; subst f2. split.
    - eapply Permutation_trans; [apply abs_same_content; exact Hsc|].
      unfold abs. rewrite (fi_heap _ _ _ _ Hfi), collect_app. cbn [collect].
      rewrite (fi_node _ _ _ _ Hfi).
      rewrite (collect_ext (nd_nodes f) (nd_nodes f1)).
      + apply Permutation_sym. apply Permutation_cons_append.
      + intros i Hi. apply (fi_nodes _ _ _ _ Hfi). intros Heq. subst i. apply (fi_notin _ _ _ _ Hfi Hi).
    - intros y Hy Hs. unfold abs in Hy. apply collect_In in Hy. destruct Hy as [i [Hi Hy]].
      assert (G : states_get st_eqb (nd_states f) (sp_state n) = Some i) by (apply (c_states _ Hc); eauto).
      congruence.
  Qed.

  Theorem abs_push_occupied_split f n id f' :
    nd_core f -> states_get st_eqb (nd_states f) (sp_state n) = Some id ->
    nd_push st_eqb cmp f n = Some f' ->
    exists old l1 l2,
      abs f = l1 ++ old :: l2 /\ Permutation (abs f') (l1 ++ coalesce old n :: l2) /\
      sp_state old = sp_state n /\ (forall y, In y (l1 ++ l2) -> sp_state y <> sp_state n).
  Proof.
    intros Hc Hget Hpush.
    destruct (nd_push_occupied f n id Hc Hget) as [old [f1 [f2 [Hcu [Hp Hcase]]]]].
    rewrite Hp in Hpush. inversion Hpush; subst f2.
    destruct (in_split _ _ (cu_in _ _ _ _ _ Hcu)) as [h1 [h2 Hsplit]].
    assert (Hnd : NoDup (h1 ++ id :: h2)) by (rewrite <- Hsplit; apply hp_ok_NoDup; apply Hc).
    assert (Hnotin : ~ In id (h1 ++ h2)) by (apply NoDup_remove_2; exact Hnd).
    exists old, (collect (nd_nodes f) h1), (collect (nd_nodes f) h2).
    split; [|split; [|split]].
    - unfold abs. rewrite Hsplit, collect_app. cbn [collect]. rewrite (cu_old _ _ _ _ _ Hcu). reflexivity.
    - assert (Habs1 : abs f1 = collect (nd_nodes f) h1 ++ coalesce old n :: collect (nd_nodes f) h2).
      { unfold abs. rewrite (cu_heap _ _ _ _ _ Hcu), Hsplit, collect_app. cbn [collect].
        rewrite (cu_node _ _ _ _ _ Hcu).
        rewrite (collect_ext (nd_nodes f) (nd_nodes f1) h1), (collect_ext (nd_nodes f) (nd_nodes f1) h2);
          [reflexivity| |].
        - intros i Hi. apply (cu_nodes _ _ _ _ _ Hcu). intros Heq; subst i.
          apply Hnotin. apply in_or_app; auto.
        - intros i Hi. apply (cu_nodes _ _ _ _ _ Hcu). intros Heq; subst i.
          apply Hnotin. apply in_or_app; auto. }
      rewrite <- Habs1. destruct Hcase as [[_ [_ [_ Hsc]]]|[_ Heq]].
      + apply abs_same_content. exact Hsc.
      + subst f'. apply Permutation_refl.
    - apply Hcu.
    - intros y Hy Hs. rewrite <- collect_app in Hy. apply collect_In in Hy. destruct Hy as [i [Hi Hy]].
      assert (Hih : In i (nd_heap f)).
      { rewrite Hsplit. apply in_app_or in Hi. apply in_or_app. destruct Hi; [left|right; right]; auto. }
      assert (G : states_get st_eqb (nd_states f) (sp_state n) = Some i) by (apply (c_states _ Hc); eauto).
      assert (i = id) by congruence. subst i. auto.
  Qed.

  Corollary abs_push_occupied f n id f' :
    nd_core f -> states_get st_eqb (nd_states f) (sp_state n) = Some id ->
    nd_push st_eqb cmp f n = Some f' ->
    exists old rest,
      sp_state old = sp_state n /\ Permutation (abs f) (old :: rest) /\
      Permutation (abs f') (coalesce old n :: rest) /\
      (forall y, In y rest -> sp_state y <> sp_state n).
  Proof.
    intros Hc Hget Hpush.
    destruct (abs_push_occupied_split f n id f' Hc Hget Hpush) as [old [l1 [l2 [H1 [H2 [H3 H4]]]]]].
    exists old, (l1 ++ l2). split; [exact H3|]. split; [|split; [|exact H4]].
    - rewrite H1. apply Permutation_sym. apply Permutation_middle.
    - eapply Permutation_trans; [exact H2|]. apply Permutation_sym. apply Permutation_middle.
  Qed.

  (* the functional abstract queue of Fringe.v *)
  Lemma pq_push_nodup_fresh (q : list sub) n :
    (forall y, In y q -> sp_state y <> sp_state n) -> pq_push_nodup st_eqb q n = q ++ [n].
  Proof.
    induction q as [|x q IH]; intros H; cbn [pq_push_nodup app]; [reflexivity|].
    rewrite st_eqb_false by (apply H; left; reflexivity).
    rewrite IH; [reflexivity|]. intros y Hy. apply H. right. exact Hy.
  Qed.

  Lemma pq_push_nodup_split (l1 l2 : list sub) old n :
    (forall y, In y l1 -> sp_state y <> sp_state n) -> sp_state old = sp_state n ->
    pq_push_nodup st_eqb (l1 ++ old :: l2) n = l1 ++ coalesce old n :: l2.
  Proof.
    induction l1 as [|x l1 IH]; intros H Hs; cbn [pq_push_nodup app].
    - rewrite Hs, st_eqb_refl. reflexivity.
    - rewrite st_eqb_false by (apply H; left; reflexivity).
      rewrite IH; [reflexivity| |exact Hs]. intros y Hy. apply H. right. exact Hy.
  Qed.

  Theorem abs_push f n f' :
    nd_core f -> nd_push st_eqb cmp f n = Some f' ->
    Permutation (abs f') (pq_push_nodup st_eqb (abs f) n).
  Proof.
    intros Hc Hpush. destruct (states_get st_eqb (nd_states f) (sp_state n)) as [id|] eqn:Hget.
    - destruct (abs_push_occupied_split f n id f' Hc Hget Hpush) as [old [l1 [l2 [H1 [H2 [H3 H4]]]]]].
      rewrite H1, pq_push_nodup_split; auto.
      intros y Hy. apply H4. apply in_or_app; auto.
    - destruct (abs_push_vacant f n f' Hc Hget Hpush) as [H1 H2].
      rewrite pq_push_nodup_fresh by exact H2.
      eapply Permutation_trans; [exact H1|]. apply Permutation_cons_append.
  Qed.

  (* ---------------------------------------------------------------- pop returns a maximum *)
  Lemma root_max f :
    hp_ok f -> heap_ord f ->
    forall p x y, node_at f p = Some x -> node_at f 0 = Some y -> cmp x y <> Gt.
  Proof.
    intros Hok Ho p. induction p as [p IH] using lt_wf_ind. intros x y Hx Hy.
    destruct (Nat.eq_dec p 0) as [E|E].
    - subst p. assert (x = y) by congruence. subst y. rewrite cmp_refl. discriminate.
    - assert (Hpl : parent p < p) by (apply parent_lt; lia).
      assert (Hlt := node_at_lt _ _ _ Hx).
      destruct (node_at_some f (parent p) Hok ltac:(lia)) as [z Hz].
      apply (cmp_trans_le x z y).
      + apply (Ho p ltac:(lia) x z); auto.
      + apply (IH (parent p) Hpl z y); auto.
  Qed.

  Theorem abs_pop_empty f : abs f = [] -> nd_core f -> nd_pop st_eqb cmp f = Some (f, None).
  Proof.
    intros Habs Hc. apply nd_pop_empty.
    assert (Hl := abs_len f Hc). rewrite Habs in Hl. unfold nd_len in Hl. cbn [length] in Hl.
    destruct (nd_heap f); [reflexivity|discriminate].
  Qed.

  Theorem abs_pop_nonempty f :
    nd_inv f -> abs f <> [] ->
    exists x f', nd_pop st_eqb cmp f = Some (f', Some x) /\ nd_inv f' /\
                 is_max_of cmp (abs f) x /\ Permutation (abs f) (x :: abs f').
  Proof.
    intros Hinv Hne. assert (Hinv' := Hinv). apply nd_inv_iff in Hinv'. destruct Hinv' as [Hc Ho].
    destruct (nd_heap f) as [|id t] eqn:Hheap.
    { exfalso. apply Hne. unfold abs. rewrite Hheap. reflexivity. }
    destruct (nd_pop_nonempty f id t Hc Hheap)
      as [x [f0 [f1 [Hx [Hpop [Hok0 [Hn0 [Hperm [Hmono [Hok1 [Hsc [Hl1 Hcase]]]]]]]]]]]].
    exists x, (popped_state f f1 id x). split; [exact Hpop|].
    split.
    { destruct (nd_pop_inv f Hinv) as [f' [r [Hp' Hi']]]. rewrite Hpop in Hp'. inversion Hp'; subst. exact Hi'. }
    assert (Hroot : node_at f 0 = Some x).
    { unfold node_at. rewrite Hheap. cbn [nth_error]. exact Hx. }
    split.
    - split.
      + apply abs_In. exists 0. exact Hroot.
      + intros y Hy. apply abs_In in Hy. destruct Hy as [p Hp].
        apply (root_max f (c_hp _ Hc) Ho p y x Hp Hroot).
    - unfold abs at 1. eapply Permutation_trans.
      + apply collect_perm. eapply Permutation_trans; [exact Hperm|].
        apply perm_skip. apply Permutation_sym. apply (sc_perm _ _ Hsc).
      + cbn [collect]. rewrite Hx. apply Permutation_refl.
  Qed.

  (* ---------------------------------------------------------------- the abstract coalescing queue *)
  (* relational specification, insensitive to the order of the list:
     push = coalescing insert, pop = remove SOME maximal element, clear = [] *)
  Inductive pq_step : @pq St -> @fop St -> @pq St -> @fobs St -> Prop :=
  | ps_push_new q n q' :
      (forall y, In y q -> sp_state y <> sp_state n) -> Permutation q' (n :: q) ->
      pq_step q (FPush n) q' (length q', None)
  | ps_push_coal q n q' old rest :
      sp_state old = sp_state n -> (forall y, In y rest -> sp_state y <> sp_state n) ->
      Permutation q (old :: rest) -> Permutation q' (coalesce old n :: rest) ->
      pq_step q (FPush n) q' (length q', None)
  | ps_pop_empty : pq_step [] FPop [] (0, Some None)
  | ps_pop q x q' :
      is_max_of cmp q x -> Permutation q (x :: q') ->
      pq_step q FPop q' (length q', Some (Some x))
  | ps_clear q : pq_step q FClear [] (0, None).

  Inductive pq_run : @pq St -> list (@fop St) -> @pq St -> list (@fobs St) -> Prop :=
  | pr_nil q : pq_run q [] q []
  | pr_cons q o q1 ob ops q2 obs :
      pq_step q o q1 ob -> pq_run q1 ops q2 obs -> pq_run q (o :: ops) q2 (ob :: obs).

  Lemma pq_step_perm q q0 o q' ob : pq_step q o q' ob -> Permutation q q0 -> pq_step q0 o q' ob.
  Proof.
    intros Hs HP. destruct Hs as [q n q' Hfresh Hq'|q n q' old rest Hst Hrest Hq Hq'| |q x q' Hmax Hq|q].
    - apply ps_push_new.
      + intros y Hy. apply Hfresh. eapply Permutation_in; [apply Permutation_sym; exact HP | exact Hy].
      + eapply Permutation_trans; [exact Hq'|]. apply perm_skip. exact HP.
    - apply (ps_push_coal q0 n q' old rest); auto.
      eapply Permutation_trans; [apply Permutation_sym; exact HP | exact Hq].
    - apply Permutation_nil in HP. subst q0. apply ps_pop_empty.
    - apply ps_pop.
      + destruct Hmax as [Hin Hle]. split.
        * eapply Permutation_in; eauto.
        * intros y Hy. apply Hle. eapply Permutation_in; [apply Permutation_sym; exact HP | exact Hy].
      + eapply Permutation_trans; [apply Permutation_sym; exact HP | exact Hq].
    - apply ps_clear.
  Qed.

  (* the functional queue of Fringe.v is one implementation of the push clause *)
  Lemma pq_push_nodup_step (q : list sub) n :
    pq_step q (FPush n) (pq_push_nodup st_eqb q n) (length (pq_push_nodup st_eqb q n), None) \/
    (exists x, In x q /\ sp_state x = sp_state n).
  Proof.
    induction q as [|x q IH].
    - left. apply ps_push_new; [intros y []|]. apply Permutation_refl.
    - destruct (st_eqb (sp_state x) (sp_state n)) eqn:E.
      + right. exists x. split; [left; reflexivity|]. apply st_eqb_spec. exact E.
      + destruct IH as [IH|[y [Hy Hs]]]; [|right; exists y; split; [right|]; auto].
        inversion IH as [q0 n0 q' Hfresh Hq'|q0 n0 q' old rest Hst Hrest Hq Hq'| | |]; subst.
        * left. cbn [pq_push_nodup]. rewrite E. apply ps_push_new.
          -- intros y [Hy|Hy]; [subst y|auto]. intros Hs. rewrite Hs, st_eqb_refl in E. discriminate.
          -- eapply Permutation_trans; [apply perm_skip; exact Hq'|]. apply perm_swap.
        * right. exists old. split; [|exact Hst]. right.
          eapply Permutation_in; [apply Permutation_sym; exact Hq|]. left. reflexivity.
  Qed.

  Lemma nd_step_sim_partial f o f' ob :
    nd_inv f -> nd_step st_eqb cmp f o = Some (f', ob) -> pq_step (abs f) o (abs f') ob /\ nd_inv f'.
  Proof.
    intros Hinv Hstep. assert (Hc := nd_inv_core f Hinv).
    destruct o as [n| |]; cbn [nd_step] in Hstep.
    - destruct (nd_push_inv_partial f n Hinv) as [f2 [Hp Hi2]]. rewrite Hp in Hstep.
      inversion Hstep; subst f' ob. split; [|exact Hi2].
      rewrite (abs_len f2 (nd_inv_core f2 Hi2)).
      destruct (states_get st_eqb (nd_states f) (sp_state n)) as [id|] eqn:Hget.
      + destruct (abs_push_occupied f n id f2 Hc Hget Hp) as [old [rest [H1 [H2 [H3 H4]]]]].
        apply (ps_push_coal (abs f) n (abs f2) old rest); auto.
      + destruct (abs_push_vacant f n f2 Hc Hget Hp) as [H1 H2].
        apply ps_push_new; auto.
    - destruct (abs f) as [|a l] eqn:Habs.
      + rewrite (abs_pop_empty f Habs Hc) in Hstep. inversion Hstep; subst f' ob.
        split; [|exact Hinv]. rewrite Habs, (abs_len f Hc), Habs. apply ps_pop_empty.
      + destruct (abs_pop_nonempty f Hinv) as [x [f2 [Hp [Hi2 [Hmax Hperm]]]]].
        { rewrite Habs. discriminate. }
        rewrite Hp in Hstep. inversion Hstep; subst f' ob. split; [|exact Hi2].
        rewrite (abs_len f2 (nd_inv_core f2 Hi2)). rewrite <- Habs. apply ps_pop; auto.
    - inversion Hstep; subst f' ob. split; [|apply nd_clear_inv].
      rewrite abs_clear. apply ps_clear.
  Qed.

  (* the concrete fringe is simulated by the abstract queue, observations included *)
  Theorem nodup_simulation_partial : forall ops f q f' obs,
    nd_inv f -> Permutation (abs f) q ->
    nd_run st_eqb cmp f ops = Some (f', obs) ->
    exists q', pq_run q ops q' obs /\ Permutation (abs f') q' /\ nd_inv f'.
  Proof.
    induction ops as [|o ops IH]; intros f q f' obs Hinv HP Hrun; cbn [nd_run] in Hrun.
    - inversion Hrun; subst f' obs. exists q. split; [constructor|auto].
    - destruct (nd_step st_eqb cmp f o) as [[f1 ob]|] eqn:Hstep; [|discriminate].
      destruct (nd_run st_eqb cmp f1 ops) as [[f2 obs']|] eqn:Hrun'; [|discriminate].
      inversion Hrun; subst f' obs.
      destruct (nd_step_sim_partial f o f1 ob Hinv Hstep) as [Hps Hi1].
      destruct (IH f1 (abs f1) f2 obs' Hi1 (Permutation_refl _) Hrun') as [q' [Hpr [HP' Hi2]]].
      exists q'. split; [|auto].
      apply (pr_cons q o (abs f1) ob ops q' obs'); [|exact Hpr].
      eapply pq_step_perm; eauto.
  Qed.

  (* nothing is lost, nothing is invented: whatever the operation list, the concrete run
     exists (no panic) and its observations and final content are those of the abstract queue *)
  Corollary nodup_never_loses_or_invents_partial ops :
    exists f obs q,
      nd_run st_eqb cmp nd_empty ops = Some (f, obs) /\ nd_inv f /\
      pq_run [] ops q obs /\ Permutation (abs f) q.
  Proof.
    destruct (nd_run_from_empty_partial ops) as [f [obs [Hrun Hinv]]].
    destruct (nodup_simulation_partial ops nd_empty [] f obs nd_inv_empty (Permutation_refl _) Hrun)
      as [q [Hpr [HP _]]].
    exists f, obs, q. auto.
  Qed.

  (* ================================================================ PART D (generic part) *)
  Lemma coalesce_keeps_best (old n : sub) :
    sp_value (coalesce old n) = Z.max (sp_value old) (sp_value n) /\
    sp_ub (coalesce old n) = Z.max (sp_ub old) (sp_ub n) /\
    ((sp_value n > sp_value old)%Z ->
       sp_state (coalesce old n) = sp_state n /\ sp_path (coalesce old n) = sp_path n /\
       sp_depth (coalesce old n) = sp_depth n) /\
    ((sp_value n <= sp_value old)%Z ->
       sp_state (coalesce old n) = sp_state old /\ sp_path (coalesce old n) = sp_path old /\
       sp_depth (coalesce old n) = sp_depth old).
  Proof.
    unfold coalesce. destruct (sp_value n >? sp_value old)%Z eqn:E;
      rewrite Z.gtb_ltb in E; [apply Z.ltb_lt in E | apply Z.ltb_ge in E];
      cbn [sp_state sp_value sp_path sp_ub sp_depth];
      (split; [lia|]); (split; [lia|]); (split; [intros H; try lia; auto | intros H; try lia; auto]).
  Qed.

  (* depth is a function of the state for the sub-problem x *)
  Definition dep_ok (dep : St -> nat) (x : sub) : Prop := sp_depth x = dep (sp_state x).

  Lemma coalesce_dep_ok dep old n : dep_ok dep old -> dep_ok dep n -> dep_ok dep (coalesce old n).
  Proof.
    unfold dep_ok, coalesce. intros H1 H2.
    destruct (sp_value n >? sp_value old)%Z; cbn [sp_state sp_depth]; auto.
  Qed.

  Lemma pq_step_dep_ok dep q o q' ob :
    pq_step q o q' ob -> (forall x, In x q -> dep_ok dep x) -> (forall n, o = FPush n -> dep_ok dep n) ->
    (forall x, In x q' -> dep_ok dep x) /\ (forall k x, ob = (k, Some (Some x)) -> dep_ok dep x).
  Proof.
    intros Hs Hq Ho. destruct Hs as [q n q' Hfresh Hq'|q n q' old rest Hst Hrest HP Hq'| |q x q' Hmax HP|q].
    - split; [|intros k x H; discriminate].
      intros x Hx. apply (Permutation_in _ Hq') in Hx. destruct Hx as [Hx|Hx]; [subst x; auto|auto].
    - split; [|intros k x H; discriminate].
      intros x Hx. apply (Permutation_in _ Hq') in Hx.
      assert (Hold : dep_ok dep old).
      { apply Hq. eapply Permutation_in; [apply Permutation_sym; exact HP|]. left; reflexivity. }
      destruct Hx as [Hx|Hx].
      + subst x. apply coalesce_dep_ok; auto.
      + apply Hq. eapply Permutation_in; [apply Permutation_sym; exact HP|]. right; exact Hx.
    - split; [intros x []|intros k x H; discriminate].
    - split.
      + intros y Hy. apply Hq. eapply Permutation_in; [apply Permutation_sym; exact HP|]. right; exact Hy.
      + intros k y H. inversion H; subst. apply Hq. apply Hmax.
    - split; [intros x []|intros k x H; discriminate].
  Qed.

  Lemma pq_run_dep_ok dep q ops q' obs :
    pq_run q ops q' obs -> (forall x, In x q -> dep_ok dep x) ->
    (forall n, In (FPush n) ops -> dep_ok dep n) ->
    (forall x, In x q' -> dep_ok dep x) /\ (forall k x, In (k, Some (Some x)) obs -> dep_ok dep x).
  Proof.
    intros Hr. induction Hr as [q|q o q1 ob ops q2 obs Hs Hr IH]; intros Hq Hops.
    - split; [exact Hq|intros k x []].
    - destruct (pq_step_dep_ok dep q o q1 ob Hs Hq) as [H1 H2].
      { intros n Hn. apply Hops. left. exact Hn. }
      destruct (IH H1) as [H3 H4].
      { intros n Hn. apply Hops. right. exact Hn. }
      split; [exact H3|]. intros k x [Hx|Hx]; [eapply H2; eauto | eapply H4; eauto].
  Qed.

  (* If, among the pushed nodes, equal states imply equal depths (depth = dep state), then
     every entry ever held or returned by the fringe obeys the same law, and therefore a
     push only ever coalesces two entries with the same (state, depth). *)
  Theorem dedup_only_same_subproblem_partial dep ops f obs :
    (forall n, In (FPush n) ops -> dep_ok dep n) ->
    nd_run st_eqb cmp nd_empty ops = Some (f, obs) ->
    (forall x, In x (abs f) -> dep_ok dep x) /\
    (forall k x, In (k, Some (Some x)) obs -> dep_ok dep x).
  Proof.
    intros Hops Hrun.
    destruct (nodup_simulation_partial ops nd_empty [] f obs nd_inv_empty (Permutation_refl _) Hrun)
      as [q [Hpr [HP _]]].
    destruct (pq_run_dep_ok dep [] ops q obs Hpr) as [H1 H2]; [intros x []|exact Hops|].
    split; [|exact H2]. intros x Hx. apply H1. eapply Permutation_in; eauto.
  Qed.

  Theorem coalesced_pair_same_state_depth dep f n id old :
    nd_core f -> (forall x, In x (abs f) -> dep_ok dep x) -> dep_ok dep n ->
    states_get st_eqb (nd_states f) (sp_state n) = Some id ->
    nth_error (nd_nodes f) id = Some old ->
    sp_state old = sp_state n /\ sp_depth old = sp_depth n.
  Proof.
    intros Hc Hall Hn Hget Hold.
    destruct (proj1 (c_states _ Hc _ _) Hget) as [Hin [old' [Hold' Hst]]].
    assert (old' = old) by congruence. subst old'. split; [exact Hst|].
    assert (Hd : dep_ok dep old).
    { apply Hall. unfold abs. apply collect_In. eauto. }
    unfold dep_ok in *. congruence.
  Qed.

  (* ---------------------------------------------------------------- two pops in a row *)
  Theorem nd_pop_some_spec f f' x :
    nd_inv f -> nd_pop st_eqb cmp f = Some (f', Some x) ->
    nd_inv f' /\ is_max_of cmp (abs f) x /\ Permutation (abs f) (x :: abs f').
  Proof.
    intros Hinv Hpop. destruct (abs f) as [|a l] eqn:Habs.
    - rewrite (abs_pop_empty f Habs (nd_inv_core f Hinv)) in Hpop. discriminate.
    - destruct (abs_pop_nonempty f Hinv) as [x2 [f2 [Hp [Hi2 [Hmax Hperm]]]]].
      { rewrite Habs. discriminate. }
      rewrite Hp in Hpop. inversion Hpop; subst f2 x2. rewrite <- Habs. auto.
  Qed.

  Theorem nd_pop_none_spec f f' :
    nd_inv f -> nd_pop st_eqb cmp f = Some (f', None) -> abs f = [] /\ f' = f.
  Proof.
    intros Hinv Hpop. destruct (abs f) as [|a l] eqn:Habs.
    - rewrite (abs_pop_empty f Habs (nd_inv_core f Hinv)) in Hpop. inversion Hpop. auto.
    - destruct (abs_pop_nonempty f Hinv) as [x2 [f2 [Hp _]]].
      { rewrite Habs. discriminate. }
      rewrite Hp in Hpop. discriminate.
  Qed.

  Theorem pop_pop_le f x f' y f'' :
    nd_inv f -> nd_pop st_eqb cmp f = Some (f', Some x) -> nd_pop st_eqb cmp f' = Some (f'', Some y) ->
    cmp y x <> Gt.
  Proof.
    intros Hinv H1 H2.
    destruct (nd_pop_some_spec f f' x Hinv H1) as [Hi' [[_ Hmax] HP]].
    destruct (nd_pop_some_spec f' f'' y Hi' H2) as [_ [[Hin _] _]].
    apply Hmax. eapply Permutation_in; [apply Permutation_sym; exact HP|]. right. exact Hin.
  Qed.

End FringeProofs.

(* ==================================================================== PART C : the MaxUB ranking *)
Section MaxUB.
  Context {St : Type}.
  Variable st_eqb : St -> St -> bool.
  Hypothesis st_eqb_spec : forall a b, st_eqb a b = true <-> a = b.
  Variable st_cmp : St -> St -> comparison.
  Hypothesis st_cmp_antisym : forall a b, st_cmp a b = CompOpp (st_cmp b a).
  Hypothesis st_cmp_trans_le : forall a b c, st_cmp a b <> Gt -> st_cmp b c <> Gt -> st_cmp a c <> Gt.

  Notation sub := (@subproblem St).
  Notation mcmp := (maxub_cmp st_cmp).

  Lemma st_cmp_refl a : st_cmp a a = Eq.
  Proof. pose proof (st_cmp_antisym a a) as H. destruct (st_cmp a a); cbn in H; congruence. Qed.

  Lemma maxub_le_iff (x y : sub) :
    mcmp x y <> Gt <->
    (sp_ub x < sp_ub y \/
     (sp_ub x = sp_ub y /\
      (sp_value x < sp_value y \/
       (sp_value x = sp_value y /\ st_cmp (sp_state x) (sp_state y) <> Gt))))%Z.
  Proof.
    unfold maxub_cmp, Zcmp.
    destruct (Z.compare_spec (sp_ub x) (sp_ub y)) as [E1|E1|E1]; cbn [cmp_then].
    - destruct (Z.compare_spec (sp_value x) (sp_value y)) as [E2|E2|E2]; cbn [cmp_then].
      + split; [intros H; right; split; [exact E1|]; right; split; [exact E2|exact H]|].
        intros [H|[_ [H|[_ H]]]]; [lia|lia|exact H].
      + split; [intros _; right; split; [exact E1|]; left; exact E2 | intros _; discriminate].
      + split; [intros H; congruence|]. intros [H|[_ [H|[H _]]]]; lia.
    - split; [intros _; left; exact E1 | intros _; discriminate].
    - split; [intros H; congruence|]. intros [H|[H _]]; lia.
  Qed.

  Lemma maxub_antisym (x y : sub) : mcmp x y = CompOpp (mcmp y x).
  Proof.
    unfold maxub_cmp, Zcmp.
    rewrite (Z.compare_antisym (sp_ub y) (sp_ub x)), (Z.compare_antisym (sp_value y) (sp_value x)),
      (st_cmp_antisym (sp_state x) (sp_state y)).
    destruct (sp_ub y ?= sp_ub x)%Z; cbn [CompOpp cmp_then]; try reflexivity.
    destruct (sp_value y ?= sp_value x)%Z; cbn [CompOpp cmp_then]; reflexivity.
  Qed.

  Lemma maxub_trans_le (x y z : sub) : mcmp x y <> Gt -> mcmp y z <> Gt -> mcmp x z <> Gt.
  Proof.
    rewrite !maxub_le_iff. intros H1 H2.
    destruct H1 as [H1|[H1 [H1'|[H1' H1'']]]]; destruct H2 as [H2|[H2 [H2'|[H2' H2'']]]];
      try (left; lia); try (right; split; [lia|]; left; lia).
    right. split; [lia|]. right. split; [lia|]. eapply st_cmp_trans_le; eauto.
  Qed.

  (* the (ub, value) projection of the order *)
  Lemma maxub_le_lex (x y : sub) :
    mcmp x y <> Gt -> (sp_ub x < sp_ub y \/ (sp_ub x = sp_ub y /\ sp_value x <= sp_value y))%Z.
  Proof. rewrite maxub_le_iff. intros [H|[H [H'|[H' _]]]]; [left|right|right]; lia. Qed.

  Lemma maxub_coalesce_ge (old n : sub) :
    sp_state old = sp_state n -> mcmp old (coalesce old n) <> Gt.
  Proof.
    intros Hs. apply maxub_le_iff. unfold coalesce.
    destruct (sp_value n >? sp_value old)%Z eqn:E; rewrite Z.gtb_ltb in E;
      [apply Z.ltb_lt in E | apply Z.ltb_ge in E]; cbn [sp_state sp_value sp_ub].
    - destruct (Z.max_spec (sp_ub n) (sp_ub old)) as [[Hm Hm']|[Hm Hm']]; rewrite Hm'.
      + right. split; [reflexivity|]. left. exact E.
      + destruct (Z.eq_dec (sp_ub n) (sp_ub old)) as [He|He].
        * right. split; [lia|]. left. exact E.
        * left. lia.
    - destruct (Z.max_spec (sp_ub n) (sp_ub old)) as [[Hm Hm']|[Hm Hm']]; rewrite Hm'.
      + right. split; [reflexivity|]. right. split; [reflexivity|]. rewrite st_cmp_refl. discriminate.
      + destruct (Z.eq_dec (sp_ub n) (sp_ub old)) as [He|He].
        * right. split; [lia|]. right. split; [reflexivity|]. rewrite st_cmp_refl. discriminate.
        * left. lia.
  Qed.

  Lemma maxub_coalesce_up (old n : sub) :
    sp_state old = sp_state n ->
    mcmp (with_ub n (Z.max (sp_ub n) (sp_ub old))) old <> Gt -> mcmp (coalesce old n) old <> Gt.
  Proof.
    intros Hs H. apply maxub_le_iff in H. unfold with_ub in H. cbn [sp_state sp_value sp_ub] in H.
    apply maxub_le_iff. unfold coalesce.
    assert (Hv : (sp_value n <= sp_value old)%Z) by lia.
    assert (Hu : Z.max (sp_ub n) (sp_ub old) = sp_ub old) by lia.
    destruct (sp_value n >? sp_value old)%Z eqn:E; rewrite Z.gtb_ltb in E;
      [apply Z.ltb_lt in E; lia | ]. cbn [sp_state sp_value sp_ub].
    right. split; [exact Hu|]. right. split; [reflexivity|]. rewrite st_cmp_refl. discriminate.
  Qed.

  Ltac mx := first [exact st_eqb_spec | exact maxub_antisym | exact maxub_trans_le
                    | exact maxub_coalesce_ge | exact maxub_coalesce_up].

  (* --- Part A for MaxUB : no panic, invariant preserved, for every operation list *)
  Theorem maxub_nd_push_inv f n :
    nd_inv st_eqb mcmp f -> exists f', nd_push st_eqb mcmp f n = Some f' /\ nd_inv st_eqb mcmp f'.
  Proof.
    apply nd_push_inv_partial; mx.
  Qed.

  Theorem maxub_nd_pop_inv f :
    nd_inv st_eqb mcmp f ->
    exists f' r, nd_pop st_eqb mcmp f = Some (f', r) /\ nd_inv st_eqb mcmp f'.
  Proof. apply nd_pop_inv; mx. Qed.

  Theorem maxub_nd_run_inv ops f :
    nd_inv st_eqb mcmp f ->
    exists f' obs, nd_run st_eqb mcmp f ops = Some (f', obs) /\ nd_inv st_eqb mcmp f'.
  Proof.
    apply nd_run_inv_partial; mx.
  Qed.

  Theorem maxub_nd_run_from_empty ops :
    exists f obs, nd_run st_eqb mcmp nd_empty ops = Some (f, obs) /\ nd_inv st_eqb mcmp f.
  Proof.
    apply nd_run_from_empty_partial; mx.
  Qed.

  (* --- Part B for MaxUB *)
  Theorem maxub_nodup_simulation ops f q f' obs :
    nd_inv st_eqb mcmp f -> Permutation (abs f) q ->
    nd_run st_eqb mcmp f ops = Some (f', obs) ->
    exists q', pq_run mcmp q ops q' obs /\ Permutation (abs f') q' /\ nd_inv st_eqb mcmp f'.
  Proof.
    apply nodup_simulation_partial; mx.
  Qed.

  Theorem maxub_nodup_never_loses_or_invents ops :
    exists f obs q,
      nd_run st_eqb mcmp nd_empty ops = Some (f, obs) /\ nd_inv st_eqb mcmp f /\
      pq_run mcmp [] ops q obs /\ Permutation (abs f) q.
  Proof.
    apply nodup_never_loses_or_invents_partial; mx.
  Qed.

  Theorem maxub_pop_is_max f f' x :
    nd_inv st_eqb mcmp f -> nd_pop st_eqb mcmp f = Some (f', Some x) ->
    nd_inv st_eqb mcmp f' /\ is_max_of mcmp (abs f) x /\ Permutation (abs f) (x :: abs f').
  Proof. apply nd_pop_some_spec; mx. Qed.

  (* --- Part C : successive pops are non-increasing in (ub, value) *)
  Theorem maxub_successive_pops f x f' y f'' :
    nd_inv st_eqb mcmp f ->
    nd_pop st_eqb mcmp f = Some (f', Some x) -> nd_pop st_eqb mcmp f' = Some (f'', Some y) ->
    (sp_ub y < sp_ub x \/ (sp_ub y = sp_ub x /\ sp_value y <= sp_value x))%Z.
  Proof.
    intros Hinv H1 H2. apply maxub_le_lex.
    apply (pop_pop_le st_eqb st_eqb_spec mcmp maxub_antisym maxub_trans_le f x f' y f''); auto.
  Qed.

  (* --- Part D for MaxUB *)
  Theorem maxub_dedup_only_same_subproblem dep ops f obs :
    (forall n, In (FPush n) ops -> dep_ok dep n) ->
    nd_run st_eqb mcmp nd_empty ops = Some (f, obs) ->
    (forall x, In x (abs f) -> dep_ok dep x) /\
    (forall k x, In (k, Some (Some x)) obs -> dep_ok dep x).
  Proof.
    apply dedup_only_same_subproblem_partial; mx.
  Qed.
End MaxUB.

(* ==================================================================== concrete witnesses *)
Section Witnesses.
  Local Open Scope Z_scope.
  Let sp (s : nat) (d : nat) (v ub : Z) : @subproblem nat :=
    {| sp_state := s; sp_value := v; sp_path := []; sp_ub := ub; sp_depth := d |}.
  Let mx := maxub_cmp Nat.compare.

  (* PART D, negative fact about the CURRENT code: the map is keyed by the state alone, so two
     pushes with equal states and different depths are coalesced into one entry; the survivor
     has the depth/value of the better one and the max of the two upper bounds. *)
  Example dedup_ignores_depth_run :
    exists f,
      nd_run Nat.eqb mx nd_empty [FPush (sp 7 1%nat 3 10); FPush (sp 7 2%nat 5 8); FPop] =
      Some (f, [(1%nat, None); (1%nat, None); (0%nat, Some (Some (sp 7 2%nat 5 10)))]).
  Proof. eexists. vm_compute. reflexivity. Qed.

  Theorem dedup_ignores_depth :
    exists (a b : @subproblem nat) f obs,
      sp_state a = sp_state b /\ sp_depth a <> sp_depth b /\
      nd_run Nat.eqb mx nd_empty [FPush a; FPush b] = Some (f, obs) /\ nd_len f = 1%nat.
  Proof.
    exists (sp 7 1%nat 3 10), (sp 7 2%nat 5 8). eexists. eexists.
    split; [reflexivity|]. split; [cbn; discriminate|]. split; [vm_compute; reflexivity|reflexivity].
  Qed.

  (* the three update shapes of the Occupied branch, on the executable model *)
  Example push_same_state_ub_only :   (* value not better, ub better: only ub changes *)
    exists f, nd_run Nat.eqb mx nd_empty [FPush (sp 7 1%nat 5 8); FPush (sp 7 2%nat 3 10); FPop] =
              Some (f, [(1%nat, None); (1%nat, None); (0%nat, Some (Some (sp 7 1%nat 5 10)))]).
  Proof. eexists. vm_compute. reflexivity. Qed.

  Example push_same_state_tie_keeps_old :   (* equal value: the old node is kept *)
    exists f, nd_run Nat.eqb mx nd_empty [FPush (sp 7 1%nat 5 8); FPush (sp 7 2%nat 5 8); FPop] =
              Some (f, [(1%nat, None); (1%nat, None); (0%nat, Some (Some (sp 7 1%nat 5 8)))]).
  Proof. eexists. vm_compute. reflexivity. Qed.

  (* WHY the generic theorems carry the suffix _partial.
     Statement asked for: "for every total preorder cmp, push preserves nd_inv (heap order
     included) and pop returns a cmp-maximum".  This is FALSE of the model (and of the Rust
     code): on an Occupied entry the code decides whether to bubble up by comparing the pushed
     node (with ub := max) against the old one and never bubbles down, which is only adequate
     when raising ub / value never lowers the priority, i.e. for rankings like MaxUB.
     Counterexample: the total preorder "smaller ub first". *)
  Definition minub_cmp (x y : @subproblem nat) : comparison := Zcmp (sp_ub y) (sp_ub x).

  Lemma minub_antisym x y : minub_cmp x y = CompOpp (minub_cmp y x).
  Proof. unfold minub_cmp, Zcmp. apply Z.compare_antisym. Qed.

  Lemma minub_trans_le x y z : minub_cmp x y <> Gt -> minub_cmp y z <> Gt -> minub_cmp x z <> Gt.
  Proof.
    unfold minub_cmp, Zcmp. intros H1 H2.
    destruct (Z.compare_spec (sp_ub y) (sp_ub x)); try congruence;
    destruct (Z.compare_spec (sp_ub z) (sp_ub y)); try congruence;
    destruct (Z.compare_spec (sp_ub z) (sp_ub x)); try discriminate; lia.
  Qed.

  Example minub_breaks_heap_order :
    exists f x y,
      nd_run Nat.eqb minub_cmp nd_empty
        [FPush (sp 1 0%nat 0 1); FPush (sp 2 0%nat 0 2); FPush (sp 1 0%nat 0 5); FPop] =
      Some (f, [(1%nat, None); (2%nat, None); (2%nat, None); (1%nat, Some (Some x))]) /\
      In y (abs f) /\ minub_cmp y x = Gt.
  Proof.
    eexists. exists (sp 1 0%nat 0 5), (sp 2 0%nat 0 2).
    split; [vm_compute; reflexivity|]. split; [vm_compute; left; reflexivity | reflexivity].
  Qed.

  Example minub_violates_coalesce_ge :
    sp_state (sp 1 0%nat 0 1) = sp_state (sp 1 0%nat 0 5) /\
    minub_cmp (sp 1 0%nat 0 1) (coalesce (sp 1 0%nat 0 1) (sp 1 0%nat 0 5)) = Gt.
  Proof. split; reflexivity. Qed.
End Witnesses.

(* ==================================================================== assumptions audit *)
Print Assumptions nd_run_core.
Print Assumptions nd_pop_inv.
Print Assumptions nd_run_from_empty_partial.
Print Assumptions abs_len.
Print Assumptions abs_push.
Print Assumptions abs_push_occupied.
Print Assumptions abs_pop_nonempty.
Print Assumptions nodup_never_loses_or_invents_partial.
Print Assumptions maxub_nd_run_from_empty.
Print Assumptions maxub_nodup_simulation.
Print Assumptions maxub_nodup_never_loses_or_invents.
Print Assumptions maxub_successive_pops.
Print Assumptions coalesce_keeps_best.
Print Assumptions maxub_dedup_only_same_subproblem.
Print Assumptions coalesced_pair_same_state_depth.
Print Assumptions dedup_ignores_depth.
Print Assumptions minub_breaks_heap_order.
