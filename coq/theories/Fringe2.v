(* Fringe2.v — model of NoDupFringe AFTER the "fix:" commit (the de-duplication map is keyed by
   (state, depth) instead of the state alone): the faithful heap model of Fringe.v instantiated at the
   key type St * nat, with the solver's sub-problems embedded by pairing their state with their depth.
   Every theorem of FringeProofs.v applies to it verbatim (they are generic in the state type). *)
From Coq Require Import Permutation.
Require Import DDO.Base DDO.Fringe DDO.FringeProofs.
Open Scope Z_scope.

Section Keyed.
  Context {St : Type}.
  Variable st_eqb : St -> St -> bool.
  Hypothesis st_eqb_spec : forall a b, st_eqb a b = true <-> a = b.
  Variable st_cmp : St -> St -> comparison.

  Definition K : Type := (St * nat)%type.
  Definition key_eqb (a b : K) : bool := st_eqb (fst a) (fst b) && Nat.eqb (snd a) (snd b).
  Definition kst_cmp (a b : K) : comparison := st_cmp (fst a) (fst b).

  Definition embed (n : @subproblem St) : @subproblem K :=
    {| sp_state := (sp_state n, sp_depth n); sp_value := sp_value n; sp_path := sp_path n; sp_ub := sp_ub n; sp_depth := sp_depth n |}.
  Definition unembed (n : @subproblem K) : @subproblem St :=
    {| sp_state := fst (sp_state n); sp_value := sp_value n; sp_path := sp_path n; sp_ub := sp_ub n; sp_depth := sp_depth n |}.

  Definition kcmp : @subproblem K -> @subproblem K -> comparison := maxub_cmp kst_cmp.

  Definition knodup := @nodup K.
  Definition k_empty : knodup := nd_empty.
  Definition k_len (f : knodup) : nat := nd_len f.
  Definition k_push (f : knodup) (n : @subproblem St) : option knodup := nd_push key_eqb kcmp f (embed n).
  Definition k_pop (f : knodup) : option (knodup * option (@subproblem St)) :=
    match nd_pop key_eqb kcmp f with
    | Some (f', r) => Some (f', option_map unembed r)
    | None => None
    end.

  Lemma unembed_embed n : unembed (embed n) = n.
  Proof. destruct n; reflexivity. Qed.

  (* MaxUB on the embedded sub-problems is MaxUB on the original ones *)
  Lemma kcmp_embed a b : kcmp (embed a) (embed b) = maxub_cmp st_cmp a b.
  Proof. reflexivity. Qed.

  Lemma key_eqb_spec a b : key_eqb a b = true <-> a = b.
  Proof.
    destruct a as [s d], b as [s' d']. unfold key_eqb; simpl. rewrite andb_true_iff, st_eqb_spec, Nat.eqb_eq.
    split; [intros [-> ->]; reflexivity|intros H; inversion H; auto].
  Qed.

  Hypothesis st_cmp_antisym : forall a b, st_cmp a b = CompOpp (st_cmp b a).
  Hypothesis st_cmp_trans : forall a b c, st_cmp a b <> Gt -> st_cmp b c <> Gt -> st_cmp a c <> Gt.
  Lemma kst_cmp_antisym a b : kst_cmp a b = CompOpp (kst_cmp b a).
  Proof. apply st_cmp_antisym. Qed.
  Lemma kst_cmp_trans a b c : kst_cmp a b <> Gt -> kst_cmp b c <> Gt -> kst_cmp a c <> Gt.
  Proof. apply st_cmp_trans. Qed.

  (* the operations the solver performs, embedded *)
  Definition embed_op (o : @fop St) : @fop K :=
    match o with FPush n => FPush (embed n) | FPop => FPop | FClear => FClear end.

  (* the key of every embedded sub-problem determines its depth *)
  Definition kdep (k : K) : nat := snd k.
  Lemma embed_dep_ok n : dep_ok kdep (embed n).
  Proof. reflexivity. Qed.

  (* C11, for every operation sequence: no panic, the representation invariant holds, the run is simulated by
     the abstract coalescing priority queue (nothing lost, nothing invented, pop returns a maximum) *)
  Theorem keyed_run_refines_pq (ops : list (@fop St)) :
    exists (f : knodup) obs q,
      nd_run key_eqb kcmp nd_empty (map embed_op ops) = Some (f, obs) /\
      nd_inv key_eqb kcmp f /\
      pq_run kcmp [] (map embed_op ops) q obs /\ Permutation (abs f) q.
  Proof.
    apply maxub_nodup_never_loses_or_invents.
    - apply key_eqb_spec.
    - apply kst_cmp_antisym.
    - apply kst_cmp_trans.
  Qed.

  (* entries are only ever coalesced when they denote the same sub-problem: every element held or popped has a key
     consistent with its own depth, and a coalescing push (ps_push_coal of pq_step) requires equal keys *)
  Theorem keyed_dedup_only_same_subproblem (ops : list (@fop St)) f obs :
    nd_run key_eqb kcmp nd_empty (map embed_op ops) = Some (f, obs) ->
    (forall x, In x (abs f) -> sp_state x = (fst (sp_state x), sp_depth x)) /\
    (forall k x, In (k, Some (Some x)) obs -> sp_state x = (fst (sp_state x), sp_depth x)).
  Proof.
    intros Hrun.
    destruct (maxub_dedup_only_same_subproblem key_eqb key_eqb_spec kst_cmp kst_cmp_antisym kst_cmp_trans kdep
                (map embed_op ops) f obs) as [H1 H2]; auto.
    - intros n Hin. apply in_map_iff in Hin. destruct Hin as (o & Ho & _).
      destruct o as [n0| |]; simpl in Ho; inversion Ho. apply embed_dep_ok.
    - split.
      + intros x Hx. specialize (H1 x Hx). unfold dep_ok, kdep in H1. destruct (sp_state x); simpl in *; congruence.
      + intros k x Hx. specialize (H2 k x Hx). unfold dep_ok, kdep in H2. destruct (sp_state x); simpl in *; congruence.
  Qed.
End Keyed.
