(* DomProofs.v — property C10: the dominance checker implements Pareto-front semantics.
   Theorems about the executable model in Dom.v
   (Dominance::partial_cmp, Dominance::cmp, SimpleDominanceChecker::is_dominated_or_insert).
   Stdlib only, no axioms. *)
Require Import DDO.Base DDO.Dom.
From Coq Require Import ZArith List Bool Lia Arith.
Import ListNotations.
Open Scope Z_scope.

Section DomProofs.
  Context {St Key : Type}.
  Variable key_eqb : Key -> Key -> bool.
  Hypothesis key_eqb_spec : forall a b, key_eqb a b = true <-> a = b.
  Variable get_key : St -> option Key.
  Variable nd : nat.
  Variable coord : St -> nat -> Z.
  Variable use_value : bool.

  Local Notation pc_loop := (pc_loop coord).
  Local Notation cmp_loop := (cmp_loop coord).
  Local Notation partial_cmp := (partial_cmp nd coord use_value).
  Local Notation dcmp := (dcmp nd coord use_value).
  Local Notation retain_loop := (retain_loop nd coord use_value).
  Local Notation bucket_query := (bucket_query nd coord use_value).
  Local Notation layer_query := (layer_query key_eqb nd coord use_value).
  Local Notation is_dominated_or_insert :=
    (is_dominated_or_insert key_eqb get_key nd coord use_value).
  Local Notation lookup_bucket := (lookup_bucket key_eqb).
  Local Notation entry := (@entry St).
  Local Notation bucket := (@bucket St).
  Local Notation dlayer := (@dlayer St Key).
  Local Notation dstore := (@dstore St Key).

  (* ================================================================== *)
  (** * 1. Semantic characterisation of [partial_cmp]                    *)
  (* ================================================================== *)

  (** [le_all a va b vb]: (a,va) is at most (b,vb) on every coordinate
      (and on the value when [use_value]).  "Greater is better". *)
  Definition le_all (a : St) (va : Z) (b : St) (vb : Z) : Prop :=
    (forall i, (i < nd)%nat -> coord a i <= coord b i) /\ (use_value = true -> va <= vb).

  Lemma le_all_refl a va : le_all a va a va.
  Proof. split; intros; lia. Qed.

  Lemma le_all_trans a va b vb c vc :
    le_all a va b vb -> le_all b vb c vc -> le_all a va c vc.
  Proof.
    intros [H1 H2] [H3 H4]; split.
    - intros i Hi. specialize (H1 i Hi). specialize (H3 i Hi). lia.
    - intros Hu. specialize (H2 Hu). specialize (H4 Hu). lia.
  Qed.

  (* list-indexed versions used for the loop invariant *)
  Definition leL (a b : St) (is : list nat) : Prop :=
    forall i, In i is -> coord a i <= coord b i.
  Definition eqL (a b : St) (is : list nat) : Prop :=
    forall i, In i is -> coord a i = coord b i.
  Definition ltE (a b : St) (is : list nat) : Prop :=
    exists i, In i is /\ coord a i < coord b i.

  Lemma leL_cons a b i is : leL a b (i :: is) <-> coord a i <= coord b i /\ leL a b is.
  Proof.
    unfold leL; split.
    - intros H; split; [apply H; left; reflexivity | intros j Hj; apply H; right; exact Hj].
    - intros [H1 H2] j [Hj | Hj]; [subst j; exact H1 | apply H2; exact Hj].
  Qed.
  Lemma eqL_cons a b i is : eqL a b (i :: is) <-> coord a i = coord b i /\ eqL a b is.
  Proof.
    unfold eqL; split.
    - intros H; split; [apply H; left; reflexivity | intros j Hj; apply H; right; exact Hj].
    - intros [H1 H2] j [Hj | Hj]; [subst j; exact H1 | apply H2; exact Hj].
  Qed.
  Lemma ltE_cons a b i is : ltE a b (i :: is) <-> coord a i < coord b i \/ ltE a b is.
  Proof.
    unfold ltE; split.
    - intros [j [[Hj | Hj] Hlt]]; [subst j; left; exact Hlt | right; exists j; split; assumption].
    - intros [H | [j [Hj Hlt]]]; [exists i; split; [left; reflexivity | exact H]
                                  | exists j; split; [right; exact Hj | exact Hlt]].
  Qed.
  Lemma ltE_nil a b : ~ ltE a b [].
  Proof. intros [j [[] _]]. Qed.

  Lemma ltE_not_leL a b is : ltE a b is -> ~ leL b a is.
  Proof. intros [i [Hi Hlt]] H. specialize (H i Hi). lia. Qed.

  (** the loop invariant, generalised over the index list and the accumulated ordering *)
  Definition pc_loop_post (a b : St) (is : list nat) (ord : comparison) (res : option comparison) : Prop :=
    match res with
    | Some Eq => ord = Eq /\ eqL a b is
    | Some Lt => ord <> Gt /\ leL a b is /\ (ord = Eq -> ltE a b is)
    | Some Gt => ord <> Lt /\ leL b a is /\ (ord = Eq -> ltE b a is)
    | None => (ord = Lt -> ltE b a is) /\ (ord = Gt -> ltE a b is) /\
              (ord = Eq -> ltE a b is /\ ltE b a is)
    end.

  Lemma pc_loop_inv a b is : forall ord, pc_loop_post a b is ord (pc_loop a b is ord).
  Proof.
    induction is as [|i is IH]; intros ord.
    - cbn [Dom.pc_loop]. unfold pc_loop_post.
      destruct ord; repeat split; try congruence; try (intros j []).
    - cbn [Dom.pc_loop]. unfold Zcmp.
      destruct (Z.compare_spec (coord a i) (coord b i)) as [Hc | Hc | Hc]; destruct ord;
        try match goal with
        | |- pc_loop_post _ _ _ ?o (pc_loop _ _ _ ?o') =>
            generalize (IH o'); destruct (pc_loop a b is o') as [[| |]|]
        end;
        unfold pc_loop_post; rewrite ?leL_cons, ?eqL_cons, ?ltE_cons;
        intuition (try congruence; try lia).
  Qed.

  Lemma in_seq0 i : In i (seq 0 nd) <-> (i < nd)%nat.
  Proof. rewrite in_seq. lia. Qed.

  (** master case-analysis lemma for [partial_cmp] *)
  Definition coords_eq (a b : St) : Prop := forall i, (i < nd)%nat -> coord a i = coord b i.
  Definition coord_lt (a b : St) : Prop := exists i, (i < nd)%nat /\ coord a i < coord b i.

  Definition partial_cmp_post (a : St) (va : Z) (b : St) (vb : Z) (res : option dres) : Prop :=
    match res with
    | None => ~ le_all a va b vb /\ ~ le_all b vb a va
    | Some {| d_ord := Lt; d_ovd := o |} =>
        le_all a va b vb /\ ~ le_all b vb a va /\
        (o = true -> use_value = true /\ coords_eq a b /\ va < vb) /\
        (o = false -> coord_lt a b)
    | Some {| d_ord := Gt; d_ovd := o |} =>
        le_all b vb a va /\ ~ le_all a va b vb /\
        (o = true -> use_value = true /\ coords_eq a b /\ vb < va) /\
        (o = false -> coord_lt b a)
    | Some {| d_ord := Eq; d_ovd := o |} =>
        le_all a va b vb /\ le_all b vb a va /\ o = false /\ coords_eq a b
    end.

  Lemma coord_lt_not_le a va b vb : coord_lt a b -> ~ le_all b vb a va.
  Proof. intros [i [Hi Hlt]] [H _]. specialize (H i Hi). lia. Qed.

  Lemma partial_cmp_cases a va b vb : partial_cmp_post a va b vb (partial_cmp a va b vb).
  Proof.
    unfold Dom.partial_cmp.
    generalize (pc_loop_inv a b (seq 0 nd) Eq).
    destruct (pc_loop a b (seq 0 nd) Eq) as [ord|]; unfold pc_loop_post.
    - assert (HleL : forall x y, leL x y (seq 0 nd) -> forall i, (i < nd)%nat -> coord x i <= coord y i).
      { intros x y H i Hi. apply H. apply in_seq0. exact Hi. }
      assert (HltE : forall x y, ltE x y (seq 0 nd) -> coord_lt x y).
      { intros x y [i [Hi Hlt]]. exists i. split; [apply in_seq0; exact Hi | exact Hlt]. }
      destruct ord.
      + (* all coordinates equal *)
        intros [_ Heq].
        assert (Hce : coords_eq a b). { intros i Hi. apply Heq. apply in_seq0. exact Hi. }
        assert (Hab : forall i, (i < nd)%nat -> coord a i <= coord b i).
        { intros i Hi. rewrite (Hce i Hi). lia. }
        assert (Hba : forall i, (i < nd)%nat -> coord b i <= coord a i).
        { intros i Hi. rewrite (Hce i Hi). lia. }
        destruct use_value eqn:Hu.
        * unfold Zcmp. destruct (Z.compare_spec va vb) as [Hc | Hc | Hc];
            unfold partial_cmp_post, le_all;
            repeat split; auto; try discriminate; try congruence; try (intros; lia);
            try (intros [_ H]; specialize (H Hu); lia).
        * unfold partial_cmp_post, le_all.
          repeat split; auto; try discriminate; try congruence.
      + (* a below b on coordinates, strictly somewhere *)
        intros [_ [Hle Hlt]]. specialize (Hlt eq_refl).
        pose proof (HleL _ _ Hle) as Hab. pose proof (HltE _ _ Hlt) as Hclt.
        pose proof (coord_lt_not_le a va b vb Hclt) as Hnba.
        destruct use_value eqn:Hu.
        * unfold Zcmp. destruct (Z.compare_spec va vb) as [Hc | Hc | Hc];
            unfold partial_cmp_post;
            (split; [|split; [exact Hnba|]]) || (split; [|exact Hnba]);
            unfold le_all;
            repeat split; auto; try discriminate; try congruence; try (intros; lia);
            try (intros [_ H]; specialize (H Hu); lia).
        * unfold partial_cmp_post; (split; [|split; [exact Hnba|]]); unfold le_all;
            repeat split; auto; try discriminate; try congruence.
      + (* b below a on coordinates, strictly somewhere *)
        intros [_ [Hle Hlt]]. specialize (Hlt eq_refl).
        pose proof (HleL _ _ Hle) as Hba. pose proof (HltE _ _ Hlt) as Hclt.
        pose proof (coord_lt_not_le b vb a va Hclt) as Hnab.
        destruct use_value eqn:Hu.
        * unfold Zcmp. destruct (Z.compare_spec va vb) as [Hc | Hc | Hc];
            unfold partial_cmp_post;
            (split; [|split; [exact Hnab|]]) || (split; [exact Hnab|]);
            unfold le_all;
            repeat split; auto; try discriminate; try congruence; try (intros; lia);
            try (intros [_ H]; specialize (H Hu); lia).
        * unfold partial_cmp_post; (split; [|split; [exact Hnab|]]); unfold le_all;
            repeat split; auto; try discriminate; try congruence.
    - intros [_ [_ H]]. destruct (H eq_refl) as [[i [Hi Hlt]] [j [Hj Hgt]]].
      apply in_seq0 in Hi. apply in_seq0 in Hj.
      unfold partial_cmp_post. split; intros [Hle _].
      + specialize (Hle j Hj). lia.
      + specialize (Hle i Hi). lia.
  Qed.

  (** ** The four-way specification of [partial_cmp] *)

  Lemma partial_cmp_None_iff a va b vb :
    partial_cmp a va b vb = None <-> ~ le_all a va b vb /\ ~ le_all b vb a va.
  Proof.
    generalize (partial_cmp_cases a va b vb).
    destruct (partial_cmp a va b vb) as [[[| |] o]|]; unfold partial_cmp_post; intros Hpost.
    - split; [discriminate|]. intros [H1 _]. exfalso. apply H1. apply Hpost.
    - split; [discriminate|]. intros [H1 _]. exfalso. apply H1. apply Hpost.
    - split; [discriminate|]. intros [_ H1]. exfalso. apply H1. apply Hpost.
    - split; [intros _; exact Hpost | reflexivity].
  Qed.

  Lemma partial_cmp_Lt_iff a va b vb :
    (exists o, partial_cmp a va b vb = Some {| d_ord := Lt; d_ovd := o |})
    <-> le_all a va b vb /\ ~ le_all b vb a va.
  Proof.
    generalize (partial_cmp_cases a va b vb).
    destruct (partial_cmp a va b vb) as [[[| |] o]|]; unfold partial_cmp_post; intros Hpost.
    - split; [intros [o' Ho']; discriminate|]. intros [_ H1]. exfalso. apply H1. apply Hpost.
    - split; [intros _; split; apply Hpost | intros _; exists o; reflexivity].
    - split; [intros [o' Ho']; discriminate|]. intros [H1 _]. exfalso. destruct Hpost as [_ [H2 _]]. exact (H2 H1).
    - split; [intros [o' Ho']; discriminate|]. intros [H1 _]. exfalso. destruct Hpost as [H2 _]. exact (H2 H1).
  Qed.

  Lemma partial_cmp_Gt_iff a va b vb :
    (exists o, partial_cmp a va b vb = Some {| d_ord := Gt; d_ovd := o |})
    <-> le_all b vb a va /\ ~ le_all a va b vb.
  Proof.
    generalize (partial_cmp_cases a va b vb).
    destruct (partial_cmp a va b vb) as [[[| |] o]|]; unfold partial_cmp_post; intros Hpost.
    - split; [intros [o' Ho']; discriminate|]. intros [_ H1]. exfalso. apply H1. apply Hpost.
    - split; [intros [o' Ho']; discriminate|]. intros [H1 _]. exfalso. destruct Hpost as [_ [H2 _]]. exact (H2 H1).
    - split; [intros _; split; apply Hpost | intros _; exists o; reflexivity].
    - split; [intros [o' Ho']; discriminate|]. intros [H1 _]. exfalso. destruct Hpost as [_ H2]. exact (H2 H1).
  Qed.

  Lemma partial_cmp_Eq_iff a va b vb :
    (exists o, partial_cmp a va b vb = Some {| d_ord := Eq; d_ovd := o |})
    <-> le_all a va b vb /\ le_all b vb a va.
  Proof.
    generalize (partial_cmp_cases a va b vb).
    destruct (partial_cmp a va b vb) as [[[| |] o]|]; unfold partial_cmp_post; intros Hpost.
    - split; [intros _; split; apply Hpost | intros _; exists o; reflexivity].
    - split; [intros [o' Ho']; discriminate|]. intros [_ H1]. exfalso. destruct Hpost as [_ [H2 _]]. exact (H2 H1).
    - split; [intros [o' Ho']; discriminate|]. intros [H1 _]. exfalso. destruct Hpost as [_ [H2 _]]. exact (H2 H1).
    - split; [intros [o' Ho']; discriminate|]. intros [H1 _]. exfalso. destruct Hpost as [H2 _]. exact (H2 H1).
  Qed.

  (** the result [Eq] never carries [only_val_diff = true] *)
  Lemma partial_cmp_Eq_ovd a va b vb o :
    partial_cmp a va b vb = Some {| d_ord := Eq; d_ovd := o |} -> o = false /\ coords_eq a b.
  Proof.
    intros H. generalize (partial_cmp_cases a va b vb). rewrite H. unfold partial_cmp_post.
    intros [_ [_ [H1 H2]]]. split; assumption.
  Qed.

  Theorem partial_cmp_spec a va b vb :
    (partial_cmp a va b vb = None <-> ~ le_all a va b vb /\ ~ le_all b vb a va) /\
    ((exists o, partial_cmp a va b vb = Some {| d_ord := Lt; d_ovd := o |})
       <-> le_all a va b vb /\ ~ le_all b vb a va) /\
    ((exists o, partial_cmp a va b vb = Some {| d_ord := Gt; d_ovd := o |})
       <-> le_all b vb a va /\ ~ le_all a va b vb) /\
    ((exists o, partial_cmp a va b vb = Some {| d_ord := Eq; d_ovd := o |})
       <-> le_all a va b vb /\ le_all b vb a va).
  Proof.
    split; [apply partial_cmp_None_iff|]. split; [apply partial_cmp_Lt_iff|].
    split; [apply partial_cmp_Gt_iff | apply partial_cmp_Eq_iff].
  Qed.

  (** characterisation of [d_ovd] (only_val_diff) *)
  Lemma partial_cmp_Lt_ovd_true a va b vb :
    partial_cmp a va b vb = Some {| d_ord := Lt; d_ovd := true |} ->
    use_value = true /\ coords_eq a b /\ va < vb.
  Proof.
    intros H. generalize (partial_cmp_cases a va b vb). rewrite H. unfold partial_cmp_post.
    intros [_ [_ [H1 _]]]. exact (H1 eq_refl).
  Qed.

  Lemma partial_cmp_Lt_ovd_false a va b vb :
    partial_cmp a va b vb = Some {| d_ord := Lt; d_ovd := false |} ->
    coord_lt a b /\ (use_value = true -> va <= vb).
  Proof.
    intros H. generalize (partial_cmp_cases a va b vb). rewrite H. unfold partial_cmp_post.
    intros [[_ H0] [_ [_ H1]]]. split; [exact (H1 eq_refl) | exact H0].
  Qed.

  Lemma partial_cmp_Gt_ovd_true a va b vb :
    partial_cmp a va b vb = Some {| d_ord := Gt; d_ovd := true |} ->
    use_value = true /\ coords_eq a b /\ vb < va.
  Proof.
    intros H. generalize (partial_cmp_cases a va b vb). rewrite H. unfold partial_cmp_post.
    intros [_ [_ [H1 _]]]. exact (H1 eq_refl).
  Qed.

  Lemma partial_cmp_Gt_ovd_false a va b vb :
    partial_cmp a va b vb = Some {| d_ord := Gt; d_ovd := false |} ->
    coord_lt b a /\ (use_value = true -> vb <= va).
  Proof.
    intros H. generalize (partial_cmp_cases a va b vb). rewrite H. unfold partial_cmp_post.
    intros [[_ H0] [_ [_ H1]]]. split; [exact (H1 eq_refl) | exact H0].
  Qed.

  (** incomparability is symmetric *)
  Lemma partial_cmp_None_sym a va b vb :
    partial_cmp a va b vb = None -> partial_cmp b vb a va = None.
  Proof.
    intros H. apply partial_cmp_None_iff in H. apply partial_cmp_None_iff.
    destruct H as [H1 H2]. split; assumption.
  Qed.

  (* ================================================================== *)
  (** * 2. [Dominance::cmp] ranks a dominator after the dominated state  *)
  (* ================================================================== *)

  Lemma cmp_loop_lt a b is : leL a b is -> ltE a b is -> cmp_loop a b is = Lt.
  Proof.
    induction is as [|i is IH]; intros Hle Hlt.
    - exfalso. exact (ltE_nil a b Hlt).
    - cbn [Dom.cmp_loop]. apply leL_cons in Hle. destruct Hle as [Hi Hle].
      apply ltE_cons in Hlt. unfold Zcmp.
      destruct (Z.compare_spec (coord a i) (coord b i)) as [Hc | Hc | Hc].
      + apply IH; [exact Hle|]. destruct Hlt as [Hlt | Hlt]; [lia | exact Hlt].
      + reflexivity.
      + lia.
  Qed.

  Lemma partial_cmp_Lt_le a va b vb o :
    partial_cmp a va b vb = Some {| d_ord := Lt; d_ovd := o |} ->
    le_all a va b vb /\ ~ le_all b vb a va.
  Proof. intros H. apply partial_cmp_Lt_iff. exists o. exact H. Qed.

  Lemma partial_cmp_Gt_le a va b vb o :
    partial_cmp a va b vb = Some {| d_ord := Gt; d_ovd := o |} ->
    le_all b vb a va /\ ~ le_all a va b vb.
  Proof. intros H. apply partial_cmp_Gt_iff. exists o. exact H. Qed.

  Lemma partial_cmp_Eq_le a va b vb o :
    partial_cmp a va b vb = Some {| d_ord := Eq; d_ovd := o |} ->
    le_all a va b vb /\ le_all b vb a va.
  Proof. intros H. apply partial_cmp_Eq_iff. exists o. exact H. Qed.

  Theorem cmp_ranks_dominator_first a va b vb o :
    partial_cmp a va b vb = Some {| d_ord := Lt; d_ovd := o |} -> dcmp a va b vb = Lt.
  Proof.
    intros H. unfold Dom.dcmp. destruct o.
    - apply partial_cmp_Lt_ovd_true in H. destruct H as [Hu [_ Hlt]].
      rewrite Hu. unfold Zcmp. rewrite (proj2 (Z.compare_lt_iff va vb) Hlt). reflexivity.
    - destruct (partial_cmp_Lt_le _ _ _ _ _ H) as [[Hle Hv] _].
      apply partial_cmp_Lt_ovd_false in H. destruct H as [[i [Hi Hlt]] _].
      assert (Hcl : cmp_loop a b (seq 0 nd) = Lt).
      { apply cmp_loop_lt.
        - intros j Hj. apply in_seq0 in Hj. apply Hle. exact Hj.
        - exists i. split; [apply in_seq0; exact Hi | exact Hlt]. }
      rewrite Hcl. destruct use_value eqn:Hu; [|reflexivity].
      specialize (Hv eq_refl). unfold Zcmp.
      destruct (Z.compare_spec va vb) as [Hc | Hc | Hc]; [reflexivity | reflexivity | lia].
  Qed.

  (* ================================================================== *)
  (** * 3. Verdict of one query on a bucket                              *)
  (* ================================================================== *)

  Definition pc_is_lt (s : St) (v : Z) (e : entry) : bool :=
    match partial_cmp s v (fst e) (snd e) with
    | Some {| d_ord := Lt |} => true
    | _ => false
    end.
  (** entries that [Vec::retain] keeps: incomparable ones and dominators of the query *)
  Definition pc_keep (s : St) (v : Z) (e : entry) : bool :=
    match partial_cmp s v (fst e) (snd e) with
    | None => true
    | Some {| d_ord := Lt |} => true
    | Some _ => false
    end.
  Definition pc_incomp (s : St) (v : Z) (e : entry) : bool :=
    match partial_cmp s v (fst e) (snd e) with
    | None => true
    | Some _ => false
    end.
  (** one update of the running threshold *)
  Definition thr_step (s : St) (v : Z) (t : option Z) (e : entry) : option Z :=
    match partial_cmp s v (fst e) (snd e) with
    | Some {| d_ord := Lt; d_ovd := ovd |} =>
        if use_value then (if ovd then omin t (sat_sub (snd e) 1) else omin t (snd e)) else t
    | _ => t
    end.

  Lemma retain_loop_spec s v es : forall d t,
    retain_loop s v es d t =
    (filter (pc_keep s v) es, d || existsb (pc_is_lt s v) es, fold_left (thr_step s v) es t).
  Proof.
    induction es as [|[os ov] es IH]; intros d t.
    - cbn [Dom.retain_loop filter existsb fold_left]. rewrite orb_false_r. reflexivity.
    - cbn [Dom.retain_loop filter existsb fold_left].
      unfold pc_keep at 1, pc_is_lt at 1, thr_step at 2. cbn [fst snd].
      destruct (partial_cmp s v os ov) as [[[| |] o]|].
      + rewrite IH. rewrite orb_false_l. reflexivity.
      + rewrite IH. rewrite orb_true_l, orb_true_r. reflexivity.
      + rewrite IH. rewrite orb_false_l. reflexivity.
      + rewrite IH. rewrite orb_false_l. reflexivity.
  Qed.

  Lemma bucket_query_eq s v es :
    bucket_query s v es =
    if existsb (pc_is_lt s v) es
    then (filter (pc_keep s v) es,
          {| dc_dominated := true; dc_threshold := fold_left (thr_step s v) es (Some IMAX) |})
    else (filter (pc_keep s v) es ++ [(s, v)], {| dc_dominated := false; dc_threshold := None |}).
  Proof.
    unfold Dom.bucket_query. rewrite retain_loop_spec. rewrite orb_false_l. reflexivity.
  Qed.

  Lemma existsb_pc_is_lt s v es :
    existsb (pc_is_lt s v) es = true <->
    exists os ov o, In (os, ov) es /\ partial_cmp s v os ov = Some {| d_ord := Lt; d_ovd := o |}.
  Proof.
    rewrite existsb_exists. split.
    - intros [[os ov] [Hin Hlt]]. unfold pc_is_lt in Hlt. cbn [fst snd] in Hlt.
      destruct (partial_cmp s v os ov) as [[[| |] o]|] eqn:E; try discriminate.
      exists os, ov, o. split; [exact Hin | exact E].
    - intros [os [ov [o [Hin Hpc]]]]. exists (os, ov). split; [exact Hin|].
      unfold pc_is_lt. cbn [fst snd]. rewrite Hpc. reflexivity.
  Qed.

  Lemma keep_is_incomp_when_not_dominated s v es :
    existsb (pc_is_lt s v) es = false -> filter (pc_keep s v) es = filter (pc_incomp s v) es.
  Proof.
    intros H. apply filter_ext_in. intros e He.
    assert (Hlt : pc_is_lt s v e = false).
    { destruct (pc_is_lt s v e) eqn:E; [|reflexivity].
      assert (Hex : existsb (pc_is_lt s v) es = true).
      { apply existsb_exists. exists e. split; assumption. }
      congruence. }
    unfold pc_is_lt in Hlt. unfold pc_keep, pc_incomp.
    destruct (partial_cmp s v (fst e) (snd e)) as [[[| |] o]|]; try reflexivity; discriminate.
  Qed.

  Theorem bucket_query_verdict s v es es' r :
    bucket_query s v es = (es', r) ->
    (dc_dominated r = true <->
       exists os ov o, In (os, ov) es /\
                       partial_cmp s v os ov = Some {| d_ord := Lt; d_ovd := o |}) /\
    (dc_dominated r = false ->
       es' = filter (pc_incomp s v) es ++ [(s, v)] /\ dc_threshold r = None) /\
    (dc_dominated r = true ->
       es' = filter (pc_keep s v) es /\
       dc_threshold r = fold_left (thr_step s v) es (Some IMAX)).
  Proof.
    rewrite bucket_query_eq. rewrite <- existsb_pc_is_lt.
    destruct (existsb (pc_is_lt s v) es) eqn:E; intros H; inversion H; subst es' r; cbn [dc_dominated dc_threshold].
    - split; [tauto|]. split; [discriminate|]. intros _. split; reflexivity.
    - split; [tauto|]. split; [|discriminate]. intros _.
      rewrite (keep_is_incomp_when_not_dominated s v es E). split; reflexivity.
  Qed.

  (** readable membership form: what is kept / dropped *)
  Lemma pc_keep_true_iff s v e :
    pc_keep s v e = true <->
    partial_cmp s v (fst e) (snd e) = None \/
    exists o, partial_cmp s v (fst e) (snd e) = Some {| d_ord := Lt; d_ovd := o |}.
  Proof.
    unfold pc_keep. destruct (partial_cmp s v (fst e) (snd e)) as [[[| |] o]|]; split;
      try discriminate; try (intros [H | [o' H]]; discriminate).
    - intros _. right. exists o. reflexivity.
    - reflexivity.
    - intros _. left. reflexivity.
    - reflexivity.
  Qed.

  Lemma pc_incomp_true_iff s v e :
    pc_incomp s v e = true <-> partial_cmp s v (fst e) (snd e) = None.
  Proof.
    unfold pc_incomp. destruct (partial_cmp s v (fst e) (snd e)); split; try discriminate; reflexivity.
  Qed.

  (* ================================================================== *)
  (** * 4. The bucket is an antichain                                    *)
  (* ================================================================== *)

  Definition epc (e1 e2 : entry) : option dres := partial_cmp (fst e1) (snd e1) (fst e2) (snd e2).
  Definition ele (e1 e2 : entry) : Prop := le_all (fst e1) (snd e1) (fst e2) (snd e2).
  Definition incomp2 (e1 e2 : entry) : Prop := epc e1 e2 = None /\ epc e2 e1 = None.

  (** any two entries at distinct positions are incomparable (in both directions) *)
  Definition antichain (es : bucket) : Prop :=
    forall i j e1 e2, i <> j -> nth_error es i = Some e1 -> nth_error es j = Some e2 ->
                      incomp2 e1 e2.

  Fixpoint antichainF (es : bucket) : Prop :=
    match es with
    | [] => True
    | e :: es' => (forall e', In e' es' -> incomp2 e e') /\ antichainF es'
    end.

  Lemma incomp2_sym e1 e2 : incomp2 e1 e2 -> incomp2 e2 e1.
  Proof. intros [H1 H2]. split; assumption. Qed.

  Lemma antichain_iff_F es : antichain es <-> antichainF es.
  Proof.
    induction es as [|e es IH].
    - split; [intros _; exact I|]. intros _ [|i] j e1 e2 _ H; discriminate.
    - cbn [antichainF]. split.
      + intros H. split.
        * intros e' Hin. apply In_nth_error in Hin. destruct Hin as [j Hj].
          apply (H 0%nat (S j) e e'); [discriminate | reflexivity | exact Hj].
        * apply IH. intros i j e1 e2 Hij H1 H2.
          apply (H (S i) (S j) e1 e2); [congruence | exact H1 | exact H2].
      + intros [Hhd Htl]. apply IH in Htl. intros [|i] [|j] e1 e2 Hij H1 H2.
        * congruence.
        * cbn [nth_error] in H1, H2. inversion H1; subst e1.
          apply Hhd. apply nth_error_In with (n := j). exact H2.
        * cbn [nth_error] in H1, H2. inversion H2; subst e2.
          apply incomp2_sym. apply Hhd. apply nth_error_In with (n := i). exact H1.
        * cbn [nth_error] in H1, H2. apply (Htl i j e1 e2); [congruence | exact H1 | exact H2].
  Qed.

  Lemma antichain_nil : antichain [].
  Proof. apply antichain_iff_F. exact I. Qed.

  Lemma antichainF_filter f es : antichainF es -> antichainF (filter f es).
  Proof.
    induction es as [|e es IH]; [intros _; exact I|].
    cbn [antichainF filter]. intros [Hhd Htl]. destruct (f e).
    - cbn [antichainF]. split; [|apply IH; exact Htl].
      intros e' Hin. apply filter_In in Hin. apply Hhd. apply Hin.
    - apply IH; exact Htl.
  Qed.

  Lemma antichainF_snoc es x :
    antichainF es -> (forall e, In e es -> incomp2 e x) -> antichainF (es ++ [x]).
  Proof.
    induction es as [|e es IH]; intros Ha Hx.
    - cbn [app antichainF]. split; [intros e' []| exact I].
    - cbn [app antichainF] in *. destruct Ha as [Hhd Htl]. split.
      + intros e' Hin. apply in_app_or in Hin. destruct Hin as [Hin | [Hin | []]].
        * apply Hhd; exact Hin.
        * subst e'. apply Hx. left; reflexivity.
      + apply IH; [exact Htl|]. intros e' Hin. apply Hx. right; exact Hin.
  Qed.

  Lemma filter_all_true {A} (f : A -> bool) (l : list A) :
    (forall x, In x l -> f x = true) -> filter f l = l.
  Proof.
    induction l as [|x l IH]; intros H; [reflexivity|].
    cbn [filter]. rewrite (H x (or_introl eq_refl)). f_equal. apply IH.
    intros y Hy. apply H. right; exact Hy.
  Qed.

  Theorem bucket_query_antichain s v es es' r :
    antichain es -> bucket_query s v es = (es', r) -> antichain es'.
  Proof.
    intros Ha Hq. apply antichain_iff_F. apply antichain_iff_F in Ha.
    destruct (bucket_query_verdict s v es es' r Hq) as [_ [Hf Ht]].
    destruct (dc_dominated r).
    - destruct (Ht eq_refl) as [He _]. subst es'. apply antichainF_filter. exact Ha.
    - destruct (Hf eq_refl) as [He _]. subst es'.
      apply antichainF_snoc; [apply antichainF_filter; exact Ha|].
      intros e Hin. apply filter_In in Hin. destruct Hin as [_ Hk].
      apply pc_incomp_true_iff in Hk. unfold incomp2, epc. cbn [fst snd].
      split; [apply partial_cmp_None_sym; exact Hk | exact Hk].
  Qed.

  (** buckets reachable from [[]] are antichains *)
  Fixpoint bucket_after_from (es : bucket) (qs : list entry) : bucket :=
    match qs with
    | [] => es
    | q :: qs' => bucket_after_from (fst (bucket_query (fst q) (snd q) es)) qs'
    end.

  Corollary reachable_bucket_antichain qs : antichain (bucket_after_from [] qs).
  Proof.
    assert (H : forall es, antichain es -> antichain (bucket_after_from es qs)).
    { induction qs as [|q qs IH]; intros es Ha; [exact Ha|].
      cbn [bucket_after_from]. apply IH.
      destruct (bucket_query (fst q) (snd q) es) as [es' r] eqn:E.
      cbn [fst]. exact (bucket_query_antichain _ _ _ _ _ Ha E). }
    apply H. apply antichain_nil.
  Qed.

  (** under the antichain invariant a dominated verdict drops nothing *)
  Theorem dominated_drops_nothing s v es es' r :
    antichain es -> bucket_query s v es = (es', r) -> dc_dominated r = true -> es' = es.
  Proof.
    intros Ha Hq Hd.
    destruct (bucket_query_verdict s v es es' r Hq) as [Hiff [_ Ht]].
    destruct (Ht Hd) as [He _]. subst es'.
    apply Hiff in Hd. destruct Hd as [os [ov [o [Hin0 Hlt0]]]].
    apply filter_all_true. intros e Hin.
    destruct (pc_keep s v e) eqn:Hk; [reflexivity|]. exfalso.
    (* e is below (s,v), which is strictly below (os,ov) *)
    assert (Hle : le_all (fst e) (snd e) s v).
    { unfold pc_keep in Hk.
      destruct (partial_cmp s v (fst e) (snd e)) as [[[| |] o']|] eqn:Epc; try discriminate.
      - apply (partial_cmp_Eq_le _ _ _ _ _ Epc).
      - apply (partial_cmp_Gt_le _ _ _ _ _ Epc). }
    destruct (partial_cmp_Lt_le _ _ _ _ _ Hlt0) as [Hle0 Hnle0].
    apply In_nth_error in Hin. destruct Hin as [i Hi].
    apply In_nth_error in Hin0. destruct Hin0 as [j Hj].
    destruct (Nat.eq_dec i j) as [Hij | Hij].
    - rewrite Hij in Hi. assert (Heq : Some e = Some (os, ov)). { rewrite <- Hi. exact Hj. }
      inversion Heq; subst e. cbn [fst snd] in Hle.
      exact (Hnle0 Hle).
    - destruct (Ha i j e (os, ov) Hij Hi Hj) as [Hn _].
      unfold epc in Hn. cbn [fst snd] in Hn. apply partial_cmp_None_iff in Hn.
      destruct Hn as [Hn _]. apply Hn.
      exact (le_all_trans _ _ _ _ _ _ Hle Hle0).
  Qed.

  (* ================================================================== *)
  (** * 5. Pareto-front semantics over histories                         *)
  (* ================================================================== *)

  (** all queries go to one bucket (same key, same depth) *)
  Definition hstep (acc : bucket * list dcheck) (q : entry) : bucket * list dcheck :=
    let '(es', r) := bucket_query (fst q) (snd q) (fst acc) in (es', snd acc ++ [r]).
  Definition run_queries (qs : list entry) : bucket * list dcheck := fold_left hstep qs ([], []).
  Definition bucket_after (qs : list entry) : bucket := fst (run_queries qs).
  Definition verdicts (qs : list entry) : list dcheck := snd (run_queries qs).

  (** (s',v') strictly dominates (s,v): at least as good everywhere, better somewhere *)
  Definition strictly_dominates (e' e : entry) : Prop := ele e e' /\ ~ ele e' e.

  Definition hist_inv (qs : list entry) (es : bucket) : Prop :=
    antichain es /\
    (forall e, In e es -> In e qs) /\
    (forall q, In q qs -> exists e, In e es /\ ele q e).

  Lemma hist_inv_nil : hist_inv [] [].
  Proof.
    split; [apply antichain_nil|]. split; [intros e []| intros q []].
  Qed.

  Lemma hist_inv_step qs es s v es' r :
    hist_inv qs es -> bucket_query s v es = (es', r) -> hist_inv (qs ++ [(s, v)]) es'.
  Proof.
    intros [Ha [Hsub Hcov]] Hq.
    split; [exact (bucket_query_antichain _ _ _ _ _ Ha Hq)|].
    destruct (bucket_query_verdict s v es es' r Hq) as [Hiff [Hf _]].
    destruct (dc_dominated r) eqn:Hd.
    - (* dominated: nothing changes *)
      pose proof (dominated_drops_nothing _ _ _ _ _ Ha Hq Hd) as He. subst es'.
      split.
      + intros e Hin. apply in_or_app. left. apply Hsub. exact Hin.
      + intros q Hin. apply in_app_or in Hin. destruct Hin as [Hin | [Hin | []]].
        * apply Hcov. exact Hin.
        * subst q. destruct (proj1 Hiff eq_refl) as [os [ov [o [Hin0 Hlt0]]]].
          exists (os, ov). split; [exact Hin0|].
          unfold ele. cbn [fst snd]. apply (partial_cmp_Lt_le _ _ _ _ _ Hlt0).
    - (* recorded: entries below the query are replaced by it *)
      destruct (Hf eq_refl) as [He _]. subst es'.
      split.
      + intros e Hin. apply in_app_or in Hin. apply in_or_app.
        destruct Hin as [Hin | Hin]; [left | right; exact Hin].
        apply filter_In in Hin. apply Hsub. apply Hin.
      + intros q Hin. apply in_app_or in Hin. destruct Hin as [Hin | [Hin | []]].
        * destruct (Hcov q Hin) as [e [Hine Hqe]].
          destruct (pc_incomp s v e) eqn:Hk.
          -- exists e. split; [|exact Hqe]. apply in_or_app. left.
             apply filter_In. split; assumption.
          -- exists (s, v). split; [apply in_or_app; right; left; reflexivity|].
             assert (Hes : ele e (s, v)).
             { unfold ele. cbn [fst snd]. unfold pc_incomp in Hk.
               destruct (partial_cmp s v (fst e) (snd e)) as [[[| |] o']|] eqn:Epc; try discriminate.
               - apply (partial_cmp_Eq_le _ _ _ _ _ Epc).
               - exfalso. assert (Hex : false = true).
                 { apply Hiff. exists (fst e), (snd e), o'. split; [|exact Epc].
                   destruct e; exact Hine. }
                 discriminate.
               - apply (partial_cmp_Gt_le _ _ _ _ _ Epc). }
             unfold ele in *. exact (le_all_trans _ _ _ _ _ _ Hqe Hes).
        * subst q. exists (s, v). split; [apply in_or_app; right; left; reflexivity|].
          unfold ele. apply le_all_refl.
  Qed.

  Lemma run_queries_snoc qs q : run_queries (qs ++ [q]) = hstep (run_queries qs) q.
  Proof. unfold run_queries. rewrite fold_left_app. reflexivity. Qed.

  Lemma hist_inv_run qs : hist_inv qs (bucket_after qs).
  Proof.
    induction qs as [|q qs IH] using rev_ind.
    - exact hist_inv_nil.
    - unfold bucket_after. rewrite run_queries_snoc. unfold hstep.
      destruct (bucket_query (fst q) (snd q) (fst (run_queries qs))) as [es' r] eqn:E.
      cbn [fst]. destruct q as [s v]. cbn [fst snd] in E.
      exact (hist_inv_step _ _ _ _ _ _ IH E).
  Qed.

  (** every bucket reachable from the empty one (fold_left form) is an antichain *)
  Corollary bucket_after_antichain qs : antichain (bucket_after qs).
  Proof. apply (hist_inv_run qs). Qed.

  (** one step, from any bucket satisfying the invariant *)
  Lemma pareto_front_step qs es s v :
    hist_inv qs es ->
    (dc_dominated (snd (bucket_query s v es)) = true <->
     exists q, In q qs /\ strictly_dominates q (s, v)).
  Proof.
    intros [Ha [Hsub Hcov]].
    destruct (bucket_query s v es) as [es' r] eqn:Hq. cbn [snd].
    destruct (bucket_query_verdict s v es es' r Hq) as [Hiff _].
    rewrite Hiff. split.
    - intros [os [ov [o [Hin Hlt]]]]. exists (os, ov). split; [apply Hsub; exact Hin|].
      unfold strictly_dominates, ele. cbn [fst snd]. exact (partial_cmp_Lt_le _ _ _ _ _ Hlt).
    - intros [q [Hin [Hle Hnle]]]. destruct (Hcov q Hin) as [[os ov] [Hine Hqe]].
      unfold ele in *. cbn [fst snd] in *.
      assert (Hlt : exists o, partial_cmp s v os ov = Some {| d_ord := Lt; d_ovd := o |}).
      { apply partial_cmp_Lt_iff. split.
        - exact (le_all_trans _ _ _ _ _ _ Hle Hqe).
        - intros Hback. apply Hnle. exact (le_all_trans _ _ _ _ _ _ Hqe Hback). }
      destruct Hlt as [o Hlt]. exists os, ov, o. split; assumption.
  Qed.

  (** the verdict list lines up with the query list *)
  Lemma fold_hstep_snd qs : forall acc,
    exists rs, snd (fold_left hstep qs acc) = snd acc ++ rs /\ length rs = length qs.
  Proof.
    induction qs as [|q qs IH]; intros acc.
    - exists []. cbn [fold_left]. rewrite app_nil_r. split; reflexivity.
    - cbn [fold_left]. destruct (IH (hstep acc q)) as [rs [Hrs Hlen]].
      assert (Hs : exists r, snd (hstep acc q) = snd acc ++ [r]).
      { unfold hstep. destruct (bucket_query (fst q) (snd q) (fst acc)) as [es' r].
        exists r. reflexivity. }
      destruct Hs as [r Hs]. rewrite Hs in Hrs.
      exists (r :: rs). rewrite Hrs. rewrite <- app_assoc. cbn [app length]. split; congruence.
  Qed.

  Lemma verdicts_length qs : length (verdicts qs) = length qs.
  Proof.
    unfold verdicts, run_queries. destruct (fold_hstep_snd qs ([], [])) as [rs [Hrs Hlen]].
    rewrite Hrs. cbn [snd app]. exact Hlen.
  Qed.

  Lemma verdicts_nth qs1 q qs2 :
    nth_error (verdicts (qs1 ++ q :: qs2)) (length qs1) =
    Some (snd (bucket_query (fst q) (snd q) (bucket_after qs1))).
  Proof.
    unfold verdicts, run_queries. rewrite fold_left_app. cbn [fold_left].
    fold (run_queries qs1).
    destruct (fold_hstep_snd qs2 (hstep (run_queries qs1) q)) as [rs [Hrs _]].
    rewrite Hrs. unfold hstep, bucket_after.
    destruct (bucket_query (fst q) (snd q) (fst (run_queries qs1))) as [es' r]. cbn [snd].
    fold (verdicts qs1). rewrite <- app_assoc. cbn [app].
    rewrite nth_error_app2; rewrite verdicts_length; [|lia].
    rewrite Nat.sub_diag. reflexivity.
  Qed.

  (** Main theorem, prefix form: the verdict on the query presented after the prefix [qs1]
      is "dominated" iff some previously presented query (recorded or not) strictly
      dominates it. *)
  Theorem pareto_front_history qs1 s v :
    dc_dominated (snd (bucket_query s v (bucket_after qs1))) = true <->
    exists s' v', In (s', v') qs1 /\ le_all s v s' v' /\ ~ le_all s' v' s v.
  Proof.
    rewrite (pareto_front_step qs1 (bucket_after qs1) s v (hist_inv_run qs1)).
    split.
    - intros [[s' v'] [Hin [H1 H2]]]. exists s', v'. split; [exact Hin|].
      unfold ele in *. cbn [fst snd] in *. split; assumption.
    - intros [s' [v' [Hin [H1 H2]]]]. exists (s', v'). split; [exact Hin|].
      unfold strictly_dominates, ele. cbn [fst snd]. split; assumption.
  Qed.

  (** Main theorem, indexed form over the whole run *)
  Theorem pareto_front_semantics qs n s v r :
    nth_error qs n = Some (s, v) ->
    nth_error (verdicts qs) n = Some r ->
    (dc_dominated r = true <->
     exists m s' v', (m < n)%nat /\ nth_error qs m = Some (s', v') /\
                     le_all s v s' v' /\ ~ le_all s' v' s v).
  Proof.
    intros Hq Hr. apply nth_error_split in Hq. destruct Hq as [qs1 [qs2 [Hqs Hlen]]].
    subst qs n. rewrite verdicts_nth in Hr. cbn [fst snd] in Hr. inversion Hr; subst r.
    rewrite pareto_front_history. split.
    - intros [s' [v' [Hin Hdom]]]. apply In_nth_error in Hin. destruct Hin as [m Hm].
      assert (Hlt : (m < length qs1)%nat). { apply nth_error_Some. congruence. }
      exists m, s', v'. split; [exact Hlt|]. split; [|exact Hdom].
      rewrite nth_error_app1; assumption.
    - intros [m [s' [v' [Hlt [Hm Hdom]]]]]. exists s', v'. split; [|exact Hdom].
      rewrite nth_error_app1 in Hm; [|exact Hlt]. apply nth_error_In with (n := m). exact Hm.
  Qed.

  (* ================================================================== *)
  (** * 6. Threshold soundness                                           *)
  (* ================================================================== *)

  (** contribution of one dominating entry to the threshold *)
  Definition thr_contrib (ov : Z) (ovd : bool) : Z := if ovd then sat_sub ov 1 else ov.

  Lemma fold_thr_spec s v es : forall t0,
    exists t, fold_left (thr_step s v) es (Some t0) = Some t /\
      t <= t0 /\
      (use_value = false -> t = t0) /\
      (forall os ov o, In (os, ov) es ->
         partial_cmp s v os ov = Some {| d_ord := Lt; d_ovd := o |} ->
         use_value = true -> t <= thr_contrib ov o) /\
      (forall lb, lb <= t0 ->
         (forall os ov o, In (os, ov) es ->
            partial_cmp s v os ov = Some {| d_ord := Lt; d_ovd := o |} -> lb <= thr_contrib ov o) ->
         lb <= t).
  Proof.
    induction es as [|[os ov] es IH]; intros t0.
    - exists t0. cbn [fold_left]. split; [reflexivity|]. split; [lia|]. split; [reflexivity|].
      split; [intros os ov o []|]. intros lb Hlb _. exact Hlb.
    - cbn [fold_left]. unfold thr_step at 2. cbn [fst snd].
      destruct (partial_cmp s v os ov) as [[[| |] o]|] eqn:Epc.
      + destruct (IH t0) as [t [H1 [H2 [H3 [H4 H5]]]]]. exists t.
        split; [exact H1|]. split; [exact H2|]. split; [exact H3|]. split.
        * intros os' ov' o' [Heq | Hin] Hpc Hu; [inversion Heq; subst os' ov'; congruence|].
          exact (H4 os' ov' o' Hin Hpc Hu).
        * intros lb Hlb Hall. apply H5; [exact Hlb|]. intros os' ov' o' Hin Hpc.
          apply (Hall os' ov' o'); [right; exact Hin | exact Hpc].
      + destruct use_value eqn:Hu.
        * assert (Hstep : (if o then omin (Some t0) (sat_sub ov 1) else omin (Some t0) ov)
                          = Some (Z.min t0 (thr_contrib ov o))).
          { unfold thr_contrib. destruct o; reflexivity. }
          rewrite Hstep.
          destruct (IH (Z.min t0 (thr_contrib ov o))) as [t [H1 [H2 [H3 [H4 H5]]]]]. exists t.
          split; [exact H1|]. split; [lia|]. split; [discriminate|]. split.
          -- intros os' ov' o' [Heq | Hin] Hpc _.
             ++ inversion Heq; subst os' ov'. rewrite Epc in Hpc. inversion Hpc; subst o'. lia.
             ++ exact (H4 os' ov' o' Hin Hpc eq_refl).
          -- intros lb Hlb Hall. apply H5.
             ++ pose proof (Hall os ov o (or_introl eq_refl) Epc). lia.
             ++ intros os' ov' o' Hin Hpc. apply (Hall os' ov' o'); [right; exact Hin | exact Hpc].
        * destruct (IH t0) as [t [H1 [H2 [H3 [H4 H5]]]]]. exists t.
          split; [exact H1|]. split; [exact H2|]. split; [exact H3|]. split.
          -- intros os' ov' o' _ _ Hu'. discriminate.
          -- intros lb Hlb Hall. rewrite (H3 eq_refl). exact Hlb.
      + destruct (IH t0) as [t [H1 [H2 [H3 [H4 H5]]]]]. exists t.
        split; [exact H1|]. split; [exact H2|]. split; [exact H3|]. split.
        * intros os' ov' o' [Heq | Hin] Hpc Hu; [inversion Heq; subst os' ov'; congruence|].
          exact (H4 os' ov' o' Hin Hpc Hu).
        * intros lb Hlb Hall. apply H5; [exact Hlb|]. intros os' ov' o' Hin Hpc.
          apply (Hall os' ov' o'); [right; exact Hin | exact Hpc].
      + destruct (IH t0) as [t [H1 [H2 [H3 [H4 H5]]]]]. exists t.
        split; [exact H1|]. split; [exact H2|]. split; [exact H3|]. split.
        * intros os' ov' o' [Heq | Hin] Hpc Hu; [inversion Heq; subst os' ov'; congruence|].
          exact (H4 os' ov' o' Hin Hpc Hu).
        * intros lb Hlb Hall. apply H5; [exact Hlb|]. intros os' ov' o' Hin Hpc.
          apply (Hall os' ov' o'); [right; exact Hin | exact Hpc].
  Qed.

  Lemma clampZ_le_self z : IMIN <= z -> clampZ z <= z.
  Proof.
    intros H. unfold clampZ.
    destruct (z >? IMAX) eqn:E1; [rewrite Z.gtb_ltb in E1; apply Z.ltb_lt in E1; lia|].
    destruct (z <? IMIN) eqn:E2; [apply Z.ltb_lt in E2; lia | lia].
  Qed.

  (** a dominating entry and its contribution: the query's value is at most the
      contribution, and any value at most the contribution is still dominated by it *)
  Lemma thr_contrib_sound s v os ov o :
    in_isize v ->
    partial_cmp s v os ov = Some {| d_ord := Lt; d_ovd := o |} ->
    use_value = true ->
    v <= thr_contrib ov o /\
    forall v', v' <= thr_contrib ov o ->
               exists o', partial_cmp s v' os ov = Some {| d_ord := Lt; d_ovd := o' |}.
  Proof.
    intros Hv Hpc Hu. destruct (partial_cmp_Lt_le _ _ _ _ _ Hpc) as [[Hlec Hlev] _].
    specialize (Hlev Hu). unfold thr_contrib. destruct o.
    - apply partial_cmp_Lt_ovd_true in Hpc. destruct Hpc as [_ [Hce Hlt]].
      assert (Hmin : IMIN <= ov - 1). { unfold in_isize in Hv. lia. }
      split.
      + unfold sat_sub. rewrite <- (clampZ_id v Hv). apply clampZ_mono. lia.
      + intros v' Hv'. apply partial_cmp_Lt_iff.
        pose proof (clampZ_le_self (ov - 1) Hmin) as Hcl. unfold sat_sub in Hv'.
        split.
        * split; [exact Hlec | intros _; lia].
        * intros [_ Hback]. specialize (Hback Hu). lia.
    - apply partial_cmp_Lt_ovd_false in Hpc. destruct Hpc as [Hclt _].
      split; [exact Hlev|].
      intros v' Hv'. apply partial_cmp_Lt_iff. split.
      + split; [exact Hlec | intros _; exact Hv'].
      + apply coord_lt_not_le. exact Hclt.
  Qed.

  (** Only [in_isize v] is needed; the recorded values may be arbitrary. *)
  Theorem threshold_sound s v es es' r :
    in_isize v ->
    bucket_query s v es = (es', r) ->
    dc_dominated r = true ->
    (use_value = true ->
       exists t, dc_threshold r = Some t /\ v <= t /\ t <= IMAX /\
                 forall v', v' <= t -> dc_dominated (snd (bucket_query s v' es)) = true) /\
    (use_value = false -> dc_threshold r = Some IMAX).
  Proof.
    intros Hv Hq Hd.
    destruct (bucket_query_verdict s v es es' r Hq) as [Hiff [_ Ht]].
    destruct (Ht Hd) as [_ Hthr]. apply Hiff in Hd.
    destruct Hd as [os [ov [o [Hin Hpc]]]].
    destruct (fold_thr_spec s v es IMAX) as [t [H1 [H2 [H3 [H4 H5]]]]].
    rewrite H1 in Hthr. split.
    - intros Hu. exists t. split; [exact Hthr|]. split; [|split; [exact H2|]].
      + apply H5; [unfold in_isize in Hv; lia|].
        intros os' ov' o' Hin' Hpc'.
        apply (thr_contrib_sound s v os' ov' o' Hv Hpc' Hu).
      + intros v' Hv'.
        destruct (thr_contrib_sound s v os ov o Hv Hpc Hu) as [_ Hall].
        specialize (H4 os ov o Hin Hpc Hu).
        destruct (Hall v') as [o' Hpc']; [lia|].
        destruct (bucket_query s v' es) as [es'' r'] eqn:Hq'. cbn [snd].
        apply (bucket_query_verdict s v' es es'' r' Hq').
        exists os, ov, o'. split; assumption.
    - intros Hu. rewrite Hthr. rewrite (H3 Hu). reflexivity.
  Qed.

  (** the form asked for: any threshold returned with a dominated verdict is sound *)
  Corollary threshold_sound' s v es es' r t :
    in_isize v -> use_value = true ->
    bucket_query s v es = (es', r) -> dc_dominated r = true -> dc_threshold r = Some t ->
    v <= t /\ forall v', v' <= t -> dc_dominated (snd (bucket_query s v' es)) = true.
  Proof.
    intros Hv Hu Hq Hd Ht.
    destruct (threshold_sound s v es es' r Hv Hq Hd) as [H _].
    destruct (H Hu) as [t' [Ht' [H1 [_ H2]]]]. rewrite Ht in Ht'. inversion Ht'; subst t'.
    split; assumption.
  Qed.

  (** a non-dominated verdict never carries a threshold *)
  Lemma not_dominated_no_threshold s v es es' r :
    bucket_query s v es = (es', r) -> dc_dominated r = false -> dc_threshold r = None.
  Proof.
    intros Hq Hd. destruct (bucket_query_verdict s v es es' r Hq) as [_ [Hf _]].
    apply (Hf Hd).
  Qed.

  (* ================================================================== *)
  (** * 7. Lifting to the whole store                                    *)
  (* ================================================================== *)

  Lemma key_eqb_refl k : key_eqb k k = true.
  Proof. apply key_eqb_spec. reflexivity. Qed.

  Lemma key_eqb_neq a b : a <> b -> key_eqb a b = false.
  Proof.
    intros H. destruct (key_eqb a b) eqn:E; [|reflexivity].
    apply key_eqb_spec in E. contradiction.
  Qed.

  (** a query on a layer is a [bucket_query] on the bucket of its key
      (a missing key behaves as the empty bucket) and leaves other keys alone *)
  Lemma layer_query_spec k s v l :
    forall l' r, layer_query k s v l = (l', r) ->
      (lookup_bucket k l', r) = bucket_query s v (lookup_bucket k l) /\
      (forall k', k' <> k -> lookup_bucket k' l' = lookup_bucket k' l).
  Proof.
    induction l as [|[k0 es] l IH]; intros l' r H.
    - cbn [Dom.layer_query] in H. inversion H; subst l' r. cbn [Dom.lookup_bucket].
      rewrite key_eqb_refl. split.
      + rewrite bucket_query_eq. reflexivity.
      + intros k' Hk'. rewrite key_eqb_neq; [reflexivity|]. congruence.
    - cbn [Dom.layer_query] in H. cbn [Dom.lookup_bucket].
      destruct (key_eqb k0 k) eqn:E.
      + destruct (bucket_query s v es) as [es' r0] eqn:Hq. inversion H; subst l' r.
        cbn [Dom.lookup_bucket]. rewrite E. split; [reflexivity|].
        intros k' Hk'. apply key_eqb_spec in E. subst k0.
        rewrite key_eqb_neq; [reflexivity|]. congruence.
      + destruct (layer_query k s v l) as [l'' r0] eqn:Hl. inversion H; subst l' r.
        cbn [Dom.lookup_bucket]. rewrite E.
        destruct (IH l'' r0 eq_refl) as [H1 H2]. split; [exact H1|].
        intros k' Hk'. destruct (key_eqb k0 k'); [reflexivity|]. apply H2. exact Hk'.
  Qed.

  (** the bucket of key [k] at depth [d]; missing layer / key = empty bucket *)
  Definition store_bucket (st : dstore) (d : nat) (k : Key) : bucket :=
    match nth_error st d with
    | Some l => lookup_bucket k l
    | None => []
    end.

  Lemma store_bucket_of_nth (st : dstore) d l k :
    nth_error st d = Some l -> store_bucket st d k = lookup_bucket k l.
  Proof.
    unfold store_bucket. destruct (nth_error st d) as [l0|]; intros H; inversion H. reflexivity.
  Qed.

  (** states without a key are never dominated and never recorded *)
  Theorem idoi_no_key st s d v :
    get_key s = None ->
    is_dominated_or_insert st s d v = Some (st, {| dc_dominated := false; dc_threshold := None |}).
  Proof. intros H. unfold Dom.is_dominated_or_insert. rewrite H. reflexivity. Qed.

  (** out-of-range depth is the only failure (index panic in the Rust code) *)
  Theorem idoi_None_iff st s d v :
    is_dominated_or_insert st s d v = None <->
    (exists k, get_key s = Some k) /\ (length st <= d)%nat.
  Proof.
    unfold Dom.is_dominated_or_insert. destruct (get_key s) as [k|].
    - destruct (nth_error st d) as [l|] eqn:E.
      + destruct (layer_query k s v l) as [l' r]. split; [discriminate|].
        intros [_ Hlen]. apply nth_error_None in Hlen. congruence.
      + apply nth_error_None in E. split; [|reflexivity].
        intros _. split; [exists k; reflexivity | exact E].
    - split; [discriminate|]. intros [[k Hk] _]. discriminate.
  Qed.

  (** main lifting theorem *)
  Theorem idoi_spec st s d v k st' r :
    get_key s = Some k ->
    is_dominated_or_insert st s d v = Some (st', r) ->
    (store_bucket st' d k, r) = bucket_query s v (store_bucket st d k) /\
    (forall d' k', (d' <> d \/ k' <> k) -> store_bucket st' d' k' = store_bucket st d' k') /\
    length st' = length st.
  Proof.
    intros Hk H. unfold Dom.is_dominated_or_insert in H. rewrite Hk in H.
    destruct (nth_error st d) as [l|] eqn:E; [|discriminate].
    destruct (layer_query k s v l) as [l' r0] eqn:Hl. inversion H; subst st' r.
    destruct (layer_query_spec k s v l l' r0 Hl) as [H1 H2].
    split; [|split].
    - unfold store_bucket.
      rewrite (nth_error_upd_nth_same d (fun _ => l') st l E). rewrite E. exact H1.
    - intros d' k' Hneq. unfold store_bucket.
      destruct (Nat.eq_dec d' d) as [Hd | Hd].
      + subst d'. rewrite (nth_error_upd_nth_same d (fun _ => l') st l E). rewrite E.
        apply H2. destruct Hneq as [Hn | Hn]; [congruence | exact Hn].
      + rewrite nth_error_upd_nth_other; [reflexivity | congruence].
    - apply upd_nth_length.
  Qed.

  (** verdict of the store-level query, read directly *)
  Corollary idoi_verdict st s d v k st' r :
    get_key s = Some k ->
    is_dominated_or_insert st s d v = Some (st', r) ->
    (dc_dominated r = true <->
       exists os ov o, In (os, ov) (store_bucket st d k) /\
                       partial_cmp s v os ov = Some {| d_ord := Lt; d_ovd := o |}).
  Proof.
    intros Hk H. destruct (idoi_spec st s d v k st' r Hk H) as [H1 _].
    symmetry in H1. exact (proj1 (bucket_query_verdict _ _ _ _ _ H1)).
  Qed.

  (** [clear_layer d] empties depth [d] only *)
  Theorem dclear_layer_spec (st : dstore) d :
    (dclear_layer st d = None <-> (length st <= d)%nat) /\
    (forall st', dclear_layer st d = Some st' ->
       nth_error st' d = Some [] /\
       (forall k, store_bucket st' d k = []) /\
       (forall d', d' <> d -> nth_error st' d' = nth_error st d') /\
       (forall d' k, d' <> d -> store_bucket st' d' k = store_bucket st d' k) /\
       length st' = length st).
  Proof.
    unfold Dom.dclear_layer. destruct (nth_error st d) as [l|] eqn:E.
    - split.
      + split; [discriminate|]. intros Hlen. apply nth_error_None in Hlen. congruence.
      + intros st' H. inversion H; subst st'.
        pose proof (nth_error_upd_nth_same d (fun _ : dlayer => []) st l E) as Hsame.
        split; [exact Hsame|]. split; [|split; [|split]].
        * intros k. exact (store_bucket_of_nth _ d [] k Hsame).
        * intros d' Hd'. apply nth_error_upd_nth_other. congruence.
        * intros d' k Hd'. unfold store_bucket.
          rewrite nth_error_upd_nth_other; [reflexivity | congruence].
        * apply upd_nth_length.
    - split.
      + split; [intros _; apply nth_error_None; exact E | reflexivity].
      + intros st' H. discriminate.
  Qed.
End DomProofs.

(* ==================================================================== *)
(** * Concrete sanity checks and remarks                                 *)
(* ==================================================================== *)
(* States are integers with a single coordinate (the integer itself). *)

(** The antichain hypothesis of [dominated_drops_nothing] is necessary: on a bucket that
    is not an antichain (unreachable from [[]]), a dominated verdict does drop the entries
    that the query dominates ([Vec::retain] runs to the end regardless of the verdict). *)
Example dominated_may_drop_without_antichain :
  bucket_query 1 (fun s _ => s) false 3 0 [(1, 0); (5, 0)]
  = ([(5, 0)], {| dc_dominated := true; dc_threshold := Some IMAX |}).
Proof. vm_compute. reflexivity. Qed.

(** Remark on the threshold: it is the MINIMUM of the contributions of all dominating
    entries ([fold_thr_spec]), hence sound ([threshold_sound]) but not the largest sound
    value.  Here the bucket [(5,20); (7,10)] is an antichain (use_value = true), the query
    (3,5) is dominated by both entries and gets threshold 10, although the same state with
    value 15 > 10 is still dominated (by (5,20)). *)
Example threshold_is_min_of_dominators :
  snd (bucket_query 1 (fun s _ => s) true 3 5 [(5, 20); (7, 10)])
  = {| dc_dominated := true; dc_threshold := Some 10 |}
  /\ dc_dominated (snd (bucket_query 1 (fun s _ => s) true 3 15 [(5, 20); (7, 10)])) = true.
Proof. vm_compute. split; reflexivity. Qed.

(** only_val_diff: equal coordinates, smaller value: threshold is [ov - 1] *)
Example threshold_only_val_diff :
  snd (bucket_query 1 (fun s _ => s) true 5 3 [(5, 20)])
  = {| dc_dominated := true; dc_threshold := Some 19 |}.
Proof. vm_compute. reflexivity. Qed.

(* ==================================================================== *)
(** * Axiom audit                                                        *)
(* ==================================================================== *)
Print Assumptions partial_cmp_spec.
Print Assumptions partial_cmp_Lt_ovd_true.
Print Assumptions partial_cmp_Lt_ovd_false.
Print Assumptions cmp_ranks_dominator_first.
Print Assumptions bucket_query_verdict.
Print Assumptions bucket_query_antichain.
Print Assumptions reachable_bucket_antichain.
Print Assumptions dominated_drops_nothing.
Print Assumptions bucket_after_antichain.
Print Assumptions pareto_front_history.
Print Assumptions pareto_front_semantics.
Print Assumptions threshold_sound.
Print Assumptions threshold_sound'.
Print Assumptions layer_query_spec.
Print Assumptions idoi_no_key.
Print Assumptions idoi_None_iff.
Print Assumptions idoi_spec.
Print Assumptions idoi_verdict.
Print Assumptions dclear_layer_spec.
