(* SolverNoDup.v — the sequential branch-and-bound theorems for the NoDupFringe configuration (sc_nodup cfg = true).

   SolverProofs.v proves seq_solver_correct / seq_solver_correct_primal (C01 / C14) and Assembly.v the unconditional
   C01_sequential_optimal for the SimpleFringe configuration only (config_ok contains sc_nodup cfg = false).  This file
   proves the same statements when the fringe is the faithful NoDupFringe model of Fringe.v / Fringe2.v (indexed binary
   heap + states map keyed by (state, depth)), which COALESCES a pushed node with the entry that has the same key.

   Storey 0 (section KeyedIface): the fringe interface.  Ghost state fl f = the abstract content of the heap
     (FringeProofs.abs) read back as solver sub-problems; representation invariant krep f = FringeProofs.nd_core
     (structural invariant: no operation can panic) + every stored key is (state, own depth).
       k_push_spec   push never panics, keeps krep, and  pushed (fl f) (fl f') n :
                       either  fl f' ~ n :: fl f                                   (fresh key)
                       or      fl f ~ old :: rest, fl f' ~ coalesce old n :: rest   (same state, same depth)
       k_pop_spec    pop on a non-empty fringe never panics, keeps krep, returns x with fl f ~ x :: fl f'
       fl_len        nd_len f = length (fl f)
     Only nd_core is used, never the heap order: the B&B argument (like the SimpleFringe one) does not need the popped
     element to be maximal, hence NO hypothesis on the state ranking (no antisymmetry / transitivity of sc_ranking).
   Storey 1 (section SolverNoDup): seq_solver_correct_nodup, seq_solver_correct_primal_nodup, maximize_correct_nodup,
     seq_solver_partial_correct_nodup: the statements of SolverProofs.v with sc_nodup cfg = true, under two extra premises:
       st_eqb_spec   st_eqb decides equality of states (the fringe's map is keyed by states; FringeProofs needs it)
       coalesce_ok   two good sub-problems with equal state and equal depth have the same value-to-go:
                       best a = Some oa -> best b = Some (oa - sp_value a + sp_value b)
     The completeness invariant had to be weakened from "some open node has best = OPT" to "some open node has
     best >= OPT" (Wit): when the entry that witnessed OPT is coalesced with a node of larger value, the survivor's best
     is larger (it cannot be, by best_le_opt, but that hypothesis is not needed this way).
   Storey 2 (section MainNoDup): C01_sequential_optimal_nodup (+ _run, C14_primal_nodup): Assembly.C01_sequential_optimal
     with sc_nodup cfg = true, every other hypothesis unchanged.  The contracts K0..K5 are imported from Assembly.v through
     the configuration with the flag flipped (mk_input does not read sc_nodup: the statements are convertible).
   Storey 3: the table instance ex_ti run with NoDupFringe returns the optimum 12 (vm_compute), the theorem instantiated
     on the whole table family, and a run in which a coalescing push does happen.
   Stdlib only, no axioms. *)
Require Import DDO.Base DDO.Fringe DDO.FringeProofs DDO.Fringe2 DDO.DP DDO.Cache DDO.Dom DDO.Mdd DDO.Solver DDO.SolverProofs.
From Coq Require Import Permutation Arith.
Open Scope Z_scope.

(* ================================================================== 0. the fringe interface *)
(* push = insert-or-coalesce on the abstract content *)
Definition pushed {St : Type} (L L' : list (@subproblem St)) (n : @subproblem St) : Prop :=
  Permutation L' (n :: L) \/
  exists old rest, Permutation L (old :: rest) /\ sp_state old = sp_state n /\ sp_depth old = sp_depth n /\
                   Permutation L' (coalesce old n :: rest).

Section KeyedIface.
  Context {St : Type}.
  Variable st_eqb : St -> St -> bool.
  Hypothesis st_eqb_spec : forall a b, st_eqb a b = true <-> a = b.
  Variable st_cmp : St -> St -> comparison.

  Local Notation KK := (@K St).
  Local Notation keqb := (key_eqb st_eqb).
  Local Notation kc := (kcmp st_cmp).
  Local Notation keqb_spec := (key_eqb_spec st_eqb st_eqb_spec).

  (* ghost state: the content of the fringe, as solver sub-problems *)
  Definition fl (f : @nodup KK) : list (@subproblem St) := map unembed (abs f).
  Definition keys_ok (f : @nodup KK) : Prop := forall x, In x (abs f) -> sp_depth x = snd (sp_state x).
  Definition krep (f : @nodup KK) : Prop := nd_core keqb f /\ keys_ok f.

  Lemma krep_empty : krep nd_empty.
  Proof. split; [apply nd_core_empty|]. intros x Hx. destruct Hx. Qed.

  Lemma fl_empty : fl nd_empty = [].
  Proof. reflexivity. Qed.

  (* stated at the type St * nat, the way Solver.v mentions the fringe *)
  Lemma fl_len (f : @nodup KK) : krep f -> @nd_len (St * nat) f = length (fl f).
  Proof. intros [Hc _]. unfold fl. rewrite map_length. exact (abs_len keqb f Hc). Qed.

  Lemma unembed_coalesce (old : @subproblem KK) (n : @subproblem St) :
    unembed (coalesce old (embed n)) = coalesce (unembed old) n.
  Proof.
    unfold coalesce.
    change (sp_value (embed n)) with (sp_value n). change (sp_value (unembed old)) with (sp_value old).
    destruct (sp_value n >? sp_value old); reflexivity.
  Qed.

  Lemma k_push_spec f n : krep f ->
    exists f', k_push st_eqb st_cmp f n = Some f' /\ krep f' /\ pushed (fl f) (fl f') n.
  Proof.
    intros [Hc Hk]. unfold k_push.
    destruct (nd_push_core keqb keqb_spec kc f (embed n) Hc) as [f' [Hp Hc']].
    exists f'. split; [exact Hp|].
    destruct (states_get keqb (nd_states f) (sp_state (embed n))) as [id|] eqn:Hget.
    - destruct (abs_push_occupied keqb kc f (embed n) id f' Hc Hget Hp) as (old & rest & Hst & HP & HP' & _).
      assert (Hold : In old (abs f)).
      { eapply Permutation_in; [apply Permutation_sym; exact HP|left; reflexivity]. }
      split; [split; [exact Hc'|]|].
      + intros x Hx. eapply Permutation_in in Hx; [|exact HP']. destruct Hx as [Hx|Hx].
        * subst x. change (dep_ok (@snd St nat) (coalesce old (embed n))).
          apply coalesce_dep_ok; [apply Hk; exact Hold|reflexivity].
        * apply Hk. eapply Permutation_in; [apply Permutation_sym; exact HP|right; exact Hx].
      + right. exists (unembed old), (map unembed rest). split; [|split; [|split]].
        * unfold fl. change (unembed old :: map unembed rest) with (map unembed (old :: rest)).
          apply Permutation_map. exact HP.
        * exact (f_equal fst Hst).
        * etransitivity; [exact (Hk old Hold)|]. exact (f_equal snd Hst).
        * unfold fl. rewrite <- unembed_coalesce.
          change (unembed (coalesce old (embed n)) :: map unembed rest)
            with (map unembed (coalesce old (embed n) :: rest)).
          apply Permutation_map. exact HP'.
    - destruct (abs_push_vacant keqb keqb_spec kc f (embed n) f' Hc Hget Hp) as [HP _].
      split; [split; [exact Hc'|]|].
      + intros x Hx. eapply Permutation_in in Hx; [|exact HP]. destruct Hx as [Hx|Hx].
        * subst x. reflexivity.
        * apply Hk. exact Hx.
      + left. unfold fl. apply Permutation_trans with (map unembed (embed n :: abs f)).
        * apply Permutation_map. exact HP.
        * cbn [map]. rewrite unembed_embed. apply Permutation_refl.
  Qed.

  Lemma k_pop_spec f : krep f -> nd_len f <> O ->
    exists x f', k_pop st_eqb st_cmp f = Some (f', Some x) /\ krep f' /\ Permutation (fl f) (x :: fl f').
  Proof.
    intros [Hc Hk] Hne.
    destruct (nd_heap f) as [|id t] eqn:Hheap.
    { exfalso. apply Hne. unfold nd_len. rewrite Hheap. reflexivity. }
    destruct (nd_pop_nonempty keqb kc f id t Hc Hheap)
      as [x [f0 [f1 [Hx [Hpop [Hok0 [Hn0 [Hperm [_ [Hok1 [Hsc [Hl1 _]]]]]]]]]]]].
    destruct (nd_pop_core keqb keqb_spec kc f Hc) as [f' [r [Hp' Hc']]].
    rewrite Hpop in Hp'. inversion Hp'; subst f' r. clear Hp'.
    assert (HP : Permutation (abs f) (x :: abs (popped_state keqb f f1 id x))).
    { unfold abs at 1. eapply Permutation_trans.
      - apply collect_perm. eapply Permutation_trans; [exact Hperm|].
        apply perm_skip. apply Permutation_sym. apply (sc_perm _ _ Hsc).
      - cbn [collect]. rewrite Hx. apply Permutation_refl. }
    exists (unembed x), (popped_state keqb f f1 id x).
    split; [unfold k_pop; rewrite Hpop; reflexivity|].
    split; [split; [exact Hc'|]|].
    - intros y Hy. apply Hk. eapply Permutation_in; [apply Permutation_sym; exact HP|right; exact Hy].
    - unfold fl. change (unembed x :: map unembed (abs (popped_state keqb f f1 id x)))
        with (map unembed (x :: abs (popped_state keqb f f1 id x))).
      apply Permutation_map. exact HP.
  Qed.
End KeyedIface.

(* ================================================================== 1. branch and bound against the interface *)
Section SolverNoDup.
  Context {St : Type}.
  Variable st_eqb : St -> St -> bool.
  Hypothesis st_eqb_spec : forall a b, st_eqb a b = true <-> a = b.
  Variable cfg : @sconfig St.
  Local Notation N := (nb_vars (sc_problem cfg)).

  (* ---------------- configuration: as SolverProofs.config_ok, with the NoDupFringe *)
  Definition config_ok_nodup : Prop :=
    sc_use_cache cfg = false /\ sc_domrule cfg = None /\ sc_cutoff cfg = 0%nat /\ sc_nodup cfg = true.
  Hypothesis cfg_ok : config_ok_nodup.
  Lemma no_cache_nd : sc_use_cache cfg = false. Proof. apply cfg_ok. Qed.
  Lemma nodup_fringe : sc_nodup cfg = true. Proof. apply cfg_ok. Qed.

  (* ---------------- abstract semantics (as in SolverProofs.v) *)
  Variable good : @subproblem St -> Prop.
  Variable best : @subproblem St -> option Z.
  Variable feasible : list decision -> Z -> Prop.
  Local Notation OPT' := (OPT cfg best).

  Hypothesis good_root : good (root_node cfg).
  Hypothesis feasible_le_opt : forall sol v, feasible sol v -> exists o, OPT' = Some o /\ v <= o.
  Hypothesis opt_in_isize : forall o, OPT' = Some o -> IMIN < o <= IMAX.
  Hypothesis good_set_ub : forall c u, good c -> good (set_ub c u).
  Hypothesis best_set_ub : forall c u, best (set_ub c u) = best c.
  (* NEW: the value-to-go of a sub-problem is a function of its (state, depth) *)
  Hypothesis coalesce_ok : forall a b, good a -> good b -> sp_state a = sp_state b -> sp_depth a = sp_depth b ->
    forall oa, best a = Some oa -> best b = Some (oa - sp_value a + sp_value b).

  (* ---------------- diagram contracts (as in SolverProofs.v) *)
  Variable M : nat.

  Hypothesis K0 : forall ct n lb c ds polls m out,
    dd_ct ct -> good n -> (sp_depth n <= N)%nat ->
    compile st_eqb (mk_input cfg ct n lb) 0 0 c ds polls = (m, out) ->
    out = Compiled /\ m_crash m = false.
  Hypothesis K1 : forall ct n lb c ds polls m out,
    dd_ct ct -> good n -> (sp_depth n <= N)%nat ->
    compile st_eqb (mk_input cfg ct n lb) 0 0 c ds polls = (m, out) ->
    forall v, dd_best_exact_value (mk_input cfg ct n lb) m = Some v ->
    exists sol, dd_best_exact_solution (mk_input cfg ct n lb) m = Some sol /\ feasible sol v.
  Hypothesis K2 : forall ct n lb c ds polls m out,
    dd_ct ct -> good n -> (sp_depth n <= N)%nat ->
    compile st_eqb (mk_input cfg ct n lb) 0 0 c ds polls = (m, out) ->
    dd_is_exact m = true ->
    forall o, best n = Some o -> o > lb -> dd_best_exact_value (mk_input cfg ct n lb) m = Some o.
  Hypothesis K3_good : forall n lb c ds polls m out,
    good n -> (sp_depth n <= N)%nat ->
    compile st_eqb (mk_input cfg Relaxed n lb) 0 0 c ds polls = (m, out) ->
    dd_is_exact m = false ->
    forall x, In x (drain_cutset (mk_input cfg Relaxed n lb) m) -> good x.
  Hypothesis K3_depth : forall n lb c ds polls m out,
    good n -> (sp_depth n <= N)%nat ->
    compile st_eqb (mk_input cfg Relaxed n lb) 0 0 c ds polls = (m, out) ->
    dd_is_exact m = false ->
    forall x, In x (drain_cutset (mk_input cfg Relaxed n lb) m) -> (sp_depth n < sp_depth x <= N)%nat.
  Hypothesis K3_ub : forall n lb c ds polls m out,
    good n -> (sp_depth n <= N)%nat ->
    compile st_eqb (mk_input cfg Relaxed n lb) 0 0 c ds polls = (m, out) ->
    dd_is_exact m = false ->
    forall x, In x (drain_cutset (mk_input cfg Relaxed n lb) m) ->
    forall o, best x = Some o -> o > lb -> o <= sp_ub x.
  Hypothesis K4 : forall n lb c ds polls m out,
    good n -> (sp_depth n <= N)%nat ->
    compile st_eqb (mk_input cfg Relaxed n lb) 0 0 c ds polls = (m, out) ->
    dd_is_exact m = false ->
    forall o, best n = Some o -> o > lb ->
    (forall e, dd_best_exact_value (mk_input cfg Relaxed n lb) m = Some e -> e < o) ->
    exists x, In x (drain_cutset (mk_input cfg Relaxed n lb) m) /\ best x = Some o.
  Hypothesis K5 : forall n lb c ds polls m out,
    good n -> (sp_depth n <= N)%nat ->
    compile st_eqb (mk_input cfg Relaxed n lb) 0 0 c ds polls = (m, out) ->
    dd_is_exact m = false ->
    (length (drain_cutset (mk_input cfg Relaxed n lb) m) <= M)%nat.

  Local Notation rk := (sc_ranking cfg).
  Local Notation FL s := (fl (s_nodup s)).
  Local Notation Rep f := (krep st_eqb f).

  (* ------------------------------------------------------------------ fringe in NoDupFringe mode *)
  Lemma fr_len_nd s : fr_len cfg s = nd_len (s_nodup s).
  Proof. unfold fr_len. rewrite nodup_fringe. reflexivity. Qed.

  Lemma fr_push_nd s n :
    fr_push st_eqb cfg s n =
    match k_push st_eqb rk (s_nodup s) n with
    | Some f => upd_s s (s_simple s) f (s_explored s) (s_open s) (s_fal s) (s_lb s) (s_ub s) (s_sol s) (s_abort s)
                      (s_cache s) (s_dom s) (s_polls s) (s_crash s) (s_tie s) (s_compiles s)
    | None => crashed s
    end.
  Proof. unfold fr_push. rewrite nodup_fringe. reflexivity. Qed.

  Lemma fr_pop_nd s :
    fr_pop st_eqb cfg s =
    match k_pop st_eqb rk (s_nodup s) with
    | Some (f, r) => (upd_s s (s_simple s) f (s_explored s) (s_open s) (s_fal s) (s_lb s) (s_ub s) (s_sol s) (s_abort s)
                            (s_cache s) (s_dom s) (s_polls s) (s_crash s) (s_tie s) (s_compiles s), r)
    | None => (crashed s, None)
    end.
  Proof. unfold fr_pop. rewrite nodup_fringe. reflexivity. Qed.

  (* ------------------------------------------------------------------ the observable part of a state *)
  Definition viewn (s : @sstate St) :=
    (s_nodup s, s_open s, s_lb s, s_sol s, s_abort s, s_crash s).

  Lemma viewn_inv s s' : viewn s' = viewn s ->
    s_nodup s' = s_nodup s /\ s_open s' = s_open s /\ s_lb s' = s_lb s /\ s_sol s' = s_sol s /\
    s_abort s' = s_abort s /\ s_crash s' = s_crash s.
  Proof. unfold viewn; intros H; inversion H; auto 10. Qed.

  (* ------------------------------------------------------------------ coalescing and the semantics *)
  Lemma coalesce_cases (old n : @subproblem St) :
    (sp_value n > sp_value old /\ coalesce old n = set_ub n (Z.max (sp_ub n) (sp_ub old))) \/
    (sp_value n <= sp_value old /\ coalesce old n = set_ub old (Z.max (sp_ub n) (sp_ub old))).
  Proof.
    unfold coalesce, set_ub. destruct (sp_value n >? sp_value old) eqn:E; rewrite Z.gtb_ltb in E.
    - apply Z.ltb_lt in E. left. split; [lia|reflexivity].
    - apply Z.ltb_ge in E. right. split; [lia|reflexivity].
  Qed.

  Lemma coalesce_depth (old n : @subproblem St) :
    sp_depth old = sp_depth n -> sp_depth (coalesce old n) = sp_depth n.
  Proof. intros H. destruct (coalesce_cases old n) as [[_ ->]|[_ ->]]; cbn [set_ub sp_depth]; auto. Qed.

  (* o is still reachable through n: the best completion of n is worth at least o and n's bound does not hide it *)
  Definition Wit (o : Z) (n : @subproblem St) : Prop :=
    exists o', best n = Some o' /\ o <= o' /\ o <= sp_ub n.

  Lemma Wit_set_ub o n u : Wit o n -> sp_ub n <= u -> Wit o (set_ub n u).
  Proof.
    intros (o' & Hb & H1 & H2) Hu. exists o'. rewrite best_set_ub. cbn [set_ub sp_ub].
    split; [exact Hb|]. split; [exact H1|lia].
  Qed.

  Lemma Wit_coalesce_old o old n :
    good old -> good n -> sp_state old = sp_state n -> sp_depth old = sp_depth n ->
    Wit o old -> Wit o (coalesce old n).
  Proof.
    intros Hgo Hgn Hs Hd (o' & Hb & H1 & H2).
    destruct (coalesce_cases old n) as [[Hv ->]|[Hv ->]].
    - exists (o' - sp_value old + sp_value n). rewrite best_set_ub.
      split; [apply (coalesce_ok old n); auto|]. cbn [set_ub sp_ub]. lia.
    - apply Wit_set_ub; [exists o'; auto|lia].
  Qed.

  Lemma Wit_coalesce_new o old n :
    good old -> good n -> sp_state old = sp_state n -> sp_depth old = sp_depth n ->
    Wit o n -> Wit o (coalesce old n).
  Proof.
    intros Hgo Hgn Hs Hd (o' & Hb & H1 & H2).
    destruct (coalesce_cases old n) as [[Hv ->]|[Hv ->]].
    - apply Wit_set_ub; [exists o'; auto|lia].
    - exists (o' - sp_value n + sp_value old). rewrite best_set_ub.
      split; [apply (coalesce_ok n old); auto|]. cbn [set_ub sp_ub]. lia.
  Qed.

  (* ------------------------------------------------------------------ what a push does to the invariant's ingredients *)
  Lemma pushed_fringe (L L' : list (@subproblem St)) (n : @subproblem St) :
    pushed L L' n -> FringeOK cfg good L -> good n -> (sp_depth n <= N)%nat -> FringeOK cfg good L'.
  Proof.
    intros [HP|(old & rest & HP & Hs & Hd & HP')] HF Hg Hdn x Hx.
    - eapply Permutation_in in Hx; [|exact HP]. destruct Hx as [Hx|Hx]; [subst x; split; assumption|apply HF; exact Hx].
    - assert (Hold : In old L) by (eapply Permutation_in; [apply Permutation_sym; exact HP|left; reflexivity]).
      destruct (HF old Hold) as [Hgo Hdo].
      eapply Permutation_in in Hx; [|exact HP']. destruct Hx as [Hx|Hx].
      + subst x. split.
        * destruct (coalesce_cases old n) as [[_ ->]|[_ ->]]; apply good_set_ub; assumption.
        * rewrite coalesce_depth by exact Hd. exact Hdn.
      + apply HF. eapply Permutation_in; [apply Permutation_sym; exact HP|right; exact Hx].
  Qed.

  Lemma cnt_cons_eqd d (x y : @subproblem St) l : sp_depth x = sp_depth y -> cnt d (x :: l) = cnt d (y :: l).
  Proof. intros H. unfold cnt, cntp. cbn [sumf]. rewrite H. reflexivity. Qed.

  (* the per-depth counter grows by exactly the growth of the fringe length: 1 on a fresh key, 0 on a coalescing push *)
  Lemma pushed_cnt_same (L L' : list (@subproblem St)) (n : @subproblem St) :
    pushed L L' n -> cnt (sp_depth n) L' = (cnt (sp_depth n) L + (length L' - length L))%nat.
  Proof.
    intros [HP|(old & rest & HP & Hs & Hd & HP')].
    - rewrite (cnt_perm _ _ _ HP), cnt_cons_same, (Permutation_length HP). cbn [length]. lia.
    - rewrite (cnt_perm _ _ _ HP'), (cnt_perm _ _ _ HP), (Permutation_length HP'), (Permutation_length HP).
      cbn [length]. rewrite (cnt_cons_eqd _ (coalesce old n) old) by (rewrite coalesce_depth by exact Hd; symmetry; exact Hd).
      lia.
  Qed.

  Lemma pushed_cnt_other (L L' : list (@subproblem St)) (n : @subproblem St) d : pushed L L' n -> sp_depth n <> d -> cnt d L' = cnt d L.
  Proof.
    intros [HP|(old & rest & HP & Hs & Hd & HP')] Hne.
    - rewrite (cnt_perm _ _ _ HP). apply cnt_cons_other. exact Hne.
    - rewrite (cnt_perm _ _ _ HP'), (cnt_perm _ _ _ HP). apply cnt_cons_eqd.
      rewrite coalesce_depth by exact Hd. symmetry. exact Hd.
  Qed.

  Lemma wt_depth (x y : @subproblem St) : sp_depth x = sp_depth y -> wt cfg M x = wt cfg M y.
  Proof. intros H. unfold wt. rewrite H. reflexivity. Qed.

  (* the termination potential grows by at most the weight of the pushed node (not at all on a coalescing push) *)
  Lemma pushed_Phi (L L' : list (@subproblem St)) (n : @subproblem St) : pushed L L' n -> (Phi cfg M L' <= Phi cfg M L + wt cfg M n)%nat.
  Proof.
    intros [HP|(old & rest & HP & Hs & Hd & HP')].
    - rewrite (Phi_perm _ _ _ _ HP). unfold Phi. cbn [sumf]. lia.
    - rewrite (Phi_perm _ _ _ _ HP'), (Phi_perm _ _ _ _ HP). unfold Phi. cbn [sumf].
      rewrite (wt_depth (coalesce old n) old) by (rewrite coalesce_depth by exact Hd; symmetry; exact Hd). lia.
  Qed.

  Lemma pushed_wit_old (L L' : list (@subproblem St)) (n : @subproblem St) o :
    pushed L L' n -> FringeOK cfg good L -> good n ->
    (exists x, In x L /\ Wit o x) -> exists x, In x L' /\ Wit o x.
  Proof.
    intros [HP|(old & rest & HP & Hs & Hd & HP')] HF Hg (x & Hx & Hw).
    - exists x. split; [eapply Permutation_in; [apply Permutation_sym; exact HP|right; exact Hx]|exact Hw].
    - assert (Hold : In old L) by (eapply Permutation_in; [apply Permutation_sym; exact HP|left; reflexivity]).
      destruct (HF old Hold) as [Hgo _].
      eapply Permutation_in in Hx; [|exact HP]. destruct Hx as [Hx|Hx].
      + subst x. exists (coalesce old n).
        split; [eapply Permutation_in; [apply Permutation_sym; exact HP'|left; reflexivity]|].
        apply Wit_coalesce_old; assumption.
      + exists x. split; [eapply Permutation_in; [apply Permutation_sym; exact HP'|right; exact Hx]|exact Hw].
  Qed.

  Lemma pushed_wit_new (L L' : list (@subproblem St)) (n : @subproblem St) o :
    pushed L L' n -> FringeOK cfg good L -> good n -> Wit o n -> exists x, In x L' /\ Wit o x.
  Proof.
    intros [HP|(old & rest & HP & Hs & Hd & HP')] HF Hg Hw.
    - exists n. split; [eapply Permutation_in; [apply Permutation_sym; exact HP|left; reflexivity]|exact Hw].
    - assert (Hold : In old L) by (eapply Permutation_in; [apply Permutation_sym; exact HP|left; reflexivity]).
      destruct (HF old Hold) as [Hgo _].
      exists (coalesce old n).
      split; [eapply Permutation_in; [apply Permutation_sym; exact HP'|left; reflexivity]|].
      apply Wit_coalesce_new; assumption.
  Qed.

  (* ------------------------------------------------------------------ invariant *)
  Definition QInv (s : @sstate St) : Prop :=
    Rep (s_nodup s) /\ FringeOK cfg good (FL s) /\ OpenOK cfg (s_open s) (FL s).

  Definition Core (s : @sstate St) : Prop :=
    s_crash s = false /\ s_abort s = false /\ Incumbent feasible (s_lb s) (s_sol s) /\ QInv s.

  (* completeness: the optimum is either already matched by the incumbent, or some open sub-problem (of the fringe, or of
     [extra] = the node being processed) still leads to a solution at least as good, and its ub does not hide it *)
  Definition Compl (s : @sstate St) (extra : list (@subproblem St)) : Prop :=
    forall o, OPT' = Some o ->
      o <= s_lb s \/ exists n, (In n extra \/ In n (FL s)) /\ Wit o n.

  Definition Inv (s : @sstate St) : Prop := Core s /\ Compl s [].

  (* ------------------------------------------------------------------ get_workload *)
  Lemma clean_cache_loop_viewn fuel s :
    (forall d, (d <= N)%nat -> exists k, nth_error (s_open s) d = Some k) ->
    viewn (clean_cache_loop cfg fuel s) = viewn s.
  Proof.
    revert s; induction fuel as [|fuel IH]; intros s H; cbn [clean_cache_loop]; [reflexivity|].
    destruct (Nat.ltb (s_fal s) (nb_vars (sc_problem cfg))) eqn:E; [|reflexivity].
    apply Nat.ltb_lt in E. destruct (H (s_fal s)) as [k Hk]; [lia|].
    rewrite Hk. destruct k; [|reflexivity]. rewrite no_cache_nd. rewrite IH; [reflexivity|]. exact H.
  Qed.

  Lemma get_workload_spec s : Core s ->
    (FL s = [] /\ exists s1, get_workload st_eqb cfg s = (s1, WComplete) /\
       s_crash s1 = false /\ s_abort s1 = false /\ s_lb s1 = s_lb s /\
       s_sol s1 = s_sol s /\ s_ub s1 = s_lb s)
    \/ (exists x s1, get_workload st_eqb cfg s = (s1, WItem x) /\ Permutation (FL s) (x :: FL s1) /\
         Core s1 /\ s_lb s1 = s_lb s).
  Proof.
    intros (Hcr & Hab & Hinc & Hrep & Hfr & Hop).
    unfold get_workload.
    set (sc := clean_cache_loop cfg (S (nb_vars (sc_problem cfg))) s).
    assert (Hv : viewn sc = viewn s).
    { apply clean_cache_loop_viewn. intros d Hd. eexists. apply Hop. exact Hd. }
    apply viewn_inv in Hv. destruct Hv as (V1 & V2 & V3 & V4 & V5 & V6).
    rewrite fr_len_nd, V1.
    destruct (Nat.eqb (nd_len (s_nodup s)) 0) eqn:E0.
    - left. apply Nat.eqb_eq in E0. rewrite (fl_len st_eqb _ Hrep) in E0. apply length_zero_iff_nil in E0.
      split; [exact E0|]. eexists. split; [reflexivity|].
      cbn [s_crash s_abort s_lb s_sol s_ub upd_s]. rewrite V3, V4, V5, V6. auto 10.
    - right. apply Nat.eqb_neq in E0. rewrite V5, Hab. rewrite fr_pop_nd, V1.
      destruct (k_pop_spec st_eqb st_eqb_spec rk (s_nodup s) Hrep E0) as (x & f' & Hpop & Hrep' & Hperm).
      rewrite Hpop.
      assert (Hx : In x (FL s)). { eapply Permutation_in; [apply Permutation_sym; exact Hperm|]. left; reflexivity. }
      destruct (Hfr x Hx) as [Hgx Hdx].
      cbn [s_open upd_s]. rewrite V2, (Hop _ Hdx).
      rewrite (cnt_perm _ _ _ Hperm), cnt_cons_same.
      exists x. eexists. split; [reflexivity|].
      cbn [s_nodup s_lb upd_s]. split; [exact Hperm|]. split; [|exact V3].
      unfold Core, QInv. cbn [s_nodup s_crash s_abort s_lb s_sol s_open upd_s].
      rewrite ?V2, ?V3, ?V4, ?V5, ?V6. split; [exact Hcr|]. split; [exact Hab|]. split; [exact Hinc|].
      split; [exact Hrep'|]. split.
      + intros n Hn. apply Hfr. eapply Permutation_in; [apply Permutation_sym; exact Hperm|]. right; exact Hn.
      + intros d Hd. destruct (Nat.eq_dec (sp_depth x) d) as [Heq|Hne].
        * subst d. erewrite nth_error_upd_nth_same; [reflexivity|]. rewrite (Hop _ Hd).
          rewrite (cnt_perm _ _ _ Hperm), cnt_cons_same. reflexivity.
        * rewrite nth_error_upd_nth_other by exact Hne. rewrite (Hop _ Hd).
          rewrite (cnt_perm _ _ _ Hperm), cnt_cons_other by exact Hne. reflexivity.
  Qed.

  (* ------------------------------------------------------------------ compilation + incumbent update *)
  Lemma run_compile_nd s ct n s' inp m o :
    run_compile st_eqb cfg s ct n = (s', inp, m, o) -> s_nodup s' = s_nodup s.
  Proof.
    unfold run_compile.
    destruct (compile st_eqb (mk_input cfg ct n (s_lb s)) 0 0 (s_cache s) (s_dom s) (s_polls s)) as [m0 o0] eqn:E.
    intros H; inversion H; subst. reflexivity.
  Qed.

  Lemma mub_nd (s : @sstate St) inp m : s_nodup (maybe_update_best s inp m) = s_nodup s.
  Proof. unfold maybe_update_best. destruct (_ >? _); reflexivity. Qed.

  Lemma phase s ct n s' inp m o :
    Core s -> dd_ct ct -> good n -> (sp_depth n <= N)%nat ->
    run_compile st_eqb cfg s ct n = (s', inp, m, o) ->
    o = Compiled /\ inp = mk_input cfg ct n (s_lb s) /\
    compile st_eqb (mk_input cfg ct n (s_lb s)) 0 0 (s_cache s) (s_dom s) (s_polls s) = (m, Compiled) /\
    Core (maybe_update_best s' inp m) /\ s_nodup (maybe_update_best s' inp m) = s_nodup s /\
    s_lb s <= s_lb (maybe_update_best s' inp m) /\
    (forall e, dd_best_exact_value inp m = Some e -> e <= s_lb (maybe_update_best s' inp m)).
  Proof.
    intros (Hcr & Hab & Hinc & Hrep & Hfr & Hop) Hct Hg Hd Hrc.
    pose proof (run_compile_nd _ _ _ _ _ _ _ Hrc) as R0.
    apply run_compile_spec in Hrc. destruct Hrc as (Hinp & Hc & _ & R2 & R3 & R4 & R5 & R6).
    destruct (K0 _ _ _ _ _ _ _ _ Hct Hg Hd Hc) as [Ho Hmc]. subst o.
    assert (Hlb' : IMIN <= s_lb s') by (rewrite R3; apply Hinc).
    pose proof (mub_spec cfg s' inp m Hlb') as Hm. cbv zeta in Hm.
    destruct Hm as (_ & U2 & U3 & U4 & U5).
    pose proof (mub_nd s' inp m) as U1.
    split; [reflexivity|]. split; [exact Hinp|]. split; [exact Hc|].
    assert (Hcore_rest : s_crash (maybe_update_best s' inp m) = false /\ s_abort (maybe_update_best s' inp m) = false /\
              QInv (maybe_update_best s' inp m)).
    { unfold QInv. rewrite U4, U3, U2, U1, R6, R5, R2, R0, Hcr, Hmc, Hab. auto. }
    destruct Hcore_rest as (C1 & C2 & C4).
    destruct U5 as [(L1 & L2 & L3) | (v & Hv & Hgt & L1 & L2)].
    - split; [|split; [rewrite U1, R0; reflexivity|split; [rewrite L1, R3; lia|rewrite L1; exact L3]]].
      unfold Core. rewrite L1, L2, R3, R4. auto.
    - subst inp. destruct (K1 _ _ _ _ _ _ _ _ Hct Hg Hd Hc v Hv) as (sol & Hsol & Hfeas).
      split; [|split; [rewrite U1, R0; reflexivity|split; [rewrite L1; rewrite R3 in Hgt; lia|]]].
      + unfold Core. split; [exact C1|]. split; [exact C2|]. split; [|exact C4].
        rewrite L1, L2. split; [rewrite R3 in Hgt; destruct Hinc; lia|].
        right. exists sol. split; [exact Hsol|exact Hfeas].
      + intros e He. rewrite Hv in He. assert (e = v) by congruence. rewrite L1. lia.
  Qed.

  (* ------------------------------------------------------------------ enqueue_cutset *)
  Lemma enq_step_spec lb ub s c :
    QInv s -> good c -> (sp_depth c <= N)%nat ->
    s_lb (enq_step st_eqb cfg lb ub s c) = s_lb s /\ s_sol (enq_step st_eqb cfg lb ub s c) = s_sol s /\
    s_abort (enq_step st_eqb cfg lb ub s c) = s_abort s /\ s_crash (enq_step st_eqb cfg lb ub s c) = s_crash s /\
    QInv (enq_step st_eqb cfg lb ub s c) /\
    ((Z.min ub (sp_ub c) >? lb) = false -> s_nodup (enq_step st_eqb cfg lb ub s c) = s_nodup s) /\
    ((Z.min ub (sp_ub c) >? lb) = true ->
       pushed (FL s) (FL (enq_step st_eqb cfg lb ub s c)) (set_ub c (Z.min ub (sp_ub c)))).
  Proof.
    intros (Hrep & HF & Hop) Hg Hd. unfold enq_step. cbv zeta.
    destruct (Z.min ub (sp_ub c) >? lb) eqn:E.
    2:{ repeat (split; [reflexivity|]). split; [split; [exact Hrep|split; assumption]|].
        split; [reflexivity|discriminate]. }
    fold (set_ub c (Z.min ub (sp_ub c))).
    set (c' := set_ub c (Z.min ub (sp_ub c))).
    assert (Hg' : good c') by (apply good_set_ub; exact Hg).
    rewrite fr_push_nd.
    destruct (k_push_spec st_eqb st_eqb_spec rk (s_nodup s) c' Hrep) as (f' & Hpush & Hrep' & Hpd).
    rewrite Hpush. rewrite !fr_len_nd. cbn [s_nodup s_open s_lb s_sol s_abort s_crash upd_s].
    rewrite (Hop _ Hd). cbn [s_nodup s_open s_lb s_sol s_abort s_crash upd_s].
    repeat (split; [reflexivity|]).
    split; [|split; [discriminate|intros _; exact Hpd]].
    unfold QInv. cbn [s_nodup s_open upd_s].
    split; [exact Hrep'|]. split.
    - apply (pushed_fringe _ _ c' Hpd HF Hg'). exact Hd.
    - intros d Hd'. destruct (Nat.eq_dec (sp_depth c) d) as [Heq|Hne].
      + subst d. erewrite nth_error_upd_nth_same; [|apply Hop; exact Hd]. f_equal.
        rewrite (fl_len st_eqb f' Hrep'), (fl_len st_eqb (s_nodup s) Hrep).
        symmetry. apply (pushed_cnt_same _ _ c' Hpd).
      + rewrite nth_error_upd_nth_other by exact Hne. rewrite (Hop _ Hd'). f_equal.
        symmetry. apply (pushed_cnt_other _ _ c' d Hpd). exact Hne.
  Qed.

  Lemma enq_fold_spec lb ub cs : forall s,
    QInv s -> (forall c, In c cs -> good c /\ (sp_depth c <= N)%nat) ->
    s_lb (fold_left (enq_step st_eqb cfg lb ub) cs s) = s_lb s /\
    s_sol (fold_left (enq_step st_eqb cfg lb ub) cs s) = s_sol s /\
    s_abort (fold_left (enq_step st_eqb cfg lb ub) cs s) = s_abort s /\
    s_crash (fold_left (enq_step st_eqb cfg lb ub) cs s) = s_crash s /\
    QInv (fold_left (enq_step st_eqb cfg lb ub) cs s) /\
    (Phi cfg M (FL (fold_left (enq_step st_eqb cfg lb ub) cs s)) <= Phi cfg M (FL s) + sumf (wt cfg M) cs)%nat /\
    (forall o, (exists x, In x (FL s) /\ Wit o x) ->
               exists x, In x (FL (fold_left (enq_step st_eqb cfg lb ub) cs s)) /\ Wit o x) /\
    (forall o c, In c cs -> Z.min ub (sp_ub c) > lb -> Wit o (set_ub c (Z.min ub (sp_ub c))) ->
               exists x, In x (FL (fold_left (enq_step st_eqb cfg lb ub) cs s)) /\ Wit o x).
  Proof.
    induction cs as [|c cs IH]; intros s HQ Hcs; cbn [fold_left].
    - repeat (split; [reflexivity|]). split; [exact HQ|]. split; [cbn [sumf]; lia|]. split; [auto|].
      intros o c [].
    - destruct (Hcs c (or_introl eq_refl)) as [Hgc Hdc].
      destruct (enq_step_spec lb ub s c HQ Hgc Hdc) as (E1 & E2 & E3 & E4 & EQ & Efalse & Etrue).
      destruct (IH (enq_step st_eqb cfg lb ub s c) EQ (fun c' Hc' => Hcs c' (or_intror Hc')))
        as (F1 & F2 & F3 & F4 & FQ & FPhi & Fold & Fnew).
      rewrite F1, F2, F3, F4, E1, E2, E3, E4. repeat (split; [reflexivity|]). split; [exact FQ|].
      assert (Hstep :
        (Phi cfg M (FL (enq_step st_eqb cfg lb ub s c)) <= Phi cfg M (FL s) + wt cfg M c)%nat /\
        (forall o, (exists x, In x (FL s) /\ Wit o x) -> exists x, In x (FL (enq_step st_eqb cfg lb ub s c)) /\ Wit o x) /\
        (forall o, Z.min ub (sp_ub c) > lb -> Wit o (set_ub c (Z.min ub (sp_ub c))) ->
                   exists x, In x (FL (enq_step st_eqb cfg lb ub s c)) /\ Wit o x)).
      { destruct HQ as (_ & HF & _).
        pose proof (good_set_ub c (Z.min ub (sp_ub c)) Hgc) as Hg'.
        destruct (Z.min ub (sp_ub c) >? lb) eqn:E.
        - specialize (Etrue eq_refl). split; [|split].
          + eapply Nat.le_trans; [apply pushed_Phi; exact Etrue|].
            rewrite (wt_depth (set_ub c (Z.min ub (sp_ub c))) c) by reflexivity. lia.
          + intros o Hex. exact (pushed_wit_old _ _ _ o Etrue HF Hg' Hex).
          + intros o _ Hw. exact (pushed_wit_new _ _ _ o Etrue HF Hg' Hw).
        - rewrite (Efalse eq_refl). split; [lia|]. split; [auto|].
          intros o Hgt. rewrite Z.gtb_ltb in E. apply Z.ltb_ge in E. lia. }
      destruct Hstep as (S1 & S2 & S3).
      split; [|split].
      + eapply Nat.le_trans; [exact FPhi|]. cbn [sumf]. lia.
      + intros o Hex. apply Fold. apply S2. exact Hex.
      + intros o c0 [Hc0|Hc0] Hgt Hw.
        * subst c0. apply Fold. apply S3; assumption.
        * apply (Fnew o c0 Hc0 Hgt Hw).
  Qed.

  (* ------------------------------------------------------------------ process_one_node *)
  Lemma compl_close s n sA :
    Compl s [n] ->
    (forall o, (exists x, In x (FL s) /\ Wit o x) -> exists x, In x (FL sA) /\ Wit o x) ->
    s_lb s <= s_lb sA ->
    (forall o, OPT' = Some o -> Wit o n -> o <= s_lb sA \/ exists c, In c (FL sA) /\ Wit o c) ->
    Compl sA [].
  Proof.
    intros HC Hsub Hlb Hn o Ho. destruct (HC o Ho) as [Hle|(w & [Hw|Hw] & HW)].
    - left. lia.
    - destruct Hw as [Hw|[]]. subst w. destruct (Hn o Ho HW) as [H|(c & Hc & HWc)]; [left; exact H|].
      right. exists c. split; [right; exact Hc|exact HWc].
    - destruct (Hsub o (ex_intro _ w (conj Hw HW))) as (x & Hx & HWx).
      right. exists x. split; [right; exact Hx|exact HWx].
  Qed.

  Lemma process_spec s n s2 err :
    Core s -> Compl s [n] -> good n -> (sp_depth n <= N)%nat ->
    process_one_node st_eqb cfg s n = (s2, err) ->
    err = false /\ Core s2 /\ Compl s2 [] /\ (Phi cfg M (FL s2) < Phi cfg M (FL s) + wt cfg M n)%nat.
  Proof.
    intros HCore HCompl Hg Hd. unfold process_one_node.
    destruct (sp_ub n <=? s_lb s) eqn:Eub.
    { intros H; inversion H; subst s2 err. split; [reflexivity|]. split; [exact HCore|]. split.
      - apply (compl_close s n s HCompl); [auto|lia|]. intros o _ (o' & _ & _ & Hu). left. apply Z.leb_le in Eub. lia.
      - pose proof (wt_pos cfg M n). lia. }
    rewrite no_cache_nd.
    destruct (run_compile st_eqb cfg s Restricted n) as [[[sa0 inpa] ma] oa] eqn:Ea.
    destruct (phase _ _ _ _ _ _ _ HCore (or_introl eq_refl) Hg Hd Ea) as (-> & Hinpa & Hca & HCa & Hsa & Hlba & Heva).
    cbv beta iota zeta.
    set (sa := maybe_update_best sa0 inpa ma) in HCa, Hsa, Hlba, Heva |- *.
    destruct (dd_is_exact ma) eqn:Eexa.
    { intros H; inversion H; subst s2 err. split; [reflexivity|]. split; [exact HCa|]. split.
      - apply (compl_close s n sa HCompl); [rewrite Hsa; auto|exact Hlba|]. intros o _ (o' & Hb & Hoo & _). left.
        destruct (Z_le_gt_dec o' (s_lb s)) as [Hle|Hgt]; [lia|].
        assert (o' <= s_lb sa); [|lia].
        apply Heva. rewrite Hinpa. eapply K2; eauto. left; reflexivity.
      - rewrite Hsa. pose proof (wt_pos cfg M n). lia. }
    destruct (run_compile st_eqb cfg sa Relaxed n) as [[[sb0 inpb] mb] ob] eqn:Eb.
    destruct (phase _ _ _ _ _ _ _ HCa (or_intror eq_refl) Hg Hd Eb) as (-> & Hinpb & Hcb & HCb & Hsb & Hlbb & Hevb).
    cbv beta iota zeta.
    set (sb := maybe_update_best sb0 inpb mb) in HCb, Hsb, Hlbb, Hevb |- *.
    destruct (dd_is_exact mb) eqn:Eexb.
    { intros H; inversion H; subst s2 err. split; [reflexivity|]. split; [exact HCb|]. split.
      - apply (compl_close s n sb HCompl); [rewrite Hsb, Hsa; auto|lia|]. intros o _ (o' & Hb & Hoo & _). left.
        destruct (Z_le_gt_dec o' (s_lb sa)) as [Hle|Hgt]; [lia|].
        assert (o' <= s_lb sb); [|lia].
        apply Hevb. rewrite Hinpb. eapply K2; eauto. right; reflexivity.
      - rewrite Hsb, Hsa. pose proof (wt_pos cfg M n). lia. }
    intros H; inversion H; subst s2 err. clear H. split; [reflexivity|].
    rewrite enqueue_cutset_fold. subst inpb.
    set (cs := drain_cutset (mk_input cfg Relaxed n (s_lb sa)) mb).
    assert (Hdep : forall c, In c cs -> (sp_depth n < sp_depth c <= N)%nat).
    { intros c Hc. eapply K3_depth; eauto. }
    assert (Hgood : forall c, In c cs -> good c).
    { intros c Hc. eapply K3_good; eauto. }
    destruct HCb as (B1 & B2 & B3 & BQ).
    destruct (enq_fold_spec (s_lb sb) (sp_ub n) cs sb BQ) as (F1 & F2 & F3 & F4 & FQ & FPhi & Fold & Fnew).
    { intros c Hc. split; [apply Hgood; exact Hc|]. apply Hdep in Hc. lia. }
    split; [|split].
    - unfold Core. rewrite F1, F2, F3, F4. split; [exact B1|]. split; [exact B2|]. split; [exact B3|exact FQ].
    - apply (compl_close s n _ HCompl).
      + intros o Hex. apply Fold. rewrite Hsb, Hsa. exact Hex.
      + rewrite F1. lia.
      + intros o Ho (o' & Hb & Hoo & Hu). rewrite F1.
        destruct (Z_le_gt_dec o (s_lb sb)) as [Hle|Hgt]; [left; exact Hle|]. right.
        assert (Hgta : o' > s_lb sa) by lia.
        destruct (K4 _ _ _ _ _ _ _ Hg Hd Hcb Eexb o' Hb Hgta) as (c & Hc & Hbc).
        { intros e He. apply Hevb in He. lia. }
        assert (Hubc : o' <= sp_ub c) by (eapply K3_ub; eauto).
        apply (Fnew o c Hc); [lia|].
        exists o'. rewrite best_set_ub. split; [exact Hbc|]. split; [exact Hoo|]. cbn [set_ub sp_ub]. lia.
    - eapply Nat.le_lt_trans; [exact FPhi|]. rewrite Hsb, Hsa.
      apply Nat.add_lt_mono_l. apply kids_weight; [|exact Hdep].
      eapply K5; eauto.
  Qed.

  (* ------------------------------------------------------------------ the loop *)
  Local Notation Final' := (Final cfg best feasible).

  Lemma loop_step s : Inv s ->
    (exists s1, get_workload st_eqb cfg s = (s1, WComplete) /\ Final' s1) \/
    (exists x s1 s2, get_workload st_eqb cfg s = (s1, WItem x) /\ process_one_node st_eqb cfg s1 x = (s2, false) /\
                     Inv s2 /\ (Phi cfg M (FL s2) < Phi cfg M (FL s))%nat).
  Proof.
    intros [HCore HCompl].
    destruct (get_workload_spec s HCore) as [(Hemp & s1 & Hgw & W2 & W3 & W4 & W5 & W6)
                                            |(x & s1 & Hgw & Hperm & HC1 & W2)].
    - left. exists s1. split; [exact Hgw|]. unfold Final. rewrite W6, W5, W4. split; [exact W2|]. split; [exact W3|].
      split; [reflexivity|]. split; [apply HCore|]. intros o Ho.
      destruct (HCompl o Ho) as [H|(w & [[]|Hw] & _)]; [exact H|]. rewrite Hemp in Hw. destruct Hw.
    - right. destruct (process_one_node st_eqb cfg s1 x) as [s2 err] eqn:Ep.
      assert (Hx : In x (FL s)).
      { eapply Permutation_in; [apply Permutation_sym; exact Hperm|]. left; reflexivity. }
      destruct HCore as (_ & _ & _ & _ & Hfr & _). destruct (Hfr x Hx) as [Hgx Hdx].
      assert (HCompl1 : Compl s1 [x]).
      { intros o Ho. rewrite W2. destruct (HCompl o Ho) as [H|(w & [[]|Hw] & HW)]; [left; exact H|].
        right. exists w. split; [|exact HW]. eapply Permutation_in in Hw; [|exact Hperm].
        destruct Hw as [Hw|Hw]; [left; left; exact Hw|right; exact Hw]. }
      destruct (process_spec s1 x s2 err HC1 HCompl1 Hgx Hdx Ep) as (-> & HC2 & HCompl2 & HPhi).
      exists x, s1, s2. split; [exact Hgw|]. split; [exact Ep|]. split; [split; assumption|].
      rewrite (Phi_perm _ _ _ _ Hperm). unfold Phi in HPhi |- *. cbn [sumf]. lia.
  Qed.

  Lemma main_loop_spec : forall fuel s, Inv s -> (Phi cfg M (FL s) < fuel)%nat ->
    exists s', main_loop st_eqb cfg fuel s = (s', Finished) /\ Final' s'.
  Proof.
    induction fuel as [|fuel IH]; intros s HInv Hfuel; [lia|].
    cbn [main_loop]. assert (Hcr : s_crash s = false) by apply HInv. rewrite Hcr.
    destruct (loop_step s HInv) as [(s1 & Hgw & HF)|(x & s1 & s2 & Hgw & Hp & HInv2 & HPhi)]; rewrite Hgw.
    - exists s1. split; [reflexivity|exact HF].
    - rewrite Hp. apply IH; [exact HInv2|lia].
  Qed.

  (* partial correctness of the loop: whatever the fuel, if the loop finished it finished well *)
  Lemma main_loop_partial : forall fuel s s', Inv s ->
    main_loop st_eqb cfg fuel s = (s', Finished) -> Final' s'.
  Proof.
    induction fuel as [|fuel IH]; intros s s' HInv; [cbn [main_loop]; discriminate|].
    cbn [main_loop]. assert (Hcr : s_crash s = false) by apply HInv. rewrite Hcr.
    destruct (loop_step s HInv) as [(s1 & Hgw & HF)|(x & s1 & s2 & Hgw & Hp & HInv2 & HPhi)]; rewrite Hgw.
    - intros H; inversion H; subst s'. exact HF.
    - rewrite Hp. apply IH. exact HInv2.
  Qed.

  (* ------------------------------------------------------------------ initialisation *)
  Lemma initialize_inv s0 :
    s_nodup s0 = nd_empty -> s_open s0 = repeat O (S N) -> s_crash s0 = false -> s_abort s0 = false ->
    Incumbent feasible (s_lb s0) (s_sol s0) ->
    Inv (initialize_solver st_eqb cfg s0) /\ Permutation (FL (initialize_solver st_eqb cfg s0)) [root_node cfg].
  Proof.
    intros H1 H2 H3 H4 H5. unfold initialize_solver. rewrite fr_push_nd.
    assert (Hr0 : Rep (s_nodup s0)) by (rewrite H1; exact (krep_empty st_eqb)).
    assert (Hfl0 : FL s0 = []) by (rewrite H1; reflexivity).
    destruct (k_push_spec st_eqb st_eqb_spec rk (s_nodup s0) (root_node cfg) Hr0)
      as (f' & Hpush & Hrep' & Hpd).
    rewrite Hpush. cbn [s_nodup s_open s_lb s_sol s_abort s_crash upd_s].
    assert (HP : Permutation (fl f') [root_node cfg]).
    { rewrite Hfl0 in Hpd. destruct Hpd as [HP|(old & rest & HP & _)]; [exact HP|].
      apply Permutation_nil in HP. discriminate. }
    split; [|exact HP]. split.
    - unfold Core, QInv. cbn [s_nodup s_open s_lb s_sol s_abort s_crash upd_s].
      split; [exact H3|]. split; [exact H4|]. split; [exact H5|]. split; [exact Hrep'|]. split.
      + intros n Hn. eapply Permutation_in in Hn; [|exact HP]. destruct Hn as [<-|[]].
        split; [exact good_root|]. cbn [root_node sp_depth]. lia.
      + intros d Hd. rewrite H2, (cnt_perm _ _ _ HP). destruct d as [|d].
        * reflexivity.
        * cbn [repeat upd_nth nth_error]. rewrite nth_error_repeat by lia.
          rewrite cnt_cons_other by (cbn [root_node sp_depth]; lia). reflexivity.
    - intros o Ho. right. exists (root_node cfg). cbn [s_nodup upd_s].
      split; [right; eapply Permutation_in; [apply Permutation_sym; exact HP|left; reflexivity]|].
      exists o. split; [exact Ho|]. split; [lia|]. cbn [root_node sp_ub]. apply opt_in_isize. exact Ho.
  Qed.

  Lemma start_state_nd primal : s_nodup (start_state cfg primal) = nd_empty.
  Proof.
    destruct primal as [[pv psol]|]; cbn [start_state]; [|reflexivity].
    unfold set_primal. destruct (_ >? _); reflexivity.
  Qed.

  (* ------------------------------------------------------------------ main theorems *)
  (* total correctness with an explicit fuel bound (the same as for SimpleFringe), any feasible or absent warm start *)
  Theorem maximize_correct_nodup primal : primal_ok feasible primal ->
    forall fuel, (fuel0 cfg M <= fuel)%nat -> result_ok cfg best feasible (maximize st_eqb cfg fuel primal).
  Proof.
    intros Hp fuel Hfuel.
    destruct (start_state_ok cfg feasible primal Hp) as (_ & S2 & S3 & S4 & S5).
    destruct (initialize_inv _ (start_state_nd primal) S2 S3 S4 S5) as [HInv HP].
    destruct (main_loop_spec fuel _ HInv) as (s' & Hml & HF).
    { rewrite (Phi_perm _ _ _ _ HP). unfold Phi, wt. cbn [sumf root_node sp_depth]. rewrite Nat.sub_0_r.
      unfold fuel0 in Hfuel. lia. }
    eapply maximize_of_final; eassumption.
  Qed.

  (* partial correctness: for ANY fuel, a run that was not cut short by the fuel is correct *)
  Theorem seq_solver_partial_correct_nodup primal : primal_ok feasible primal ->
    forall fuel, r_outoffuel (maximize st_eqb cfg fuel primal) = false ->
    result_ok cfg best feasible (maximize st_eqb cfg fuel primal).
  Proof.
    intros Hp fuel Hnf.
    destruct (start_state_ok cfg feasible primal Hp) as (_ & S2 & S3 & S4 & S5).
    destruct (initialize_inv _ (start_state_nd primal) S2 S3 S4 S5) as [HInv _].
    destruct (main_loop st_eqb cfg fuel (initialize_solver st_eqb cfg (start_state cfg primal))) as [s' e] eqn:Hml.
    assert (He : e = Finished).
    { unfold maximize in Hnf. fold (start_state cfg primal) in Hnf. rewrite Hml in Hnf.
      cbn [r_outoffuel] in Hnf. destruct e; [reflexivity|discriminate]. }
    subst e. eapply maximize_of_final; [eassumption|eassumption|exact Hml|]. eapply main_loop_partial; eassumption.
  Qed.

  (* C01, NoDupFringe *)
  Theorem seq_solver_correct_nodup :
    exists f0, forall fuel, (f0 <= fuel)%nat ->
      let r := maximize st_eqb cfg fuel None in
      r_crash r = false /\ r_outoffuel r = false /\ r_exact r = true /\ r_value r = OPT' /\
      (forall v, OPT' = Some v ->
         r_lb r = v /\ r_ub r = v /\ exists sol, r_sol r = Some (sort_by dec_var_cmp sol) /\ feasible sol v) /\
      (OPT' = None -> r_sol r = None /\ r_lb r = IMIN).
  Proof.
    exists (fuel0 cfg M). intros fuel Hfuel. apply (maximize_correct_nodup None); [|exact Hfuel].
    intros pv psol H; discriminate.
  Qed.

  (* C14, NoDupFringe *)
  Theorem seq_solver_correct_primal_nodup pv psol : feasible psol pv ->
    exists f0, forall fuel, (f0 <= fuel)%nat ->
      let r := maximize st_eqb cfg fuel (Some (pv, psol)) in
      r_crash r = false /\ r_outoffuel r = false /\ r_exact r = true /\ r_value r = OPT' /\
      (forall v, OPT' = Some v ->
         r_lb r = v /\ r_ub r = v /\ exists sol, r_sol r = Some (sort_by dec_var_cmp sol) /\ feasible sol v) /\
      (OPT' = None -> r_sol r = None /\ r_lb r = IMIN).
  Proof.
    intros Hf. exists (fuel0 cfg M). intros fuel Hfuel. apply (maximize_correct_nodup (Some (pv, psol))); [|exact Hfuel].
    intros pv' psol' H; inversion H; subst. exact Hf.
  Qed.
End SolverNoDup.

Print Assumptions seq_solver_correct_nodup.
Print Assumptions seq_solver_correct_primal_nodup.
Print Assumptions maximize_correct_nodup.
Print Assumptions seq_solver_partial_correct_nodup.

(* ================================================================== 2. the unconditional theorem: Assembly.C01_sequential_optimal
   with the NoDupFringe.  The diagram contracts K0..K5 of Assembly.v are statements about Mdd.compile on mk_input cfg ..,
   and mk_input does not read sc_nodup; some of them (K1, K3_good, K3_depth, K5) nevertheless carry the section hypothesis
   sc_nodup cfg = false (through cfg0_ok).  They are imported through the configuration with the flag flipped, whose
   contracts are convertible to those of cfg. *)
Require Import DDO.MddProgress DDO.MddSim DDO.SolverCutoff DDO.Assembly.

Definition flip_nodup {St : Type} (c : @sconfig St) : @sconfig St := {|
  sc_flavour := sc_flavour c; sc_problem := sc_problem c; sc_relax := sc_relax c; sc_ranking := sc_ranking c;
  sc_domcmp := sc_domcmp c; sc_domrule := sc_domrule c; sc_width := sc_width c; sc_use_cache := sc_use_cache c;
  sc_nodup := false; sc_cutoff := sc_cutoff c |}.

(* the transfer lemma: compilations do not depend on the kind of fringe *)
Lemma mk_input_flip {St : Type} (c : @sconfig St) ct n lb : mk_input (flip_nodup c) ct n lb = mk_input c ct n lb.
Proof. reflexivity. Qed.

(* MddSim.best (value + Bellman value of (depth, state)) satisfies coalesce_ok, for all sub-problems *)
Lemma best_coalesce_ok {St : Type} (cfg : @sconfig St) (a b : @subproblem St) :
  sp_state a = sp_state b -> sp_depth a = sp_depth b ->
  forall oa, MddSim.best cfg a = Some oa -> MddSim.best cfg b = Some (oa - sp_value a + sp_value b).
Proof.
  unfold MddSim.best, oadd. cbv zeta. intros Hs Hd oa. rewrite Hs, Hd.
  match goal with |- context [option_map _ ?h] => destruct h as [hv|] end; cbn [option_map]; [|discriminate].
  intros E. inversion E; subst oa. f_equal. lia.
Qed.

Section MainNoDup.
  Context {St : Type}.
  Variable st_eqb : St -> St -> bool.
  Hypothesis st_eqb_spec : forall a b, st_eqb a b = true <-> a = b.
  Variable cfg : @sconfig St.
  Local Notation pb := (sc_problem cfg).
  Local Notation rlx := (sc_relax cfg).
  Local Notation N := (nb_vars (sc_problem cfg)).

  (* ---- configuration: as Assembly.Main, except for the fringe *)
  Hypothesis cfg_clean : sc_flavour cfg = CleanLEL \/ sc_flavour cfg = CleanFC.
  Hypothesis cfg_nocache : sc_use_cache cfg = false.
  Hypothesis cfg_nodom : sc_domrule cfg = None.
  Hypothesis cfg_nodup : sc_nodup cfg = true.
  Hypothesis cfg_width : (1 <= sc_width cfg)%nat.
  Hypothesis nv_static : forall k l1 l2, next_variable pb k l1 = next_variable pb k l2.
  Hypothesis nv_some : forall k l, (k < N)%nat -> exists x, next_variable pb k l = Some x.
  Hypothesis nv_none : forall k l, (N <= k)%nat -> next_variable pb k l = None.
  Hypothesis Hwf : wf_relaxation cfg.
  Variable D : nat.
  Hypothesis dom_bound : forall x s, (length (domain pb x s) <= D)%nat.
  Variable B : Z.
  Hypothesis HB : 2 * B <= IMAX.
  Hypothesis guard0 : forall ds s' v', frun pb 0 (init_state pb) (init_value pb) ds = Some (s', v') -> - B <= v' <= B.
  Hypothesis cfg_nocut : sc_cutoff cfg = 0%nat.

  Local Notation cfgF := (flip_nodup cfg).
  Local Notation good := (sgood pb).
  Local Notation feas := (sfeasible pb).
  Local Notation bst := (MddSim.best cfg).

  Lemma cfg_ok_nd : config_ok_nodup cfg.
  Proof. repeat split; assumption. Qed.

  Lemma flipF : sc_nodup cfgF = false. Proof. reflexivity. Qed.
  Lemma HwfF : wf_relaxation cfgF. Proof. exact Hwf. Qed.

  Lemma K0n : forall ct n lb c ds polls m out,
    dd_ct ct -> good n -> (sp_depth n <= N)%nat ->
    compile st_eqb (mk_input cfg ct n lb) 0 0 c ds polls = (m, out) -> out = Compiled /\ m_crash m = false.
  Proof.
    exact (Assembly.K0 st_eqb st_eqb_spec cfgF cfg_clean cfg_nocache cfg_nodom cfg_width nv_some nv_none cfg_nocut).
  Qed.

  Lemma K1n : forall ct n lb c ds polls m out,
    dd_ct ct -> good n -> (sp_depth n <= N)%nat ->
    compile st_eqb (mk_input cfg ct n lb) 0 0 c ds polls = (m, out) ->
    forall v, dd_best_exact_value (mk_input cfg ct n lb) m = Some v ->
    exists sol, dd_best_exact_solution (mk_input cfg ct n lb) m = Some sol /\ feas sol v.
  Proof.
    exact (Assembly.K1 st_eqb st_eqb_spec cfgF cfg_clean cfg_nocache cfg_nodom flipF cfg_width nv_static nv_some nv_none
             B HB guard0 cfg_nocut).
  Qed.

  Lemma K2n : forall ct n lb c ds polls m out,
    dd_ct ct -> good n -> (sp_depth n <= N)%nat ->
    compile st_eqb (mk_input cfg ct n lb) 0 0 c ds polls = (m, out) ->
    dd_is_exact m = true ->
    forall o, bst n = Some o -> o > lb -> dd_best_exact_value (mk_input cfg ct n lb) m = Some o.
  Proof.
    exact (Assembly.K2 st_eqb st_eqb_spec cfgF cfg_clean cfg_nocache cfg_nodom cfg_width nv_static nv_some nv_none
             HwfF B HB guard0 cfg_nocut).
  Qed.

  Lemma K3_goodn : forall n lb c ds polls m out,
    good n -> (sp_depth n <= N)%nat ->
    compile st_eqb (mk_input cfg Relaxed n lb) 0 0 c ds polls = (m, out) ->
    dd_is_exact m = false ->
    forall x, In x (drain_cutset (mk_input cfg Relaxed n lb) m) -> good x.
  Proof.
    exact (Assembly.K3_good st_eqb st_eqb_spec cfgF cfg_clean cfg_nocache cfg_nodom flipF cfg_width nv_static nv_some nv_none
             B HB guard0 cfg_nocut).
  Qed.

  Lemma K3_depthn : forall n lb c ds polls m out,
    good n -> (sp_depth n <= N)%nat ->
    compile st_eqb (mk_input cfg Relaxed n lb) 0 0 c ds polls = (m, out) ->
    dd_is_exact m = false ->
    forall x, In x (drain_cutset (mk_input cfg Relaxed n lb) m) -> (sp_depth n < sp_depth x <= N)%nat.
  Proof.
    exact (Assembly.K3_depth st_eqb st_eqb_spec cfgF cfg_clean cfg_nocache cfg_nodom flipF cfg_width nv_some nv_none cfg_nocut).
  Qed.

  Lemma K3_ubn : forall n lb c ds polls m out,
    good n -> (sp_depth n <= N)%nat ->
    compile st_eqb (mk_input cfg Relaxed n lb) 0 0 c ds polls = (m, out) ->
    dd_is_exact m = false ->
    forall x, In x (drain_cutset (mk_input cfg Relaxed n lb) m) ->
    forall o, bst x = Some o -> o > lb -> o <= sp_ub x.
  Proof.
    exact (Assembly.K3_ub st_eqb st_eqb_spec cfgF cfg_clean cfg_nocache cfg_nodom cfg_width nv_static nv_some nv_none
             HwfF B HB guard0 cfg_nocut).
  Qed.

  Lemma K4n : forall n lb c ds polls m out,
    good n -> (sp_depth n <= N)%nat ->
    compile st_eqb (mk_input cfg Relaxed n lb) 0 0 c ds polls = (m, out) ->
    dd_is_exact m = false ->
    forall o, bst n = Some o -> o > lb ->
    (forall e, dd_best_exact_value (mk_input cfg Relaxed n lb) m = Some e -> e < o) ->
    exists x, In x (drain_cutset (mk_input cfg Relaxed n lb) m) /\ bst x = Some o.
  Proof.
    exact (Assembly.K4 st_eqb st_eqb_spec cfgF cfg_clean cfg_nocache cfg_nodom cfg_width nv_static nv_some nv_none
             HwfF B HB guard0 cfg_nocut).
  Qed.

  Lemma K5n : forall n lb c ds polls m out,
    good n -> (sp_depth n <= N)%nat ->
    compile st_eqb (mk_input cfg Relaxed n lb) 0 0 c ds polls = (m, out) ->
    dd_is_exact m = false ->
    (length (drain_cutset (mk_input cfg Relaxed n lb) m) <= Kbound cfg D)%nat.
  Proof.
    exact (Assembly.K5 st_eqb st_eqb_spec cfgF cfg_clean cfg_nocache cfg_nodom flipF cfg_width nv_some nv_none
             D dom_bound cfg_nocut).
  Qed.

  (* strong form: the returned solution is a feasible run in EXACT integer arithmetic *)
  Theorem C01_sequential_optimal_nodup_run :
    exists f0, forall fuel, (f0 <= fuel)%nat ->
      let r := maximize st_eqb cfg fuel None in
      r_crash r = false /\ r_outoffuel r = false /\ r_exact r = true /\ r_value r = opt_enum pb /\
      (forall v, opt_enum pb = Some v ->
         r_lb r = v /\ r_ub r = v /\ exists sol, r_sol r = Some (sort_by dec_var_cmp sol) /\ feas sol v) /\
      (opt_enum pb = None -> r_sol r = None /\ r_lb r = IMIN).
  Proof.
    destruct (seq_solver_correct_nodup st_eqb st_eqb_spec cfg cfg_ok_nd good bst feas
                (Assembly.good_root cfg) (Assembly.feasible_le_opt cfg nv_static nv_none)
                (Assembly.opt_in_isize cfg cfg_width nv_static nv_some nv_none B HB guard0)
                (fun c u => sgood_set_ub pb c u) (Assembly.best_set_ub cfg)
                (fun a b _ _ => best_coalesce_ok cfg a b)
                (Kbound cfg D) K0n K1n K2n K3_goodn K3_depthn K3_ubn K4n K5n) as [f0 Hf].
    exists f0. intros fuel Hfuel. specialize (Hf fuel Hfuel). rewrite OPT_is_opt_enum in Hf. exact Hf.
  Qed.

  (* C01, NoDupFringe: the statement of Assembly.C01_sequential_optimal *)
  Theorem C01_sequential_optimal_nodup :
    exists f0, forall fuel, (f0 <= fuel)%nat ->
      let r := maximize st_eqb cfg fuel None in
      r_crash r = false /\ r_outoffuel r = false /\ r_exact r = true /\ r_value r = opt_enum pb /\
      (forall v, opt_enum pb = Some v ->
         r_lb r = v /\ r_ub r = v /\
         exists sol, r_sol r = Some (sort_by dec_var_cmp sol) /\ MddProgress.feasible pb sol v) /\
      (opt_enum pb = None -> r_sol r = None /\ r_lb r = IMIN).
  Proof.
    destruct C01_sequential_optimal_nodup_run as [f0 Hf]. exists f0. intros fuel Hfuel.
    destruct (Hf fuel Hfuel) as (A1 & A2 & A3 & A4 & A5 & A6).
    split; [exact A1|]. split; [exact A2|]. split; [exact A3|]. split; [exact A4|]. split; [|exact A6].
    intros v Hv. destruct (A5 v Hv) as (E1 & E2 & sol & S1 & S2). split; [exact E1|]. split; [exact E2|].
    exists sol. split; [exact S1|]. apply (sfeasible_feasible pb B HB guard0). exact S2.
  Qed.

  (* C14, NoDupFringe: with a feasible primal solution given to the solver *)
  Theorem C14_primal_nodup_run : forall pv psol, feas psol pv ->
    exists f0, forall fuel, (f0 <= fuel)%nat ->
      let r := maximize st_eqb cfg fuel (Some (pv, psol)) in
      r_crash r = false /\ r_outoffuel r = false /\ r_exact r = true /\ r_value r = opt_enum pb /\
      (forall v, opt_enum pb = Some v ->
         r_lb r = v /\ r_ub r = v /\ exists sol, r_sol r = Some (sort_by dec_var_cmp sol) /\ feas sol v) /\
      (opt_enum pb = None -> r_sol r = None /\ r_lb r = IMIN).
  Proof.
    intros pv psol Hp.
    destruct (seq_solver_correct_primal_nodup st_eqb st_eqb_spec cfg cfg_ok_nd good bst feas
                (Assembly.good_root cfg) (Assembly.feasible_le_opt cfg nv_static nv_none)
                (Assembly.opt_in_isize cfg cfg_width nv_static nv_some nv_none B HB guard0)
                (fun c u => sgood_set_ub pb c u) (Assembly.best_set_ub cfg)
                (fun a b _ _ => best_coalesce_ok cfg a b)
                (Kbound cfg D) K0n K1n K2n K3_goodn K3_depthn K3_ubn K4n K5n pv psol Hp) as [f0 Hf].
    exists f0. intros fuel Hfuel. specialize (Hf fuel Hfuel). rewrite OPT_is_opt_enum in Hf. exact Hf.
  Qed.

  Theorem C14_primal_nodup : forall pv psol, feas psol pv ->
    exists f0, forall fuel, (f0 <= fuel)%nat ->
      let r := maximize st_eqb cfg fuel (Some (pv, psol)) in
      r_crash r = false /\ r_outoffuel r = false /\ r_exact r = true /\ r_value r = opt_enum pb /\
      (forall v, opt_enum pb = Some v ->
         r_lb r = v /\ r_ub r = v /\
         exists sol, r_sol r = Some (sort_by dec_var_cmp sol) /\ MddProgress.feasible pb sol v) /\
      (opt_enum pb = None -> r_sol r = None /\ r_lb r = IMIN).
  Proof.
    intros pv psol Hp. destruct (C14_primal_nodup_run pv psol Hp) as [f0 Hf]. exists f0. intros fuel Hfuel.
    destruct (Hf fuel Hfuel) as (A1 & A2 & A3 & A4 & A5 & A6).
    split; [exact A1|]. split; [exact A2|]. split; [exact A3|]. split; [exact A4|]. split; [|exact A6].
    intros v Hv. destruct (A5 v Hv) as (E1 & E2 & sol & S1 & S2). split; [exact E1|]. split; [exact E2|].
    exists sol. split; [exact S1|]. apply (sfeasible_feasible pb B HB guard0). exact S2.
  Qed.
End MainNoDup.

(* ================================================================== 3. non-vacuity: the table family of TableWf.v *)
Require Import DDO.Table DDO.Run DDO.TableWf.

(* the theorem on the whole family: tb_sconfig ti flv (cache := false) (nodup := TRUE) (dominance := false) width 0 *)
Theorem C01_table_instances_nodup (ti : tinst) (C : Z) (Hwf : t_wf ti C) (flv : flavour)
    (Hflv : flv = CleanLEL \/ flv = CleanFC) (width : nat) (Hwidth : (1 <= width)%nat) :
  exists f0, forall fuel, (f0 <= fuel)%nat ->
    let r := maximize tstate_eqb (tb_sconfig ti flv false true false width 0) fuel None in
    r_crash r = false /\ r_outoffuel r = false /\ r_exact r = true /\ r_value r = opt_enum (t_problem ti) /\
    (forall v, opt_enum (t_problem ti) = Some v ->
       r_lb r = v /\ r_ub r = v /\
       exists sol, r_sol r = Some (sort_by dec_var_cmp sol) /\ MddProgress.feasible (t_problem ti) sol v) /\
    (opt_enum (t_problem ti) = None -> r_sol r = None /\ r_lb r = IMIN).
Proof.
  destruct (table_premises ti C Hwf flv Hflv width Hwidth 0%nat)
    as (P1 & P2 & P3 & P4 & P5 & P6 & P7 & P8 & P9 & P10 & P11 & P12 & P13).
  exact (C01_sequential_optimal_nodup tstate_eqb P1 (tb_sconfig ti flv false true false width 0) P2 P3 P4 eq_refl P6 P7 P8 P9
           P10 (length (t_trans ti)) P11 (tB ti C) P12 P13 eq_refl).
Qed.

(* the instance of TableWf.v (optimum 12): by the theorem ... *)
Example ex_C01_nodup :
  exists f0, forall fuel, (f0 <= fuel)%nat ->
    let r := maximize tstate_eqb (tb_sconfig ex_ti CleanLEL false true false 1 0) fuel None in
    r_crash r = false /\ r_outoffuel r = false /\ r_exact r = true /\
    r_value r = Some 12 /\ r_lb r = 12 /\ r_ub r = 12.
Proof.
  destruct (C01_table_instances_nodup ex_ti 7 ex_wf CleanLEL (or_introl eq_refl) 1 (le_n 1)) as [f0 Hf].
  exists f0. intros fuel Hfuel. destruct (Hf fuel Hfuel) as (A1 & A2 & A3 & A4 & A5 & _).
  rewrite ex_opt in A4. destruct (A5 12 ex_opt) as (B1 & B2 & _). cbv zeta. repeat split; assumption.
Qed.

(* ... and by running the executable model with the NoDupFringe *)
Example ex_run_nodup :
  let r := maximize tstate_eqb (tb_sconfig ex_ti CleanLEL false true false 1 0) 40 None in
  (r_crash r, r_outoffuel r, r_exact r, r_value r, r_lb r, r_ub r) = (false, false, true, Some 12, 12, 12).
Proof. vm_compute. reflexivity. Qed.

(* ex_ti is closed at the root (nothing but the root is ever pushed).  An instance on which a COALESCING push happens:
   4 variables (static order 0..3), width 2, last-exact-layer cut-sets:
     x0: 0 -0-> 1 (+0)   0 -1-> 2 (+0)
     x1: 1 -0-> 3 (+0)   1 -1-> 4 (+3)   2 -0-> 3 (+1)   2 -1-> 5 (+3)
     x2: 3 -0-> 6 (+0)   3 -1-> 7 (+0)   3 -2-> 11 (+0)  4 -0-> 8 (+1)   5 -0-> 9 (+1)
     x3: 6 -0-> 10 (+7)  7, 11, 8, 9 -0-> 10 (+0)
   the best path is x0 = 1, x1 = 0, x2 = 0, x3 = 0 with value 0 + 1 + 0 + 7 = 8.  The root's cut-set is {[1], [2]} (depth 1);
   [1] is processed first and leaves ([3], depth 2, value 0, ub 7) in the fringe; then [2] is processed and pushes
   ([3], depth 2, value 1, ub 8), which has the same key. *)
Definition co_ti : tinst := {|
  t_nvars := 4; t_nbase := 13; t_init := 0; t_initval := 0; t_slack := 0; t_rubkind := 0; t_domkind := 0;
  t_usevalue := false; t_ncoord := 0; t_order := [0; 1; 2; 3]%nat;
  t_trans := [ (0%nat, 0, 0, 1, 0); (0%nat, 0, 1, 2, 0);
               (1%nat, 1, 0, 3, 0); (1%nat, 1, 1, 4, 3); (1%nat, 2, 0, 3, 1); (1%nat, 2, 1, 5, 3);
               (2%nat, 3, 0, 6, 0); (2%nat, 3, 1, 7, 0); (2%nat, 3, 2, 11, 0); (2%nat, 4, 0, 8, 1); (2%nat, 5, 0, 9, 1);
               (3%nat, 6, 0, 10, 7); (3%nat, 7, 0, 10, 0); (3%nat, 11, 0, 10, 0); (3%nat, 8, 0, 10, 0); (3%nat, 9, 0, 10, 0) ];
  t_notimp := []; t_rub := []; t_key := []; t_coords := []; t_mergekind := 0; t_pos := []; t_up := [] |}.

Example co_wf : t_wf co_ti 7.
Proof. apply t_wfb_spec. vm_compute. reflexivity. Qed.

Example co_opt : opt_enum (t_problem co_ti) = Some 8.
Proof. vm_compute. reflexivity. Qed.

(* the state of the solver after [k] iterations of the main loop *)
Definition co_state (nodupf : bool) (k : nat) : @sstate tstate :=
  let cfg := tb_sconfig co_ti CleanLEL false nodupf false 2 0 in
  fst (main_loop tstate_eqb cfg k (initialize_solver tstate_eqb cfg (init_sstate cfg))).
Definition co_entry {S : Type} (n : @subproblem S) := (sp_state n, sp_depth n, sp_value n, sp_ub n).

(* after 2 iterations both fringes hold [2] (depth 1) and [3] (depth 2, value 0, ub 7); the third iteration processes [2]:
   the SimpleFringe then holds two copies of ([3], depth 2), the NoDupFringe a single entry with the larger value and the
   larger ub, and open_by_layer[2] stays 1 (after - before = 0) *)
Example co_coalesces :
  (map co_entry (s_simple (co_state false 2)) = [([3], 2%nat, 0, 7); ([2], 1%nat, 0, 9)] /\
   map co_entry (fl (s_nodup (co_state true 2))) = [([2], 1%nat, 0, 9); ([3], 2%nat, 0, 7)]) /\
  (map co_entry (s_simple (co_state false 3)) = [([3], 2%nat, 1, 8); ([3], 2%nat, 0, 7)] /\
   s_open (co_state false 3) = [0; 0; 2; 0; 0]%nat) /\
  (map co_entry (fl (s_nodup (co_state true 3))) = [([3], 2%nat, 1, 8)] /\
   s_open (co_state true 3) = [0; 0; 1; 0; 0]%nat).
Proof. vm_compute. repeat split; reflexivity. Qed.

(* both runs end with the optimum; the NoDupFringe run explores one node less *)
Example co_run :
  let r := maximize tstate_eqb (tb_sconfig co_ti CleanLEL false true false 2 0) 40 None in
  let r' := maximize tstate_eqb (tb_sconfig co_ti CleanLEL false false false 2 0) 40 None in
  (r_crash r, r_outoffuel r, r_exact r, r_value r, r_lb r, r_ub r, r_explored r) = (false, false, true, Some 8, 8, 8, 4%nat) /\
  (r_crash r', r_outoffuel r', r_exact r', r_value r', r_lb r', r_ub r', r_explored r') = (false, false, true, Some 8, 8, 8, 5%nat).
Proof. vm_compute. split; reflexivity. Qed.

(* ... as the theorem says it must *)
Example co_C01_nodup :
  exists f0, forall fuel, (f0 <= fuel)%nat ->
    let r := maximize tstate_eqb (tb_sconfig co_ti CleanLEL false true false 2 0) fuel None in
    r_crash r = false /\ r_outoffuel r = false /\ r_exact r = true /\ r_value r = Some 8 /\ r_lb r = 8 /\ r_ub r = 8.
Proof.
  destruct (C01_table_instances_nodup co_ti 7 co_wf CleanLEL (or_introl eq_refl) 2 (le_S 1 1 (le_n 1))) as [f0 Hf].
  exists f0. intros fuel Hfuel. destruct (Hf fuel Hfuel) as (A1 & A2 & A3 & A4 & A5 & _).
  rewrite co_opt in A4. destruct (A5 8 co_opt) as (B1 & B2 & _). cbv zeta. repeat split; assumption.
Qed.

(* ------------------------------------------------------------------ assumptions *)
Print Assumptions C01_sequential_optimal_nodup.
Print Assumptions C01_sequential_optimal_nodup_run.
Print Assumptions C14_primal_nodup.
Print Assumptions C14_primal_nodup_run.
Print Assumptions C01_table_instances_nodup.
Print Assumptions ex_C01_nodup.
Print Assumptions ex_run_nodup.
Print Assumptions co_coalesces.
Print Assumptions co_run.
Print Assumptions co_C01_nodup.
