(* ParAnytime.v — property C05, PARALLEL half: the bounds reported by the parallel solver stay sound when the search is
   cut off at any point.  Model: Par.v (ddo/src/implementation/solver/parallel.rs after the two repairs of abort_search:
   finding D3 -- the bound must cover the other workers' nodes and the top of the fringe -- and finding D3b -- no
   isize::MAX sentinels, see section 8).  For EVERY schedule, EVERY fuel, EVERY number of workers T >= 1, EVERY feasible
   warm start and EVERY cutoff.  Configuration: sc_use_cache = false, sc_nodup = false (as ParProofs.v).

   WHAT THE MODEL DOES AT AN ABORT (Par.par_step, case PAbort n, worker w):
       cur  := maximum over ALL slots of p_upper_bounds (w's own slot included; idle slots hold IMIN, neutral for max),
               starting from max (sp_ub n, p_lb);
       cur' := max (cur, sp_ub (top of the fringe))   if the fringe is not empty (pq_pop_max: the top dominates the fringe);
       p_ub := if p_abort then max (cur', p_ub) else cur';   p_abort := true;   fringe := [];   cache cleared.
   So a SECOND abort_search (another worker) takes a maximum that includes the previous p_ub: the bound is kept
   (abort_ub_old, used in abort_step; ex3_second_abort and Residual.residual_steps show it on runs).
   [abort_ub] below is this value.

   STOREY 1 (abstract contracts; premises = those of ParProofs.par_optimal WITHOUT sc_cutoff cfg = 0, packaged as
   SolverCutoff.contracts / SolverCutoff.semantics: the contracts constrain only compilations whose outcome is
   Compiled, plus the absence of a model crash for all of them; NO other premise):
       par_anytime_sound            1 <= T -> primal_okP feasible primal -> pr_end r = PFinished ->
                                      pr_crash r = false /\ pr_lb r <= pr_ub r /\
                                      (forall o, OPT = Some o -> pr_lb r <= o <= pr_ub r) /\
                                      (OPT = None -> pr_value r = None /\ pr_sol r = None) /\
                                      (forall v, pr_value r = Some v -> pr_lb r = v /\
                                           exists sol, pr_sol r = Some (sort_by dec_var_cmp sol) /\ feasible sol v) /\
                                      (pr_exact r = true -> pr_value r = OPT)
       par_anytime_sound_any_end    [sound_result r] for ANY way the run ends (POutOfFuel included: the bounds are sound
                                    in every reachable state; only the last clause is conditional on PFinished)
   STOREY 2 (Mdd.compile, clean flavours; hypotheses of Assembly.Main / Assembly.Cutoffs; OPT = opt_enum pb):
       C05_parallel_anytime, C05_parallel_anytime_any_end      exactly the shape of Assembly.C05_sequential_anytime
   NON-VACUITY: C05_parallel_table_instances (every t_wf instance, every cutoff / schedule / fuel), ex3_* (3 workers,
     cutoff 7: three workers abort, two of them sit at PAbort at the same time; lb = 3 < 7 = optimum <= 8 = ub; the first
     abort_search is run by the worker whose own node has bound 6 < 7 -- what the code before the repair of D3 would have
     reported), ex3_out_of_fuel, ex_ti_abort; module Residual: regression for finding D3b.
   NOT DONE: Par.v has no pre-fix variant of abort_search (the only `prefix` of the development is
     Run.tb_par_maximize_prefix = upper_bounds sized by the constructor, finding D2), so the pre-repair behaviours (D3, D3b)
     are described in comments only; ParProofs.v contains no lemma named D3_*.

   THE INVARIANT (AInv, on top of ParProofs.PInv):
     Incumbent   the incumbent is a feasible solution (any regime);
     Slots       upper_bounds[w] = sp_ub n whenever worker w is busy with n (step_ubs: what each transition does to
                 upper_bounds, by plain computation on the model);
     CalmV       while p_abort = false: the invariant of ParProofs.par_optimal, where a compilation that is cut short goes
                 to PAbort n and KEEPS the responsibility for n (resp); + "no exit yet -> p_ub = IMAX";
     AbV         once p_abort = true: p_lb <= p_ub and OPT <= p_ub.
   abort_step: CalmV or AbV, Slots  ==>  AbV after abort_search (the optimum's witness is in the fringe: below the top;
   or held by the aborting worker: its own bound; or held by another worker: that worker's slot).
   Stdlib only, no axioms (Print Assumptions at the end). *)
Require Import DDO.Base DDO.Fringe DDO.FringeProofs DDO.Fringe2 DDO.DP DDO.Cache DDO.Dom DDO.Mdd DDO.Solver DDO.Par.
Require Import DDO.SolverProofs DDO.SolverCutoff DDO.ParProofs.
From Coq Require Import Permutation Arith Lia List ZArith Bool.
Import ListNotations.
Open Scope Z_scope.

(* ================================================================== 0. the fold of abort_search over upper_bounds *)
Definition ubfold (ubs : list Z) (init : Z) : Z := fold_left (fun acc u => Z.max acc u) ubs init.

Lemma ubfold_ge_init ubs : forall init, init <= ubfold ubs init.
Proof.
  induction ubs as [|u ubs IH]; intros init; unfold ubfold; cbn [fold_left]; [lia|].
  fold (ubfold ubs (Z.max init u)). specialize (IH (Z.max init u)). lia.
Qed.

Lemma ubfold_ge_slot ubs : forall init w u, nth_error ubs w = Some u -> u <= ubfold ubs init.
Proof.
  induction ubs as [|x ubs IH]; intros init [|w] u H; cbn [nth_error] in H; try discriminate.
  - inversion H; subst x. unfold ubfold. cbn [fold_left].
    fold (ubfold ubs (Z.max init u)). pose proof (ubfold_ge_init ubs (Z.max init u)). lia.
  - unfold ubfold. cbn [fold_left]. fold (ubfold ubs (Z.max init x)). eapply IH; eauto.
Qed.

Section ParAnytime.
  Context {St : Type}.
  Variable st_eqb : St -> St -> bool.
  Variable cfg : @sconfig St.
  Let pb := sc_problem cfg.
  Let N := nb_vars pb.

  Notation pstate := (@pstate St).
  Notation pc := (@pc St).
  Notation subproblem := (@subproblem St).

  (* ================================================================== 1. what a transition does to upper_bounds
     (unconditional: plain computation on the model, no invariant needed) *)
  Definition Fr (s s1 : pstate) : Prop :=
    p_workers s1 = p_workers s /\ p_upper_bounds s1 = p_upper_bounds s /\ p_ub s1 = p_ub s /\ p_lb s1 = p_lb s.

  Lemma Fr_refl s : Fr s s. Proof. repeat split. Qed.
  Lemma Fr_trans s s1 s2 : Fr s s1 -> Fr s1 s2 -> Fr s s2.
  Proof. intros (A1 & A2 & A3 & A4) (B1 & B2 & B3 & B4). repeat split; congruence. Qed.
  Lemma Fr_with_fringe s l nd : Fr s (with_fringe s l nd). Proof. repeat split. Qed.
  Lemma Fr_with_open s a b : Fr s (with_open s a b). Proof. repeat split. Qed.
  Lemma Fr_with_cache_fal s c f : Fr s (with_cache_fal s c f). Proof. repeat split. Qed.
  Lemma Fr_crashed s : Fr s (p_crashed s). Proof. repeat split. Qed.
  Lemma Fr_clear s : Fr s (pf_clear s). Proof. repeat split. Qed.

  Lemma Fr_pf_pop s : Fr s (fst (pf_pop st_eqb cfg s)).
  Proof.
    unfold pf_pop. destruct (sc_nodup cfg).
    - destruct (k_pop st_eqb (sc_ranking cfg) (p_nodup s)) as [[f r]|]; cbn [fst]; [apply Fr_with_fringe|apply Fr_crashed].
    - destruct (pq_pop cfg (p_simple s)) as [[x rest]|]; cbn [fst]; [apply Fr_with_fringe|apply Fr_refl].
  Qed.

  Lemma Fr_pf_push s n : Fr s (pf_push st_eqb cfg s n).
  Proof.
    unfold pf_push. destruct (sc_nodup cfg).
    - destruct (k_push st_eqb (sc_ranking cfg) (p_nodup s) n); [apply Fr_with_fringe|apply Fr_crashed].
    - apply Fr_with_fringe.
  Qed.

  Lemma Fr_clean_loop fuel : forall s, Fr s (p_clean_cache_loop cfg fuel s).
  Proof.
    induction fuel as [|fuel IH]; intros s; cbn [p_clean_cache_loop]; [apply Fr_refl|].
    destruct (Nat.ltb (p_fal s) (nb_vars (sc_problem cfg))); [|apply Fr_refl].
    destruct (nth_error (p_open s) (p_fal s)) as [a|]; [|apply Fr_crashed].
    destruct (nth_error (p_ongoing_by_layer s) (p_fal s)) as [b|]; [|apply Fr_crashed].
    destruct (Nat.eqb (a + b) 0); [|apply Fr_refl].
    destruct (if sc_use_cache cfg then clear_layer (p_cache s) (p_fal s) else Some (p_cache s)) as [c|]; [|apply Fr_crashed].
    eapply Fr_trans; [|apply IH]. apply Fr_with_cache_fal.
  Qed.

  Lemma Fr_gw_select fuel : forall s nn, Fr s (fst (gw_select st_eqb cfg fuel s nn)).
  Proof.
    induction fuel as [|fuel IH]; intros s nn; cbn [gw_select]; [apply Fr_refl|].
    destruct (sp_ub nn <=? p_lb s); [cbn [fst]; eapply Fr_trans; [apply Fr_clear|apply Fr_with_open]|].
    destruct (if sc_use_cache cfg then must_explore st_eqb (p_cache s) (sp_state nn) (sp_depth nn) (sp_value nn) else Some true)
      as [[|]|]; [| |cbn [fst]; apply Fr_crashed].
    - destruct (if sc_use_cache cfg then update_threshold st_eqb (p_cache s) (sp_state nn) (sp_depth nn) (sp_value nn) true
                else Some (p_cache s)) as [c|]; cbn [fst]; [apply Fr_with_cache_fal|apply Fr_crashed].
    - destruct (nth_error (p_open s) (sp_depth nn)) as [[|k]|]; try (cbn [fst]; apply Fr_crashed).
      set (s1 := with_open s (upd_nth (sp_depth nn) (fun _ => k) (p_open s)) (p_ongoing_by_layer s)).
      assert (F1 : Fr s s1) by apply Fr_with_open.
      destruct (Nat.eqb (pf_len cfg s1) 0); [exact F1|].
      pose proof (Fr_pf_pop s1) as F2. destruct (pf_pop st_eqb cfg s1) as [s2 o]. cbn [fst] in F2.
      destruct o as [n'|].
      + eapply Fr_trans; [exact F1|]. eapply Fr_trans; [exact F2|apply IH].
      + cbn [fst]. eapply Fr_trans; [exact F1|]. eapply Fr_trans; [exact F2|apply Fr_crashed].
  Qed.

  Lemma get_workload_fr s w s1 r : get_workload st_eqb cfg s w = (s1, r) ->
    p_workers s1 = p_workers s /\
    (((forall n, r <> GWItem n) /\ p_upper_bounds s1 = p_upper_bounds s) \/
     (exists n, r = GWItem n /\ p_upper_bounds s1 = upd_nth w (fun _ => sp_ub n) (p_upper_bounds s))).
  Proof.
    unfold get_workload. pose proof (Fr_clean_loop (S (nb_vars (sc_problem cfg))) s) as F0.
    set (s0 := p_clean_cache_loop cfg (S (nb_vars (sc_problem cfg))) s) in *.
    destruct F0 as (W0 & U0 & _ & _).
    destruct (p_crash s0).
    { intros H; inversion H; subst. split; [exact W0|]. left. split; [intros; discriminate|exact U0]. }
    destruct (Nat.eqb (p_ongoing s0) 0 && Nat.eqb (pf_len cfg s0) 0 && negb (p_abort s0)).
    { intros H; inversion H; subst. cbn [mk p_workers p_upper_bounds]. split; [exact W0|]. left. split; [intros; discriminate|exact U0]. }
    destruct (p_abort s0).
    { intros H; inversion H; subst. split; [exact W0|]. left. split; [intros; discriminate|exact U0]. }
    destruct (Nat.eqb (pf_len cfg s0) 0).
    { intros H; inversion H; subst. split; [exact W0|]. left. split; [intros; discriminate|exact U0]. }
    pose proof (Fr_pf_pop s0) as F2. destruct (pf_pop st_eqb cfg s0) as [s2 o]. cbn [fst] in F2.
    destruct F2 as (W2 & U2 & _ & _).
    destruct o as [nn|].
    2:{ intros H; inversion H; subst. cbn [p_crashed mk p_workers p_upper_bounds].
        split; [congruence|]. left. split; [intros; discriminate|congruence]. }
    pose proof (Fr_gw_select (S (S (pf_len cfg s2))) s2 nn) as F3.
    destruct (gw_select st_eqb cfg (S (S (pf_len cfg s2))) s2 nn) as [s3 r3]. cbn [fst] in F3.
    destruct F3 as (W3 & U3 & _ & _).
    assert (W : p_workers s3 = p_workers s) by congruence.
    assert (U : p_upper_bounds s3 = p_upper_bounds s) by congruence.
    destruct r3 as [| | | |n|];
      try (intros H; inversion H; subst; split; [exact W|]; left; split; [intros; discriminate|exact U]).
    cbn [mk p_workers p_upper_bounds p_open p_ongoing_by_layer].
    destruct (nth_error (p_upper_bounds s3) w) as [u|].
    2:{ intros H; inversion H; subst. cbn [p_crashed mk p_workers p_upper_bounds].
        split; [exact W|]. left. split; [intros; discriminate|exact U]. }
    destruct (nth_error (p_open s3) (sp_depth n)) as [[|k]|];
      try (intros H; inversion H; subst; cbn [p_crashed mk p_workers p_upper_bounds];
           split; [exact W|]; left; split; [intros; discriminate|exact U]).
    destruct (nth_error (p_ongoing_by_layer s3) (sp_depth n)) as [j|];
      try (intros H; inversion H; subst; cbn [p_crashed mk p_workers p_upper_bounds];
           split; [exact W|]; left; split; [intros; discriminate|exact U]).
    intros H; inversion H; subst. cbn [mk p_workers p_upper_bounds]. split; [exact W|].
    right. exists n. split; [reflexivity|]. rewrite U. reflexivity.
  Qed.

  Lemma Fr_enqueue s inp m ub : Fr s (p_enqueue_cutset st_eqb cfg s inp m ub).
  Proof.
    unfold p_enqueue_cutset. generalize (p_lb s) as blb. intros blb.
    generalize (drain_cutset inp m) as cs. intros cs. revert s.
    induction cs as [|c cs IH]; intros s; cbn [fold_left]; [apply Fr_refl|].
    eapply Fr_trans; [|apply IH].
    destruct (Z.min ub (sp_ub c) >? blb); [|apply Fr_refl].
    pose proof (Fr_pf_push s {| sp_state := sp_state c; sp_value := sp_value c; sp_path := sp_path c;
                                sp_ub := Z.min ub (sp_ub c); sp_depth := sp_depth c |}) as F1.
    set (s1 := pf_push st_eqb cfg s _) in *.
    destruct (nth_error (p_open s1) (sp_depth c));
      (eapply Fr_trans; [exact F1|]); [apply Fr_with_open|apply Fr_crashed].
  Qed.

  (* ---------------- configuration: no cache, SimpleFringe (as ParProofs.v) *)
  Hypothesis no_cache : sc_use_cache cfg = false.
  Hypothesis simple_fringe : sc_nodup cfg = false.

  (* the value abort_search assigns to best_ub *)
  Definition abort_ub (s : pstate) (n : subproblem) : Z :=
    let cur := ubfold (p_upper_bounds s) (Z.max (sp_ub n) (p_lb s)) in
    let cur' := match pq_pop cfg (p_simple s) with Some (t, _) => Z.max cur (sp_ub t) | None => cur end in
    if p_abort s then Z.max cur' (p_ub s) else cur'.

  Definition ubs_spec (s : pstate) (w : nat) (s' : pstate) : Prop :=
    match nth_error (p_workers s) w with
    | Some PGetWork =>
        (forall x, nth_error (p_workers s') w = Some (PReadLb1 x) ->
                   p_upper_bounds s' = upd_nth w (fun _ => sp_ub x) (p_upper_bounds s)) /\
        ((forall x, nth_error (p_workers s') w <> Some (PReadLb1 x)) -> p_upper_bounds s' = p_upper_bounds s)
    | Some (PNotify n ea) => p_crash s' = true \/ p_upper_bounds s' = upd_nth w (fun _ => IMIN) (p_upper_bounds s)
    | Some (PAbort n) => p_upper_bounds s' = p_upper_bounds s /\ p_ub s' = abort_ub s n
    | Some _ => p_upper_bounds s' = p_upper_bounds s
    | None => True
    end.

  Lemma step_ubs s w s' st : par_step st_eqb cfg s w = Some (s', st) -> ubs_spec s w s'.
  Proof.
    unfold par_step, ubs_spec. destruct (nth_error (p_workers s) w) as [p|] eqn:Ew; [|discriminate].
    destruct p; try discriminate.
    - (* PGetWork *)
      destruct (get_workload st_eqb cfg s w) as [s1 r] eqn:Eg. apply get_workload_fr in Eg.
      destruct Eg as [W [[Hni U]|(n & -> & U)]].
      + intros H; inversion H; subst s' st; clear H.
        destruct r; try (exfalso; eapply Hni; reflexivity);
          cbn [set_worker p_crashed mk p_workers p_upper_bounds]; rewrite W;
          (split; [intros x Hx; rewrite (nth_error_upd_nth_same _ _ _ _ Ew) in Hx; discriminate|intros _; exact U]).
      + intros H; inversion H; subst s' st; clear H.
        cbn [set_worker mk p_workers p_upper_bounds]. rewrite W. split.
        * intros x Hx. rewrite (nth_error_upd_nth_same _ _ _ _ Ew) in Hx. inversion Hx; subst. exact U.
        * intros Hno. exfalso. apply (Hno n). apply (nth_error_upd_nth_same w (fun _ => PReadLb1 n) _ _ Ew).
    - (* PReadLb1 *)
      intros H; inversion H; subst s' st; clear H.
      destruct (sp_ub n <=? p_lb s); [reflexivity|].
      unfold p_compile.
      destruct (compile st_eqb (mk_input cfg Restricted n (p_lb s)) 0 0 (p_cache s) (p_dom s) (p_polls s)) as [m o].
      destruct o; reflexivity.
    - (* PUpdate1 *)
      intros H; inversion H; subst s' st; clear H.
      unfold p_maybe_update_best.
      destruct (opt_default IMIN (dd_best_exact_value inp m) >? p_lb s); destruct (dd_is_exact m); reflexivity.
    - (* PReadLb2 *)
      unfold p_compile.
      destruct (compile st_eqb (mk_input cfg Relaxed n (p_lb s)) 0 0 (p_cache s) (p_dom s) (p_polls s)) as [m o].
      intros H; inversion H; subst s' st; clear H. destruct o; reflexivity.
    - (* PUpdate2 *)
      intros H; inversion H; subst s' st; clear H.
      unfold p_maybe_update_best.
      destruct (opt_default IMIN (dd_best_exact_value inp m) >? p_lb s); destruct (dd_is_exact m); reflexivity.
    - (* PEnqueue *)
      intros H; inversion H; subst s' st; clear H.
      cbn [set_worker mk p_upper_bounds]. apply (Fr_enqueue s inp m (sp_ub n)).
    - (* PAbort *)
      rewrite (pf_pop_simple st_eqb cfg simple_fringe). unfold abort_ub, ubfold.
      destruct (pq_pop cfg (p_simple s)) as [[t rest]|]; intros H; inversion H; subst s' st; clear H;
        cbn [set_worker pf_clear with_fringe mk p_upper_bounds p_ub p_lb p_abort]; split; reflexivity.
    - (* PNotify *)
      destruct (p_ongoing s) as [|k]; [intros H; inversion H; subst; left; reflexivity|].
      destruct (nth_error (p_ongoing_by_layer s) (sp_depth n)) as [[|j]|];
        try (intros H; inversion H; subst; left; reflexivity).
      destruct (nth_error (p_upper_bounds s) w) as [u|]; intros H; inversion H; subst; [right|left]; reflexivity.
  Qed.

  (* ---------------- what abort_ub dominates *)
  Lemma abort_ub_cur s n :
    ubfold (p_upper_bounds s) (Z.max (sp_ub n) (p_lb s)) <= abort_ub s n.
  Proof.
    unfold abort_ub. destruct (pq_pop cfg (p_simple s)) as [[t rest]|]; destruct (p_abort s); lia.
  Qed.
  Lemma abort_ub_lb s n : p_lb s <= abort_ub s n.
  Proof.
    pose proof (abort_ub_cur s n). pose proof (ubfold_ge_init (p_upper_bounds s) (Z.max (sp_ub n) (p_lb s))). lia.
  Qed.
  Lemma abort_ub_own s n : sp_ub n <= abort_ub s n.
  Proof.
    pose proof (abort_ub_cur s n). pose proof (ubfold_ge_init (p_upper_bounds s) (Z.max (sp_ub n) (p_lb s))). lia.
  Qed.
  Lemma abort_ub_slot s n w u : nth_error (p_upper_bounds s) w = Some u -> u <= abort_ub s n.
  Proof.
    intros H. pose proof (abort_ub_cur s n).
    pose proof (ubfold_ge_slot (p_upper_bounds s) (Z.max (sp_ub n) (p_lb s)) w u H). lia.
  Qed.
  Lemma abort_ub_top s n t rest : pq_pop cfg (p_simple s) = Some (t, rest) -> sp_ub t <= abort_ub s n.
  Proof. intros H. unfold abort_ub. rewrite H. destruct (p_abort s); lia. Qed.
  (* a later abort_search (p_abort already set) takes the maximum with the previous best_ub *)
  Lemma abort_ub_old s n : p_abort s = true -> p_ub s <= abort_ub s n.
  Proof. intros H. unfold abort_ub. rewrite H. lia. Qed.

  (* ================================================================== 2. premises: the contracts of SolverCutoff.v
     (they constrain only compilations whose outcome is Compiled, plus the absence of a model crash) *)
  Variable good : subproblem -> Prop.
  Variable best : subproblem -> option Z.
  Variable feasible : list decision -> Z -> Prop.
  Hypothesis HK : contracts st_eqb good best feasible cfg.
  Hypothesis HS : semantics good best feasible cfg.
  Notation OPT := (@OPT St cfg best).
  Notation PInv := (ParProofs.PInv st_eqb cfg good).
  Notation pstep := (ParProofs.pstep st_eqb cfg).
  Notation Incumbent := (Incumbent feasible).

  Lemma Kcrash : KC_crash st_eqb good cfg. Proof. apply HK. Qed.
  Lemma K1c : KC1 st_eqb good feasible cfg. Proof. apply HK. Qed.
  Lemma K2c : KC2 st_eqb good best cfg. Proof. apply HK. Qed.
  Lemma K3c_good : KC3_good st_eqb good cfg. Proof. apply HK. Qed.
  Lemma K3c_depth : KC3_depth st_eqb good cfg. Proof. apply HK. Qed.
  Lemma K3c_ub : KC3_ub st_eqb good best cfg. Proof. apply HK. Qed.
  Lemma K4c : KC4 st_eqb good best cfg. Proof. apply HK. Qed.
  Lemma good_root_c : good (root_node cfg). Proof. apply HS. Qed.
  Lemma feasible_le_opt_c : forall sol v, feasible sol v -> exists o, OPT = Some o /\ v <= o. Proof. apply HS. Qed.
  Lemma opt_in_isize_c : forall o, OPT = Some o -> IMIN < o <= IMAX. Proof. apply HS. Qed.
  Lemma good_set_ub_c : forall c u, good c -> good (set_ub c u). Proof. apply HS. Qed.
  Lemma best_set_ub_c : forall c u, best (set_ub c u) = best c. Proof. apply HS. Qed.

  Lemma HA_cut_c : forall n lb c ds polls m,
    good n -> (sp_depth n <= nb_vars (sc_problem cfg))%nat ->
    compile st_eqb (mk_input cfg Relaxed n lb) 0 0 c ds polls = (m, Compiled) ->
    dd_is_exact m = false ->
    forall x, In x (drain_cutset (mk_input cfg Relaxed n lb) m) -> good x /\ (sp_depth x <= nb_vars (sc_problem cfg))%nat.
  Proof.
    intros n lb c ds polls m Hg Hd Hc Hex x Hx. split; [eapply K3c_good; eauto|eapply K3c_depth; eauto].
  Qed.

  Lemma step_cases s w s' st : PInv s -> par_step st_eqb cfg s w = Some (s', st) -> pstep s w s'.
  Proof. apply (par_step_cases st_eqb cfg no_cache simple_fringe good HA_cut_c). Qed.
  Lemma step_pinv s w s' : PInv s -> pstep s w s' -> PInv s'.
  Proof. apply (pstep_inv st_eqb cfg good good_set_ub_c Kcrash HA_cut_c). Qed.

  Lemma incumbent_le_opt lb sol o : Incumbent lb sol -> OPT = Some o -> lb <= o.
  Proof.
    intros [Hmin [[_ ->]|(l & _ & Hf)]] Ho.
    - pose proof (opt_in_isize_c o Ho). lia.
    - destruct (feasible_le_opt_c _ _ Hf) as (o' & Ho' & Hle). rewrite Ho in Ho'. inversion Ho'; subst. exact Hle.
  Qed.
  Lemma incumbent_none lb sol : Incumbent lb sol -> OPT = None -> lb = IMIN /\ sol = None.
  Proof.
    intros [Hmin [[-> ->]|(l & _ & Hf)]] Ho; [auto|].
    destruct (feasible_le_opt_c _ _ Hf) as (o' & Ho' & _). rewrite Ho in Ho'. discriminate.
  Qed.

  (* ================================================================== 3. the invariant *)
  (* the pcs that still carry the responsibility for the completions of their node: the owners of ParProofs.v
     and the worker that is about to call abort_search *)
  Definition resp (p : pc) : option subproblem :=
    match p with
    | PReadLb1 n | PUpdate1 n _ _ | PReadLb2 n | PUpdate2 n _ _ | PEnqueue n _ _ | PAbort n => Some n
    | _ => None
    end.
  Definition quiet (p : pc) : Prop := match p with PNotify _ true => False | _ => True end.

  Lemma resp_busy p n : resp p = Some n -> busy_node p = Some n.
  Proof. destruct p; cbn [resp busy_node]; intros H; try discriminate; exact H. Qed.
  Lemma resp_wake p : resp (wake p) = resp p.
  Proof. destruct p; reflexivity. Qed.
  Lemma quiet_wake p : quiet p -> quiet (wake p).
  Proof. destruct p; auto. Qed.

  (* the optimum, when it exceeds the incumbent, is witnessed by an open node or by a node some worker answers for *)
  Definition Cover (simple : list subproblem) (ws : list pc) (lb : Z) : Prop :=
    forall o, OPT = Some o ->
      o <= lb \/
      exists n, best n = Some o /\ o <= sp_ub n /\ (In n simple \/ exists p, In p ws /\ resp p = Some n).

  Lemma Cover_frame simple ws lb ws0 w p p' simple' lb' :
    Cover simple ws lb ->
    nth_error ws0 w = Some p ->
    (forall p0, In p0 ws -> resp p0 = None \/ In p0 ws0) ->
    lb <= lb' ->
    (forall n, In n simple ->
       In n simple' \/ resp p' = Some n \/ forall o, best n = Some o -> o <= sp_ub n -> o <= lb') ->
    (forall n o, resp p = Some n -> OPT = Some o -> best n = Some o -> o <= sp_ub n ->
       resp p' = Some n \/ o <= lb' \/ exists c, In c simple' /\ best c = Some o /\ o <= sp_ub c) ->
    Cover simple' (upd_nth w (fun _ => p') ws0) lb'.
  Proof.
    intros C4 Ew Hown Hlb Hsim Hresp o Ho.
    destruct (C4 o Ho) as [Hle|(n & Hb & Hu & [Hn|(p0 & Hp0 & Hown0)])].
    - left. lia.
    - destruct (Hsim n Hn) as [H|[H|H]].
      + right. exists n. auto.
      + right. exists n. split; [exact Hb|]. split; [exact Hu|]. right. exists p'.
        split; [eapply nth_error_upd_In; eauto|exact H].
      + left. apply H; assumption.
    - destruct (Hown p0 Hp0) as [H|H]; [congruence|].
      destruct (In_upd_nth_keep w p' p0 ws0 H) as [H'|H'].
      + right. exists n. split; [exact Hb|]. split; [exact Hu|]. right. exists p0. auto.
      + assert (p0 = p) by congruence. subst p0.
        destruct (Hresp n o Hown0 Ho Hb Hu) as [H1|[H1|(c & Hc & Hbc & Huc)]].
        * right. exists n. split; [exact Hb|]. split; [exact Hu|]. right. exists p'.
          split; [eapply nth_error_upd_In; eauto|exact H1].
        * left. exact H1.
        * right. exists c. auto.
  Qed.

  (* ---------------- the regime before any abort (it is the invariant of ParProofs.par_optimal, with the
     compilations that are cut short going to PAbort and keeping the responsibility for their node) *)
  Definition CalmV (v : vw) : Prop :=
    v_abort v = false /\ Cover (v_simple v) (v_workers v) (v_lb v) /\
    (In PExited (v_workers v) -> v_simple v = [] /\ v_ongoing v = O /\ v_ub v = v_lb v) /\
    Forall quiet (v_workers v) /\
    (~ In PExited (v_workers v) -> v_ub v = IMAX).

  Lemma CalmV_frame v ws0 w p p' simple' ongoing' open' obl' lb' ub' sol' nubs' crash' :
    CalmV v -> nth_error ws0 w = Some p ->
    (forall p0, In p0 (v_workers v) -> resp p0 = None \/ In p0 ws0) ->
    Forall quiet ws0 -> quiet p' -> v_lb v <= lb' ->
    (forall n, In n (v_simple v) ->
       In n simple' \/ resp p' = Some n \/ forall o, best n = Some o -> o <= sp_ub n -> o <= lb') ->
    (forall n o, resp p = Some n -> OPT = Some o -> best n = Some o -> o <= sp_ub n ->
       resp p' = Some n \/ o <= lb' \/ exists c, In c simple' /\ best c = Some o /\ o <= sp_ub c) ->
    (In PExited (upd_nth w (fun _ => p') ws0) -> simple' = [] /\ ongoing' = O /\ ub' = lb') ->
    (~ In PExited (upd_nth w (fun _ => p') ws0) -> ub' = IMAX) ->
    CalmV (mkV simple' ongoing' open' obl' lb' ub' sol' nubs' false crash' (upd_nth w (fun _ => p') ws0)).
  Proof.
    intros (C1 & C4 & C5 & C2 & C7) Ew Hown Hq0 Hq Hlb Hsim Hresp Hexit Hnoexit.
    unfold CalmV. cbn [v_simple v_ongoing v_open v_obl v_lb v_ub v_sol v_nubs v_abort v_crash v_workers].
    split; [reflexivity|]. split; [eapply Cover_frame; eauto|]. split; [exact Hexit|].
    split; [apply Forall_upd_nth; assumption|exact Hnoexit].
  Qed.

  Lemma busy_excl s w p : PInv s ->
    (In PExited (p_workers s) -> p_simple s = [] /\ p_ongoing s = O /\ p_ub s = p_lb s) ->
    nth_error (p_workers s) w = Some p -> is_busy p = true -> In PExited (p_workers s) -> False.
  Proof.
    intros (I1 & I2 & _) HE Ew Hb Hin. destruct (HE Hin) as (_ & H0 & _).
    cbn [view v_ongoing v_workers] in *. pose proof (busy_cnt_pos cfg _ _ _ Ew Hb). lia.
  Qed.

  Lemma noexit_keep (ws : list pc) w p p' : nth_error ws w = Some p -> p <> PExited ->
    ~ In PExited (upd_nth w (fun _ => p') ws) -> ~ In PExited ws.
  Proof.
    intros Ew Hp Hn Hin. destruct (In_upd_nth_keep w p' PExited ws Hin) as [H|H]; [exact (Hn H)|congruence].
  Qed.

  Ltac exit_busy s HI C5 Ew :=
    let Hin := fresh "Hin" in
    intros Hin; apply In_upd_nth in Hin; destruct Hin as [Hin|Hin];
    [try discriminate|exfalso; eapply (busy_excl s _ _ HI C5 Ew); [reflexivity|exact Hin]].
  Ltac noexit C7 Ew :=
    let Hn := fresh "Hn" in
    intros Hn; apply C7; eapply noexit_keep; [exact Ew|discriminate|exact Hn].

  Lemma pstep_calm s w s' : PInv s -> CalmV (view s) -> pstep s w s' ->
    (forall n, nth_error (p_workers s) w <> Some (PAbort n)) -> CalmV (view s').
  Proof.
    intros HI HC Hst Hnab. pose proof HI as HI'. unfold ParProofs.PInv, PInvV, view in HI'.
    cbn [v_simple v_ongoing v_open v_obl v_lb v_ub v_sol v_nubs v_abort v_crash v_workers] in HI'.
    destruct HI' as (I1 & I2 & I3 & I4 & I5 & I6 & I7 & I8 & I9 & I10).
    pose proof HC as HC'. unfold CalmV, view in HC'.
    cbn [v_simple v_ongoing v_open v_obl v_lb v_ub v_sol v_nubs v_abort v_crash v_workers] in HC'.
    destruct HC' as (C1 & C4 & C5 & C2 & C7).
    assert (Hownid : forall p0, In p0 (v_workers (view s)) -> resp p0 = None \/ In p0 (p_workers s)) by (intros; right; assumption).
    assert (Hsimid : forall (p' : pc) lb' n, In n (v_simple (view s)) ->
       In n (p_simple s) \/ resp p' = Some n \/ forall o, best n = Some o -> o <= sp_ub n -> o <= lb') by (intros; left; assumption).
    assert (Hlbid : v_lb (view s) <= p_lb s) by (cbn; lia).
    destruct Hst as [Ew G1 G2 G3 Hv|Ew G1 Hv|Ew G1 G2 G3 Hv|x rest Ew G1 G2 G3 Hv|x rest k Ew G1 G2 G3 G4 Hv
                    |n Ew G1 Hv|n m o c ds polls Ew G1 Hc Hv|n inp m Ew Hv|n m o c ds polls Ew Hc Hv|n inp m Ew Hv
                    |n inp m op' Ew L1 L2 Hv|n ub' Ew Hv|n ea k j Ew G1 G2 Hv];
      rewrite Hv; unfold vW, setw; rewrite ?C1;
      pose proof (Forall_nth_error _ _ _ _ I6 Ew) as Hok; cbn [pc_ok] in Hok;
      pose proof (Forall_nth_error _ _ _ _ C2 Ew) as Hq; cbn [quiet] in Hq.
    - (* complete *)
      apply (CalmV_frame (view s) (p_workers s) w PGetWork PExited); auto; try exact I; try (intros; discriminate).
      intros Hn. exfalso. apply Hn. eapply nth_error_upd_In; eauto.
    - congruence.
    - (* wait *)
      apply (CalmV_frame (view s) (p_workers s) w PGetWork PParked); auto; try exact I; try (intros; discriminate).
      + intros Hin. apply In_upd_nth in Hin. destruct Hin as [Hin|Hin]; [discriminate|].
        destruct (C5 Hin) as (_ & H0 & _). lia.
      + noexit C7 Ew.
    - (* starvation: the popped node has the largest upper bound of the fringe *)
      apply (CalmV_frame (view s) (p_workers s) w PGetWork PGetWork); auto; try exact I; try (intros; discriminate).
      + intros n Hn. right; right. intros o Hb Hu. pose proof (pq_pop_max cfg _ _ _ G2 n Hn). lia.
      + intros Hin. apply In_upd_nth in Hin. destruct Hin as [Hin|Hin]; [discriminate|].
        destruct (C5 Hin) as (H0 & _). rewrite H0 in G2. discriminate.
      + noexit C7 Ew.
    - (* item *)
      apply (CalmV_frame (view s) (p_workers s) w PGetWork (PReadLb1 x)); auto; try exact I; try (intros; discriminate).
      + intros n Hn. pose proof (pq_pop_perm _ _ _ _ G2) as Hperm.
        eapply Permutation_in in Hn; [|exact Hperm]. destruct Hn as [Hn|Hn]; [right; left; subst; reflexivity|left; exact Hn].
      + intros Hin. apply In_upd_nth in Hin. destruct Hin as [Hin|Hin]; [discriminate|].
        destruct (C5 Hin) as (H0 & _). rewrite H0 in G2. discriminate.
      + noexit C7 Ew.
    - (* prune *)
      apply (CalmV_frame (view s) (p_workers s) w (PReadLb1 n) (PNotify n false)); auto; try exact I; try (intros; discriminate).
      + intros n0 o Hown _ Hb Hu. injection Hown as <-. right; left. lia.
      + exit_busy s HI C5 Ew.
      + noexit C7 Ew.
    - (* compile1: a compilation that is cut short keeps the responsibility (PAbort) *)
      apply (CalmV_frame (view s) (p_workers s) w (PReadLb1 n)
               (match o with Compiled => PUpdate1 n (mk_input cfg Restricted n (p_lb s)) m | _ => PAbort n end));
        auto; try exact I; try (intros; discriminate).
      + destruct o; exact I.
      + intros n0 o0 Hown _ Hb Hu. left. destruct o; exact Hown.
      + intros Hin. apply In_upd_nth in Hin. destruct Hin as [Hin|Hin]; [destruct o; discriminate|].
        exfalso. eapply (busy_excl s _ _ HI C5 Ew); [reflexivity|exact Hin].
      + noexit C7 Ew.
    - (* update1 *)
      destruct Hok as (Hg & Hd & (lb0 & c & ds & polls & Hlb0 & -> & Hc)).
      destruct (ParProofs.mub_lb_ge cfg (p_lb s) (mk_input cfg Restricted n lb0) m) as [Hge Hev].
      apply (CalmV_frame (view s) (p_workers s) w (PUpdate1 n (mk_input cfg Restricted n lb0) m)
               (if dd_is_exact m then PNotify n false else PReadLb2 n)); auto; try exact I; try (intros; discriminate).
      + destruct (dd_is_exact m); exact I.
      + intros n0 o Hown _ Hb Hu. injection Hown as <-. destruct (dd_is_exact m) eqn:Eex; [|left; reflexivity].
        right; left. destruct (Z_le_gt_dec o lb0) as [Hle|Hgt]; [lia|]. apply Hev.
        eapply (K2c Restricted); eauto. left; reflexivity.
      + intros Hin. apply In_upd_nth in Hin. destruct Hin as [Hin|Hin]; [destruct (dd_is_exact m); discriminate|].
        exfalso. eapply (busy_excl s _ _ HI C5 Ew); [reflexivity|exact Hin].
      + noexit C7 Ew.
    - (* compile2 *)
      apply (CalmV_frame (view s) (p_workers s) w (PReadLb2 n)
               (match o with Compiled => PUpdate2 n (mk_input cfg Relaxed n (p_lb s)) m | _ => PAbort n end));
        auto; try exact I; try (intros; discriminate).
      + destruct o; exact I.
      + intros n0 o0 Hown _ Hb Hu. left. destruct o; exact Hown.
      + intros Hin. apply In_upd_nth in Hin. destruct Hin as [Hin|Hin]; [destruct o; discriminate|].
        exfalso. eapply (busy_excl s _ _ HI C5 Ew); [reflexivity|exact Hin].
      + noexit C7 Ew.
    - (* update2 *)
      destruct Hok as (Hg & Hd & (lb0 & c & ds & polls & Hlb0 & -> & Hc)).
      destruct (ParProofs.mub_lb_ge cfg (p_lb s) (mk_input cfg Relaxed n lb0) m) as [Hge Hev].
      apply (CalmV_frame (view s) (p_workers s) w (PUpdate2 n (mk_input cfg Relaxed n lb0) m)
               (if dd_is_exact m then PNotify n false else PEnqueue n (mk_input cfg Relaxed n lb0) m));
        auto; try exact I; try (intros; discriminate).
      + destruct (dd_is_exact m); exact I.
      + intros n0 o Hown _ Hb Hu. injection Hown as <-. destruct (dd_is_exact m) eqn:Eex; [|left; reflexivity].
        right; left. destruct (Z_le_gt_dec o lb0) as [Hle|Hgt]; [lia|]. apply Hev.
        eapply (K2c Relaxed); eauto. right; reflexivity.
      + intros Hin. apply In_upd_nth in Hin. destruct Hin as [Hin|Hin]; [destruct (dd_is_exact m); discriminate|].
        exfalso. eapply (busy_excl s _ _ HI C5 Ew); [reflexivity|exact Hin].
      + noexit C7 Ew.
    - (* enqueue *)
      destruct Hok as (Hg & Hd & (lb0 & c & ds & polls & Hlb0 & -> & Hc) & Hex & Hev).
      apply (CalmV_frame (view s) (p_workers s) w (PEnqueue n (mk_input cfg Relaxed n lb0) m) (PNotify n false));
        auto; try exact I; try (intros; discriminate).
      + intros n0 Hn0. left. apply in_or_app. right. exact Hn0.
      + intros n0 o Hown _ Hb Hu. injection Hown as <-. right.
        destruct (Z_le_gt_dec o (p_lb s)) as [Hle|Hgt]; [left; exact Hle|right].
        assert (Hgt0 : o > lb0) by lia.
        destruct (K4c _ _ _ _ _ _ Hg Hd Hc Hex o Hb Hgt0) as (x & Hx & Hbx).
        { intros e He. specialize (Hev e He). lia. }
        assert (Hux : o <= sp_ub x) by (eapply K3c_ub; eauto).
        exists (set_ub x (Z.min (sp_ub n) (sp_ub x))). split; [|split].
        * apply in_or_app. left. apply -> in_rev. apply In_kept; [exact cfg|]. exists x. split; [exact Hx|]. split; [lia|reflexivity].
        * rewrite best_set_ub_c. exact Hbx.
        * cbn [set_ub sp_ub]. lia.
      + exit_busy s HI C5 Ew.
      + noexit C7 Ew.
    - exfalso. eapply Hnab; eauto.
    - (* notify *)
      destruct ea; [destruct Hq|].
      apply (CalmV_frame (view s) (map wake (p_workers s)) w (PNotify n false) PGetWork); auto; try exact I; try (intros; discriminate).
      + rewrite nth_error_map, Ew. reflexivity.
      + intros p0 Hp0. destruct (resp p0) eqn:E; [right|left; reflexivity]. apply in_map_iff. exists p0.
        split; [destruct p0; try discriminate; reflexivity|exact Hp0].
      + rewrite Forall_map. eapply Forall_impl; [|exact C2]. intros a. apply quiet_wake.
      + intros Hin. apply In_upd_nth in Hin. destruct Hin as [Hin|Hin]; [discriminate|].
        apply in_map_iff in Hin. destruct Hin as (a & Ha & Hin). assert (a = PExited) by (destruct a; try discriminate; reflexivity).
        subst a. exfalso. eapply (busy_excl s w (PNotify n false)); eauto.
      + intros Hn. apply C7. intros Hin. apply Hn.
        assert (Hin' : In PExited (map wake (p_workers s))) by (apply in_map_iff; exists PExited; split; [reflexivity|exact Hin]).
        destruct (In_upd_nth_keep w PGetWork PExited _ Hin') as [H|H]; [exact H|].
        rewrite nth_error_map, Ew in H. discriminate.
  Qed.

  (* ---------------- the incumbent is a feasible solution (any regime) *)
  Lemma pstep_incumbent s w s' : PInv s -> Incumbent (p_lb s) (p_sol s) -> pstep s w s' ->
    Incumbent (p_lb s') (p_sol s').
  Proof.
    intros HI HInc Hst. pose proof HI as HI'. unfold ParProofs.PInv, PInvV, view in HI'.
    cbn [v_simple v_ongoing v_open v_obl v_lb v_ub v_sol v_nubs v_abort v_crash v_workers] in HI'.
    destruct HI' as (I1 & I2 & I3 & I4 & I5 & I6 & I7 & I8 & I9 & I10).
    destruct Hst as [Ew G1 G2 G3 Hv|Ew G1 Hv|Ew G1 G2 G3 Hv|x rest Ew G1 G2 G3 Hv|x rest k Ew G1 G2 G3 G4 Hv
                    |n Ew G1 Hv|n m o c ds polls Ew G1 Hc Hv|n inp m Ew Hv|n m o c ds polls Ew Hc Hv|n inp m Ew Hv
                    |n inp m op' Ew L1 L2 Hv|n ub' Ew Hv|n ea k j Ew G1 G2 Hv];
      pose proof (Forall_nth_error _ _ _ _ I6 Ew) as Hok; cbn [pc_ok] in Hok;
      unfold vW in Hv; apply view_proj in Hv;
      destruct Hv as (V1 & V2 & V3 & V4 & V5 & V6 & V7 & V8 & V9 & V10 & V11); rewrite V5, V7; try exact HInc.
    - destruct Hok as (Hg & Hd & (lb0 & c & ds & polls & Hlb0 & -> & Hc)).
      destruct HInc as [Hmin Hinc].
      destruct (mub_lb_spec cfg (p_lb s) (mk_input cfg Restricted n lb0) m Hmin) as [[E1 E2]|(v & Hv1 & Hv2 & E1 & E2)].
      + rewrite E1, E2. split; assumption.
      + rewrite E1, E2. destruct (K1c Restricted _ _ _ _ _ _ (or_introl eq_refl) Hg Hd Hc v Hv1) as (sol & Hs & Hf).
        split; [lia|]. right. exists sol. auto.
    - destruct Hok as (Hg & Hd & (lb0 & c & ds & polls & Hlb0 & -> & Hc)).
      destruct HInc as [Hmin Hinc].
      destruct (mub_lb_spec cfg (p_lb s) (mk_input cfg Relaxed n lb0) m Hmin) as [[E1 E2]|(v & Hv1 & Hv2 & E1 & E2)].
      + rewrite E1, E2. split; assumption.
      + rewrite E1, E2. destruct (K1c Relaxed _ _ _ _ _ _ (or_intror eq_refl) Hg Hd Hc v Hv1) as (sol & Hs & Hf).
        split; [lia|]. right. exists sol. auto.
  Qed.

  (* ---------------- upper_bounds[w] holds the bound of the node worker w is busy with *)
  Definition Slots (s : pstate) : Prop :=
    forall w p n, nth_error (p_workers s) w = Some p -> busy_node p = Some n ->
                  nth_error (p_upper_bounds s) w = Some (sp_ub n).

  Lemma nth_error_upd_nth_inv {A} w (x : A) l q : nth_error (upd_nth w (fun _ => x) l) w = Some q -> q = x.
  Proof.
    destruct (nth_error l w) as [y|] eqn:E.
    - rewrite (nth_error_upd_nth_same w (fun _ => x) l y E). congruence.
    - intros H. apply nth_error_Some_lt in H. rewrite upd_nth_length in H. apply nth_error_None in E. lia.
  Qed.

  Lemma Slots_frame (ws ws0 : list pc) (ubs ubs' : list Z) w p' :
    (forall w' p n, nth_error ws w' = Some p -> busy_node p = Some n -> nth_error ubs w' = Some (sp_ub n)) ->
    (forall w' p0, nth_error ws0 w' = Some p0 -> exists p1, nth_error ws w' = Some p1 /\ busy_node p1 = busy_node p0) ->
    (forall w', w' <> w -> nth_error ubs' w' = nth_error ubs w') ->
    (forall n, busy_node p' = Some n -> nth_error ubs' w = Some (sp_ub n)) ->
    forall w' p n, nth_error (upd_nth w (fun _ => p') ws0) w' = Some p -> busy_node p = Some n ->
                   nth_error ubs' w' = Some (sp_ub n).
  Proof.
    intros HSl H0 Hoth Hw w' p n Hp Hb. destruct (Nat.eq_dec w w') as [<-|Hne].
    - apply nth_error_upd_nth_inv in Hp. subst p. apply Hw. exact Hb.
    - rewrite nth_error_upd_nth_other in Hp by exact Hne. destruct (H0 _ _ Hp) as (p1 & Hp1 & Hb1).
      rewrite Hoth by auto. eapply HSl; eauto. congruence.
  Qed.

  Lemma pstep_slots s w s' : PInv s -> PInv s' -> Slots s -> pstep s w s' -> ubs_spec s w s' -> Slots s'.
  Proof.
    intros HI HI2 HSl Hst Hub. pose proof HI as HI'. unfold ParProofs.PInv, PInvV, view in HI'.
    cbn [v_simple v_ongoing v_open v_obl v_lb v_ub v_sol v_nubs v_abort v_crash v_workers] in HI'.
    destruct HI' as (I1 & I2 & I3 & I4 & I5 & I6 & I7 & I8 & I9 & I10).
    assert (Hcr : p_crash s' = false) by apply HI2.
    assert (Hid : forall w' (p0 : pc), nth_error (p_workers s) w' = Some p0 ->
                    exists p1, nth_error (p_workers s) w' = Some p1 /\ busy_node p1 = busy_node p0) by eauto.
    unfold Slots, ubs_spec in *.
    destruct Hst as [Ew G1 G2 G3 Hv|Ew G1 Hv|Ew G1 G2 G3 Hv|x rest Ew G1 G2 G3 Hv|x rest k Ew G1 G2 G3 G4 Hv
                    |n Ew G1 Hv|n m o c ds polls Ew G1 Hc Hv|n inp m Ew Hv|n m o c ds polls Ew Hc Hv|n inp m Ew Hv
                    |n inp m op' Ew L1 L2 Hv|n ub' Ew Hv|n ea k j Ew G1 G2 Hv];
      rewrite Ew in Hub; unfold vW, setw in Hv; apply view_proj in Hv;
      destruct Hv as (V1 & V2 & V3 & V4 & V5 & V6 & V7 & V8 & V9 & V10 & V11); rewrite V11 in *.
    1-4: (destruct Hub as [_ Hub]; rewrite Hub;
          [eapply Slots_frame; eauto; intros n0 Hn0; discriminate
          |intros x0 Hx0; apply nth_error_upd_nth_inv in Hx0; discriminate]).
    - (* item *)
      destruct Hub as [Hub _]. rewrite (Hub x) by (apply (nth_error_upd_nth_same w (fun _ => PReadLb1 x) _ _ Ew)).
      eapply Slots_frame; eauto.
      + intros w' Hne. apply nth_error_upd_nth_other. auto.
      + intros n0 Hn0. cbn [busy_node] in Hn0. inversion Hn0; subst n0.
        destruct (nth_error_lt_Some (p_upper_bounds s) w) as [u Hu].
        { rewrite I9. eapply nth_error_Some_lt; eauto. }
        apply (nth_error_upd_nth_same w (fun _ => sp_ub x) _ _ Hu).
    - rewrite Hub. eapply Slots_frame; [exact HSl|exact Hid|intros; reflexivity|]. intros n0 Hn0. eapply HSl; [exact Ew|exact Hn0].
    - rewrite Hub. eapply Slots_frame; [exact HSl|exact Hid|intros; reflexivity|]. intros n0 Hn0. eapply HSl; [exact Ew|]. destruct o; exact Hn0.
    - rewrite Hub. eapply Slots_frame; [exact HSl|exact Hid|intros; reflexivity|]. intros n0 Hn0. eapply HSl; [exact Ew|]. destruct (dd_is_exact m); exact Hn0.
    - rewrite Hub. eapply Slots_frame; [exact HSl|exact Hid|intros; reflexivity|]. intros n0 Hn0. eapply HSl; [exact Ew|]. destruct o; exact Hn0.
    - rewrite Hub. eapply Slots_frame; [exact HSl|exact Hid|intros; reflexivity|]. intros n0 Hn0. eapply HSl; [exact Ew|]. destruct (dd_is_exact m); exact Hn0.
    - rewrite Hub. eapply Slots_frame; [exact HSl|exact Hid|intros; reflexivity|]. intros n0 Hn0. eapply HSl; [exact Ew|exact Hn0].
    - destruct Hub as [Hub _]. rewrite Hub. eapply Slots_frame; [exact HSl|exact Hid|intros; reflexivity|]. intros n0 Hn0. eapply HSl; [exact Ew|exact Hn0].
    - (* notify *)
      destruct Hub as [Hub|Hub]; [congruence|]. rewrite Hub.
      eapply Slots_frame; [exact HSl| | |].
      + intros w' p0 Hp0. rewrite nth_error_map in Hp0. destruct (nth_error (p_workers s) w') as [p1|]; [|discriminate].
        cbn [option_map] in Hp0. inversion Hp0; subst p0. exists p1. split; [reflexivity|]. symmetry. apply busy_node_wake.
      + intros w' Hne. apply nth_error_upd_nth_other. auto.
      + intros n0 Hn0. destruct ea; discriminate.
  Qed.

  (* ---------------- the regime after an abort: best_ub dominates the optimum and the incumbent *)
  Definition AbV (v : @vw St) : Prop :=
    v_abort v = true /\ v_lb v <= v_ub v /\ forall o, OPT = Some o -> o <= v_ub v.

  Lemma pstep_ab s w s' : PInv s -> Incumbent (p_lb s) (p_sol s) -> AbV (view s) -> pstep s w s' ->
    (forall n, nth_error (p_workers s) w <> Some (PAbort n)) -> AbV (view s').
  Proof.
    intros HI HInc HA Hst Hnab. pose proof HI as HI'. unfold ParProofs.PInv, PInvV, view in HI'.
    cbn [v_simple v_ongoing v_open v_obl v_lb v_ub v_sol v_nubs v_abort v_crash v_workers] in HI'.
    destruct HI' as (I1 & I2 & I3 & I4 & I5 & I6 & I7 & I8 & I9 & I10).
    pose proof HA as HA'. unfold AbV, view in HA'.
    cbn [v_simple v_ongoing v_open v_obl v_lb v_ub v_sol v_nubs v_abort v_crash v_workers] in HA'.
    destruct HA' as (A1 & A2 & A3).
    assert (Hmub : forall ct n lb0 c ds polls m, dd_ct ct -> good n -> (sp_depth n <= nb_vars (sc_problem cfg))%nat ->
              compile st_eqb (mk_input cfg ct n lb0) 0 0 c ds polls = (m, Compiled) ->
              mub_lb (p_lb s) (mk_input cfg ct n lb0) m <= p_ub s).
    { intros ct n lb0 c ds polls m Hct Hg Hd Hc. destruct HInc as [Hmin _].
      destruct (mub_lb_spec cfg (p_lb s) (mk_input cfg ct n lb0) m Hmin) as [[E1 _]|(v & Hv1 & Hv2 & E1 & _)]; rewrite E1; [lia|].
      destruct (K1c ct _ _ _ _ _ _ Hct Hg Hd Hc v Hv1) as (sol & _ & Hf).
      destruct (feasible_le_opt_c _ _ Hf) as (o & Ho & Hle). pose proof (A3 o Ho). lia. }
    destruct Hst as [Ew G1 G2 G3 Hv|Ew G1 Hv|Ew G1 G2 G3 Hv|x rest Ew G1 G2 G3 Hv|x rest k Ew G1 G2 G3 G4 Hv
                    |n Ew G1 Hv|n m o c ds polls Ew G1 Hc Hv|n inp m Ew Hv|n m o c ds polls Ew Hc Hv|n inp m Ew Hv
                    |n inp m op' Ew L1 L2 Hv|n ub' Ew Hv|n ea k j Ew G1 G2 Hv];
      try congruence; rewrite Hv; unfold vW, AbV;
      cbn [v_simple v_ongoing v_open v_obl v_lb v_ub v_sol v_nubs v_abort v_crash v_workers];
      pose proof (Forall_nth_error _ _ _ _ I6 Ew) as Hok; cbn [pc_ok] in Hok;
      try (split; [exact A1|]; split; [exact A2|exact A3]).
    - destruct Hok as (Hg & Hd & (lb0 & c & ds & polls & Hlb0 & -> & Hc)).
      pose proof (Hmub Restricted _ _ _ _ _ _ (or_introl eq_refl) Hg Hd Hc). auto.
    - destruct Hok as (Hg & Hd & (lb0 & c & ds & polls & Hlb0 & -> & Hc)).
      pose proof (Hmub Relaxed _ _ _ _ _ _ (or_intror eq_refl) Hg Hd Hc). auto.
  Qed.

  (* ---------------- the abort step: the witness of the optimum is in the fringe (below its top, pq_pop_max), or held
     by the aborting worker (its own bound), or held by another worker (that worker's slot of upper_bounds);
     a later abort_search only takes a maximum with the previous best_ub *)
  Lemma abort_step s w s' n : PInv s -> Incumbent (p_lb s) (p_sol s) -> Slots s ->
    (p_abort s = false -> CalmV (view s)) -> (p_abort s = true -> AbV (view s)) ->
    nth_error (p_workers s) w = Some (PAbort n) ->
    pstep s w s' -> p_ub s' = abort_ub s n -> AbV (view s').
  Proof.
    intros HI HInc HSl HCalm HAb Ew Hst Hub.
    destruct Hst as [Ew' G1 G2 G3 Hv|Ew' G1 Hv|Ew' G1 G2 G3 Hv|x rest Ew' G1 G2 G3 Hv|x rest k Ew' G1 G2 G3 G4 Hv
                    |n' Ew' G1 Hv|n' m o c ds polls Ew' G1 Hc Hv|n' inp m Ew' Hv|n' m o c ds polls Ew' Hc Hv|n' inp m Ew' Hv
                    |n' inp m op' Ew' L1 L2 Hv|n' ub' Ew' Hv|n' ea k j Ew' G1 G2 Hv]; try congruence.
    assert (n' = n) by congruence. subst n'.
    assert (Eub : ub' = abort_ub s n).
    { pose proof Hv as Hv'. apply view_proj in Hv'. destruct Hv' as (_ & _ & _ & _ & _ & V6 & _). congruence. }
    rewrite Hv. subst ub'. unfold AbV, setw.
    cbn [v_simple v_ongoing v_open v_obl v_lb v_ub v_sol v_nubs v_abort v_crash v_workers].
    split; [reflexivity|]. split; [apply abort_ub_lb|]. intros o Ho.
    destruct (p_abort s) eqn:Eab.
    - destruct (HAb eq_refl) as (_ & _ & A3). cbn [view v_ub] in A3. pose proof (A3 o Ho).
      pose proof (abort_ub_old s n Eab). lia.
    - destruct (HCalm eq_refl) as (_ & C4 & _). cbn [view v_simple v_lb v_workers] in C4.
      destruct (C4 o Ho) as [Hle|(n0 & Hb & Hu & [Hn0|(p0 & Hp0 & Hr0)])].
      + pose proof (abort_ub_lb s n). lia.
      + destruct (pq_pop cfg (p_simple s)) as [[t rest]|] eqn:Ep.
        2:{ apply pq_pop_none in Ep. rewrite Ep in Hn0. destruct Hn0. }
        pose proof (pq_pop_max cfg _ _ _ Ep n0 Hn0). pose proof (abort_ub_top s n t rest Ep). lia.
      + apply In_nth_error in Hp0. destruct Hp0 as [w' Hw'].
        pose proof (HSl _ _ _ Hw' (resp_busy _ _ Hr0)) as Hslot.
        pose proof (abort_ub_slot s n w' _ Hslot). lia.
  Qed.

  (* ---------------- the whole invariant *)
  Definition AInv (s : pstate) : Prop :=
    Incumbent (p_lb s) (p_sol s) /\ Slots s /\
    (p_abort s = false -> CalmV (view s)) /\ (p_abort s = true -> AbV (view s)).

  Lemma step_ainv s w s' st : PInv s -> AInv s -> par_step st_eqb cfg s w = Some (s', st) -> AInv s'.
  Proof.
    intros HI (HInc & HSl & HCalm & HAb) Hstep.
    pose proof (step_cases _ _ _ _ HI Hstep) as Hps. pose proof (step_pinv _ _ _ HI Hps) as HI2.
    pose proof (step_ubs _ _ _ _ Hstep) as Hubs.
    split; [exact (pstep_incumbent s w s' HI HInc Hps)|]. split; [exact (pstep_slots s w s' HI HI2 HSl Hps Hubs)|].
    assert (Hcase : (exists n, nth_error (p_workers s) w = Some (PAbort n)) \/
                    (forall n, nth_error (p_workers s) w <> Some (PAbort n))).
    { destruct (nth_error (p_workers s) w) as [[]|]; try (right; intros; discriminate). left. eauto. }
    destruct Hcase as [[n Ew]|Hnab].
    - assert (HA : AbV (view s')).
      { apply (abort_step s w s' n HI HInc HSl HCalm HAb Ew Hps). unfold ubs_spec in Hubs. rewrite Ew in Hubs. apply Hubs. }
      split; [|intros _; exact HA]. intros E. destruct HA as [HA _]. cbn [view v_abort] in HA. congruence.
    - destruct (p_abort s) eqn:Eab.
      + assert (HA : AbV (view s')) by (exact (pstep_ab s w s' HI HInc (HAb eq_refl) Hps Hnab)).
        split; [|intros _; exact HA]. intros E. destruct HA as [HA _]. cbn [view v_abort] in HA. congruence.
      + assert (HC : CalmV (view s')) by (exact (pstep_calm s w s' HI (HCalm eq_refl) Hps Hnab)).
        split; [intros _; exact HC|]. intros E. destruct HC as [HC _]. cbn [view v_abort] in HC. congruence.
  Qed.

  Lemma pstep_workers_len s w s' : pstep s w s' -> length (p_workers s') = length (p_workers s).
  Proof.
    intros Hst.
    destruct Hst as [Ew G1 G2 G3 Hv|Ew G1 Hv|Ew G1 G2 G3 Hv|x rest Ew G1 G2 G3 Hv|x rest k Ew G1 G2 G3 G4 Hv
                    |n Ew G1 Hv|n m o c ds polls Ew G1 Hc Hv|n inp m Ew Hv|n m o c ds polls Ew Hc Hv|n inp m Ew Hv
                    |n inp m op' Ew L1 L2 Hv|n ub' Ew Hv|n ea k j Ew G1 G2 Hv];
      unfold vW, setw in Hv; apply view_proj in Hv;
      destruct Hv as (V1 & V2 & V3 & V4 & V5 & V6 & V7 & V8 & V9 & V10 & V11); rewrite V11;
      rewrite ?upd_nth_length, ?map_length; reflexivity.
  Qed.

  (* ---------------- initial state *)
  Lemma AInv_init T primal : primal_okP feasible primal -> AInv (init_pstate st_eqb cfg T T primal).
  Proof.
    intros Hp. unfold AInv.
    pose proof (view_init st_eqb cfg simple_fringe T T primal) as Hv.
    pose proof Hv as Hv'. apply view_proj in Hv'.
    destruct Hv' as (V1 & V2 & V3 & V4 & V5 & V6 & V7 & V8 & V9 & V10 & V11).
    split; [|split; [|split]].
    - rewrite V5, V7. unfold init_lb, init_sol. destruct primal as [[v sl]|].
      + destruct (v >? IMIN) eqn:E.
        * rewrite Z.gtb_ltb in E. apply Z.ltb_lt in E. split; [lia|]. right. exists sl. split; [reflexivity|]. apply Hp. reflexivity.
        * split; [lia|]. left. auto.
      + split; [lia|]. left. auto.
    - intros w p n Hw Hb. rewrite V11 in Hw. apply nth_error_In in Hw. apply repeat_spec in Hw. subst p. discriminate.
    - intros _. rewrite Hv. unfold CalmV.
      cbn [v_simple v_ongoing v_open v_obl v_lb v_ub v_sol v_nubs v_abort v_crash v_workers].
      split; [reflexivity|]. split.
      { intros o Ho. right. exists (root_node cfg). split; [exact Ho|]. split; [|left; left; reflexivity].
        cbn [root_node sp_ub]. apply opt_in_isize_c. exact Ho. }
      split; [intros Hin; apply repeat_spec in Hin; discriminate|]. split; [|reflexivity].
      apply Forall_forall. intros p Hin. apply repeat_spec in Hin. subst p. exact I.
    - intros E. congruence.
  Qed.

  (* ---------------- what the invariant says of ANY reachable state, and of a state where every worker has exited *)
  Definition SoundS (s : pstate) : Prop :=
    p_crash s = false /\ Incumbent (p_lb s) (p_sol s) /\ p_lb s <= p_ub s /\
    (forall o, OPT = Some o -> o <= p_ub s) /\
    (all_exited s = true -> p_abort s = false -> forall o, OPT = Some o -> o <= p_lb s).

  Lemma exited_dec (ws : list pc) : In PExited ws \/ ~ In PExited ws.
  Proof.
    induction ws as [|p ws IH]; [right; intros []|]. destruct IH as [IH|IH]; [left; right; exact IH|].
    destruct p; try (right; intros [H|H]; [discriminate|exact (IH H)]). left; left; reflexivity.
  Qed.

  Lemma ainv_sound s : p_workers s <> [] -> PInv s -> AInv s -> SoundS s.
  Proof.
    intros Hne HI (HInc & HSl & HCalm & HAb). pose proof HI as (I1 & I2 & _). cbn [view v_crash v_ongoing v_workers] in I1, I2.
    assert (Hmax : p_lb s <= IMAX).
    { destruct OPT as [o|] eqn:Ho.
      - pose proof (incumbent_le_opt _ _ o HInc Ho). pose proof (opt_in_isize_c o Ho). lia.
      - destruct (incumbent_none _ _ HInc Ho) as [-> _]. unfold IMIN, IMAX. lia. }
    destruct (p_abort s) eqn:Eab.
    - destruct (HAb eq_refl) as (_ & A2 & A3). cbn [view v_lb v_ub v_workers] in A2, A3.
      split; [exact I1|]. split; [exact HInc|]. split; [exact A2|]. split; [exact A3|]. intros _ E. congruence.
    - destruct (HCalm eq_refl) as (_ & C4 & C5 & C2 & C7). cbn [view v_simple v_ongoing v_lb v_ub v_workers] in C4, C5, C7.
      assert (Hexit : In PExited (p_workers s) -> forall o, OPT = Some o -> o <= p_lb s).
      { intros Hin o Ho. destruct (C5 Hin) as (E1 & E2 & E3).
        destruct (C4 o Ho) as [H|(n & _ & _ & [Hn|(p & Hp & Hr)])]; [exact H| |].
        - rewrite E1 in Hn. destruct Hn.
        - apply In_nth_error in Hp. destruct Hp as [w Hw].
          assert (Hb : is_busy p = true) by (unfold is_busy; rewrite (resp_busy _ _ Hr); reflexivity).
          pose proof (busy_cnt_pos cfg _ _ _ Hw Hb). lia. }
      split; [exact I1|]. split; [exact HInc|].
      destruct (exited_dec (p_workers s)) as [Hin|Hno].
      + destruct (C5 Hin) as (E1 & E2 & E3). split; [lia|]. split; [intros o Ho; specialize (Hexit Hin o Ho); lia|].
        intros _ _. exact (Hexit Hin).
      + rewrite (C7 Hno). split; [exact Hmax|]. split; [intros o Ho; apply (opt_in_isize_c o Ho)|].
        intros Hall _. exfalso. apply Hno. destruct (p_workers s) as [|p ws] eqn:E; [congruence|].
        rewrite (all_exited_spec s Hall p); [left; reflexivity|rewrite E; left; reflexivity].
  Qed.

  (* ================================================================== 4. runs *)
  Lemma par_run_ainv : forall fuel s sched last trace s' tr e, PInv s -> AInv s ->
    par_run st_eqb cfg fuel s sched last trace = (s', tr, e) ->
    PInv s' /\ AInv s' /\ length (p_workers s') = length (p_workers s) /\ (e = PFinished -> all_exited s' = true).
  Proof.
    induction fuel as [|fuel IH]; intros s sched last trace s' tr e HI HA; cbn [par_run].
    - intros H; inversion H; subst. split; [exact HI|]. split; [exact HA|]. split; [reflexivity|discriminate].
    - destruct (all_exited s) eqn:Eall.
      + intros H; inversion H; subst. auto.
      + destruct (choose (enabled s) sched last) as [[w|] rest] eqn:Ech.
        2:{ intros H; inversion H; subst. split; [exact HI|]. split; [exact HA|]. split; [reflexivity|discriminate]. }
        destruct (par_step st_eqb cfg s w) as [[s1 st]|] eqn:Hst.
        2:{ intros H; inversion H; subst. split; [exact HI|]. split; [exact HA|]. split; [reflexivity|discriminate]. }
        pose proof (step_cases _ _ _ _ HI Hst) as Hps.
        intros H. destruct (IH _ _ _ _ _ _ _ (step_pinv _ _ _ HI Hps) (step_ainv _ _ _ _ HI HA Hst) H) as (R1 & R2 & R3 & R4).
        split; [exact R1|]. split; [exact R2|]. split; [|exact R4]. rewrite R3. apply pstep_workers_len with (w := w). exact Hps.
  Qed.

  (* the shape of the result, for ANY way the run ends (fuel exhaustion included) *)
  Definition sound_result (r : presult) : Prop :=
    pr_crash r = false /\ pr_lb r <= pr_ub r /\
    (forall o, OPT = Some o -> pr_lb r <= o <= pr_ub r) /\
    (OPT = None -> pr_value r = None /\ pr_sol r = None) /\
    (forall v, pr_value r = Some v ->
       pr_lb r = v /\ exists sol, pr_sol r = Some (sort_by dec_var_cmp sol) /\ feasible sol v) /\
    (pr_end r = PFinished -> pr_exact r = true -> pr_value r = OPT).

  Lemma sound_of_state s tr e : SoundS s -> (e = PFinished -> all_exited s = true) ->
    sound_result
      {| pr_exact := negb (p_abort s);
         pr_value := match option_map (sort_by dec_var_cmp) (p_sol s) with Some _ => Some (p_lb s) | None => None end;
         pr_lb := p_lb s; pr_ub := p_ub s; pr_sol := option_map (sort_by dec_var_cmp) (p_sol s);
         pr_explored := p_explored s; pr_polls := p_polls s; pr_crash := p_crash s; pr_tie := p_tie s;
         pr_end := e; pr_trace := tr |}.
  Proof.
    intros (F1 & F2 & F3 & F4 & F5) Hall. unfold sound_result.
    cbn [pr_exact pr_value pr_lb pr_ub pr_sol pr_crash pr_end].
    split; [exact F1|]. split; [exact F3|]. split; [|split; [|split]].
    - intros o Ho. split; [exact (incumbent_le_opt _ _ o F2 Ho)|exact (F4 o Ho)].
    - intros Hnone. destruct (incumbent_none _ _ F2 Hnone) as [_ ->]. cbn [option_map]. auto.
    - intros v Hv. destruct F2 as [_ [[Hs _]|(l & Hs & Hf)]]; rewrite Hs in Hv |- *; cbn [option_map] in Hv |- *; [discriminate|].
      inversion Hv; subst v. split; [reflexivity|]. exists l. auto.
    - intros He Hex. assert (Hab : p_abort s = false) by (destruct (p_abort s); [discriminate|reflexivity]).
      specialize (F5 (Hall He) Hab). destruct OPT as [o|] eqn:Ho.
      + pose proof (incumbent_le_opt _ _ o F2 Ho) as H1. pose proof (F5 o eq_refl) as H2.
        pose proof (opt_in_isize_c o Ho) as H3.
        destruct F2 as [_ [[_ Hl]|(l & Hs & _)]]; [lia|]. rewrite Hs. cbn [option_map]. f_equal. lia.
      + destruct (incumbent_none _ _ F2 Ho) as [_ ->]. reflexivity.
  Qed.

  Lemma init_workers T primal : p_workers (init_pstate st_eqb cfg T T primal) = repeat PGetWork T.
  Proof.
    pose proof (view_init st_eqb cfg simple_fringe T T primal) as Hv. apply view_proj in Hv. apply Hv.
  Qed.

  (* ================================================================== STOREY 1
     Premises: those of ParProofs.par_optimal WITHOUT sc_cutoff cfg = 0, in the packaging of SolverCutoff.v
     (contracts: only compilations whose outcome is Compiled are constrained, plus no model crash; semantics). *)
  Theorem par_anytime_sound_any_end T primal fuel sched :
    (1 <= T)%nat -> primal_okP feasible primal ->
    sound_result (par_maximize st_eqb cfg fuel T T primal sched).
  Proof.
    intros HT Hp. unfold par_maximize.
    destruct (par_run st_eqb cfg fuel (init_pstate st_eqb cfg T T primal) sched None []) as [[s' tr] e] eqn:E.
    destruct (par_run_ainv _ _ _ _ _ _ _ _ (PInv_init st_eqb cfg simple_fringe good good_root_c T primal)
                (AInv_init T primal Hp) E) as (HI & HA & Hlen & Hall).
    apply sound_of_state; [|exact Hall]. apply ainv_sound; [|exact HI|exact HA].
    rewrite init_workers, repeat_length in Hlen. intros E0. rewrite E0 in Hlen. cbn [length] in Hlen. lia.
  Qed.

  Theorem par_anytime_sound T primal fuel sched :
    (1 <= T)%nat -> primal_okP feasible primal ->
    let r := par_maximize st_eqb cfg fuel T T primal sched in
    pr_end r = PFinished ->
    pr_crash r = false /\ pr_lb r <= pr_ub r /\
    (forall o, OPT = Some o -> pr_lb r <= o <= pr_ub r) /\
    (OPT = None -> pr_value r = None /\ pr_sol r = None) /\
    (forall v, pr_value r = Some v ->
       pr_lb r = v /\ exists sol, pr_sol r = Some (sort_by dec_var_cmp sol) /\ feasible sol v) /\
    (pr_exact r = true -> pr_value r = OPT).
  Proof.
    intros HT Hp r He.
    destruct (par_anytime_sound_any_end T primal fuel sched HT Hp) as (A1 & A2 & A3 & A4 & A5 & A6).
    split; [exact A1|]. split; [exact A2|]. split; [exact A3|]. split; [exact A4|]. split; [exact A5|]. exact (A6 He).
  Qed.
End ParAnytime.

(* ================================================================== STOREY 2: the clean flavours of Mdd.compile
   Same hypotheses as Assembly.Main / Assembly.Cutoffs (st_eqb_spec, clean flavour, no cache, no dominance rule,
   sc_nodup = false, 1 <= width, static variable order, wf_relaxation, guard B); ANY cutoff; OPT = opt_enum pb. *)
Require Import DDO.MddProgress DDO.MddSim DDO.Assembly DDO.Table DDO.Run DDO.TableWf.

Section Storey2.
  Context {St : Type}.
  Variable st_eqb : St -> St -> bool.
  Hypothesis st_eqb_spec : forall a b, st_eqb a b = true <-> a = b.
  Variable cfg : @sconfig St.
  Local Notation pb := (sc_problem cfg).
  Local Notation N := (nb_vars (sc_problem cfg)).
  Hypothesis cfg_clean : sc_flavour cfg = CleanLEL \/ sc_flavour cfg = CleanFC.
  Hypothesis cfg_nocache : sc_use_cache cfg = false.
  Hypothesis cfg_nodom : sc_domrule cfg = None.
  Hypothesis cfg_nodup : sc_nodup cfg = false.
  Hypothesis cfg_width : (1 <= sc_width cfg)%nat.
  Hypothesis nv_static : forall k l1 l2, next_variable pb k l1 = next_variable pb k l2.
  Hypothesis nv_some : forall k l, (k < N)%nat -> exists x, next_variable pb k l = Some x.
  Hypothesis nv_none : forall k l, (N <= k)%nat -> next_variable pb k l = None.
  Hypothesis Hwf : wf_relaxation cfg.
  Variable B : Z.
  Hypothesis HB : 2 * B <= IMAX.
  Hypothesis guard0 : forall ds s' v', frun pb 0 (init_state pb) (init_value pb) ds = Some (s', v') -> - B <= v' <= B.

  Local Notation good := (sgood pb).
  Local Notation feas := (sfeasible pb).
  Local Notation bst := (MddSim.best cfg).

  Let HK : contracts st_eqb good bst feas cfg :=
    contracts_hold st_eqb st_eqb_spec cfg cfg_clean cfg_nocache cfg_nodom cfg_nodup cfg_width
                   nv_static nv_some nv_none Hwf B HB guard0.
  Let HSem : semantics good bst feas cfg := semantics_hold cfg cfg_width nv_static nv_some nv_none B HB guard0.

  (* the result shape of C05_sequential_anytime, for the record of Par.v; the clause on exactness needs a run that ended *)
  Definition sound_result_enum (r : @presult) : Prop :=
    pr_crash r = false /\ pr_lb r <= pr_ub r /\
    (forall o, opt_enum pb = Some o -> pr_lb r <= o <= pr_ub r) /\
    (opt_enum pb = None -> pr_value r = None /\ pr_sol r = None) /\
    (forall v, pr_value r = Some v ->
       pr_lb r = v /\ exists sol, pr_sol r = Some (sort_by dec_var_cmp sol) /\ feas sol v /\ MddProgress.feasible pb sol v) /\
    (pr_end r = PFinished -> pr_exact r = true -> pr_value r = opt_enum pb).

  Lemma sound_result_to_enum r : sound_result cfg bst feas r -> sound_result_enum r.
  Proof.
    unfold sound_result, sound_result_enum. rewrite (OPT_is_opt_enum cfg). intros (A1 & A2 & A3 & A4 & A5 & A6).
    split; [exact A1|]. split; [exact A2|]. split; [exact A3|]. split; [exact A4|]. split; [|exact A6].
    intros v Hv. destruct (A5 v Hv) as (E & sol & S1 & S2). split; [exact E|]. exists sol. split; [exact S1|].
    split; [exact S2|]. apply (sfeasible_feasible pb B HB guard0). exact S2.
  Qed.

  Theorem C05_parallel_anytime_any_end : forall T primal fuel sched,
    (1 <= T)%nat -> primal_okP feas primal ->
    sound_result_enum (par_maximize st_eqb cfg fuel T T primal sched).
  Proof.
    intros T primal fuel sched HT Hp. apply sound_result_to_enum.
    exact (par_anytime_sound_any_end st_eqb cfg cfg_nocache cfg_nodup good bst feas HK HSem T primal fuel sched HT Hp).
  Qed.

  Theorem C05_parallel_anytime : forall T primal fuel sched,
    (1 <= T)%nat -> primal_okP feas primal ->
    let r := par_maximize st_eqb cfg fuel T T primal sched in
    pr_end r = PFinished ->
    pr_crash r = false /\
    pr_lb r <= pr_ub r /\
    (forall o, opt_enum pb = Some o -> pr_lb r <= o <= pr_ub r) /\
    (opt_enum pb = None -> pr_value r = None /\ pr_sol r = None) /\
    (forall v, pr_value r = Some v ->
       pr_lb r = v /\ exists sol, pr_sol r = Some (sort_by dec_var_cmp sol) /\ feas sol v /\ MddProgress.feasible pb sol v) /\
    (pr_exact r = true -> pr_value r = opt_enum pb).
  Proof.
    intros T primal fuel sched HT Hp r He.
    destruct (C05_parallel_anytime_any_end T primal fuel sched HT Hp) as (A1 & A2 & A3 & A4 & A5 & A6).
    split; [exact A1|]. split; [exact A2|]. split; [exact A3|]. split; [exact A4|]. split; [exact A5|]. exact (A6 He).
  Qed.
End Storey2.

(* ================================================================== 7. non-vacuity: the table family of TableWf.v *)
Section TableParallel.
  Variable ti : tinst.
  Variable C : Z.
  Hypothesis Hwf : t_wf ti C.
  Variable flv : flavour.
  Hypothesis Hflv : flv = CleanLEL \/ flv = CleanFC.
  Variable width : nat.
  Hypothesis Hwidth : (1 <= width)%nat.

  (* every instance of the family, every cutoff, every schedule, every fuel *)
  Theorem C05_parallel_table_instances : forall cutoff T fuel sched,
    (1 <= T)%nat ->
    sound_result_enum (tb_sconfig ti flv false false false width cutoff)
      (par_maximize tstate_eqb (tb_sconfig ti flv false false false width cutoff) fuel T T None sched).
  Proof.
    intros cutoff T fuel sched HT.
    destruct (table_premises ti C Hwf flv Hflv width Hwidth cutoff)
      as (P1 & P2 & P3 & P4 & P5 & P6 & P7 & P8 & P9 & P10 & P11 & P12 & P13).
    assert (Hp : primal_okP (sfeasible (t_problem ti)) None) by (intros pv psol E; discriminate).
    exact (C05_parallel_anytime_any_end tstate_eqb P1 (tb_sconfig ti flv false false false width cutoff) P2 P3 P4 P5 P6 P7 P8 P9 P10
             (tB ti C) P12 P13 T None fuel sched HT Hp).
  Qed.
End TableParallel.

(* a concrete instance: 3 variables (static order 0, 1, 2), 3 base states, rows (var, base, value, dst, cost):
     x0: 0 -0-> 0 (+3)   0 -1-> 1 (+2)   0 -2-> 2 (+1)
     x1: 0 -0-> 0 (+0)   1 -0-> 1 (+0)   2 -0-> 2 (+0)
     x2: 0 -0-> 0 (+0)   1 -0-> 1 (+5)   2 -0-> 2 (+0)
   optimum 7 (x0 = 1).  Width 1: the restricted diagram of the root says 3, the relaxed one 8; the cut-set of the root is
   A = ([0], 3, ub 8), B = ([1], 2, ub 7), C = ([2], 1, ub 6); the optimum lives under B.  The root costs 6 polls. *)
Definition ex3_ti : tinst := {|
  t_nvars := 3; t_nbase := 3; t_init := 0; t_initval := 0; t_slack := 0; t_rubkind := 0; t_domkind := 0;
  t_usevalue := false; t_ncoord := 0; t_order := [0; 1; 2]%nat;
  t_trans := [ (0%nat, 0, 0, 0, 3); (0%nat, 0, 1, 1, 2); (0%nat, 0, 2, 2, 1);
               (1%nat, 0, 0, 0, 0); (1%nat, 1, 0, 1, 0); (1%nat, 2, 0, 2, 0);
               (2%nat, 0, 0, 0, 0); (2%nat, 1, 0, 1, 5); (2%nat, 2, 0, 2, 0) ];
  t_notimp := []; t_rub := []; t_key := []; t_coords := []; t_mergekind := 0; t_pos := []; t_up := [] |}.

Example ex3_wf : t_wf ex3_ti 5.
Proof. apply t_wfb_spec. vm_compute. reflexivity. Qed.
Example ex3_opt : opt_enum (t_problem ex3_ti) = Some 7.
Proof. vm_compute. reflexivity. Qed.

(* cutoff 7: the first compilation after the root is cut at its first poll *)
Definition ex3_cfg (cutoff : nat) : @sconfig tstate := tb_sconfig ex3_ti CleanLEL false false false 1 cutoff.
(* 3 workers.  Worker 0 processes the root (7 transitions); workers 0, 1, 2 take A, B, C; worker 2 then worker 1 start
   compiling and are cut (both sit at PAbort); worker 2 then worker 1 run abort_search; the rest follows the default
   policy (worker 0's compilation is cut as well: a third abort_search) *)
Definition ex3_sched : list nat := [0;0;0;0;0;0;0; 0;1;2; 2;1; 2;1]%nat.

Definition pc_tag {St} (p : @pc St) : nat :=
  match p with
  | PGetWork => 0 | PParked => 1 | PReadLb1 _ => 2 | PUpdate1 _ _ _ => 3 | PReadLb2 _ => 4 | PUpdate2 _ _ _ => 5
  | PEnqueue _ _ _ => 6 | PAbort _ => 7 | PNotify _ _ => 8 | PExited => 9
  end.
Definition held_ub {St} (p : @pc St) : option Z := option_map (@sp_ub St) (busy_node p).
(* the state after k transitions of the run: (pcs, bounds of the nodes held, upper_bounds, abort flag, best_lb, best_ub) *)
Definition ex3_after (k : nat) :=
  let '(s, _, _) := par_run tstate_eqb (ex3_cfg 7) k (init_pstate tstate_eqb (ex3_cfg 7) 3 3 None) ex3_sched None [] in
  (map pc_tag (p_workers s), map held_ub (p_workers s), p_upper_bounds s, p_abort s, p_lb s, p_ub s).

(* two different workers are at PAbort at the same time (the situation finding D3 was about) *)
Example ex3_two_workers_at_abort :
  ex3_after 12 = ([2; 7; 7]%nat, [Some 8; Some 7; Some 6], [8; 7; 6], false, 3, IMAX).
Proof. vm_compute. reflexivity. Qed.

(* worker 2 aborts first: its own node C has bound 6 < 7 = optimum (the optimum is under B, held by worker 1); the
   repaired abort_search takes the maximum with upper_bounds[0] = 8 and upper_bounds[1] = 7 *)
Example ex3_first_abort : ex3_after 13 = ([2; 7; 8]%nat, [Some 8; Some 7; Some 6], [8; 7; 6], true, 3, 8).
Proof. vm_compute. reflexivity. Qed.
(* the second abort_search (worker 1) takes a maximum with the previous best_ub: the bound is kept *)
Example ex3_second_abort : ex3_after 14 = ([2; 8; 8]%nat, [Some 8; Some 7; Some 6], [8; 7; 6], true, 3, 8).
Proof. vm_compute. reflexivity. Qed.

Notation ex3_result := (par_maximize tstate_eqb (ex3_cfg 7) 200 3 3 None ex3_sched) (only parsing).

Example ex3_run :
  (pr_end ex3_result, pr_exact ex3_result, pr_crash ex3_result, pr_lb ex3_result, pr_ub ex3_result, pr_value ex3_result)
    = (PFinished, false, false, 3, 8, Some 3) /\
  filter (fun e => match snd e with SAbortSearch => true | _ => false end) (pr_trace ex3_result)
    = [(2%nat, SAbortSearch); (1%nat, SAbortSearch); (0%nat, SAbortSearch)].
Proof. vm_compute. split; reflexivity. Qed.

(* the theorem applies to this run (the inequalities come from the theorem, not from the computation) ... *)
Example ex3_by_theorem :
  pr_crash ex3_result = false /\ pr_lb ex3_result <= 7 <= pr_ub ex3_result /\
  (forall v, pr_value ex3_result = Some v ->
     exists sol, pr_sol ex3_result = Some (sort_by dec_var_cmp sol) /\ MddProgress.feasible (t_problem ex3_ti) sol v).
Proof.
  destruct (C05_parallel_table_instances ex3_ti 5 ex3_wf CleanLEL (or_introl eq_refl) 1 (le_n 1) 7 3 200 ex3_sched
              (le_S _ _ (le_S _ _ (le_n 1)))) as (A1 & A2 & A3 & A4 & A5 & A6).
  split; [exact A1|]. split; [exact (A3 7 ex3_opt)|].
  intros v Hv. destruct (A5 v Hv) as (_ & sol & S1 & _ & S3). exists sol. auto.
Qed.
(* ... and it is not vacuous: the run aborted, lb = 3 < optimum = 7 <= ub = 8 *)
Example ex3_strict : pr_exact ex3_result = false /\ pr_lb ex3_result < 7 /\ 7 <= pr_ub ex3_result /\ pr_ub ex3_result < IMAX.
Proof. vm_compute. repeat split; discriminate || reflexivity. Qed.

(* the theorem also speaks of runs stopped by the fuel, e.g. right after the first abort_search *)
Example ex3_out_of_fuel :
  let r := par_maximize tstate_eqb (ex3_cfg 7) 13 3 3 None ex3_sched in
  pr_end r = POutOfFuel /\ pr_lb r <= 7 <= pr_ub r.
Proof.
  split; [vm_compute; reflexivity|].
  destruct (C05_parallel_table_instances ex3_ti 5 ex3_wf CleanLEL (or_introl eq_refl) 1 (le_n 1) 7 3 13 ex3_sched
              (le_S _ _ (le_S _ _ (le_n 1)))) as (_ & _ & A3 & _).
  exact (A3 7 ex3_opt).
Qed.

(* the instance of TableWf.v (optimum 12): cutoff 5 stops the root during its relaxed compilation, after the restricted
   one has found 12; the run is not exact, and best_ub = isize::MAX (the root's own bound) *)
Example ex_ti_abort :
  let r := par_maximize tstate_eqb (tb_sconfig ex_ti CleanLEL false false false 1 5) 200 2 2 None [] in
  (pr_end r, pr_exact r, pr_lb r, pr_ub r) = (PFinished, false, 12, IMAX) /\ pr_lb r <= 12 <= pr_ub r.
Proof.
  split; [vm_compute; reflexivity|].
  destruct (C05_parallel_table_instances ex_ti 7 ex_wf CleanLEL (or_introl eq_refl) 1 (le_n 1) 5 2 200 []
              (le_S _ _ (le_n 1))) as (_ & _ & A3 & _).
  exact (A3 12 ex_opt).
Qed.


(* ================================================================== 8. regression: the isize::MAX sentinels (finding D3b)
   BEFORE the second repair of abort_search (no longer expressible: Par.v models the repaired code only) the code used
   isize::MAX as a sentinel twice -- "slot of upper_bounds idle" (such slots were skipped in the maximum) and "best_ub not
   set yet" (`if best_ub == MAX { best_ub = cur } else { best_ub = max(cur, best_ub) }`).  A worker busy with a node whose
   bound IS isize::MAX was taken for idle, and a best_ub legitimately set to isize::MAX by a first abort_search was
   OVERWRITTEN by the next one.  On the configuration below (which meets every hypothesis of section Storey2:
   residual_premises) the pre-repair model returned, for the schedule schedR, a FINISHED run with best_lb = 6 and
   best_ub = 10 while the optimum is 15 (reproduced on the Rust code: 2 workers, cutoff 8, bounds [6, 10]); in the other
   abort order the bound was 10 right after the first abort_search, until worker 0's own abort_search raised it.
     states: 0 root; x0 = 0 -> X = 1 (+5), x0 = 1 -> Y = 2 (+0); X: x1 = 0 -> 3 (+1), x1 = 1 -> 6 (+0); Y: x1 = 0 -> 4 (+0);
             x2: 3 (+0), 6 (+10), 4 (+1); 9 = the merged state (covers every state, costs 5 / 1 / 10 per variable).
     relaxation: merge = 9, rough bound = isize::MAX, relax = isize::MAX on the edges that leave X (any over-estimate
             is a valid relaxation), the cost itself elsewhere.
   Width 1: the root's restricted diagram says 6, its cut-set is X (bound isize::MAX) and Y (bound 10); the optimum 15 is
   under X.  Two workers; worker 0 takes X, worker 1 takes Y; cutoff 7 cuts both compilations; worker 0 runs abort_search
   first, worker 1 second.
   AFTER the repair (idle slots hold isize::MIN, the maximum runs over every slot, the first abort_search is recognised by
   abort_proof being unset): the same run reports best_ub = isize::MAX >= 15 (residual_regression, by computation), and
   C05_parallel_anytime applies to it (residual_by_theorem). *)
Module Residual.
  Definition costR (s : Z) (d : decision) : Z :=
    match d_var d with
    | O => if s =? 9 then 5 else if d_val d =? 0 then 5 else 0
    | S O => if s =? 9 then 1 else if (s =? 1) && (d_val d =? 0) then 1 else 0
    | _ => if s =? 9 then 10 else if s =? 6 then 10 else if s =? 4 then 1 else 0
    end.
  Definition trR (s : Z) (d : decision) : Z :=
    if s =? 9 then 9
    else if s =? 0 then (if d_val d =? 0 then 1 else 2)
    else if s =? 1 then (if d_val d =? 0 then 3 else 6) else if s =? 2 then 4 else 5.
  Definition domR (x : nat) (s : Z) : list Z :=
    if s =? 9 then [0; 1]
    else if Nat.eqb x 0 then [0; 1] else if Nat.eqb x 1 then (if s =? 1 then [0; 1] else [0]) else [0].
  Definition pbR : problem Z := {|
    nb_vars := 3; init_state := 0; init_value := 0;
    transition := trR; transition_cost := fun s _ d => costR s d;
    next_variable := fun depth _ => if Nat.ltb depth 3 then Some depth else None;
    domain := domR; is_impacted_by := fun _ _ => true |}.
  Definition rlxR : relaxation Z := {|
    merge := fun _ => 9;
    relax := fun src _ _ _ c => if src =? 1 then IMAX else c;
    fast_upper_bound := fun _ => IMAX |}.
  Definition cfgR (k : nat) : @sconfig Z := {|
    sc_flavour := CleanLEL; sc_problem := pbR; sc_relax := rlxR; sc_ranking := Z.compare;
    sc_domcmp := fun a va b vb => cmp_then (Zcmp va vb) (Z.compare a b); sc_domrule := None; sc_width := 1;
    sc_use_cache := false; sc_nodup := false; sc_cutoff := k |}.

  Definition covR (s s' : Z) : Prop := s = s' \/ s = 9.

  Lemma costR_range s d : 0 <= costR s d <= 10.
  Proof.
    unfold costR. destruct (d_var d) as [|[|x]];
      repeat match goal with |- context [if ?b then _ else _] => destruct b end; lia.
  Qed.
  Lemma costR_9 s d : costR s d <= costR 9 d.
  Proof.
    unfold costR. destruct (d_var d) as [|[|x]]; rewrite Z.eqb_refl;
      repeat match goal with |- context [if ?b then _ else _] => destruct b end; lia.
  Qed.
  Lemma domR_9 x s v : In v (domR x s) -> In v (domR x 9).
  Proof.
    unfold domR. rewrite Z.eqb_refl.
    repeat match goal with |- context [if ?b then _ else _] => destruct b end; cbn [In]; tauto.
  Qed.

  Lemma fold_bound (c : Z -> Z) (g : Z -> option Z) lo hi l h :
    fold_right (fun val acc => omax (oadd (c val) (g val)) acc) None l = Some h ->
    (forall val h', In val l -> g val = Some h' -> lo <= c val + h' <= hi) -> lo <= h <= hi.
  Proof.
    revert h. induction l as [|a l IH]; intros h H Hb; cbn [fold_right] in H; [discriminate|].
    destruct (g a) as [ha|] eqn:Ea; cbn [oadd option_map omax] in H.
    - pose proof (Hb a ha (or_introl eq_refl) Ea) as Ha.
      destruct (fold_right (fun val acc => omax (oadd (c val) (g val)) acc) None l) as [hl|] eqn:El.
      + inversion H; subst h. assert (lo <= hl <= hi) by (apply IH; [reflexivity|intros; eapply Hb; eauto; right; assumption]). lia.
      + inversion H; subst h. lia.
    - apply IH; [exact H|]. intros; eapply Hb; eauto. right; assumption.
  Qed.

  Lemma hstar_bound : forall fuel k s h, hstar pbR fuel k s = Some h -> 0 <= h <= 10 * Z.of_nat fuel.
  Proof.
    induction fuel as [|fuel IH]; intros k s h H; cbn [hstar] in H; [inversion H; lia|].
    cbn [next_variable pbR] in H. destruct (Nat.ltb k 3); [|inversion H; lia].
    apply (fold_bound _ _ 0 (10 * Z.of_nat (S fuel))) in H; [exact H|].
    intros val h' _ Hh. apply IH in Hh. cbn [transition_cost pbR].
    pose proof (costR_range s {| d_var := k; d_val := val |}). lia.
  Qed.

  Lemma frun_bound : forall ds k s v s' v', frun pbR k s v ds = Some (s', v') -> v <= v' <= v + 10 * Z.of_nat (3 - k).
  Proof.
    induction ds as [|d ds IH]; intros k s v s' v' H; cbn [frun] in H; [inversion H; lia|].
    destruct (var_ok pbR k d) eqn:Ev; cbn [andb] in H; [|discriminate].
    destruct (in_domain pbR s d); [|discriminate]. apply IH in H.
    unfold var_ok in Ev. cbn [next_variable pbR] in Ev. destruct (Nat.ltb_spec k 3) as [Hk|Hk]; [|discriminate].
    cbn [transition_cost pbR] in H. pose proof (costR_range s d).
    replace (3 - k)%nat with (S (3 - S k)) by lia. lia.
  Qed.

  Lemma wf_coverR k : wf_cover (cfgR k) covR.
  Proof.
    split; [intros s; left; reflexivity|]. split; [|split].
    - intros s s' x v [<- | ->] Hin; cbn [sc_problem cfgR domain transition transition_cost pbR] in *.
      + split; [exact Hin|]. split; [left; reflexivity|lia].
      + split; [eapply domR_9; eauto|]. split; [right; unfold trR; rewrite Z.eqb_refl; reflexivity|apply costR_9].
    - intros L s s' _ _. right. reflexivity.
    - intros j s s' h _ Hh. cbn [sc_relax cfgR fast_upper_bound rlxR sc_problem] in *. unfold H in Hh.
      apply hstar_bound in Hh. cbn [nb_vars pbR] in Hh. unfold IMAX. lia.
  Qed.

  (* all the hypotheses of section Storey2 (those of Assembly.Main), with B = 100: the theorem applies to this configuration *)
  Theorem residual_premises k :
    (forall a b, Z.eqb a b = true <-> a = b) /\
    (sc_flavour (cfgR k) = CleanLEL \/ sc_flavour (cfgR k) = CleanFC) /\
    sc_use_cache (cfgR k) = false /\ sc_domrule (cfgR k) = None /\ sc_nodup (cfgR k) = false /\ (1 <= sc_width (cfgR k))%nat /\
    (forall j l1 l2, next_variable (sc_problem (cfgR k)) j l1 = next_variable (sc_problem (cfgR k)) j l2) /\
    (forall j l, (j < nb_vars (sc_problem (cfgR k)))%nat -> exists x, next_variable (sc_problem (cfgR k)) j l = Some x) /\
    (forall j l, (nb_vars (sc_problem (cfgR k)) <= j)%nat -> next_variable (sc_problem (cfgR k)) j l = None) /\
    wf_relaxation (cfgR k) /\
    2 * 100 <= IMAX /\
    (forall ds s' v', frun (sc_problem (cfgR k)) 0 (init_state (sc_problem (cfgR k))) (init_value (sc_problem (cfgR k))) ds = Some (s', v') ->
                      - 100 <= v' <= 100).
  Proof.
    split; [exact Z.eqb_eq|]. split; [left; reflexivity|]. split; [reflexivity|]. split; [reflexivity|].
    split; [reflexivity|]. split; [cbn; lia|]. split; [reflexivity|]. split; [|split; [|split; [|split]]].
    - intros j l Hj. cbn [sc_problem cfgR nb_vars next_variable pbR] in *. apply Nat.ltb_lt in Hj. rewrite Hj. eauto.
    - intros j l Hj. cbn [sc_problem cfgR nb_vars next_variable pbR] in *. apply Nat.ltb_ge in Hj. rewrite Hj. reflexivity.
    - exists covR. right. split; [apply wf_coverR|]. split; [|split].
      + intros s d. cbn [sc_problem cfgR transition_cost pbR]. pose proof (costR_range s d). unfold in_isize, IMIN, IMAX. lia.
      + intros src dst mg d c Hc. cbn [sc_relax cfgR relax rlxR]. destruct (src =? 1); [unfold in_isize, IMIN, IMAX; lia|exact Hc].
      + intros src dst mg d c Hc. cbn [sc_relax cfgR relax rlxR]. destruct (src =? 1); [apply Hc|lia].
    - unfold IMAX. lia.
    - intros ds s' v' Hr. cbn [sc_problem cfgR init_state init_value pbR] in Hr. apply frun_bound in Hr. cbn in Hr. lia.
  Qed.

  Example residual_opt : opt_enum pbR = Some 15.
  Proof. vm_compute. reflexivity. Qed.

  (* the cut-set of the root: (state, value, depth, bound) *)
  Example residual_cutset :
    let inp := mk_input (cfgR 7) Relaxed (root_node (cfgR 7)) 6 in
    map (fun x => (sp_state x, sp_value x, sp_depth x, sp_ub x))
        (drain_cutset inp (fst (compile Z.eqb inp 0 0 [] (init_dstore 3) 0))) = [(1, 5, 1%nat, IMAX); (2, 0, 1%nat, 10)].
  Proof. vm_compute. reflexivity. Qed.

  (* worker 0: root (7 transitions); workers 0, 1 take X, Y; both compilations are cut; abort_search of 0, then of 1 *)
  Definition schedR : list nat := [0;0;0;0;0;0;0; 0;1; 0;1; 0;1]%nat.

  Example residual_regression :
    let r := par_maximize Z.eqb (cfgR 7) 200 2 2 None schedR in
    (pr_end r, pr_exact r, pr_crash r, pr_lb r, pr_ub r, pr_value r) = (PFinished, false, false, 6, IMAX, Some 6).
  Proof. vm_compute. reflexivity. Qed.

  (* (upper_bounds, abort flag, best_lb, best_ub) after k transitions: worker 0's abort_search (transition 12) sets
     best_ub = isize::MAX, worker 1's (transition 13) takes the maximum with it instead of overwriting it *)
  Definition afterR (k : nat) :=
    let '(s, _, _) := par_run Z.eqb (cfgR 7) k (init_pstate Z.eqb (cfgR 7) 2 2 None) schedR None [] in
    (p_upper_bounds s, p_abort s, p_lb s, p_ub s).
  Example residual_steps :
    afterR 11 = ([IMAX; 10], false, 6, IMAX) /\ afterR 12 = ([IMAX; 10], true, 6, IMAX) /\
    afterR 13 = ([IMAX; 10], true, 6, IMAX) /\ afterR 15 = ([IMIN; IMIN], true, 6, IMAX).
  Proof. vm_compute. repeat split; reflexivity. Qed.

  (* the other abort order (worker 1 first, while worker 0 holds X): upper_bounds[0] = isize::MAX is no longer skipped *)
  Example residual_regression_other_order :
    let r := par_maximize Z.eqb (cfgR 7) 12 2 2 None [0;0;0;0;0;0;0; 0;1; 0;1; 1]%nat in
    (pr_end r, pr_exact r, pr_lb r, pr_ub r) = (POutOfFuel, false, 6, IMAX) /\
    let r := par_maximize Z.eqb (cfgR 7) 200 2 2 None [0;0;0;0;0;0;0; 0;1; 0;1; 1]%nat in
    (pr_end r, pr_exact r, pr_lb r, pr_ub r) = (PFinished, false, 6, IMAX).
  Proof. vm_compute. split; reflexivity. Qed.

  (* the theorem applies: every run of this configuration has sound bounds (here: 6 <= 15 <= best_ub) *)
  Theorem residual_by_theorem : forall T fuel sched, (1 <= T)%nat ->
    let r := par_maximize Z.eqb (cfgR 7) fuel T T None sched in
    pr_crash r = false /\ pr_lb r <= 15 <= pr_ub r.
  Proof.
    intros T fuel sched HT r.
    destruct (residual_premises 7) as (P1 & P2 & P3 & P4 & P5 & P6 & P7 & P8 & P9 & P10 & P12 & P13).
    assert (Hp : primal_okP (sfeasible pbR) None) by (intros pv psol E; discriminate).
    destruct (C05_parallel_anytime_any_end Z.eqb P1 (cfgR 7) P2 P3 P4 P5 P6 P7 P8 P9 P10 100 P12 P13 T None fuel sched HT Hp)
      as (A1 & _ & A3 & _).
    split; [exact A1|exact (A3 15 residual_opt)].
  Qed.
End Residual.

(* ------------------------------------------------------------------ assumptions *)
Print Assumptions step_ubs.
Print Assumptions step_ainv.
Print Assumptions par_anytime_sound.
Print Assumptions par_anytime_sound_any_end.
Print Assumptions C05_parallel_anytime.
Print Assumptions C05_parallel_anytime_any_end.
Print Assumptions C05_parallel_table_instances.
Print Assumptions ex3_two_workers_at_abort.
Print Assumptions ex3_by_theorem.
Print Assumptions ex3_out_of_fuel.
Print Assumptions ex_ti_abort.
Print Assumptions Residual.residual_premises.
Print Assumptions Residual.residual_regression.
Print Assumptions Residual.residual_by_theorem.
