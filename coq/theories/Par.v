(* Par.v — the coordination protocol of ParallelSolver (ddo/src/implementation/solver/parallel.rs) as a labelled
   transition system. One transition = one acquisition of the `critical` mutex by one worker, together with the
   lock-free code that follows it up to that worker's next acquisition request (a diagram compilation depends only on
   the node and on the best_lb read under the lock). A schedule is the list of choices made at the decision points.
   Condvar: parking_lot documents "no spurious wake-ups"; `notify_all` wakes every parked worker. *)
Require Import DDO.Base DDO.Fringe DDO.FringeProofs DDO.Fringe2 DDO.DP DDO.Cache DDO.Dom DDO.Mdd DDO.Solver.
Open Scope Z_scope.

Section Par.
  Context {St : Type}.
  Variable st_eqb : St -> St -> bool.
  Variable cfg : @sconfig St.
  Let pb := sc_problem cfg.
  Let spcmp := @maxub_cmp St (sc_ranking cfg).

  (* program counter of a worker: which critical section it will enter next *)
  Inductive pc :=
  | PGetWork
  | PParked
  | PReadLb1 (n : @subproblem St)
  | PUpdate1 (n : @subproblem St) (inp : @cinput St) (m : @mdd St)
  | PReadLb2 (n : @subproblem St)
  | PUpdate2 (n : @subproblem St) (inp : @cinput St) (m : @mdd St)
  | PEnqueue (n : @subproblem St) (inp : @cinput St) (m : @mdd St)
  | PAbort (n : @subproblem St)
  | PNotify (n : @subproblem St) (exit_after : bool)
  | PExited.

  Inductive site := SGetWorkload | SBestLb | SMaybeUpdateBest | SEnqueueCutset | SAbortSearch | SNotifyNodeFinished.

  Record pstate := {
    p_simple : list (@subproblem St);
    p_nodup : @nodup (St * nat);
    p_ongoing : nat;
    p_explored : nat;
    p_open : list nat;
    p_ongoing_by_layer : list nat;
    p_fal : nat;
    p_lb : Z; p_ub : Z;
    p_sol : option (list decision);
    p_upper_bounds : list Z;             (* sized at construction, indexed by thread id; IMIN = idle (neutral for max) *)
    p_abort : bool;
    p_cache : @cache St;
    p_dom : @dstore St Z;
    p_polls : nat;
    p_crash : bool;                      (* some worker panicked *)
    p_tie : bool;
    p_workers : list pc }.

  Definition mk (simple : list (@subproblem St)) nodupv ongoing explored open obl fal lb ub sol ubs abort cache dom polls crash tie workers : pstate :=
    {| p_simple := simple; p_nodup := nodupv; p_ongoing := ongoing; p_explored := explored; p_open := open; p_ongoing_by_layer := obl;
       p_fal := fal; p_lb := lb; p_ub := ub; p_sol := sol; p_upper_bounds := ubs; p_abort := abort; p_cache := cache; p_dom := dom;
       p_polls := polls; p_crash := crash; p_tie := tie; p_workers := workers |}.

  (* ctor_threads: thread count given at construction (sizes upper_bounds unless [resized]); nthreads: workers spawned *)
  Definition init_pstate (ctor_threads nthreads : nat) (primal : option (Z * list decision)) : pstate :=
    let '(lb, sol) := match primal with Some (v, s) => if v >? IMIN then (v, Some s) else (IMIN, None) | None => (IMIN, None) end in
    let root := root_node cfg in
    let '(simple, nd, crash) :=
      if sc_nodup cfg then
        match k_push st_eqb (sc_ranking cfg) nd_empty root with Some f => ([], f, false) | None => ([], nd_empty, true) end
      else ([root], nd_empty, false) in
    mk simple nd O O (upd_nth O S (repeat O (S (nb_vars pb)))) (repeat O (S (nb_vars pb))) O lb IMAX sol
       (repeat IMIN ctor_threads) false (if sc_use_cache cfg then init_cache (nb_vars pb) else []) (init_dstore (nb_vars pb))
       O crash false (repeat PGetWork nthreads).

  Definition set_worker (s : pstate) (w : nat) (p : pc) : pstate :=
    mk (p_simple s) (p_nodup s) (p_ongoing s) (p_explored s) (p_open s) (p_ongoing_by_layer s) (p_fal s) (p_lb s) (p_ub s) (p_sol s)
       (p_upper_bounds s) (p_abort s) (p_cache s) (p_dom s) (p_polls s) (p_crash s) (p_tie s) (upd_nth w (fun _ => p) (p_workers s)).
  Definition p_crashed (s : pstate) : pstate :=
    mk (p_simple s) (p_nodup s) (p_ongoing s) (p_explored s) (p_open s) (p_ongoing_by_layer s) (p_fal s) (p_lb s) (p_ub s) (p_sol s)
       (p_upper_bounds s) (p_abort s) (p_cache s) (p_dom s) (p_polls s) true (p_tie s) (p_workers s).

  (* ------------------------------------------------------------ fringe *)
  Definition pf_len (s : pstate) : nat := if sc_nodup cfg then nd_len (p_nodup s) else length (p_simple s).
  Definition with_fringe (s : pstate) simple nd : pstate :=
    mk simple nd (p_ongoing s) (p_explored s) (p_open s) (p_ongoing_by_layer s) (p_fal s) (p_lb s) (p_ub s) (p_sol s)
       (p_upper_bounds s) (p_abort s) (p_cache s) (p_dom s) (p_polls s) (p_crash s) (p_tie s) (p_workers s).
  Definition pf_push (s : pstate) (n : @subproblem St) : pstate :=
    if sc_nodup cfg then
      match k_push st_eqb (sc_ranking cfg) (p_nodup s) n with
      | Some f => with_fringe s (p_simple s) f
      | None => p_crashed s
      end
    else with_fringe s (n :: p_simple s) (p_nodup s).
  Definition pf_pop (s : pstate) : pstate * option (@subproblem St) :=
    if sc_nodup cfg then
      match k_pop st_eqb (sc_ranking cfg) (p_nodup s) with
      | Some (f, r) => (with_fringe s (p_simple s) f, r)
      | None => (p_crashed s, None)
      end
    else match pq_pop cfg (p_simple s) with
         | None => (s, None)
         | Some (x, rest) => (with_fringe s rest (p_nodup s), Some x)
         end.
  Definition pf_clear (s : pstate) : pstate := with_fringe s [] nd_empty.

  Definition with_open (s : pstate) open obl : pstate :=
    mk (p_simple s) (p_nodup s) (p_ongoing s) (p_explored s) open obl (p_fal s) (p_lb s) (p_ub s) (p_sol s)
       (p_upper_bounds s) (p_abort s) (p_cache s) (p_dom s) (p_polls s) (p_crash s) (p_tie s) (p_workers s).
  Definition with_cache_fal (s : pstate) c fal : pstate :=
    mk (p_simple s) (p_nodup s) (p_ongoing s) (p_explored s) (p_open s) (p_ongoing_by_layer s) fal (p_lb s) (p_ub s) (p_sol s)
       (p_upper_bounds s) (p_abort s) c (p_dom s) (p_polls s) (p_crash s) (p_tie s) (p_workers s).

  (* ------------------------------------------------------------ get_workload *)
  Fixpoint p_clean_cache_loop (fuel : nat) (s : pstate) : pstate :=
    match fuel with
    | O => s
    | S fuel' =>
        if Nat.ltb (p_fal s) (nb_vars pb) then
          match nth_error (p_open s) (p_fal s), nth_error (p_ongoing_by_layer s) (p_fal s) with
          | Some a, Some b =>
              if Nat.eqb (a + b) 0 then
                let c := if sc_use_cache cfg then clear_layer (p_cache s) (p_fal s) else Some (p_cache s) in
                match c with
                | Some c => p_clean_cache_loop fuel' (with_cache_fal s c (S (p_fal s)))
                | None => p_crashed s
                end
              else s
          | _, _ => p_crashed s
          end
        else s
    end.

  Inductive gw_result := GWComplete | GWAborted | GWWait | GWStarvation | GWItem (n : @subproblem St) | GWCrash.

  (* the `loop { ... }` that skips nodes the cache says need not be explored *)
  Fixpoint gw_select (fuel : nat) (s : pstate) (nn : @subproblem St) : pstate * gw_result :=
    match fuel with
    | O => (s, GWCrash)
    | S fuel' =>
        if sp_ub nn <=? p_lb s then
          let s := pf_clear s in
          (with_open s (map (fun _ => O) (p_open s)) (p_ongoing_by_layer s), GWStarvation)
        else
          let explore :=
            if sc_use_cache cfg then must_explore st_eqb (p_cache s) (sp_state nn) (sp_depth nn) (sp_value nn) else Some true in
          match explore with
          | None => (p_crashed s, GWCrash)
          | Some true =>
              let c := if sc_use_cache cfg then update_threshold st_eqb (p_cache s) (sp_state nn) (sp_depth nn) (sp_value nn) true
                       else Some (p_cache s) in
              match c with
              | Some c => (with_cache_fal s c (p_fal s), GWItem nn)
              | None => (p_crashed s, GWCrash)
              end
          | Some false =>
              match nth_error (p_open s) (sp_depth nn) with
              | Some (S k) =>
                  let s := with_open s (upd_nth (sp_depth nn) (fun _ => k) (p_open s)) (p_ongoing_by_layer s) in
                  if Nat.eqb (pf_len s) 0 then (s, GWStarvation)
                  else let '(s, o) := pf_pop s in
                       match o with Some n' => gw_select fuel' s n' | None => (p_crashed s, GWCrash) end
              | _ => (p_crashed s, GWCrash)
              end
          end
    end.

  Definition get_workload (s : pstate) (w : nat) : pstate * gw_result :=
    let s := p_clean_cache_loop (S (nb_vars pb)) s in
    if p_crash s then (s, GWCrash)
    else if Nat.eqb (p_ongoing s) 0 && Nat.eqb (pf_len s) 0 && negb (p_abort s) then
      (mk (p_simple s) (p_nodup s) (p_ongoing s) (p_explored s) (p_open s) (p_ongoing_by_layer s) (p_fal s) (p_lb s) (p_lb s) (p_sol s)
          (p_upper_bounds s) (p_abort s) (p_cache s) (p_dom s) (p_polls s) (p_crash s) (p_tie s) (p_workers s), GWComplete)
    else if p_abort s then (s, GWAborted)
    else if Nat.eqb (pf_len s) 0 then (s, GWWait)
    else
      let '(s, o) := pf_pop s in
      match o with
      | None => (p_crashed s, GWCrash)
      | Some nn =>
          let '(s, r) := gw_select (S (S (pf_len s))) s nn in
          match r with
          | GWItem n =>
              (* critical.ongoing += 1; explored += 1; upper_bounds[thread_id] = nn.ub; open_by_layer[d] -= 1; ongoing_by_layer[d] += 1 *)
              let s1 := mk (p_simple s) (p_nodup s) (S (p_ongoing s)) (S (p_explored s)) (p_open s) (p_ongoing_by_layer s) (p_fal s)
                           (p_lb s) (p_ub s) (p_sol s) (p_upper_bounds s) (p_abort s) (p_cache s) (p_dom s) (p_polls s) (p_crash s)
                           (p_tie s) (p_workers s) in
              match nth_error (p_upper_bounds s1) w with
              | None => (p_crashed s1, GWCrash)             (* index out of bounds: the worker panics with ongoing already incremented *)
              | Some _ =>
                  match nth_error (p_open s1) (sp_depth n), nth_error (p_ongoing_by_layer s1) (sp_depth n) with
                  | Some (S k), Some _ =>
                      (mk (p_simple s1) (p_nodup s1) (p_ongoing s1) (p_explored s1)
                          (upd_nth (sp_depth n) (fun _ => k) (p_open s1)) (upd_nth (sp_depth n) S (p_ongoing_by_layer s1))
                          (p_fal s1) (p_lb s1) (p_ub s1) (p_sol s1) (upd_nth w (fun _ => sp_ub n) (p_upper_bounds s1))
                          (p_abort s1) (p_cache s1) (p_dom s1) (p_polls s1) (p_crash s1) (p_tie s1) (p_workers s1), GWItem n)
                  | _, _ => (p_crashed s1, GWCrash)
                  end
              end
          | _ => (s, r)
          end
      end.

  (* ------------------------------------------------------------ compilation (outside the lock) *)
  Definition p_compile (s : pstate) (ct : comptype) (node : @subproblem St) (lb : Z) : pstate * @cinput St * @mdd St * outcome :=
    let inp := mk_input cfg ct node lb in
    let '(m, o) := compile st_eqb inp O O (p_cache s) (p_dom s) (p_polls s) in
    let tie := Nat.ltb 1 (length (argmax_candidates inp m (m_next m))) in
    (mk (p_simple s) (p_nodup s) (p_ongoing s) (p_explored s) (p_open s) (p_ongoing_by_layer s) (p_fal s) (p_lb s) (p_ub s) (p_sol s)
        (p_upper_bounds s) (p_abort s) (m_cache m) (m_dom m) (m_polls m) (p_crash s || m_crash m) (p_tie s || tie) (p_workers s),
     inp, m, o).

  Definition p_maybe_update_best (s : pstate) (inp : @cinput St) (m : @mdd St) : pstate :=
    let v := opt_default IMIN (dd_best_exact_value inp m) in
    if v >? p_lb s then
      mk (p_simple s) (p_nodup s) (p_ongoing s) (p_explored s) (p_open s) (p_ongoing_by_layer s) (p_fal s) v (p_ub s)
         (dd_best_exact_solution inp m) (p_upper_bounds s) (p_abort s) (p_cache s) (p_dom s) (p_polls s) (p_crash s) (p_tie s) (p_workers s)
    else s.

  Definition p_enqueue_cutset (s : pstate) (inp : @cinput St) (m : @mdd St) (ub : Z) : pstate :=
    let best_lb := p_lb s in
    fold_left (fun s c =>
        let cub := Z.min ub (sp_ub c) in
        if cub >? best_lb then
          let c' := {| sp_state := sp_state c; sp_value := sp_value c; sp_path := sp_path c; sp_ub := cub; sp_depth := sp_depth c |} in
          let before := pf_len s in
          let s := pf_push s c' in
          let after := pf_len s in
          match nth_error (p_open s) (sp_depth c) with
          | None => p_crashed s
          | Some _ => with_open s (upd_nth (sp_depth c) (fun o => o + (after - before))%nat (p_open s)) (p_ongoing_by_layer s)
          end
        else s)
      (drain_cutset inp m) s.

  Definition wake_all (ws : list pc) : list pc := map (fun p => match p with PParked => PGetWork | _ => p end) ws.

  (* one transition of worker w; None = w is not enabled (parked / exited / unknown) *)
  Definition par_step (s : pstate) (w : nat) : option (pstate * site) :=
    match nth_error (p_workers s) w with
    | None | Some PParked | Some PExited => None
    | Some PGetWork =>
        let '(s, r) := get_workload s w in
        Some (match r with
              | GWComplete | GWAborted => set_worker s w PExited
              | GWWait => set_worker s w PParked
              | GWStarvation => set_worker s w PGetWork
              | GWItem n => set_worker s w (PReadLb1 n)
              | GWCrash => set_worker (p_crashed s) w PExited
              end, SGetWorkload)
    | Some (PReadLb1 n) =>
        let lb := p_lb s in
        Some (if sp_ub n <=? lb then set_worker s w (PNotify n false)
              else
                let '(s, inp, m, o) := p_compile s Restricted n lb in
                match o with
                | Compiled => set_worker s w (PUpdate1 n inp m)
                | _ => set_worker s w (PAbort n)
                end, SBestLb)
    | Some (PUpdate1 n inp m) =>
        let s := p_maybe_update_best s inp m in
        Some (if dd_is_exact m then set_worker s w (PNotify n false) else set_worker s w (PReadLb2 n), SMaybeUpdateBest)
    | Some (PReadLb2 n) =>
        let lb := p_lb s in
        let '(s, inp, m, o) := p_compile s Relaxed n lb in
        Some (match o with
              | Compiled => set_worker s w (PUpdate2 n inp m)
              | _ => set_worker s w (PAbort n)
              end, SBestLb)
    | Some (PUpdate2 n inp m) =>
        let s := p_maybe_update_best s inp m in
        Some (if dd_is_exact m then set_worker s w (PNotify n false) else set_worker s w (PEnqueue n inp m), SMaybeUpdateBest)
    | Some (PEnqueue n inp m) =>
        Some (set_worker (p_enqueue_cutset s inp m (sp_ub n)) w (PNotify n false), SEnqueueCutset)
    | Some (PAbort n) =>
        (* the bound must cover the incumbent, the nodes in progress at the other workers and the best node waiting in the fringe *)
        let cur := fold_left (fun acc u => Z.max acc u) (p_upper_bounds s) (Z.max (sp_ub n) (p_lb s)) in
        let '(s, top) := pf_pop s in
        let cur := match top with Some t => Z.max cur (sp_ub t) | None => cur end in
        let ub := if p_abort s then Z.max cur (p_ub s) else cur in
        let s := pf_clear s in
        let s := mk (p_simple s) (p_nodup s) (p_ongoing s) (p_explored s) (p_open s) (p_ongoing_by_layer s) (p_fal s) (p_lb s) ub (p_sol s)
                    (p_upper_bounds s) true (clear (p_cache s)) (p_dom s) (p_polls s) (p_crash s) (p_tie s) (p_workers s) in
        Some (set_worker s w (PNotify n true), SAbortSearch)
    | Some (PNotify n exit_after) =>
        match p_ongoing s, nth_error (p_ongoing_by_layer s) (sp_depth n), nth_error (p_upper_bounds s) w with
        | S k, Some (S j), Some _ =>
            let s := mk (p_simple s) (p_nodup s) k (p_explored s) (p_open s) (upd_nth (sp_depth n) (fun _ => j) (p_ongoing_by_layer s))
                        (p_fal s) (p_lb s) (p_ub s) (p_sol s) (upd_nth w (fun _ => IMIN) (p_upper_bounds s)) (p_abort s) (p_cache s)
                        (p_dom s) (p_polls s) (p_crash s) (p_tie s) (wake_all (p_workers s)) in
            Some (set_worker s w (if exit_after then PExited else PGetWork), SNotifyNodeFinished)
        | _, _, _ => Some (set_worker (p_crashed s) w PExited, SNotifyNodeFinished)
        end
    end.

  Definition enabled (s : pstate) : list nat :=
    filter (fun w => match nth_error (p_workers s) w with
                     | Some PParked | Some PExited | None => false | _ => true end) (seq 0 (length (p_workers s))).

  Definition all_exited (s : pstate) : bool :=
    forallb (fun p => match p with PExited => true | _ => false end) (p_workers s).
  Definition some_parked (s : pstate) : bool :=
    existsb (fun p => match p with PParked => true | _ => false end) (p_workers s).

  Inductive par_end := PFinished | PDeadlock | POutOfFuel.

  (* scheduling policy shared with the harness scheduler: at decision i, if the schedule still has a choice c, run
     enabled[c mod |enabled|]; afterwards keep running the last worker while it is enabled, else the smallest enabled id *)
  Definition choose (en : list nat) (sched : list nat) (last : option nat) : option nat * list nat :=
    match en with
    | [] => (None, sched)
    | _ =>
        match sched with
        | c :: rest => (nth_error en (Nat.modulo c (length en)), rest)
        | [] => (match last with
                 | Some l => if existsb (Nat.eqb l) en then Some l else hd_error en
                 | None => hd_error en
                 end, [])
        end
    end.

  Fixpoint par_run (fuel : nat) (s : pstate) (sched : list nat) (last : option nat) (trace : list (nat * site))
    : pstate * list (nat * site) * par_end :=
    match fuel with
    | O => (s, trace, POutOfFuel)
    | S fuel' =>
        if all_exited s then (s, trace, PFinished)
        else
          match choose (enabled s) sched last with
          | (None, _) => (s, trace, PDeadlock)       (* nobody can run, yet not everybody has exited *)
          | (Some w, rest) =>
              match par_step s w with
              | None => (s, trace, PDeadlock)
              | Some (s', st) => par_run fuel' s' rest (Some w) ((w, st) :: trace)
              end
          end
    end.

  Record presult := {
    pr_exact : bool; pr_value : option Z; pr_lb : Z; pr_ub : Z; pr_sol : option (list decision); pr_explored : nat;
    pr_polls : nat; pr_crash : bool; pr_tie : bool; pr_end : par_end; pr_trace : list (nat * site) }.

  Definition par_maximize (fuel ctor_threads nthreads : nat) (primal : option (Z * list decision)) (sched : list nat) : presult :=
    let '(s, trace, e) := par_run fuel (init_pstate ctor_threads nthreads primal) sched None [] in
    let sol := option_map (sort_by dec_var_cmp) (p_sol s) in
    {| pr_exact := negb (p_abort s); pr_value := match sol with Some _ => Some (p_lb s) | None => None end;
       pr_lb := p_lb s; pr_ub := p_ub s; pr_sol := sol; pr_explored := p_explored s; pr_polls := p_polls s;
       pr_crash := p_crash s; pr_tie := p_tie s; pr_end := e; pr_trace := rev trace |}.
End Par.
