(* Assembly.v — the pieces put together: the solver theorems of SolverProofs.v / SolverCutoff.v / ParProofs.v
   instantiated with the diagram contracts proved about Mdd.compile in MddProgress.v (K0, K1, K3_good, K3_depth, K5)
   and MddSim.v (K2, K3_ub, K4).  What remains as premises only talks about the USER'S MODEL and the configuration. *)
Require Import DDO.Base DDO.Fringe DDO.DP DDO.Cache DDO.Dom DDO.Mdd DDO.MddExact DDO.Solver DDO.SolverProofs.
Require Import DDO.MddProgress DDO.MddSim DDO.SolverCutoff DDO.Par DDO.ParProofs.
From Coq Require Import Lia List Arith ZArith Bool Permutation.
Import ListNotations.
Local Open Scope Z_scope.

(* ================================================================== 0. feasible runs vs saturating replays *)
Section Runs.
  Context {St : Type}.
  Variable pb : problem St.
  Variable B : Z.
  Hypothesis HB : 2 * B <= IMAX.

  Lemma B_isize z : - B <= z <= B -> in_isize z.
  Proof. unfold in_isize, IMIN, IMAX in *. lia. Qed.

  Definition guard_from (k : nat) (s : St) (v : Z) : Prop :=
    forall ds s' v', frun pb k s v ds = Some (s', v') -> - B <= v' <= B.

  Lemma guard_step k s v d :
    guard_from k s v -> var_ok pb k d = true -> in_domain pb s d = true ->
    guard_from (S k) (transition pb s d) (v + transition_cost pb s (transition pb s d) d) /\
    sat_add v (transition_cost pb s (transition pb s d) d) = v + transition_cost pb s (transition pb s d) d.
  Proof.
    intros G Hv Hd. split.
    - intros ds s' v' Hr. apply (G (d :: ds) s' v'). simpl. rewrite Hv, Hd. exact Hr.
    - unfold sat_add. apply clampZ_id. apply B_isize.
      apply (G [d] (transition pb s d)). simpl. rewrite Hv, Hd. reflexivity.
  Qed.

  (* a saturating replay whose decisions follow the variable order is a feasible run (no saturation under the guard) *)
  Lemma replay_sat_frun ds : forall k s v r,
    guard_from k s v ->
    (forall j d, nth_error ds j = Some d -> var_ok pb (k + j) d = true) ->
    replay_sat pb ds s v = Some r -> frun pb k s v ds = Some r.
  Proof.
    induction ds as [|d ds IH]; intros k s v r G Hvar H; simpl in *; [exact H|].
    destruct (in_domain pb s d) eqn:Ed; [|discriminate].
    assert (Hv : var_ok pb k d = true).
    { specialize (Hvar O d eq_refl). rewrite Nat.add_0_r in Hvar. exact Hvar. }
    rewrite Hv. simpl.
    destruct (guard_step k s v d G Hv Ed) as [G' E]. rewrite E in H.
    apply IH; [exact G'| |exact H].
    intros j d' Hj. specialize (Hvar (S j) d' Hj). rewrite Nat.add_succ_r in Hvar. exact Hvar.
  Qed.

  Lemma frun_replay_sat ds : forall k s v r,
    guard_from k s v -> frun pb k s v ds = Some r -> replay_sat pb ds s v = Some r.
  Proof.
    induction ds as [|d ds IH]; intros k s v r G H; simpl in *; [exact H|].
    destruct (var_ok pb k d) eqn:Ev; simpl in H; [|discriminate].
    destruct (in_domain pb s d) eqn:Ed; [|discriminate].
    destruct (guard_step k s v d G Ev Ed) as [G' E]. rewrite E.
    eapply IH; [exact G'|exact H].
  Qed.

  Lemma guard_app k s v ds s1 v1 :
    guard_from k s v -> frun pb k s v ds = Some (s1, v1) -> guard_from (k + length ds) s1 v1.
  Proof.
    intros G H ds2 s' v' H2. apply (G (ds ++ ds2) s' v'). rewrite frun_app, H. exact H2.
  Qed.
End Runs.

(* ================================================================== 1. exact nodes of a compiled diagram are reached by feasible runs *)
Section ChainRuns.
  Context {St : Type}.
  Variable st_eqb : St -> St -> bool.
  Hypothesis st_eqb_spec : forall a b, st_eqb a b = true <-> a = b.
  Variable inp : @cinput St.
  Hypothesis Hclean : ci_flavour inp = CleanLEL \/ ci_flavour inp = CleanFC.
  Let pb := ci_problem inp.
  Let root := ci_root inp.
  Hypothesis nv_static : forall k l1 l2, next_variable pb k l1 = next_variable pb k l2.
  Variable B : Z.
  Hypothesis HB : 2 * B <= IMAX.
  Hypothesis Hguard : guard_from pb B (sp_depth root) (sp_state root) (sp_value root).

  Lemma clean_chain_frun tb tb2 c ds polls m id :
    compile st_eqb inp tb tb2 c ds polls = (m, Compiled) ->
    clean_chain inp m id -> (id < length (m_nodes m))%nat ->
    frun pb (sp_depth root) (sp_state root) (sp_value root) (rev (chain inp m id))
      = Some (n_state (get_node inp m id), n_vtop (get_node inp m id)).
  Proof.
    intros Hc Hcc Hid.
    destruct (clean_chain_replays st_eqb st_eqb_spec inp Hclean tb tb2 c ds polls m id Hc Hcc Hid) as (R & _).
    apply (replay_sat_frun pb B HB); [exact Hguard| |exact R].
    intros j d Hj.
    destruct (clean_chain_variables st_eqb st_eqb_spec inp Hclean tb tb2 c ds polls m id Hc Hcc Hid j d Hj) as [states Hs].
    apply (var_ok_spec pb nv_static _ d states). exact Hs.
  Qed.
End ChainRuns.

(* ================================================================== 1b. a compilation that is cut off (or runs out of fuel) did not crash
   MddProgress.v proves its loop invariant for ci_cutoff = 0; nothing but the poll test reads the cutoff
   (SolverCutoff.loop_body_cutoff / fold_expand_cutoff), so the invariant holds up to the point where the cutoff fires *)
Section CutCrash.
  Context {St : Type}.
  Variable st_eqb : St -> St -> bool.
  Variable inp : @cinput St.
  Local Notation inp0 := (set_cutoff inp 0).
  Hypothesis Hclean : ci_flavour inp = CleanLEL \/ ci_flavour inp = CleanFC.
  Hypothesis Hnocache : ci_use_cache inp = false.
  Hypothesis Hnodom : ci_domrule inp = None.
  Hypothesis Hwidth : (1 <= ci_width inp)%nat.
  Hypothesis nv_none : forall k l, (nb_vars (ci_problem inp) <= k)%nat -> next_variable (ci_problem inp) k l = None.
  Hypothesis Hroot_depth : (sp_depth (ci_root inp) <= nb_vars (ci_problem inp))%nat.

  Lemma layer_loop_nocrash k : forall fuel m m' e,
    layer_loop st_eqb (set_cutoff inp k) fuel m = (m', e) -> MddProgress.Linv inp0 m -> e <> LoopDone ->
    m_crash m' = false.
  Proof.
    induction fuel as [|fuel IH]; intros m m' e H HL Hne.
    - simpl in H. inversion H; subst. apply (MddProgress.L_crash _ _ HL).
    - rewrite layer_loop_iter in H. cbv zeta in H.
      change (ci_problem (set_cutoff inp k)) with (ci_problem inp) in H.
      change (ci_cutoff (set_cutoff inp k)) with k in H.
      assert (Hgn : (fun id => n_state (get_node (set_cutoff inp k) m id)) = (fun id => n_state (get_node inp m id)))
        by reflexivity.
      rewrite Hgn in H.
      set (states := map (fun id => n_state (get_node inp m id)) (m_next m)) in *.
      destruct (next_variable (ci_problem inp) (m_curr_depth m) states) as [var|] eqn:Eov.
      2:{ inversion H; subst. contradiction Hne; reflexivity. }
      set (m0 := add_log m (EvNextVar (m_curr_depth m) states (Some var))) in *.
      set (m1 := with_polls m0 (S (m_polls m0))) in *.
      assert (HL1 : MddProgress.Linv inp0 m1).
      { apply (MddProgress.Linv_frame inp0 eq_refl Hwidth Hroot_depth m); auto; reflexivity. }
      destruct (fires k (m_polls m1)) eqn:Ef.
      { inversion H; subst. apply (MddProgress.L_crash _ _ HL1). }
      destruct (loop_body st_eqb (set_cutoff inp k) var m1) as [m2 ol] eqn:Eb.
      rewrite (loop_body_cutoff st_eqb inp k 0) in Eb. unfold loop_body in Eb.
      change (ci_flavour inp0) with (ci_flavour inp) in Eb. rewrite (MddProgress.not_pooled' inp Hclean) in Eb.
      destruct ol as [l|]; [|inversion H; subst; contradiction Hne; reflexivity].
      cbv zeta in H. rewrite (fold_expand_cutoff st_eqb inp k 0) in H.
      assert (Hlt : (m_curr_depth m < nb_vars (ci_problem inp))%nat).
      { destruct (Nat.lt_ge_cases (m_curr_depth m) (nb_vars (ci_problem inp))) as [A|A]; [exact A|].
        rewrite (nv_none _ states A) in Eov. discriminate. }
      pose proof (MddProgress.move_some_step st_eqb inp0 Hclean Hnocache Hnodom eq_refl Hwidth Hroot_depth m1 m2 l Eb HL1) as HM.
      destruct (MddProgress.expand_finish st_eqb inp0 Hclean eq_refl Hwidth Hroot_depth var m1 m2 l HM Hlt) as [HL4 _].
      exact (IH _ _ _ H HL4 Hne).
  Qed.

  Lemma compile_nocrash_cut k tb tb2 c ds polls m out :
    compile st_eqb (set_cutoff inp k) tb tb2 c ds polls = (m, out) -> out <> Compiled -> m_crash m = false.
  Proof.
    unfold compile. change (ci_problem (set_cutoff inp k)) with (ci_problem inp).
    rewrite (initialize_cutoff inp k 0).
    destruct (layer_loop st_eqb (set_cutoff inp k) (S (S (nb_vars (ci_problem inp)))) (initialize inp0 c ds polls))
      as [ml e] eqn:El.
    intros H Hne.
    assert (He : e <> LoopDone). { intros ->. inversion H; subst. apply Hne; reflexivity. }
    pose proof (layer_loop_nocrash k _ _ _ _ El
                  (MddProgress.Linv_initialize inp0 Hclean eq_refl Hwidth Hroot_depth c ds polls) He) as Hcr.
    destruct e; inversion H; subst; auto. contradiction He; reflexivity.
  Qed.
End CutCrash.

(* ================================================================== 2. the abstract semantics, on the model only
   [sgood]: a sub-problem is reached from the initial state by a feasible run (variables in the static order,
   values in the domains, exact integer accumulation) whose decisions are (a permutation of) its path.
   [sfeasible]: a complete feasible run.  Both imply the [replay_sat]-based notions of MddProgress.v under the guard;
   the converse is false in general (MddProgress.good / feasible do not constrain the ORDER of the variables, so a
   replay out of order may saturate, or exceed the optimum, without contradicting a guard on feasible runs). *)
Section Sem.
  Context {St : Type}.
  Variable pb : problem St.

  Definition sgood (n : @subproblem St) : Prop :=
    (sp_depth n <= nb_vars pb)%nat /\
    exists ds, length ds = sp_depth n /\ Permutation ds (sp_path n) /\
               frun pb 0 (init_state pb) (init_value pb) ds = Some (sp_state n, sp_value n).

  Definition sfeasible (sol : list decision) (v : Z) : Prop :=
    exists ds st, length ds = nb_vars pb /\ Permutation ds sol /\
                  frun pb 0 (init_state pb) (init_value pb) ds = Some (st, v).

  Lemma sgood_set_ub (c : @subproblem St) u : sgood c -> sgood (set_ub c u).
  Proof. intros H. exact H. Qed.

  (* exact arithmetic: a feasible solution replays through DP.replay (no saturation involved) *)
  Lemma sfeasible_replay sol v : sfeasible sol v ->
    exists ds st, Permutation ds sol /\ length ds = nb_vars pb /\
                  replay pb ds (init_state pb) (init_value pb) = Some (st, v).
  Proof.
    intros (ds & st & H1 & H2 & H3). exists ds, st. split; [exact H2|]. split; [exact H1|].
    eapply frun_replay; exact H3.
  Qed.

  Variable B : Z.
  Hypothesis HB : 2 * B <= IMAX.
  Hypothesis guard0 : forall ds s' v', frun pb 0 (init_state pb) (init_value pb) ds = Some (s', v') -> - B <= v' <= B.

  Lemma sgood_good n : sgood n -> MddProgress.good pb n.
  Proof.
    intros (Hd & ds & H1 & H2 & H3). split; [exact Hd|]. exists ds. split; [exact H1|]. split; [exact H2|].
    apply (frun_replay_sat pb B HB ds 0%nat); [exact guard0|exact H3].
  Qed.

  Lemma sfeasible_feasible sol v : sfeasible sol v -> MddProgress.feasible pb sol v.
  Proof.
    intros (ds & st & H1 & H2 & H3). exists ds, st. split; [exact H1|]. split; [exact H2|].
    apply (frun_replay_sat pb B HB ds 0%nat); [exact guard0|exact H3].
  Qed.

  Lemma sgood_guard n : sgood n -> forall ds s' v',
    frun pb (sp_depth n) (sp_state n) (sp_value n) ds = Some (s', v') -> - B <= v' <= B.
  Proof.
    intros (_ & ds0 & H1 & _ & H3) ds s' v' Hr.
    apply (guard0 (ds0 ++ ds) s' v'). rewrite frun_app, H3, H1. exact Hr.
  Qed.

  Lemma sgood_root (r : @subproblem St) :
    sp_state r = init_state pb -> sp_value r = init_value pb -> sp_path r = [] -> sp_depth r = 0%nat -> sgood r.
  Proof.
    intros H1 H2 H3 H4. split; [lia|]. exists []. rewrite H3, H4, H1, H2. repeat split. constructor.
  Qed.
End Sem.

(* ================================================================== 3. the diagram contracts for Mdd.compile *)
Section Main.
  Context {St : Type}.
  Variable st_eqb : St -> St -> bool.
  Hypothesis st_eqb_spec : forall a b, st_eqb a b = true <-> a = b.
  Variable cfg : @sconfig St.
  Local Notation pb := (sc_problem cfg).
  Local Notation rlx := (sc_relax cfg).
  Local Notation N := (nb_vars (sc_problem cfg)).

  (* ---- configuration *)
  Hypothesis cfg_clean : sc_flavour cfg = CleanLEL \/ sc_flavour cfg = CleanFC.
  Hypothesis cfg_nocache : sc_use_cache cfg = false.
  Hypothesis cfg_nodom : sc_domrule cfg = None.
  Hypothesis cfg_nodup : sc_nodup cfg = false.
  Hypothesis cfg_width : (1 <= sc_width cfg)%nat.
  (* ---- the user's model: static variable order *)
  Hypothesis nv_static : forall k l1 l2, next_variable pb k l1 = next_variable pb k l2.
  Hypothesis nv_some : forall k l, (k < N)%nat -> exists x, next_variable pb k l = Some x.
  Hypothesis nv_none : forall k l, (N <= k)%nat -> next_variable pb k l = None.
  (* ---- the user's model: a well-formed relaxation *)
  Variable cov : St -> St -> Prop.
  Hypothesis cov_refl : forall s, cov s s.
  Hypothesis cov_sim : forall s s' x v, cov s s' -> In v (domain pb x s') ->
    let d := {| d_var := x; d_val := v |} in
    In v (domain pb x s) /\ cov (transition pb s d) (transition pb s' d) /\
    (transition_cost pb s' (transition pb s' d) d <= transition_cost pb s (transition pb s d) d)%Z.
  Hypothesis merge_cov : forall L s s', In s L -> cov s s' -> cov (merge rlx L) s'.
  Hypothesis relax_ge : forall src dst mg d c, (c <= relax rlx src dst mg d c)%Z.
  Hypothesis rub_adm : forall k s s' h, cov s s' -> H pb k s' = Some h -> (h <= fast_upper_bound rlx s)%Z.
  (* ---- the user's model: finite domains, bounded objective *)
  Variable D : nat.
  Hypothesis dom_bound : forall x s, (length (domain pb x s) <= D)%nat.
  Variable B : Z.
  Hypothesis HB : 2 * B <= IMAX.
  Hypothesis guard0 : forall ds s' v', frun pb 0 (init_state pb) (init_value pb) ds = Some (s', v') -> - B <= v' <= B.

  Local Notation cfg0 := (with_cutoff cfg 0).
  Local Notation good := (sgood pb).
  Local Notation feas := (sfeasible pb).
  Local Notation bst := (MddSim.best cfg).

  Lemma cfg0_ok : config_ok cfg0.
  Proof. apply config_c_ok0. repeat split; assumption. Qed.

  Lemma cfg_c : config_c cfg.
  Proof. repeat split; assumption. Qed.

  (* a compilation that completes under the configured cutoff is the compilation without cutoff *)
  Lemma to_zero ct n lb c ds polls m :
    compile st_eqb (mk_input cfg ct n lb) 0 0 c ds polls = (m, Compiled) ->
    compile st_eqb (mk_input cfg0 ct n lb) 0 0 c ds polls = (m, Compiled).
  Proof.
    intros H.
    change (mk_input cfg ct n lb) with (set_cutoff (mk_input cfg ct n lb) (sc_cutoff cfg)) in H.
    destruct (compile_agree st_eqb _ _ _ _ _ _ _ _ _ H) as (B0 & _ & HB2); [discriminate|].
    exact (HB2 0%nat (or_introl eq_refl)).
  Qed.

  Lemma good_guard n : good n -> forall ds s' v',
    frun pb (sp_depth n) (sp_state n) (sp_value n) ds = Some (s', v') -> - B <= v' <= B.
  Proof. apply sgood_guard. exact guard0. Qed.

  Lemma good_pgood n : good n -> MddProgress.good pb n.
  Proof. apply (sgood_good pb B HB guard0). Qed.

  (* ---- KC1: the best exact solution of a completed diagram is a feasible run *)
  Lemma C1 ct n lb c ds polls m :
    good n -> (sp_depth n <= N)%nat ->
    compile st_eqb (mk_input cfg ct n lb) 0 0 c ds polls = (m, Compiled) ->
    forall v, dd_best_exact_value (mk_input cfg ct n lb) m = Some v ->
    exists sol, dd_best_exact_solution (mk_input cfg ct n lb) m = Some sol /\ feas sol v.
  Proof.
    intros Hg Hd Hc v Hv. pose proof (to_zero _ _ _ _ _ _ _ Hc) as H0.
    destruct cfg0_ok as (O1 & O2 & O3 & _).
    unfold dd_best_exact_value in Hv. unfold dd_best_exact_solution.
    destruct (m_best_exact m) as [b|] eqn:Eb; [|discriminate]. simpl in Hv. inversion Hv; subst v. simpl.
    destruct (best_exact_solution_genuine st_eqb st_eqb_spec (mk_input cfg ct n lb) cfg_clean 0 0 c ds polls m b Hc Eb)
      as (Hlt & Hcc & _ & Hpath & Hlen).
    pose proof (clean_chain_frun st_eqb st_eqb_spec (mk_input cfg ct n lb) cfg_clean nv_static B HB (good_guard n Hg)
                  0 0 c ds polls m b Hc Hcc Hlt) as Hrun.
    pose proof (compile_best_depth st_eqb st_eqb_spec (mk_input cfg0 ct n lb) cfg_clean O1 O2 O3 cfg_width
                  nv_some nv_none Hd 0 0 c ds polls m Compiled b H0 (or_intror Eb)) as HdN.
    change (get_node (mk_input cfg0 ct n lb) m b) with (get_node (mk_input cfg ct n lb) m b) in HdN.
    destruct Hg as (_ & ds0 & G1 & G2 & G3).
    eexists. split; [reflexivity|].
    exists (ds0 ++ rev (chain (mk_input cfg ct n lb) m b)), (n_state (get_node (mk_input cfg ct n lb) m b)).
    split; [|split].
    - rewrite app_length, rev_length, G1, Hlen, HdN. cbn [mk_input ci_root ci_problem with_cutoff sc_problem]. lia.
    - rewrite Hpath. apply Permutation_app; [exact G2|]. apply Permutation_sym, Permutation_rev.
    - rewrite frun_app, G3, G1. exact Hrun.
  Qed.

  (* ---- KC3_good / KC3_depth: cut-set nodes are reached by feasible runs, strictly deeper than the root *)
  Lemma C3_depth n lb c ds polls m :
    (sp_depth n <= N)%nat ->
    compile st_eqb (mk_input cfg Relaxed n lb) 0 0 c ds polls = (m, Compiled) ->
    forall x, In x (drain_cutset (mk_input cfg Relaxed n lb) m) -> (sp_depth n < sp_depth x <= N)%nat.
  Proof.
    intros Hd Hc x Hx. pose proof (to_zero _ _ _ _ _ _ _ Hc) as H0.
    destruct cfg0_ok as (O1 & O2 & O3 & _).
    exact (cutset_depth st_eqb st_eqb_spec (mk_input cfg0 Relaxed n lb) cfg_clean O1 O2 O3 cfg_width
             nv_some nv_none Hd 0 0 c ds polls m Compiled x eq_refl H0 Hx).
  Qed.

  Lemma C3_good n lb c ds polls m :
    good n -> (sp_depth n <= N)%nat ->
    compile st_eqb (mk_input cfg Relaxed n lb) 0 0 c ds polls = (m, Compiled) ->
    forall x, In x (drain_cutset (mk_input cfg Relaxed n lb) m) -> good x.
  Proof.
    intros Hg Hd Hc x Hx.
    destruct (C3_depth n lb c ds polls m Hd Hc x Hx) as [_ HxN].
    destruct (cutset_nodes_exact st_eqb st_eqb_spec (mk_input cfg Relaxed n lb) cfg_clean 0 0 c ds polls m x Hc Hx)
      as (id & _ & Hlt & _ & Hcc & Hpath & Hst & Hval & _ & _ & Hlen).
    pose proof (clean_chain_frun st_eqb st_eqb_spec (mk_input cfg Relaxed n lb) cfg_clean nv_static B HB (good_guard n Hg)
                  0 0 c ds polls m id Hc Hcc Hlt) as Hrun.
    destruct Hg as (_ & ds0 & G1 & G2 & G3).
    split; [exact HxN|].
    exists (ds0 ++ rev (chain (mk_input cfg Relaxed n lb) m id)). split; [|split].
    - rewrite app_length, rev_length, G1, Hlen. reflexivity.
    - rewrite Hpath. apply Permutation_app; [exact G2|]. apply Permutation_sym, Permutation_rev.
    - rewrite frun_app, G3, G1, Hst, Hval. exact Hrun.
  Qed.

  (* ---- KC2 / KC3_ub / KC4: the simulation contracts of MddSim.v *)
  Lemma C2 ct n lb c ds polls m :
    dd_ct ct -> good n -> (sp_depth n <= N)%nat ->
    compile st_eqb (mk_input cfg ct n lb) 0 0 c ds polls = (m, Compiled) ->
    dd_is_exact m = true ->
    forall o, bst n = Some o -> o > lb -> dd_best_exact_value (mk_input cfg ct n lb) m = Some o.
  Proof.
    intros Hct Hg Hd Hc Hex o Hb Hlb. pose proof (to_zero _ _ _ _ _ _ _ Hc) as H0.
    exact (MddSim.K2_holds st_eqb st_eqb_spec cfg0 cfg_clean cfg_nocache cfg_nodom eq_refl cfg_width
             nv_static nv_some nv_none cov cov_refl cov_sim merge_cov relax_ge rub_adm good B HB good_guard
             ct n lb c ds polls m Compiled Hct Hg Hd H0 eq_refl Hex o Hb Hlb).
  Qed.

  Lemma C3_ub n lb c ds polls m :
    good n -> (sp_depth n <= N)%nat ->
    compile st_eqb (mk_input cfg Relaxed n lb) 0 0 c ds polls = (m, Compiled) ->
    dd_is_exact m = false ->
    forall x, In x (drain_cutset (mk_input cfg Relaxed n lb) m) ->
    forall o, bst x = Some o -> o > lb -> o <= sp_ub x.
  Proof.
    intros Hg Hd Hc Hex x Hx o Hb Hlb. pose proof (to_zero _ _ _ _ _ _ _ Hc) as H0.
    exact (MddSim.K3_ub_holds st_eqb st_eqb_spec cfg0 cfg_clean cfg_nocache cfg_nodom eq_refl cfg_width
             nv_static nv_some nv_none cov cov_refl cov_sim merge_cov relax_ge rub_adm good B HB good_guard
             n lb c ds polls m Compiled Hg Hd H0 eq_refl Hex x Hx o Hb Hlb).
  Qed.

  Lemma C4 n lb c ds polls m :
    good n -> (sp_depth n <= N)%nat ->
    compile st_eqb (mk_input cfg Relaxed n lb) 0 0 c ds polls = (m, Compiled) ->
    dd_is_exact m = false ->
    forall o, bst n = Some o -> o > lb ->
    (forall e, dd_best_exact_value (mk_input cfg Relaxed n lb) m = Some e -> e < o) ->
    exists x, In x (drain_cutset (mk_input cfg Relaxed n lb) m) /\ bst x = Some o.
  Proof.
    intros Hg Hd Hc Hex o Hb Hlb He. pose proof (to_zero _ _ _ _ _ _ _ Hc) as H0.
    exact (MddSim.K4_holds st_eqb st_eqb_spec cfg0 cfg_clean cfg_nocache cfg_nodom eq_refl cfg_width
             nv_static nv_some nv_none cov cov_refl cov_sim merge_cov relax_ge rub_adm good B HB good_guard
             n lb c ds polls m Compiled Hg Hd H0 eq_refl Hex o Hb Hlb He).
  Qed.

  (* ---- K5: size of the cut-set *)
  Lemma C5 n lb c ds polls m :
    (sp_depth n <= N)%nat ->
    compile st_eqb (mk_input cfg Relaxed n lb) 0 0 c ds polls = (m, Compiled) ->
    (length (drain_cutset (mk_input cfg Relaxed n lb) m) <= Kbound cfg D)%nat.
  Proof.
    intros Hd Hc. pose proof (to_zero _ _ _ _ _ _ _ Hc) as H0.
    destruct cfg0_ok as (O1 & O2 & O3 & _).
    exact (cutset_size_bound st_eqb st_eqb_spec (mk_input cfg0 Relaxed n lb) cfg_clean O1 O2 O3 cfg_width
             nv_some nv_none Hd D dom_bound 0 0 c ds polls m Compiled eq_refl H0).
  Qed.

  (* ---- KC_crash: no compilation crashes, whatever its outcome *)
  Lemma C_crash ct n lb c ds polls m out :
    (sp_depth n <= N)%nat ->
    compile st_eqb (mk_input cfg ct n lb) 0 0 c ds polls = (m, out) -> m_crash m = false.
  Proof.
    intros Hd Hc. destruct cfg0_ok as (O1 & O2 & O3 & _).
    assert (Hcases : out = Compiled \/ out <> Compiled) by (destruct out; [left; reflexivity|right; discriminate..]).
    destruct Hcases as [-> | Hne].
    - pose proof (to_zero _ _ _ _ _ _ _ Hc) as H0.
      exact (proj2 (compile_completes st_eqb st_eqb_spec (mk_input cfg0 ct n lb) cfg_clean O1 O2 O3 cfg_width
                      nv_some nv_none Hd 0 0 c ds polls m Compiled H0)).
    - change (mk_input cfg ct n lb) with (set_cutoff (mk_input cfg ct n lb) (sc_cutoff cfg)) in Hc.
      exact (compile_nocrash_cut st_eqb (mk_input cfg ct n lb) cfg_clean cfg_nocache cfg_nodom cfg_width nv_none Hd
               (sc_cutoff cfg) 0 0 c ds polls m out Hc Hne).
  Qed.

  (* ---- the contracts of SolverCutoff.v (any cutoff) *)
  Theorem contracts_hold : contracts st_eqb good bst feas cfg.
  Proof.
    split; [|split; [|split; [|split; [|split; [|split]]]]].
    - intros ct n lb c ds polls m out _ _ Hd Hc. exact (C_crash ct n lb c ds polls m out Hd Hc).
    - intros ct n lb c ds polls m _ Hg Hd Hc. exact (C1 ct n lb c ds polls m Hg Hd Hc).
    - intros ct n lb c ds polls m Hct Hg Hd Hc. exact (C2 ct n lb c ds polls m Hct Hg Hd Hc).
    - intros n lb c ds polls m Hg Hd Hc _. exact (C3_good n lb c ds polls m Hg Hd Hc).
    - intros n lb c ds polls m _ Hd Hc _ x Hx. exact (proj2 (C3_depth n lb c ds polls m Hd Hc x Hx)).
    - intros n lb c ds polls m Hg Hd Hc. exact (C3_ub n lb c ds polls m Hg Hd Hc).
    - intros n lb c ds polls m Hg Hd Hc. exact (C4 n lb c ds polls m Hg Hd Hc).
  Qed.

  (* ---- the abstract-semantics hypotheses *)
  Definition OPTsem : option Z := opt_enum pb.

  Lemma OPT_is_opt_enum : OPT cfg bst = opt_enum pb.
  Proof. unfold OPT, MddSim.best, opt_enum. cbn [root_node sp_value sp_depth sp_state]. symmetry. apply opt_enum_from_H. Qed.

  Lemma good_root : good (root_node cfg).
  Proof. apply sgood_root; reflexivity. Qed.

  Lemma feasible_le_opt sol v : feas sol v -> exists o, OPT cfg bst = Some o /\ v <= o.
  Proof.
    intros (ds & st & H1 & _ & H3).
    destruct (frun_le_H pb nv_static nv_none ds 0%nat _ _ st v H1 H3) as (h & Hh & Hle).
    exists (init_value pb + h). split; [|exact Hle].
    unfold OPT, MddSim.best. cbn [root_node sp_value sp_depth sp_state]. rewrite Hh. reflexivity.
  Qed.

  Lemma opt_in_isize o : OPT cfg bst = Some o -> IMIN < o <= IMAX.
  Proof.
    unfold OPT, MddSim.best. cbn [root_node sp_value sp_depth sp_state].
    destruct (H pb 0 (init_state pb)) as [h|] eqn:Eh; [|discriminate]. simpl. intros E. inversion E; subst o.
    destruct (H_attained pb nv_static nv_some nv_none (N - 0) 0%nat (init_state pb) (init_value pb) h eq_refl
                ltac:(lia) Eh) as (ds & s' & Hr & _).
    pose proof (guard0 ds s' _ Hr). unfold IMIN, IMAX in *. lia.
  Qed.

  Lemma best_set_ub (c : @subproblem St) u : bst (set_ub c u) = bst c.
  Proof. reflexivity. Qed.

  Theorem semantics_hold : semantics good bst feas cfg.
  Proof.
    split; [exact good_root|]. split; [exact feasible_le_opt|]. split; [exact opt_in_isize|].
    split; [intros c u; apply sgood_set_ub|exact best_set_ub].
  Qed.

  (* ================================================================== 4. T3 (C05, sequential): anytime soundness, ANY cutoff *)
  Theorem C05_sequential_anytime : forall fuel primal,
    primal_ok feas primal ->
    let r := maximize st_eqb cfg fuel primal in
    r_outoffuel r = false ->
    r_crash r = false /\
    r_lb r <= r_ub r /\
    (forall o, opt_enum pb = Some o -> r_lb r <= o <= r_ub r) /\
    (opt_enum pb = None -> r_value r = None /\ r_sol r = None) /\
    (forall v, r_value r = Some v ->
       r_lb r = v /\ exists sol, r_sol r = Some (sort_by dec_var_cmp sol) /\ feas sol v /\ MddProgress.feasible pb sol v) /\
    (r_exact r = true -> r_value r = opt_enum pb).
  Proof.
    intros fuel primal Hp r Hf.
    destruct (seq_anytime_sound st_eqb good bst feas cfg cfg_c contracts_hold semantics_hold fuel primal Hp Hf)
      as (A1 & A2 & A3 & A4 & A5).
    pose proof (seq_anytime_lb_le_ub st_eqb good bst feas cfg cfg_c contracts_hold semantics_hold fuel primal Hp Hf) as A6.
    rewrite OPT_is_opt_enum in A2, A3, A5.
    split; [exact A1|]. split; [exact A6|]. split; [exact A2|]. split; [exact A3|]. split; [|exact A5].
    intros v Hv. destruct (A4 v Hv) as (E & sol & S1 & S2). split; [exact E|]. exists sol. split; [exact S1|].
    split; [exact S2|]. apply (sfeasible_feasible pb B HB guard0). exact S2.
  Qed.

  (* ================================================================== 4b. T5, first half (C04): the parallel protocol neither deadlocks nor crashes, ANY cutoff *)
  Lemma HA_nocrash : forall ct n lb c ds polls m out,
    dd_ct ct -> good n -> (sp_depth n <= N)%nat ->
    compile st_eqb (mk_input cfg ct n lb) 0 0 c ds polls = (m, out) -> m_crash m = false.
  Proof. intros ct n lb c ds polls m out _ _ Hd Hc. exact (C_crash ct n lb c ds polls m out Hd Hc). Qed.

  Lemma HA_cut : forall n lb c ds polls m,
    good n -> (sp_depth n <= N)%nat ->
    compile st_eqb (mk_input cfg Relaxed n lb) 0 0 c ds polls = (m, Compiled) ->
    dd_is_exact m = false ->
    forall x, In x (drain_cutset (mk_input cfg Relaxed n lb) m) -> good x /\ (sp_depth x <= N)%nat.
  Proof.
    intros n lb c ds polls m Hg Hd Hc _ x Hx. split; [exact (C3_good n lb c ds polls m Hg Hd Hc x Hx)|].
    exact (proj2 (C3_depth n lb c ds polls m Hd Hc x Hx)).
  Qed.

  Theorem C04_parallel_no_deadlock_no_crash : forall T primal fuel sched,
    pr_end (par_maximize st_eqb cfg fuel T T primal sched) <> PDeadlock /\
    pr_crash (par_maximize st_eqb cfg fuel T T primal sched) = false.
  Proof.
    exact (par_maximize_no_deadlock_no_crash st_eqb cfg cfg_nocache cfg_nodup good good_root
             (fun c u => sgood_set_ub pb c u) HA_nocrash HA_cut).
  Qed.

  Theorem C04_parallel_run_no_deadlock : forall T primal fuel sched s' tr e,
    par_run st_eqb cfg fuel (init_pstate st_eqb cfg T T primal) sched None [] = (s', tr, e) ->
    (e = PFinished \/ e = POutOfFuel) /\ p_crash s' = false.
  Proof.
    intros T primal fuel sched s' tr e H. split.
    - exact (par_no_deadlock st_eqb cfg cfg_nocache cfg_nodup good good_root
               (fun c u => sgood_set_ub pb c u) HA_nocrash HA_cut T primal fuel sched s' tr e H).
    - exact (par_never_crashes st_eqb cfg cfg_nocache cfg_nodup good good_root
               (fun c u => sgood_set_ub pb c u) HA_nocrash HA_cut T primal fuel sched s' tr e H).
  Qed.

  (* ================================================================== 5. no cutoff: the contracts K0 .. K5 of SolverProofs.v / ParProofs.v *)
  Hypothesis cfg_nocut : sc_cutoff cfg = 0%nat.

  Lemma cfg_ok : config_ok cfg.
  Proof. repeat split; assumption. Qed.

  Lemma K0 : forall ct n lb c ds polls m out,
    dd_ct ct -> good n -> (sp_depth n <= N)%nat ->
    compile st_eqb (mk_input cfg ct n lb) 0 0 c ds polls = (m, out) -> out = Compiled /\ m_crash m = false.
  Proof.
    intros ct n lb c ds polls m out _ _ Hd Hc.
    exact (compile_completes st_eqb st_eqb_spec (mk_input cfg ct n lb) cfg_clean cfg_nocache cfg_nodom cfg_nocut cfg_width
             nv_some nv_none Hd 0 0 c ds polls m out Hc).
  Qed.

  Lemma K1 : forall ct n lb c ds polls m out,
    dd_ct ct -> good n -> (sp_depth n <= N)%nat ->
    compile st_eqb (mk_input cfg ct n lb) 0 0 c ds polls = (m, out) ->
    forall v, dd_best_exact_value (mk_input cfg ct n lb) m = Some v ->
    exists sol, dd_best_exact_solution (mk_input cfg ct n lb) m = Some sol /\ feas sol v.
  Proof.
    intros ct n lb c ds polls m out Hct Hg Hd Hc. destruct (K0 _ _ _ _ _ _ _ _ Hct Hg Hd Hc) as [-> _].
    exact (C1 ct n lb c ds polls m Hg Hd Hc).
  Qed.

  Lemma K2 : forall ct n lb c ds polls m out,
    dd_ct ct -> good n -> (sp_depth n <= N)%nat ->
    compile st_eqb (mk_input cfg ct n lb) 0 0 c ds polls = (m, out) ->
    dd_is_exact m = true ->
    forall o, bst n = Some o -> o > lb -> dd_best_exact_value (mk_input cfg ct n lb) m = Some o.
  Proof.
    intros ct n lb c ds polls m out Hct Hg Hd Hc. destruct (K0 _ _ _ _ _ _ _ _ Hct Hg Hd Hc) as [-> _].
    exact (C2 ct n lb c ds polls m Hct Hg Hd Hc).
  Qed.

  Lemma K3_good : forall n lb c ds polls m out,
    good n -> (sp_depth n <= N)%nat ->
    compile st_eqb (mk_input cfg Relaxed n lb) 0 0 c ds polls = (m, out) ->
    dd_is_exact m = false ->
    forall x, In x (drain_cutset (mk_input cfg Relaxed n lb) m) -> good x.
  Proof.
    intros n lb c ds polls m out Hg Hd Hc _.
    destruct (K0 _ _ _ _ _ _ _ _ (or_intror eq_refl) Hg Hd Hc) as [-> _].
    exact (C3_good n lb c ds polls m Hg Hd Hc).
  Qed.

  Lemma K3_depth : forall n lb c ds polls m out,
    good n -> (sp_depth n <= N)%nat ->
    compile st_eqb (mk_input cfg Relaxed n lb) 0 0 c ds polls = (m, out) ->
    dd_is_exact m = false ->
    forall x, In x (drain_cutset (mk_input cfg Relaxed n lb) m) -> (sp_depth n < sp_depth x <= N)%nat.
  Proof.
    intros n lb c ds polls m out Hg Hd Hc _.
    destruct (K0 _ _ _ _ _ _ _ _ (or_intror eq_refl) Hg Hd Hc) as [-> _].
    exact (C3_depth n lb c ds polls m Hd Hc).
  Qed.

  Lemma K3_ub : forall n lb c ds polls m out,
    good n -> (sp_depth n <= N)%nat ->
    compile st_eqb (mk_input cfg Relaxed n lb) 0 0 c ds polls = (m, out) ->
    dd_is_exact m = false ->
    forall x, In x (drain_cutset (mk_input cfg Relaxed n lb) m) ->
    forall o, bst x = Some o -> o > lb -> o <= sp_ub x.
  Proof.
    intros n lb c ds polls m out Hg Hd Hc.
    destruct (K0 _ _ _ _ _ _ _ _ (or_intror eq_refl) Hg Hd Hc) as [-> _].
    exact (C3_ub n lb c ds polls m Hg Hd Hc).
  Qed.

  Lemma K4 : forall n lb c ds polls m out,
    good n -> (sp_depth n <= N)%nat ->
    compile st_eqb (mk_input cfg Relaxed n lb) 0 0 c ds polls = (m, out) ->
    dd_is_exact m = false ->
    forall o, bst n = Some o -> o > lb ->
    (forall e, dd_best_exact_value (mk_input cfg Relaxed n lb) m = Some e -> e < o) ->
    exists x, In x (drain_cutset (mk_input cfg Relaxed n lb) m) /\ bst x = Some o.
  Proof.
    intros n lb c ds polls m out Hg Hd Hc.
    destruct (K0 _ _ _ _ _ _ _ _ (or_intror eq_refl) Hg Hd Hc) as [-> _].
    exact (C4 n lb c ds polls m Hg Hd Hc).
  Qed.

  Lemma K5 : forall n lb c ds polls m out,
    good n -> (sp_depth n <= N)%nat ->
    compile st_eqb (mk_input cfg Relaxed n lb) 0 0 c ds polls = (m, out) ->
    dd_is_exact m = false ->
    (length (drain_cutset (mk_input cfg Relaxed n lb) m) <= Kbound cfg D)%nat.
  Proof.
    intros n lb c ds polls m out Hg Hd Hc _.
    destruct (K0 _ _ _ _ _ _ _ _ (or_intror eq_refl) Hg Hd Hc) as [-> _].
    exact (C5 n lb c ds polls m Hd Hc).
  Qed.

  (* ================================================================== 6. T1 (C01) and T2 (C14): the sequential solver returns the optimum *)
  (* strong form: the returned solution is a feasible run in EXACT integer arithmetic *)
  Theorem C01_sequential_optimal_run :
    exists f0, forall fuel, (f0 <= fuel)%nat ->
      let r := maximize st_eqb cfg fuel None in
      r_crash r = false /\ r_outoffuel r = false /\ r_exact r = true /\ r_value r = opt_enum pb /\
      (forall v, opt_enum pb = Some v ->
         r_lb r = v /\ r_ub r = v /\ exists sol, r_sol r = Some (sort_by dec_var_cmp sol) /\ feas sol v) /\
      (opt_enum pb = None -> r_sol r = None /\ r_lb r = IMIN).
  Proof.
    destruct (seq_solver_correct st_eqb cfg cfg_ok good bst feas good_root feasible_le_opt opt_in_isize
                (fun c u => sgood_set_ub pb c u) best_set_ub (Kbound cfg D) K0 K1 K2 K3_good K3_depth K3_ub K4 K5) as [f0 Hf].
    exists f0. intros fuel Hfuel. specialize (Hf fuel Hfuel). rewrite OPT_is_opt_enum in Hf. exact Hf.
  Qed.

  Theorem C01_sequential_optimal :
    exists f0, forall fuel, (f0 <= fuel)%nat ->
      let r := maximize st_eqb cfg fuel None in
      r_crash r = false /\ r_outoffuel r = false /\ r_exact r = true /\ r_value r = opt_enum pb /\
      (forall v, opt_enum pb = Some v ->
         r_lb r = v /\ r_ub r = v /\
         exists sol, r_sol r = Some (sort_by dec_var_cmp sol) /\ MddProgress.feasible pb sol v) /\
      (opt_enum pb = None -> r_sol r = None /\ r_lb r = IMIN).
  Proof.
    destruct C01_sequential_optimal_run as [f0 Hf]. exists f0. intros fuel Hfuel.
    destruct (Hf fuel Hfuel) as (A1 & A2 & A3 & A4 & A5 & A6).
    split; [exact A1|]. split; [exact A2|]. split; [exact A3|]. split; [exact A4|]. split; [|exact A6].
    intros v Hv. destruct (A5 v Hv) as (E1 & E2 & sol & S1 & S2). split; [exact E1|]. split; [exact E2|].
    exists sol. split; [exact S1|]. apply (sfeasible_feasible pb B HB guard0). exact S2.
  Qed.

  (* the returned solution in exact arithmetic: it replays through DP.replay to the optimum, no saturation *)
  Corollary C01_solution_replays :
    exists f0, forall fuel, (f0 <= fuel)%nat ->
      forall v, opt_enum pb = Some v ->
      exists sol ds st, r_sol (maximize st_eqb cfg fuel None) = Some (sort_by dec_var_cmp sol) /\
        Permutation ds sol /\ length ds = N /\ replay pb ds (init_state pb) (init_value pb) = Some (st, v).
  Proof.
    destruct C01_sequential_optimal_run as [f0 Hf]. exists f0. intros fuel Hfuel v Hv.
    destruct (Hf fuel Hfuel) as (_ & _ & _ & _ & A5 & _).
    destruct (A5 v Hv) as (_ & _ & sol & S1 & S2).
    destruct (sfeasible_replay pb sol v S2) as (ds & st & P1 & P2 & P3).
    exists sol, ds, st. auto.
  Qed.

  (* T2: with a feasible primal solution given to the solver *)
  Theorem C14_primal_run : forall pv psol, feas psol pv ->
    exists f0, forall fuel, (f0 <= fuel)%nat ->
      let r := maximize st_eqb cfg fuel (Some (pv, psol)) in
      r_crash r = false /\ r_outoffuel r = false /\ r_exact r = true /\ r_value r = opt_enum pb /\
      (forall v, opt_enum pb = Some v ->
         r_lb r = v /\ r_ub r = v /\ exists sol, r_sol r = Some (sort_by dec_var_cmp sol) /\ feas sol v) /\
      (opt_enum pb = None -> r_sol r = None /\ r_lb r = IMIN).
  Proof.
    intros pv psol Hp.
    destruct (seq_solver_correct_primal st_eqb cfg cfg_ok good bst feas good_root feasible_le_opt opt_in_isize
                (fun c u => sgood_set_ub pb c u) best_set_ub (Kbound cfg D) K0 K1 K2 K3_good K3_depth K3_ub K4 K5
                pv psol Hp) as [f0 Hf].
    exists f0. intros fuel Hfuel. specialize (Hf fuel Hfuel). rewrite OPT_is_opt_enum in Hf. exact Hf.
  Qed.

  Theorem C14_primal : forall pv psol, feas psol pv ->
    exists f0, forall fuel, (f0 <= fuel)%nat ->
      let r := maximize st_eqb cfg fuel (Some (pv, psol)) in
      r_crash r = false /\ r_outoffuel r = false /\ r_exact r = true /\ r_value r = opt_enum pb /\
      (forall v, opt_enum pb = Some v ->
         r_lb r = v /\ r_ub r = v /\
         exists sol, r_sol r = Some (sort_by dec_var_cmp sol) /\ MddProgress.feasible pb sol v) /\
      (opt_enum pb = None -> r_sol r = None /\ r_lb r = IMIN).
  Proof.
    intros pv psol Hp. destruct (C14_primal_run pv psol Hp) as [f0 Hf]. exists f0. intros fuel Hfuel.
    destruct (Hf fuel Hfuel) as (A1 & A2 & A3 & A4 & A5 & A6).
    split; [exact A1|]. split; [exact A2|]. split; [exact A3|]. split; [exact A4|]. split; [|exact A6].
    intros v Hv. destruct (A5 v Hv) as (E1 & E2 & sol & S1 & S2). split; [exact E1|]. split; [exact E2|].
    exists sol. split; [exact S1|]. apply (sfeasible_feasible pb B HB guard0). exact S2.
  Qed.

  (* ================================================================== 7. T5 (C03 / C04): the parallel protocol, every schedule, every number of workers *)
  Local Ltac par_side :=
    first [ exact cfg_nocache | exact cfg_nodup | exact good_root | exact (fun c u => sgood_set_ub pb c u)
          | exact cfg_nocut | exact cfg_nodom | exact feasible_le_opt | exact opt_in_isize | exact best_set_ub
          | exact K0 | exact K1 | exact K2 | exact K3_good | exact K3_depth | exact K3_ub | exact K4 | exact K5 ].

  Lemma presult_unfold r : presult_ok cfg bst feas r ->
    pr_crash r = false /\ pr_exact r = true /\ pr_value r = opt_enum pb /\
    (forall v, opt_enum pb = Some v ->
       pr_lb r = v /\ pr_ub r = v /\
       exists sol, pr_sol r = Some (sort_by dec_var_cmp sol) /\ feas sol v /\ MddProgress.feasible pb sol v) /\
    (opt_enum pb = None -> pr_sol r = None /\ pr_lb r = IMIN).
  Proof.
    unfold presult_ok. rewrite OPT_is_opt_enum. intros (A1 & A2 & A3 & A4 & A5).
    split; [exact A1|]. split; [exact A2|]. split; [exact A3|]. split; [|exact A5].
    intros v Hv. destruct (A4 v Hv) as (E1 & E2 & sol & S1 & S2). split; [exact E1|]. split; [exact E2|].
    exists sol. split; [exact S1|]. split; [exact S2|]. apply (sfeasible_feasible pb B HB guard0). exact S2.
  Qed.

  (* C04 (termination): every run finishes within fuelP transitions *)
  Theorem C04_parallel_terminates : forall T primal fuel sched,
    (fuelP cfg (Kbound cfg D) T <= fuel)%nat ->
    pr_end (par_maximize st_eqb cfg fuel T T primal sched) = PFinished.
  Proof.
    intros T primal fuel sched Hf.
    apply (par_terminates st_eqb cfg) with (good := good) (M := Kbound cfg D); try par_side. exact Hf.
  Qed.

  (* C03 (partial correctness): every finished run returns the optimum *)
  Theorem C03_parallel_optimal_finished : forall T primal fuel sched,
    (1 <= T)%nat -> primal_okP feas primal ->
    let r := par_maximize st_eqb cfg fuel T T primal sched in
    pr_end r = PFinished ->
    pr_crash r = false /\ pr_exact r = true /\ pr_value r = opt_enum pb /\
    (forall v, opt_enum pb = Some v ->
       pr_lb r = v /\ pr_ub r = v /\
       exists sol, pr_sol r = Some (sort_by dec_var_cmp sol) /\ feas sol v /\ MddProgress.feasible pb sol v) /\
    (opt_enum pb = None -> pr_sol r = None /\ pr_lb r = IMIN).
  Proof.
    intros T primal fuel sched HT Hp r He. apply presult_unfold.
    apply (par_optimal_primal st_eqb cfg) with (good := good); try par_side; assumption.
  Qed.

  (* C03 + C04 (total correctness) *)
  Theorem C03_parallel_optimal : forall T primal fuel sched,
    (1 <= T)%nat -> primal_okP feas primal -> (fuelP cfg (Kbound cfg D) T <= fuel)%nat ->
    let r := par_maximize st_eqb cfg fuel T T primal sched in
    pr_end r = PFinished /\
    pr_crash r = false /\ pr_exact r = true /\ pr_value r = opt_enum pb /\
    (forall v, opt_enum pb = Some v ->
       pr_lb r = v /\ pr_ub r = v /\
       exists sol, pr_sol r = Some (sort_by dec_var_cmp sol) /\ feas sol v /\ MddProgress.feasible pb sol v) /\
    (opt_enum pb = None -> pr_sol r = None /\ pr_lb r = IMIN).
  Proof.
    intros T primal fuel sched HT Hp Hf r.
    pose proof (C04_parallel_terminates T primal fuel sched Hf) as He. split; [exact He|].
    exact (C03_parallel_optimal_finished T primal fuel sched HT Hp He).
  Qed.
End Main.

(* ================================================================== 8. T4 (C19): a later cutoff never gives worse bounds *)
Section Cutoffs.
  Context {St : Type}.
  Variable st_eqb : St -> St -> bool.
  Hypothesis st_eqb_spec : forall a b, st_eqb a b = true <-> a = b.
  Variable cfg : @sconfig St.
  Local Notation pb := (sc_problem cfg).
  Local Notation rlx := (sc_relax cfg).
  Local Notation N := (nb_vars (sc_problem cfg)).
  Hypothesis cfg_clean : sc_flavour cfg = CleanLEL \/ sc_flavour cfg = CleanFC.
  Hypothesis cfg_nocache : sc_use_cache cfg = false.
  Hypothesis cfg_nodom : sc_domrule cfg = None.
  Hypothesis cfg_nodup : sc_nodup cfg = false.
  Hypothesis cfg_width : (1 <= sc_width cfg)%nat.
  Hypothesis nv_static : forall k l1 l2, next_variable pb k l1 = next_variable pb k l2.
  Hypothesis nv_some : forall k l, (k < N)%nat -> exists x, next_variable pb k l = Some x.
  Hypothesis nv_none : forall k l, (N <= k)%nat -> next_variable pb k l = None.
  Variable cov : St -> St -> Prop.
  Hypothesis cov_refl : forall s, cov s s.
  Hypothesis cov_sim : forall s s' x v, cov s s' -> In v (domain pb x s') ->
    let d := {| d_var := x; d_val := v |} in
    In v (domain pb x s) /\ cov (transition pb s d) (transition pb s' d) /\
    (transition_cost pb s' (transition pb s' d) d <= transition_cost pb s (transition pb s d) d)%Z.
  Hypothesis merge_cov : forall L s s', In s L -> cov s s' -> cov (merge rlx L) s'.
  Hypothesis relax_ge : forall src dst mg d c, (c <= relax rlx src dst mg d c)%Z.
  Hypothesis rub_adm : forall k s s' h, cov s s' -> H pb k s' = Some h -> (h <= fast_upper_bound rlx s)%Z.
  Variable B : Z.
  Hypothesis HB : 2 * B <= IMAX.
  Hypothesis guard0 : forall ds s' v', frun pb 0 (init_state pb) (init_value pb) ds = Some (s', v') -> - B <= v' <= B.

  Lemma contracts_all k : contracts st_eqb (sgood pb) (MddSim.best cfg) (sfeasible pb) (with_cutoff cfg k).
  Proof.
    exact (contracts_hold st_eqb st_eqb_spec (with_cutoff cfg k) cfg_clean cfg_nocache cfg_nodom cfg_nodup cfg_width
             nv_static nv_some nv_none cov cov_refl cov_sim merge_cov relax_ge rub_adm B HB guard0).
  Qed.

  Let sem : semantics (sgood pb) (MddSim.best cfg) (sfeasible pb) cfg :=
    semantics_hold cfg cfg_width nv_static nv_some nv_none B HB guard0.
  Let cc : config_c cfg := conj cfg_nocache (conj cfg_nodom cfg_nodup).

  (* R st_eqb cfg k fuel primal = maximize st_eqb (with_cutoff cfg k) fuel primal *)
  Theorem C19_monotone : forall k fuel primal,
    primal_ok (sfeasible pb) primal -> (1 <= k)%nat ->
    r_lb (maximize st_eqb (with_cutoff cfg k) fuel primal) <= r_lb (maximize st_eqb (with_cutoff cfg (S k)) fuel primal) /\
    r_ub (maximize st_eqb (with_cutoff cfg (S k)) fuel primal) <= r_ub (maximize st_eqb (with_cutoff cfg k) fuel primal).
  Proof.
    intros k fuel primal Hp Hk.
    exact (cutoff_monotone st_eqb (sgood pb) (MddSim.best cfg) (sfeasible pb) cfg cc contracts_all sem k fuel primal Hp Hk).
  Qed.

  (* k2 later than k1: 0 < k1 and (k2 = 0 (never) or k1 <= k2) *)
  Theorem C19_monotone_gen : forall k1 k2 fuel primal,
    primal_ok (sfeasible pb) primal -> later k1 k2 ->
    r_lb (maximize st_eqb (with_cutoff cfg k1) fuel primal) <= r_lb (maximize st_eqb (with_cutoff cfg k2) fuel primal) /\
    r_ub (maximize st_eqb (with_cutoff cfg k2) fuel primal) <= r_ub (maximize st_eqb (with_cutoff cfg k1) fuel primal).
  Proof.
    intros k1 k2 fuel primal Hp Hl.
    exact (cutoff_monotone_gen st_eqb (sgood pb) (MddSim.best cfg) (sfeasible pb) cfg cc contracts_all sem k1 k2 fuel primal Hp Hl).
  Qed.

  Theorem C19_eventually_full : forall fuel primal,
    exists K, forall k, (K < k)%nat ->
      maximize st_eqb (with_cutoff cfg k) fuel primal = maximize st_eqb (with_cutoff cfg 0) fuel primal.
  Proof. intros fuel primal. exact (cutoff_eventually_full st_eqb cfg cc fuel primal). Qed.
End Cutoffs.

(* ------------------------------------------------------------------ assumptions *)
Print Assumptions C01_sequential_optimal.
Print Assumptions C01_sequential_optimal_run.
Print Assumptions C01_solution_replays.
Print Assumptions C14_primal.
Print Assumptions C14_primal_run.
Print Assumptions C05_sequential_anytime.
Print Assumptions C19_monotone.
Print Assumptions C19_monotone_gen.
Print Assumptions C19_eventually_full.
Print Assumptions C03_parallel_optimal.
Print Assumptions C03_parallel_optimal_finished.
Print Assumptions C04_parallel_terminates.
Print Assumptions C04_parallel_no_deadlock_no_crash.
Print Assumptions C04_parallel_run_no_deadlock.
Print Assumptions contracts_hold.
Print Assumptions semantics_hold.
