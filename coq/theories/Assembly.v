(* Assembly.v — the pieces put together: the solver theorems of SolverProofs.v / SolverCutoff.v / ParProofs.v
   instantiated with the diagram contracts proved about Mdd.compile in MddProgress.v (K0, K1, K3_good, K3_depth, K5)
   and MddSim.v (K2, K3_ub, K4).  Every remaining premise talks about the USER'S MODEL and the configuration only:

     st_eqb_spec                                        the state equality test decides equality
     cfg_clean / cfg_nocache / cfg_nodom / cfg_nodup    CleanLEL or CleanFC diagrams, no cache, no dominance rule, SimpleFringe
     cfg_width                                          1 <= sc_width cfg          (cfg_nocut: sc_cutoff cfg = 0 where stated)
     nv_static / nv_some / nv_none                      static variable order
     Hwf : wf_relaxation cfg                            there is a covering relation cov with cov_refl, cov_sim, merge_cov, rub_adm
                                                        and EITHER relax_ge as in MddSim.v (for every integer cost)
                                                        OR the machine-integer variant: transition costs and relaxed costs
                                                        are isize and c <= relax .. c for isize c            (section 3c)
     D, dom_bound                                       domains have at most D values
     B, HB : 2 * B <= IMAX, guard0                      every feasible run FROM THE INITIAL STATE has a value in [-B, B]

   Instantiation:  good := sgood pb (reached from the initial state by a feasible run whose decisions are the path),
                   feasible := sfeasible pb (a complete feasible run, exact integer arithmetic),
                   best := MddSim.best cfg = value + Bellman value,  OPT = opt_enum pb (OPT_is_opt_enum),  M := Kbound cfg D.
   sgood / sfeasible imply MddProgress.good / MddProgress.feasible under the guard (sgood_good, sfeasible_feasible); the
   replay_sat-based notions themselves are too weak to carry the guard or feasible_le_opt (section 10, a counterexample).

   Sections: 0 runs vs saturating replays; 1 exact nodes are reached by feasible runs (clean_chain_frun); 1b a compilation
   that is cut off did not crash (compile_nocrash_cut); 1c clipping a relaxation to machine integers compiles to the same
   diagram (clip_compile); 2 semantics; 3a-3c simulation contracts in both senses; 3 the contracts for ANY cutoff
   (contracts_hold, via SolverCutoff.compile_agree: a completed compilation is the compilation without cutoff) and the
   semantics (semantics_hold); 4 C05_sequential_anytime; 4b C04 no deadlock / no crash; 5 K0..K5 (cutoff 0);
   6 C01_sequential_optimal, C14_primal (+ _run variants and C01_solution_replays in exact arithmetic);
   7 C03_parallel_optimal(_finished), C04_parallel_terminates; 8 C19_monotone(_gen), C19_eventually_full;
   9 C01 with every premise spelled out (_explicit: MddSim's hypotheses verbatim; _isize: the machine-integer variant).
   Stdlib only; no axioms (Print Assumptions at the end). *)
Require Import DDO.Base DDO.Fringe DDO.DP DDO.Cache DDO.Dom DDO.Mdd DDO.MddStruct DDO.MddExact DDO.Solver DDO.SolverProofs.
Require Import DDO.MddProgress DDO.MddSim DDO.SolverCutoff DDO.Par DDO.ParProofs.
From Coq Require Import Lia List Arith ZArith Bool Permutation.
Import ListNotations.
Local Open Scope Z_scope.

(* ================================================================== 0. feasible runs vs saturating replays *)
Section Runs.
  Context {St : Type}.
  Variable pb : problem St.
  Variable B : Z.
  Hypothesis HB : 2 * B <= IMAX.

  Lemma B_isize z : - B <= z <= B -> in_isize z.
  Proof. unfold in_isize, IMIN, IMAX in *. lia. Qed.

  Definition guard_from (k : nat) (s : St) (v : Z) : Prop :=
    forall ds s' v', frun pb k s v ds = Some (s', v') -> - B <= v' <= B.

  Lemma guard_step k s v d :
    guard_from k s v -> var_ok pb k d = true -> in_domain pb s d = true ->
    guard_from (S k) (transition pb s d) (v + transition_cost pb s (transition pb s d) d) /\
    sat_add v (transition_cost pb s (transition pb s d) d) = v + transition_cost pb s (transition pb s d) d.
  Proof.
    intros G Hv Hd. split.
    - intros ds s' v' Hr. apply (G (d :: ds) s' v'). simpl. rewrite Hv, Hd. exact Hr.
    - unfold sat_add. apply clampZ_id. apply B_isize.
      apply (G [d] (transition pb s d)). simpl. rewrite Hv, Hd. reflexivity.
  Qed.

  (* a saturating replay whose decisions follow the variable order is a feasible run (no saturation under the guard) *)
  Lemma replay_sat_frun ds : forall k s v r,
    guard_from k s v ->
    (forall j d, nth_error ds j = Some d -> var_ok pb (k + j) d = true) ->
    replay_sat pb ds s v = Some r -> frun pb k s v ds = Some r.
  Proof.
    induction ds as [|d ds IH]; intros k s v r G Hvar H; simpl in *; [exact H|].
    destruct (in_domain pb s d) eqn:Ed; [|discriminate].
    assert (Hv : var_ok pb k d = true).
    { specialize (Hvar O d eq_refl). rewrite Nat.add_0_r in Hvar. exact Hvar. }
    rewrite Hv. simpl.
    destruct (guard_step k s v d G Hv Ed) as [G' E]. rewrite E in H.
    apply IH; [exact G'| |exact H].
    intros j d' Hj. specialize (Hvar (S j) d' Hj). rewrite Nat.add_succ_r in Hvar. exact Hvar.
  Qed.

  Lemma frun_replay_sat ds : forall k s v r,
    guard_from k s v -> frun pb k s v ds = Some r -> replay_sat pb ds s v = Some r.
  Proof.
    induction ds as [|d ds IH]; intros k s v r G H; simpl in *; [exact H|].
    destruct (var_ok pb k d) eqn:Ev; simpl in H; [|discriminate].
    destruct (in_domain pb s d) eqn:Ed; [|discriminate].
    destruct (guard_step k s v d G Ev Ed) as [G' E]. rewrite E.
    eapply IH; [exact G'|exact H].
  Qed.

  Lemma guard_app k s v ds s1 v1 :
    guard_from k s v -> frun pb k s v ds = Some (s1, v1) -> guard_from (k + length ds) s1 v1.
  Proof.
    intros G H ds2 s' v' H2. apply (G (ds ++ ds2) s' v'). rewrite frun_app, H. exact H2.
  Qed.
End Runs.

(* ================================================================== 1. exact nodes of a compiled diagram are reached by feasible runs *)
Section ChainRuns.
  Context {St : Type}.
  Variable st_eqb : St -> St -> bool.
  Hypothesis st_eqb_spec : forall a b, st_eqb a b = true <-> a = b.
  Variable inp : @cinput St.
  Hypothesis Hclean : ci_flavour inp = CleanLEL \/ ci_flavour inp = CleanFC.
  Let pb := ci_problem inp.
  Let root := ci_root inp.
  Hypothesis nv_static : forall k l1 l2, next_variable pb k l1 = next_variable pb k l2.
  Variable B : Z.
  Hypothesis HB : 2 * B <= IMAX.
  Hypothesis Hguard : guard_from pb B (sp_depth root) (sp_state root) (sp_value root).

  Lemma clean_chain_frun tb tb2 c ds polls m id :
    compile st_eqb inp tb tb2 c ds polls = (m, Compiled) ->
    clean_chain inp m id -> (id < length (m_nodes m))%nat ->
    frun pb (sp_depth root) (sp_state root) (sp_value root) (rev (chain inp m id))
      = Some (n_state (get_node inp m id), n_vtop (get_node inp m id)).
  Proof.
    intros Hc Hcc Hid.
    destruct (clean_chain_replays st_eqb st_eqb_spec inp Hclean tb tb2 c ds polls m id Hc Hcc Hid) as (R & _).
    apply (replay_sat_frun pb B HB); [exact Hguard| |exact R].
    intros j d Hj.
    destruct (clean_chain_variables st_eqb st_eqb_spec inp Hclean tb tb2 c ds polls m id Hc Hcc Hid j d Hj) as [states Hs].
    apply (var_ok_spec pb nv_static _ d states). exact Hs.
  Qed.
End ChainRuns.

(* ================================================================== 1b. a compilation that is cut off (or runs out of fuel) did not crash
   MddProgress.v proves its loop invariant for ci_cutoff = 0; nothing but the poll test reads the cutoff
   (SolverCutoff.loop_body_cutoff / fold_expand_cutoff), so the invariant holds up to the point where the cutoff fires *)
Section CutCrash.
  Context {St : Type}.
  Variable st_eqb : St -> St -> bool.
  Variable inp : @cinput St.
  Local Notation inp0 := (set_cutoff inp 0).
  Hypothesis Hclean : ci_flavour inp = CleanLEL \/ ci_flavour inp = CleanFC.
  Hypothesis Hnocache : ci_use_cache inp = false.
  Hypothesis Hnodom : ci_domrule inp = None.
  Hypothesis Hwidth : (1 <= ci_width inp)%nat.
  Hypothesis nv_none : forall k l, (nb_vars (ci_problem inp) <= k)%nat -> next_variable (ci_problem inp) k l = None.
  Hypothesis Hroot_depth : (sp_depth (ci_root inp) <= nb_vars (ci_problem inp))%nat.

  Lemma layer_loop_nocrash k : forall fuel m m' e,
    layer_loop st_eqb (set_cutoff inp k) fuel m = (m', e) -> MddProgress.Linv inp0 m -> e <> LoopDone ->
    m_crash m' = false.
  Proof.
    induction fuel as [|fuel IH]; intros m m' e H HL Hne.
    - simpl in H. inversion H; subst. apply (MddProgress.L_crash _ _ HL).
    - rewrite layer_loop_iter in H. cbv zeta in H.
      change (ci_problem (set_cutoff inp k)) with (ci_problem inp) in H.
      change (ci_cutoff (set_cutoff inp k)) with k in H.
      assert (Hgn : (fun id => n_state (get_node (set_cutoff inp k) m id)) = (fun id => n_state (get_node inp m id)))
        by reflexivity.
      rewrite Hgn in H.
      set (states := map (fun id => n_state (get_node inp m id)) (m_next m)) in *.
      destruct (next_variable (ci_problem inp) (m_curr_depth m) states) as [var|] eqn:Eov.
      2:{ inversion H; subst. contradiction Hne; reflexivity. }
      set (m0 := add_log m (EvNextVar (m_curr_depth m) states (Some var))) in *.
      set (m1 := with_polls m0 (S (m_polls m0))) in *.
      assert (HL1 : MddProgress.Linv inp0 m1).
      { apply (MddProgress.Linv_frame inp0 eq_refl Hwidth Hroot_depth m); auto; reflexivity. }
      destruct (fires k (m_polls m1)) eqn:Ef.
      { inversion H; subst. apply (MddProgress.L_crash _ _ HL1). }
      destruct (loop_body st_eqb (set_cutoff inp k) var m1) as [m2 ol] eqn:Eb.
      rewrite (loop_body_cutoff st_eqb inp k 0) in Eb. unfold loop_body in Eb.
      change (ci_flavour inp0) with (ci_flavour inp) in Eb. rewrite (MddProgress.not_pooled' inp Hclean) in Eb.
      destruct ol as [l|]; [|inversion H; subst; contradiction Hne; reflexivity].
      cbv zeta in H. rewrite (fold_expand_cutoff st_eqb inp k 0) in H.
      assert (Hlt : (m_curr_depth m < nb_vars (ci_problem inp))%nat).
      { destruct (Nat.lt_ge_cases (m_curr_depth m) (nb_vars (ci_problem inp))) as [A|A]; [exact A|].
        rewrite (nv_none _ states A) in Eov. discriminate. }
      pose proof (MddProgress.move_some_step st_eqb inp0 Hclean Hnocache Hnodom eq_refl Hwidth Hroot_depth m1 m2 l Eb HL1) as HM.
      destruct (MddProgress.expand_finish st_eqb inp0 Hclean eq_refl Hwidth Hroot_depth var m1 m2 l HM Hlt) as [HL4 _].
      exact (IH _ _ _ H HL4 Hne).
  Qed.

  Lemma compile_nocrash_cut k tb tb2 c ds polls m out :
    compile st_eqb (set_cutoff inp k) tb tb2 c ds polls = (m, out) -> out <> Compiled -> m_crash m = false.
  Proof.
    unfold compile. change (ci_problem (set_cutoff inp k)) with (ci_problem inp).
    rewrite (initialize_cutoff inp k 0).
    destruct (layer_loop st_eqb (set_cutoff inp k) (S (S (nb_vars (ci_problem inp)))) (initialize inp0 c ds polls))
      as [ml e] eqn:El.
    intros H Hne.
    assert (He : e <> LoopDone). { intros ->. inversion H; subst. apply Hne; reflexivity. }
    pose proof (layer_loop_nocrash k _ _ _ _ El
                  (MddProgress.Linv_initialize inp0 Hclean eq_refl Hwidth Hroot_depth c ds polls) He) as Hcr.
    destruct e; inversion H; subst; auto. contradiction He; reflexivity.
  Qed.
End CutCrash.

(* ================================================================== 1c. clipping a relaxation to machine integers does not change the diagram
   [clip_relaxation r] behaves like r on isize costs and is the identity on the (never occurring) others.  When the
   transition costs and the relaxed costs of the model are machine integers, every arc of a diagram under compilation
   carries an isize cost (Ecost), so compiling with r or with its clipped version yields the very same diagram. *)
Section RelaxClip.
  Context {St : Type}.
  Variable st_eqb : St -> St -> bool.

  Definition in_isize_b (z : Z) : bool := (IMIN <=? z) && (z <=? IMAX).
  Lemma in_isize_b_true z : in_isize z -> in_isize_b z = true.
  Proof. unfold in_isize, in_isize_b. intros [H1 H2]. apply andb_true_intro. split; apply Z.leb_le; assumption. Qed.

  Definition clip_relaxation (r : relaxation St) : relaxation St :=
    {| merge := merge r;
       relax := fun src dst mg d c => if in_isize_b c then relax r src dst mg d c else c;
       fast_upper_bound := fast_upper_bound r |}.

  Definition set_relax (inp : @cinput St) (r : relaxation St) : @cinput St :=
    {| ci_flavour := ci_flavour inp; ci_type := ci_type inp; ci_problem := ci_problem inp; ci_relax := r;
       ci_ranking := ci_ranking inp; ci_domcmp := ci_domcmp inp; ci_width := ci_width inp; ci_root := ci_root inp;
       ci_best_lb := ci_best_lb inp; ci_use_cache := ci_use_cache inp; ci_domrule := ci_domrule inp; ci_cutoff := ci_cutoff inp |}.

  Variable inp : @cinput St.
  Local Notation inp' := (set_relax inp (clip_relaxation (ci_relax inp))).

  Ltac rnorm := cbv beta iota delta [
    set_relax clip_relaxation merge fast_upper_bound
    ci_flavour ci_type ci_problem ci_relax ci_ranking ci_domcmp ci_width ci_root ci_best_lb ci_use_cache ci_domrule ci_cutoff
    get_node get_edge upd_node find_next branch_on cache_get cache_update dom_query
    filter_with_cache dom_order dom_retain filter_with_dominance rank_order note_squash restrict_layer
    expand_node initialize
    finalize_layers argmax_candidates find_best_node has_exact_best_path finalize_exact frontier_cutset
    finalize_cutset compute_local_bounds maybe_update_cache compute_thresholds default_node].

  Lemma clip_filter_with_cache m l : filter_with_cache st_eqb inp' m l = filter_with_cache st_eqb inp m l.
  Proof. rnorm. reflexivity. Qed.
  Lemma clip_filter_with_dominance m l : filter_with_dominance inp' m l = filter_with_dominance inp m l.
  Proof. rnorm. reflexivity. Qed.
  Lemma clip_restrict_layer m l : restrict_layer inp' m l = restrict_layer inp m l.
  Proof. rnorm. reflexivity. Qed.
  Lemma clip_expand_node var m id : expand_node st_eqb inp' var m id = expand_node st_eqb inp var m id.
  Proof. rnorm. reflexivity. Qed.
  Lemma clip_initialize c ds p : initialize inp' c ds p = initialize inp c ds p.
  Proof. reflexivity. Qed.
  Lemma clip_finalize_layers m : finalize_layers inp' m = finalize_layers inp m.
  Proof. rnorm. reflexivity. Qed.
  Lemma clip_find_best_node a b m : find_best_node inp' a b m = find_best_node inp a b m.
  Proof. rnorm. reflexivity. Qed.
  Lemma clip_finalize_exact m : finalize_exact inp' m = finalize_exact inp m.
  Proof. rnorm. reflexivity. Qed.
  Lemma clip_finalize_cutset m : finalize_cutset inp' m = finalize_cutset inp m.
  Proof. rnorm. reflexivity. Qed.
  Lemma clip_compute_local_bounds m : compute_local_bounds inp' m = compute_local_bounds inp m.
  Proof. rnorm. reflexivity. Qed.
  Lemma clip_compute_thresholds m : compute_thresholds st_eqb inp' m = compute_thresholds st_eqb inp m.
  Proof. rnorm. reflexivity. Qed.
  Lemma clip_finalize tb tb2 m : finalize st_eqb inp' tb tb2 m = finalize st_eqb inp tb tb2 m.
  Proof.
    unfold finalize.
    rewrite clip_finalize_layers, clip_find_best_node, clip_finalize_exact, clip_finalize_cutset,
            clip_compute_local_bounds, clip_compute_thresholds. reflexivity.
  Qed.

  (* ---- the invariant: every arc of the diagram carries an isize cost *)
  Local Notation pb := (ci_problem inp).
  Local Notation rlx := (ci_relax inp).
  Hypothesis Hclean : ci_flavour inp = CleanLEL \/ ci_flavour inp = CleanFC.
  Hypothesis cost_isize : forall s d, in_isize (transition_cost pb s (transition pb s d) d).
  Hypothesis relax_isize : forall src dst mg d c, in_isize c -> in_isize (relax rlx src dst mg d c).

  Definition Ecost (m : @mdd St) : Prop := Forall (fun e => in_isize (e_cost e)) (m_edges m).

  Lemma Ecost_same (m m' : @mdd St) : m_edges m' = m_edges m -> Ecost m -> Ecost m'.
  Proof. unfold Ecost. intros ->. auto. Qed.

  Lemma Ecost_get m eid : Ecost m -> in_isize (e_cost (get_edge m eid)).
  Proof.
    unfold Ecost, get_edge. intros H. destruct (nth_in_or_default eid (m_edges m) default_edge) as [Hin| ->].
    - rewrite Forall_forall in H. apply H; exact Hin.
    - simpl. unfold in_isize, IMIN, IMAX. lia.
  Qed.

  Lemma Ecost_append m e : Ecost m -> in_isize (e_cost e) -> Ecost (append_edge inp m e).
  Proof. unfold Ecost. intros H He. cbn [append_edge m_edges]. apply Forall_app. split; [exact H|constructor; [exact He|constructor]]. Qed.

  Lemma Ecost_fold {X} (f : @mdd St -> X -> @mdd St) (l : list X) :
    (forall a x, Ecost a -> Ecost (f a x)) -> forall a, Ecost a -> Ecost (fold_left f l a).
  Proof. intros Hf. induction l as [|x l IH]; intros a Ha; simpl; auto. Qed.

  (* ---- redirect / relax *)
  Lemma clip_redirect_step merged mid m eid : Ecost m ->
    redirect_step inp' merged mid m eid = redirect_step inp merged mid m eid /\ Ecost (redirect_step inp merged mid m eid).
  Proof.
    intros HE. pose proof (Ecost_get m eid HE) as Hc. split.
    - unfold redirect_step. cbn [set_relax clip_relaxation ci_relax relax].
      rewrite (in_isize_b_true _ Hc). reflexivity.
    - unfold redirect_step. apply Ecost_append; [exact HE|]. cbn [e_cost]. apply relax_isize. exact Hc.
  Qed.

  Lemma clip_redirect_fold merged mid L : forall a, Ecost a ->
    fold_left (redirect_step inp' merged mid) L a = fold_left (redirect_step inp merged mid) L a /\ Ecost (fold_left (redirect_step inp merged mid) L a).
  Proof.
    induction L as [|eid L IH]; intros a Ha; simpl; [auto|].
    destruct (clip_redirect_step merged mid a eid Ha) as [E1 E2]. rewrite E1. apply IH. exact E2.
  Qed.

  Lemma clip_drop_step merged mid m did : Ecost m ->
    drop_step inp' merged mid m did = drop_step inp merged mid m did /\ Ecost (drop_step inp merged mid m did).
  Proof.
    intros HE. unfold drop_step. rewrite !redirect_edges_fold.
    apply (clip_redirect_fold merged mid). exact HE.
  Qed.

  Lemma clip_drop_fold merged mid L : forall a, Ecost a ->
    fold_left (drop_step inp' merged mid) L a = fold_left (drop_step inp merged mid) L a /\ Ecost (fold_left (drop_step inp merged mid) L a).
  Proof.
    induction L as [|did L IH]; intros a Ha; simpl; [auto|].
    destruct (clip_drop_step merged mid a did Ha) as [E1 E2]. rewrite E1. apply IH. exact E2.
  Qed.

  Lemma Ecost_note_squash m : Ecost m -> Ecost (note_squash inp m).
  Proof. intros HE. unfold note_squash. destruct (is_pooled _); [exact HE|]. destruct (m_lel m); exact HE. Qed.

  Lemma clip_relax_layer m l : Ecost m ->
    relax_layer st_eqb inp' m l = relax_layer st_eqb inp m l /\ Ecost (fst (relax_layer st_eqb inp m l)).
  Proof.
    intros HE. destruct (ci_width inp) as [|w1] eqn:Hw.
    - unfold relax_layer. cbn [set_relax ci_width]. rewrite Hw. split; [reflexivity|]. cbn [fst]. exact (Ecost_note_squash m HE).
    - rewrite (relax_layer_unfold st_eqb inp' m l w1 Hw), (relax_layer_unfold st_eqb inp m l w1 Hw). cbv zeta.
      change (note_squash inp' m) with (note_squash inp m).
      set (m0 := note_squash inp m).
      change (rank_order inp' m0) with (rank_order inp m0).
      set (sorted := sort_by (rank_order inp m0) l).
      set (mrg := skipn w1 sorted).
      change (map (fun id => n_state (get_node inp' m0 id)) mrg) with (map (fun id => n_state (get_node inp m0 id)) mrg).
      set (mstates := map (fun id => n_state (get_node inp m0 id)) mrg).
      change (merge (ci_relax inp') mstates) with (merge rlx mstates).
      set (merged := merge rlx mstates).
      set (m1 := add_log m0 (EvMerge mstates merged)).
      change (find (fun id => st_eqb (n_state (get_node inp' m1 id)) merged) (firstn w1 sorted))
        with (find (fun id => st_eqb (n_state (get_node inp m1 id)) merged) (firstn w1 sorted)).
      assert (HE1 : Ecost m1) by exact (Ecost_note_squash m HE).
      destruct (find (fun id => st_eqb (n_state (get_node inp m1 id)) merged) (firstn w1 sorted)) as [rid|].
      + destruct (clip_drop_fold merged rid mrg (upd_node m1 rid set_relaxed_flag) HE1) as [E1 E2].
        rewrite E1. split; [reflexivity|exact E2].
      + change (get_node inp' m1 (hd 0%nat mrg)) with (get_node inp m1 (hd 0%nat mrg)).
        set (m2 := upd_node (with_nodes m1 (m_nodes m1 ++ [merged_node merged (n_depth (get_node inp m1 (hd 0%nat mrg)))]))
                     (length (m_nodes m1)) set_relaxed_flag).
        destruct (clip_drop_fold merged (length (m_nodes m1)) mrg m2 HE1) as [E1 E2].
        rewrite E1. split; [reflexivity|exact E2].
  Qed.

  Lemma Ecost_mark_deleted ids : forall m, Ecost m -> Ecost (mark_deleted m ids).
  Proof. unfold mark_deleted. apply Ecost_fold. intros a x Ha. exact Ha. Qed.

  Lemma clip_squash m l : Ecost m ->
    squash_if_needed st_eqb inp' m l = squash_if_needed st_eqb inp m l /\
    Ecost (fst (squash_if_needed st_eqb inp m l)).
  Proof.
    intros HE. unfold squash_if_needed. change (ci_type inp') with (ci_type inp). change (ci_width inp') with (ci_width inp).
    destruct (ci_type inp).
    - split; [reflexivity|exact HE].
    - destruct (Nat.ltb (ci_width inp) (length l) && Nat.ltb 1 (length (m_layers m))).
      + apply clip_relax_layer. exact HE.
      + split; [reflexivity|exact HE].
    - destruct (Nat.ltb (ci_width inp) (length l)).
      + rewrite clip_restrict_layer. split; [reflexivity|].
        unfold restrict_layer. cbn [fst]. apply Ecost_mark_deleted.
        apply Ecost_note_squash. exact HE.
      + split; [reflexivity|exact HE].
  Qed.

  Lemma clip_move m : Ecost m ->
    move_to_next_layer_clean st_eqb inp' m = move_to_next_layer_clean st_eqb inp m /\
    Ecost (fst (move_to_next_layer_clean st_eqb inp m)).
  Proof.
    intros HE. rewrite !move_clean_unfold. destruct (m_next m) as [|x nx] eqn:En.
    - split; [reflexivity|exact HE].
    - rewrite <- En. unfold prefilter. change (m_layers (with_next m [])) with (m_layers m).
      rewrite clip_filter_with_cache.
      set (pf := if Nat.ltb 0 (length (m_layers m)) then filter_with_cache st_eqb inp (with_next m []) (m_next m)
                 else (with_next m [], m_next m)).
      assert (HE1 : Ecost (fst pf)).
      { unfold pf. destruct (Nat.ltb 0 (length (m_layers m))); [|exact HE].
        destruct (filter_with_cache_ceq st_eqb inp Hclean (m_next m) (with_next m [])) as [((C & _) & _) _].
        eapply Ecost_same; [exact C|exact HE]. }
      destruct pf as [m1 l1]. cbn [fst] in HE1.
      rewrite clip_filter_with_dominance.
      assert (HE2 : Ecost (fst (filter_with_dominance inp m1 l1))).
      { destruct (filter_with_dominance_ceq inp m1 l1) as [((C & _) & _) _]. eapply Ecost_same; [exact C|exact HE1]. }
      destruct (filter_with_dominance inp m1 l1) as [m2 l2]. cbn [fst] in HE2.
      destruct (clip_squash m2 l2 HE2) as [E1 E2]. rewrite E1.
      destruct (squash_if_needed st_eqb inp m2 l2) as [m3 l3]. cbn [fst] in E2.
      split; [reflexivity|exact E2].
  Qed.

  Lemma Ecost_branch_on m id d : Ecost m -> Ecost (branch_on st_eqb inp m id d).
  Proof.
    intros HE. unfold branch_on. cbv zeta.
    match goal with |- context [find_next ?a ?b ?c ?d] => destruct (find_next a b c d) end.
    - apply Ecost_append; [exact HE|]. cbn [e_cost]. apply cost_isize.
    - unfold Ecost. cbn [with_next m_edges]. apply Ecost_append; [exact HE|]. cbn [e_cost]. apply cost_isize.
  Qed.

  Lemma Ecost_expand_node var m id : Ecost m -> Ecost (expand_node st_eqb inp var m id).
  Proof.
    intros HE. unfold expand_node. cbv zeta.
    match goal with |- context [if ?c then _ else _] => destruct c end; [|exact HE].
    apply Ecost_fold; [|exact HE]. intros a x Ha. apply Ecost_branch_on. exact Ha.
  Qed.

  Lemma clip_fold_expand var l : forall m,
    fold_left (expand_node st_eqb inp' var) l m = fold_left (expand_node st_eqb inp var) l m.
  Proof. induction l as [|id l IH]; intros m; simpl; [reflexivity|]. rewrite clip_expand_node. apply IH. Qed.

  Lemma clip_layer_loop : forall fuel m, Ecost m ->
    layer_loop st_eqb inp' fuel m = layer_loop st_eqb inp fuel m.
  Proof.
    induction fuel as [|fuel IH]; intros m HE; [reflexivity|].
    rewrite !layer_loop_iter. cbv zeta.
    change (ci_problem inp') with pb. change (ci_cutoff inp') with (ci_cutoff inp).
    change (fun id => n_state (get_node inp' m id)) with (fun id => n_state (get_node inp m id)).
    set (states := map (fun id => n_state (get_node inp m id)) (m_next m)).
    destruct (next_variable pb (m_curr_depth m) states) as [var|]; [|reflexivity].
    set (m1 := with_polls _ _).
    destruct (fires (ci_cutoff inp) (m_polls m1)); [reflexivity|].
    unfold loop_body. change (ci_flavour inp') with (ci_flavour inp).
    assert (Hnp : is_pooled (ci_flavour inp) = false) by (destruct Hclean as [E|E]; rewrite E; reflexivity).
    rewrite Hnp.
    assert (HE1 : Ecost m1) by exact HE.
    destruct (clip_move m1 HE1) as [E1 E2]. rewrite E1.
    destruct (move_to_next_layer_clean st_eqb inp m1) as [m2 [l|]]; [|reflexivity].
    cbn [fst] in E2. rewrite clip_fold_expand. apply IH.
    assert (HE3 : Ecost (fold_left (expand_node st_eqb inp var) l m2)).
    { apply Ecost_fold; [|exact E2]. intros a x Ha. apply Ecost_expand_node. exact Ha. }
    exact HE3.
  Qed.

  Theorem clip_compile tb tb2 c ds polls :
    compile st_eqb inp' tb tb2 c ds polls = compile st_eqb inp tb tb2 c ds polls.
  Proof.
    unfold compile. change (ci_problem inp') with pb. rewrite clip_initialize.
    rewrite clip_layer_loop by (unfold Ecost; simpl; constructor).
    destruct (layer_loop st_eqb inp (S (S (nb_vars pb))) (initialize inp c ds polls)) as [ml e].
    destruct e; [|reflexivity|reflexivity]. rewrite clip_finalize. reflexivity.
  Qed.
End RelaxClip.

(* ================================================================== 2. the abstract semantics, on the model only
   [sgood]: a sub-problem is reached from the initial state by a feasible run (variables in the static order,
   values in the domains, exact integer accumulation) whose decisions are (a permutation of) its path.
   [sfeasible]: a complete feasible run.  Both imply the [replay_sat]-based notions of MddProgress.v under the guard;
   the converse is false in general (MddProgress.good / feasible do not constrain the ORDER of the variables, so a
   replay out of order may saturate, or exceed the optimum, without contradicting a guard on feasible runs). *)
Section Sem.
  Context {St : Type}.
  Variable pb : problem St.

  Definition sgood (n : @subproblem St) : Prop :=
    (sp_depth n <= nb_vars pb)%nat /\
    exists ds, length ds = sp_depth n /\ Permutation ds (sp_path n) /\
               frun pb 0 (init_state pb) (init_value pb) ds = Some (sp_state n, sp_value n).

  Definition sfeasible (sol : list decision) (v : Z) : Prop :=
    exists ds st, length ds = nb_vars pb /\ Permutation ds sol /\
                  frun pb 0 (init_state pb) (init_value pb) ds = Some (st, v).

  Lemma sgood_set_ub (c : @subproblem St) u : sgood c -> sgood (set_ub c u).
  Proof. intros H. exact H. Qed.

  (* exact arithmetic: a feasible solution replays through DP.replay (no saturation involved) *)
  Lemma sfeasible_replay sol v : sfeasible sol v ->
    exists ds st, Permutation ds sol /\ length ds = nb_vars pb /\
                  replay pb ds (init_state pb) (init_value pb) = Some (st, v).
  Proof.
    intros (ds & st & H1 & H2 & H3). exists ds, st. split; [exact H2|]. split; [exact H1|].
    eapply frun_replay; exact H3.
  Qed.

  Variable B : Z.
  Hypothesis HB : 2 * B <= IMAX.
  Hypothesis guard0 : forall ds s' v', frun pb 0 (init_state pb) (init_value pb) ds = Some (s', v') -> - B <= v' <= B.

  Lemma sgood_good n : sgood n -> MddProgress.good pb n.
  Proof.
    intros (Hd & ds & H1 & H2 & H3). split; [exact Hd|]. exists ds. split; [exact H1|]. split; [exact H2|].
    apply (frun_replay_sat pb B HB ds 0%nat); [exact guard0|exact H3].
  Qed.

  Lemma sfeasible_feasible sol v : sfeasible sol v -> MddProgress.feasible pb sol v.
  Proof.
    intros (ds & st & H1 & H2 & H3). exists ds, st. split; [exact H1|]. split; [exact H2|].
    apply (frun_replay_sat pb B HB ds 0%nat); [exact guard0|exact H3].
  Qed.

  Lemma sgood_guard n : sgood n -> forall ds s' v',
    frun pb (sp_depth n) (sp_state n) (sp_value n) ds = Some (s', v') -> - B <= v' <= B.
  Proof.
    intros (_ & ds0 & H1 & _ & H3) ds s' v' Hr.
    apply (guard0 (ds0 ++ ds) s' v'). rewrite frun_app, H3, H1. exact Hr.
  Qed.

  Lemma sgood_root (r : @subproblem St) :
    sp_state r = init_state pb -> sp_value r = init_value pb -> sp_path r = [] -> sp_depth r = 0%nat -> sgood r.
  Proof.
    intros H1 H2 H3 H4. split; [lia|]. exists []. rewrite H3, H4, H1, H2. repeat split. constructor.
  Qed.
End Sem.

(* ================================================================== 3a. a compilation that completes under a cutoff is the compilation without cutoff *)
Section ToZero.
  Context {St : Type}.
  Variable st_eqb : St -> St -> bool.
  Variable cfg : @sconfig St.

  Lemma to_zero ct n lb c ds polls m :
    compile st_eqb (mk_input cfg ct n lb) 0 0 c ds polls = (m, Compiled) ->
    compile st_eqb (mk_input (with_cutoff cfg 0) ct n lb) 0 0 c ds polls = (m, Compiled).
  Proof.
    intros H.
    change (mk_input cfg ct n lb) with (set_cutoff (mk_input cfg ct n lb) (sc_cutoff cfg)) in H.
    destruct (compile_agree st_eqb _ _ _ _ _ _ _ _ _ H) as (B0 & _ & HB2); [discriminate|].
    exact (HB2 0%nat (or_introl eq_refl)).
  Qed.
End ToZero.

(* ================================================================== 3b. the simulation contracts (K2, K3_ub, K4 of MddSim.v), any cutoff.
   (Strong) under the hypotheses of MddSim.v as they stand.  NOTE: relax_ge there quantifies over EVERY integer cost c, so it
   cannot be met by a relaxation whose [relax] returns a machine integer (c > IMAX has no isize above it).
   (Sat) under hypotheses that such relaxations do meet (relax_ge for isize costs only; costs and relaxed costs are isize),
   by compiling with the clipped relaxation of section 1c, which compiles to the very same diagram. *)
Section SimContracts.
  Context {St : Type}.
  Variable st_eqb : St -> St -> bool.
  Hypothesis st_eqb_spec : forall a b, st_eqb a b = true <-> a = b.
  Variable cfg : @sconfig St.
  Local Notation pb := (sc_problem cfg).
  Local Notation rlx := (sc_relax cfg).
  Local Notation N := (nb_vars (sc_problem cfg)).
  Hypothesis cfg_clean : sc_flavour cfg = CleanLEL \/ sc_flavour cfg = CleanFC.
  Hypothesis cfg_nocache : sc_use_cache cfg = false.
  Hypothesis cfg_nodom : sc_domrule cfg = None.
  Hypothesis cfg_width : (1 <= sc_width cfg)%nat.
  Hypothesis nv_static : forall k l1 l2, next_variable pb k l1 = next_variable pb k l2.
  Hypothesis nv_some : forall k l, (k < N)%nat -> exists x, next_variable pb k l = Some x.
  Hypothesis nv_none : forall k l, (N <= k)%nat -> next_variable pb k l = None.
  Variable cov : St -> St -> Prop.
  Hypothesis cov_refl : forall s, cov s s.
  Hypothesis cov_sim : forall s s' x v, cov s s' -> In v (domain pb x s') ->
    let d := {| d_var := x; d_val := v |} in
    In v (domain pb x s) /\ cov (transition pb s d) (transition pb s' d) /\
    (transition_cost pb s' (transition pb s' d) d <= transition_cost pb s (transition pb s d) d)%Z.
  Hypothesis merge_cov : forall L s s', In s L -> cov s s' -> cov (merge rlx L) s'.
  Hypothesis rub_adm : forall k s s' h, cov s s' -> H pb k s' = Some h -> (h <= fast_upper_bound rlx s)%Z.
  Variable B : Z.
  Hypothesis HB : 2 * B <= IMAX.
  Hypothesis guard0 : forall ds s' v', frun pb 0 (init_state pb) (init_value pb) ds = Some (s', v') -> - B <= v' <= B.

  Local Notation cfg0 := (with_cutoff cfg 0).
  Local Notation good := (sgood pb).
  Local Notation bst := (MddSim.best cfg).

  Lemma good_guard n : good n -> forall ds s' v',
    frun pb (sp_depth n) (sp_state n) (sp_value n) ds = Some (s', v') -> - B <= v' <= B.
  Proof. apply sgood_guard. exact guard0. Qed.

  Section Strong.
  Hypothesis relax_ge : forall src dst mg d c, (c <= relax rlx src dst mg d c)%Z.

  Lemma C2_strong ct n lb c ds polls m :
    dd_ct ct -> good n -> (sp_depth n <= N)%nat ->
    compile st_eqb (mk_input cfg ct n lb) 0 0 c ds polls = (m, Compiled) ->
    dd_is_exact m = true ->
    forall o, bst n = Some o -> o > lb -> dd_best_exact_value (mk_input cfg ct n lb) m = Some o.
  Proof.
    intros Hct Hg Hd Hc Hex o Hb Hlb. pose proof (to_zero st_eqb cfg _ _ _ _ _ _ _ Hc) as H0.
    exact (MddSim.K2_holds st_eqb st_eqb_spec cfg0 cfg_clean cfg_nocache cfg_nodom eq_refl cfg_width
             nv_static nv_some nv_none cov cov_refl cov_sim merge_cov relax_ge rub_adm good B HB good_guard
             ct n lb c ds polls m Compiled Hct Hg Hd H0 eq_refl Hex o Hb Hlb).
  Qed.

  Lemma C3_ub_strong n lb c ds polls m :
    good n -> (sp_depth n <= N)%nat ->
    compile st_eqb (mk_input cfg Relaxed n lb) 0 0 c ds polls = (m, Compiled) ->
    dd_is_exact m = false ->
    forall x, In x (drain_cutset (mk_input cfg Relaxed n lb) m) ->
    forall o, bst x = Some o -> o > lb -> o <= sp_ub x.
  Proof.
    intros Hg Hd Hc Hex x Hx o Hb Hlb. pose proof (to_zero st_eqb cfg _ _ _ _ _ _ _ Hc) as H0.
    exact (MddSim.K3_ub_holds st_eqb st_eqb_spec cfg0 cfg_clean cfg_nocache cfg_nodom eq_refl cfg_width
             nv_static nv_some nv_none cov cov_refl cov_sim merge_cov relax_ge rub_adm good B HB good_guard
             n lb c ds polls m Compiled Hg Hd H0 eq_refl Hex x Hx o Hb Hlb).
  Qed.

  Lemma C4_strong n lb c ds polls m :
    good n -> (sp_depth n <= N)%nat ->
    compile st_eqb (mk_input cfg Relaxed n lb) 0 0 c ds polls = (m, Compiled) ->
    dd_is_exact m = false ->
    forall o, bst n = Some o -> o > lb ->
    (forall e, dd_best_exact_value (mk_input cfg Relaxed n lb) m = Some e -> e < o) ->
    exists x, In x (drain_cutset (mk_input cfg Relaxed n lb) m) /\ bst x = Some o.
  Proof.
    intros Hg Hd Hc Hex o Hb Hlb He. pose proof (to_zero st_eqb cfg _ _ _ _ _ _ _ Hc) as H0.
    exact (MddSim.K4_holds st_eqb st_eqb_spec cfg0 cfg_clean cfg_nocache cfg_nodom eq_refl cfg_width
             nv_static nv_some nv_none cov cov_refl cov_sim merge_cov relax_ge rub_adm good B HB good_guard
             n lb c ds polls m Compiled Hg Hd H0 eq_refl Hex o Hb Hlb He).
  Qed.
  End Strong.
End SimContracts.

Section SimContractsSat.
  Context {St : Type}.
  Variable st_eqb : St -> St -> bool.
  Hypothesis st_eqb_spec : forall a b, st_eqb a b = true <-> a = b.
  Variable cfg : @sconfig St.
  Local Notation pb := (sc_problem cfg).
  Local Notation rlx := (sc_relax cfg).
  Local Notation N := (nb_vars (sc_problem cfg)).
  Hypothesis cfg_clean : sc_flavour cfg = CleanLEL \/ sc_flavour cfg = CleanFC.
  Hypothesis cfg_nocache : sc_use_cache cfg = false.
  Hypothesis cfg_nodom : sc_domrule cfg = None.
  Hypothesis cfg_width : (1 <= sc_width cfg)%nat.
  Hypothesis nv_static : forall k l1 l2, next_variable pb k l1 = next_variable pb k l2.
  Hypothesis nv_some : forall k l, (k < N)%nat -> exists x, next_variable pb k l = Some x.
  Hypothesis nv_none : forall k l, (N <= k)%nat -> next_variable pb k l = None.
  Variable cov : St -> St -> Prop.
  Hypothesis cov_refl : forall s, cov s s.
  Hypothesis cov_sim : forall s s' x v, cov s s' -> In v (domain pb x s') ->
    let d := {| d_var := x; d_val := v |} in
    In v (domain pb x s) /\ cov (transition pb s d) (transition pb s' d) /\
    (transition_cost pb s' (transition pb s' d) d <= transition_cost pb s (transition pb s d) d)%Z.
  Hypothesis merge_cov : forall L s s', In s L -> cov s s' -> cov (merge rlx L) s'.
  Hypothesis rub_adm : forall k s s' h, cov s s' -> H pb k s' = Some h -> (h <= fast_upper_bound rlx s)%Z.
  (* machine-integer costs *)
  Hypothesis cost_isize : forall s d, in_isize (transition_cost pb s (transition pb s d) d).
  Hypothesis relax_isize : forall src dst mg d c, in_isize c -> in_isize (relax rlx src dst mg d c).
  Hypothesis relax_ge_isize : forall src dst mg d c, in_isize c -> (c <= relax rlx src dst mg d c)%Z.
  Variable B : Z.
  Hypothesis HB : 2 * B <= IMAX.
  Hypothesis guard0 : forall ds s' v', frun pb 0 (init_state pb) (init_value pb) ds = Some (s', v') -> - B <= v' <= B.

  Local Notation good := (sgood pb).
  Local Notation bst := (MddSim.best cfg).

  Definition clip_cfg : @sconfig St :=
    {| sc_flavour := sc_flavour cfg; sc_problem := sc_problem cfg; sc_relax := clip_relaxation (sc_relax cfg);
       sc_ranking := sc_ranking cfg; sc_domcmp := sc_domcmp cfg; sc_domrule := sc_domrule cfg; sc_width := sc_width cfg;
       sc_use_cache := sc_use_cache cfg; sc_nodup := sc_nodup cfg; sc_cutoff := sc_cutoff cfg |}.

  Lemma clip_relax_ge : forall src dst mg d c, (c <= relax (sc_relax clip_cfg) src dst mg d c)%Z.
  Proof.
    intros src dst mg d c. cbn [clip_cfg sc_relax clip_relaxation relax].
    destruct (in_isize_b c) eqn:E; [|lia].
    apply relax_ge_isize. unfold in_isize_b in E. apply andb_true_iff in E. destruct E as [E1 E2].
    apply Z.leb_le in E1. apply Z.leb_le in E2. split; assumption.
  Qed.

  Lemma clip_compile_cfg ct n lb c ds polls :
    compile st_eqb (mk_input clip_cfg ct n lb) 0 0 c ds polls = compile st_eqb (mk_input cfg ct n lb) 0 0 c ds polls.
  Proof. exact (clip_compile st_eqb (mk_input cfg ct n lb) cfg_clean cost_isize relax_isize 0 0 c ds polls). Qed.

  Lemma C2_sat ct n lb c ds polls m :
    dd_ct ct -> good n -> (sp_depth n <= N)%nat ->
    compile st_eqb (mk_input cfg ct n lb) 0 0 c ds polls = (m, Compiled) ->
    dd_is_exact m = true ->
    forall o, bst n = Some o -> o > lb -> dd_best_exact_value (mk_input cfg ct n lb) m = Some o.
  Proof.
    intros Hct Hg Hd Hc Hex o Hb Hlb. rewrite <- clip_compile_cfg in Hc.
    exact (C2_strong st_eqb st_eqb_spec clip_cfg cfg_clean cfg_nocache cfg_nodom cfg_width nv_static nv_some nv_none
             cov cov_refl cov_sim merge_cov rub_adm B HB guard0 clip_relax_ge ct n lb c ds polls m Hct Hg Hd Hc Hex o Hb Hlb).
  Qed.

  Lemma C3_ub_sat n lb c ds polls m :
    good n -> (sp_depth n <= N)%nat ->
    compile st_eqb (mk_input cfg Relaxed n lb) 0 0 c ds polls = (m, Compiled) ->
    dd_is_exact m = false ->
    forall x, In x (drain_cutset (mk_input cfg Relaxed n lb) m) ->
    forall o, bst x = Some o -> o > lb -> o <= sp_ub x.
  Proof.
    intros Hg Hd Hc Hex x Hx o Hb Hlb. rewrite <- clip_compile_cfg in Hc.
    exact (C3_ub_strong st_eqb st_eqb_spec clip_cfg cfg_clean cfg_nocache cfg_nodom cfg_width nv_static nv_some nv_none
             cov cov_refl cov_sim merge_cov rub_adm B HB guard0 clip_relax_ge n lb c ds polls m Hg Hd Hc Hex x Hx o Hb Hlb).
  Qed.

  Lemma C4_sat n lb c ds polls m :
    good n -> (sp_depth n <= N)%nat ->
    compile st_eqb (mk_input cfg Relaxed n lb) 0 0 c ds polls = (m, Compiled) ->
    dd_is_exact m = false ->
    forall o, bst n = Some o -> o > lb ->
    (forall e, dd_best_exact_value (mk_input cfg Relaxed n lb) m = Some e -> e < o) ->
    exists x, In x (drain_cutset (mk_input cfg Relaxed n lb) m) /\ bst x = Some o.
  Proof.
    intros Hg Hd Hc Hex o Hb Hlb He. rewrite <- clip_compile_cfg in Hc.
    exact (C4_strong st_eqb st_eqb_spec clip_cfg cfg_clean cfg_nocache cfg_nodom cfg_width nv_static nv_some nv_none
             cov cov_refl cov_sim merge_cov rub_adm B HB guard0 clip_relax_ge n lb c ds polls m Hg Hd Hc Hex o Hb Hlb He).
  Qed.
End SimContractsSat.

(* ================================================================== 3c. a well-formed relaxation, in either sense *)
Section WfRelaxation.
  Context {St : Type}.
  Variable cfg : @sconfig St.
  Local Notation pb := (sc_problem cfg).
  Local Notation rlx := (sc_relax cfg).

  (* common part: [cov s s'] = the (possibly merged) state s covers the true state s' *)
  Definition wf_cover (cov : St -> St -> Prop) : Prop :=
    (forall s, cov s s) /\
    (forall s s' x v, cov s s' -> In v (domain pb x s') ->
       let d := {| d_var := x; d_val := v |} in
       In v (domain pb x s) /\ cov (transition pb s d) (transition pb s' d) /\
       (transition_cost pb s' (transition pb s' d) d <= transition_cost pb s (transition pb s d) d)%Z) /\
    (forall L s s', In s L -> cov s s' -> cov (merge rlx L) s') /\
    (forall k s s' h, cov s s' -> H pb k s' = Some h -> (h <= fast_upper_bound rlx s)%Z).

  (* the hypotheses of MddSim.v, section KHolds, as they stand *)
  Definition wf_relaxation_strong (cov : St -> St -> Prop) : Prop :=
    wf_cover cov /\ (forall src dst mg d c, (c <= relax rlx src dst mg d c)%Z).

  (* the machine-integer variant: costs and relaxed costs are isize, relax does not decrease an isize cost *)
  Definition wf_relaxation_isize (cov : St -> St -> Prop) : Prop :=
    wf_cover cov /\
    (forall s d, in_isize (transition_cost pb s (transition pb s d) d)) /\
    (forall src dst mg d c, in_isize c -> in_isize (relax rlx src dst mg d c)) /\
    (forall src dst mg d c, in_isize c -> (c <= relax rlx src dst mg d c)%Z).

  Definition wf_relaxation : Prop := exists cov, wf_relaxation_strong cov \/ wf_relaxation_isize cov.
End WfRelaxation.

(* ================================================================== 3. the diagram contracts for Mdd.compile *)
Section Main.
  Context {St : Type}.
  Variable st_eqb : St -> St -> bool.
  Hypothesis st_eqb_spec : forall a b, st_eqb a b = true <-> a = b.
  Variable cfg : @sconfig St.
  Local Notation pb := (sc_problem cfg).
  Local Notation rlx := (sc_relax cfg).
  Local Notation N := (nb_vars (sc_problem cfg)).

  (* ---- configuration *)
  Hypothesis cfg_clean : sc_flavour cfg = CleanLEL \/ sc_flavour cfg = CleanFC.
  Hypothesis cfg_nocache : sc_use_cache cfg = false.
  Hypothesis cfg_nodom : sc_domrule cfg = None.
  Hypothesis cfg_nodup : sc_nodup cfg = false.
  Hypothesis cfg_width : (1 <= sc_width cfg)%nat.
  (* ---- the user's model: static variable order *)
  Hypothesis nv_static : forall k l1 l2, next_variable pb k l1 = next_variable pb k l2.
  Hypothesis nv_some : forall k l, (k < N)%nat -> exists x, next_variable pb k l = Some x.
  Hypothesis nv_none : forall k l, (N <= k)%nat -> next_variable pb k l = None.
  (* ---- the user's model: a well-formed relaxation (section 3c) *)
  Hypothesis Hwf : wf_relaxation cfg.
  (* ---- the user's model: finite domains, bounded objective *)
  Variable D : nat.
  Hypothesis dom_bound : forall x s, (length (domain pb x s) <= D)%nat.
  Variable B : Z.
  Hypothesis HB : 2 * B <= IMAX.
  Hypothesis guard0 : forall ds s' v', frun pb 0 (init_state pb) (init_value pb) ds = Some (s', v') -> - B <= v' <= B.

  Local Notation cfg0 := (with_cutoff cfg 0).
  Local Notation good := (sgood pb).
  Local Notation feas := (sfeasible pb).
  Local Notation bst := (MddSim.best cfg).

  Lemma cfg0_ok : config_ok cfg0.
  Proof. apply config_c_ok0. repeat split; assumption. Qed.

  Lemma cfg_c : config_c cfg.
  Proof. repeat split; assumption. Qed.

  Lemma gguard n : good n -> forall ds s' v',
    frun pb (sp_depth n) (sp_state n) (sp_value n) ds = Some (s', v') -> - B <= v' <= B.
  Proof. apply sgood_guard. exact guard0. Qed.

  Lemma good_pgood n : good n -> MddProgress.good pb n.
  Proof. apply (sgood_good pb B HB guard0). Qed.

  (* ---- KC1: the best exact solution of a completed diagram is a feasible run *)
  Lemma C1 ct n lb c ds polls m :
    good n -> (sp_depth n <= N)%nat ->
    compile st_eqb (mk_input cfg ct n lb) 0 0 c ds polls = (m, Compiled) ->
    forall v, dd_best_exact_value (mk_input cfg ct n lb) m = Some v ->
    exists sol, dd_best_exact_solution (mk_input cfg ct n lb) m = Some sol /\ feas sol v.
  Proof.
    intros Hg Hd Hc v Hv. pose proof (to_zero st_eqb cfg _ _ _ _ _ _ _ Hc) as H0.
    destruct cfg0_ok as (O1 & O2 & O3 & _).
    unfold dd_best_exact_value in Hv. unfold dd_best_exact_solution.
    destruct (m_best_exact m) as [b|] eqn:Eb; [|discriminate]. simpl in Hv. inversion Hv; subst v. simpl.
    destruct (best_exact_solution_genuine st_eqb st_eqb_spec (mk_input cfg ct n lb) cfg_clean 0 0 c ds polls m b Hc Eb)
      as (Hlt & Hcc & _ & Hpath & Hlen).
    pose proof (clean_chain_frun st_eqb st_eqb_spec (mk_input cfg ct n lb) cfg_clean nv_static B HB (gguard n Hg)
                  0 0 c ds polls m b Hc Hcc Hlt) as Hrun.
    pose proof (compile_best_depth st_eqb st_eqb_spec (mk_input cfg0 ct n lb) cfg_clean O1 O2 O3 cfg_width
                  nv_some nv_none Hd 0 0 c ds polls m Compiled b H0 (or_intror Eb)) as HdN.
    change (get_node (mk_input cfg0 ct n lb) m b) with (get_node (mk_input cfg ct n lb) m b) in HdN.
    destruct Hg as (_ & ds0 & G1 & G2 & G3).
    eexists. split; [reflexivity|].
    exists (ds0 ++ rev (chain (mk_input cfg ct n lb) m b)), (n_state (get_node (mk_input cfg ct n lb) m b)).
    split; [|split].
    - rewrite app_length, rev_length, G1, Hlen, HdN. cbn [mk_input ci_root ci_problem with_cutoff sc_problem]. lia.
    - rewrite Hpath. apply Permutation_app; [exact G2|]. apply Permutation_sym, Permutation_rev.
    - rewrite frun_app, G3, G1. exact Hrun.
  Qed.

  (* ---- KC3_good / KC3_depth: cut-set nodes are reached by feasible runs, strictly deeper than the root *)
  Lemma C3_depth n lb c ds polls m :
    (sp_depth n <= N)%nat ->
    compile st_eqb (mk_input cfg Relaxed n lb) 0 0 c ds polls = (m, Compiled) ->
    forall x, In x (drain_cutset (mk_input cfg Relaxed n lb) m) -> (sp_depth n < sp_depth x <= N)%nat.
  Proof.
    intros Hd Hc x Hx. pose proof (to_zero st_eqb cfg _ _ _ _ _ _ _ Hc) as H0.
    destruct cfg0_ok as (O1 & O2 & O3 & _).
    exact (cutset_depth st_eqb st_eqb_spec (mk_input cfg0 Relaxed n lb) cfg_clean O1 O2 O3 cfg_width
             nv_some nv_none Hd 0 0 c ds polls m Compiled x eq_refl H0 Hx).
  Qed.

  Lemma C3_good n lb c ds polls m :
    good n -> (sp_depth n <= N)%nat ->
    compile st_eqb (mk_input cfg Relaxed n lb) 0 0 c ds polls = (m, Compiled) ->
    forall x, In x (drain_cutset (mk_input cfg Relaxed n lb) m) -> good x.
  Proof.
    intros Hg Hd Hc x Hx.
    destruct (C3_depth n lb c ds polls m Hd Hc x Hx) as [_ HxN].
    destruct (cutset_nodes_exact st_eqb st_eqb_spec (mk_input cfg Relaxed n lb) cfg_clean 0 0 c ds polls m x Hc Hx)
      as (id & _ & Hlt & _ & Hcc & Hpath & Hst & Hval & _ & _ & Hlen).
    pose proof (clean_chain_frun st_eqb st_eqb_spec (mk_input cfg Relaxed n lb) cfg_clean nv_static B HB (gguard n Hg)
                  0 0 c ds polls m id Hc Hcc Hlt) as Hrun.
    destruct Hg as (_ & ds0 & G1 & G2 & G3).
    split; [exact HxN|].
    exists (ds0 ++ rev (chain (mk_input cfg Relaxed n lb) m id)). split; [|split].
    - rewrite app_length, rev_length, G1, Hlen. reflexivity.
    - rewrite Hpath. apply Permutation_app; [exact G2|]. apply Permutation_sym, Permutation_rev.
    - rewrite frun_app, G3, G1, Hst, Hval. exact Hrun.
  Qed.

  (* ---- KC2 / KC3_ub / KC4: the simulation contracts of MddSim.v (section 3b) *)
  Lemma C2 ct n lb c ds polls m :
    dd_ct ct -> good n -> (sp_depth n <= N)%nat ->
    compile st_eqb (mk_input cfg ct n lb) 0 0 c ds polls = (m, Compiled) ->
    dd_is_exact m = true ->
    forall o, bst n = Some o -> o > lb -> dd_best_exact_value (mk_input cfg ct n lb) m = Some o.
  Proof.
    destruct Hwf as (cov & [((W1 & W2 & W3 & W4) & W5) | ((W1 & W2 & W3 & W4) & W5 & W6 & W7)]).
    - exact (C2_strong st_eqb st_eqb_spec cfg cfg_clean cfg_nocache cfg_nodom cfg_width nv_static nv_some nv_none
               cov W1 W2 W3 W4 B HB guard0 W5 ct n lb c ds polls m).
    - exact (C2_sat st_eqb st_eqb_spec cfg cfg_clean cfg_nocache cfg_nodom cfg_width nv_static nv_some nv_none
               cov W1 W2 W3 W4 W5 W6 W7 B HB guard0 ct n lb c ds polls m).
  Qed.

  Lemma C3_ub n lb c ds polls m :
    good n -> (sp_depth n <= N)%nat ->
    compile st_eqb (mk_input cfg Relaxed n lb) 0 0 c ds polls = (m, Compiled) ->
    dd_is_exact m = false ->
    forall x, In x (drain_cutset (mk_input cfg Relaxed n lb) m) ->
    forall o, bst x = Some o -> o > lb -> o <= sp_ub x.
  Proof.
    destruct Hwf as (cov & [((W1 & W2 & W3 & W4) & W5) | ((W1 & W2 & W3 & W4) & W5 & W6 & W7)]).
    - exact (C3_ub_strong st_eqb st_eqb_spec cfg cfg_clean cfg_nocache cfg_nodom cfg_width nv_static nv_some nv_none
               cov W1 W2 W3 W4 B HB guard0 W5 n lb c ds polls m).
    - exact (C3_ub_sat st_eqb st_eqb_spec cfg cfg_clean cfg_nocache cfg_nodom cfg_width nv_static nv_some nv_none
               cov W1 W2 W3 W4 W5 W6 W7 B HB guard0 n lb c ds polls m).
  Qed.

  Lemma C4 n lb c ds polls m :
    good n -> (sp_depth n <= N)%nat ->
    compile st_eqb (mk_input cfg Relaxed n lb) 0 0 c ds polls = (m, Compiled) ->
    dd_is_exact m = false ->
    forall o, bst n = Some o -> o > lb ->
    (forall e, dd_best_exact_value (mk_input cfg Relaxed n lb) m = Some e -> e < o) ->
    exists x, In x (drain_cutset (mk_input cfg Relaxed n lb) m) /\ bst x = Some o.
  Proof.
    destruct Hwf as (cov & [((W1 & W2 & W3 & W4) & W5) | ((W1 & W2 & W3 & W4) & W5 & W6 & W7)]).
    - exact (C4_strong st_eqb st_eqb_spec cfg cfg_clean cfg_nocache cfg_nodom cfg_width nv_static nv_some nv_none
               cov W1 W2 W3 W4 B HB guard0 W5 n lb c ds polls m).
    - exact (C4_sat st_eqb st_eqb_spec cfg cfg_clean cfg_nocache cfg_nodom cfg_width nv_static nv_some nv_none
               cov W1 W2 W3 W4 W5 W6 W7 B HB guard0 n lb c ds polls m).
  Qed.

  (* ---- K5: size of the cut-set *)
  Lemma C5 n lb c ds polls m :
    (sp_depth n <= N)%nat ->
    compile st_eqb (mk_input cfg Relaxed n lb) 0 0 c ds polls = (m, Compiled) ->
    (length (drain_cutset (mk_input cfg Relaxed n lb) m) <= Kbound cfg D)%nat.
  Proof.
    intros Hd Hc. pose proof (to_zero st_eqb cfg _ _ _ _ _ _ _ Hc) as H0.
    destruct cfg0_ok as (O1 & O2 & O3 & _).
    exact (cutset_size_bound st_eqb st_eqb_spec (mk_input cfg0 Relaxed n lb) cfg_clean O1 O2 O3 cfg_width
             nv_some nv_none Hd D dom_bound 0 0 c ds polls m Compiled eq_refl H0).
  Qed.

  (* ---- KC_crash: no compilation crashes, whatever its outcome *)
  Lemma C_crash ct n lb c ds polls m out :
    (sp_depth n <= N)%nat ->
    compile st_eqb (mk_input cfg ct n lb) 0 0 c ds polls = (m, out) -> m_crash m = false.
  Proof.
    intros Hd Hc. destruct cfg0_ok as (O1 & O2 & O3 & _).
    assert (Hcases : out = Compiled \/ out <> Compiled) by (destruct out; [left; reflexivity|right; discriminate..]).
    destruct Hcases as [-> | Hne].
    - pose proof (to_zero st_eqb cfg _ _ _ _ _ _ _ Hc) as H0.
      exact (proj2 (compile_completes st_eqb st_eqb_spec (mk_input cfg0 ct n lb) cfg_clean O1 O2 O3 cfg_width
                      nv_some nv_none Hd 0 0 c ds polls m Compiled H0)).
    - change (mk_input cfg ct n lb) with (set_cutoff (mk_input cfg ct n lb) (sc_cutoff cfg)) in Hc.
      exact (compile_nocrash_cut st_eqb (mk_input cfg ct n lb) cfg_clean cfg_nocache cfg_nodom cfg_width nv_none Hd
               (sc_cutoff cfg) 0 0 c ds polls m out Hc Hne).
  Qed.

  (* ---- the contracts of SolverCutoff.v (any cutoff) *)
  Theorem contracts_hold : contracts st_eqb good bst feas cfg.
  Proof.
    split; [|split; [|split; [|split; [|split; [|split]]]]].
    - intros ct n lb c ds polls m out _ _ Hd Hc. exact (C_crash ct n lb c ds polls m out Hd Hc).
    - intros ct n lb c ds polls m _ Hg Hd Hc. exact (C1 ct n lb c ds polls m Hg Hd Hc).
    - intros ct n lb c ds polls m Hct Hg Hd Hc. exact (C2 ct n lb c ds polls m Hct Hg Hd Hc).
    - intros n lb c ds polls m Hg Hd Hc _. exact (C3_good n lb c ds polls m Hg Hd Hc).
    - intros n lb c ds polls m _ Hd Hc _ x Hx. exact (proj2 (C3_depth n lb c ds polls m Hd Hc x Hx)).
    - intros n lb c ds polls m Hg Hd Hc. exact (C3_ub n lb c ds polls m Hg Hd Hc).
    - intros n lb c ds polls m Hg Hd Hc. exact (C4 n lb c ds polls m Hg Hd Hc).
  Qed.

  (* ---- the abstract-semantics hypotheses *)
  Definition OPTsem : option Z := opt_enum pb.

  Lemma OPT_is_opt_enum : OPT cfg bst = opt_enum pb.
  Proof. unfold OPT, MddSim.best, opt_enum. cbn [root_node sp_value sp_depth sp_state]. symmetry. apply opt_enum_from_H. Qed.

  Lemma good_root : good (root_node cfg).
  Proof. apply sgood_root; reflexivity. Qed.

  Lemma feasible_le_opt sol v : feas sol v -> exists o, OPT cfg bst = Some o /\ v <= o.
  Proof.
    intros (ds & st & H1 & _ & H3).
    destruct (frun_le_H pb nv_static nv_none ds 0%nat _ _ st v H1 H3) as (h & Hh & Hle).
    exists (init_value pb + h). split; [|exact Hle].
    unfold OPT, MddSim.best. cbn [root_node sp_value sp_depth sp_state]. rewrite Hh. reflexivity.
  Qed.

  Lemma opt_in_isize o : OPT cfg bst = Some o -> IMIN < o <= IMAX.
  Proof.
    unfold OPT, MddSim.best. cbn [root_node sp_value sp_depth sp_state].
    destruct (H pb 0 (init_state pb)) as [h|] eqn:Eh; [|discriminate]. simpl. intros E. inversion E; subst o.
    destruct (H_attained pb nv_static nv_some nv_none (N - 0) 0%nat (init_state pb) (init_value pb) h eq_refl
                ltac:(lia) Eh) as (ds & s' & Hr & _).
    pose proof (guard0 ds s' _ Hr). unfold IMIN, IMAX in *. lia.
  Qed.

  Lemma best_set_ub (c : @subproblem St) u : bst (set_ub c u) = bst c.
  Proof. reflexivity. Qed.

  Theorem semantics_hold : semantics good bst feas cfg.
  Proof.
    split; [exact good_root|]. split; [exact feasible_le_opt|]. split; [exact opt_in_isize|].
    split; [intros c u; apply sgood_set_ub|exact best_set_ub].
  Qed.

  (* ================================================================== 4. T3 (C05, sequential): anytime soundness, ANY cutoff *)
  Theorem C05_sequential_anytime : forall fuel primal,
    primal_ok feas primal ->
    let r := maximize st_eqb cfg fuel primal in
    r_outoffuel r = false ->
    r_crash r = false /\
    r_lb r <= r_ub r /\
    (forall o, opt_enum pb = Some o -> r_lb r <= o <= r_ub r) /\
    (opt_enum pb = None -> r_value r = None /\ r_sol r = None) /\
    (forall v, r_value r = Some v ->
       r_lb r = v /\ exists sol, r_sol r = Some (sort_by dec_var_cmp sol) /\ feas sol v /\ MddProgress.feasible pb sol v) /\
    (r_exact r = true -> r_value r = opt_enum pb).
  Proof.
    intros fuel primal Hp r Hf.
    destruct (seq_anytime_sound st_eqb good bst feas cfg cfg_c contracts_hold semantics_hold fuel primal Hp Hf)
      as (A1 & A2 & A3 & A4 & A5).
    pose proof (seq_anytime_lb_le_ub st_eqb good bst feas cfg cfg_c contracts_hold semantics_hold fuel primal Hp Hf) as A6.
    rewrite OPT_is_opt_enum in A2, A3, A5.
    split; [exact A1|]. split; [exact A6|]. split; [exact A2|]. split; [exact A3|]. split; [|exact A5].
    intros v Hv. destruct (A4 v Hv) as (E & sol & S1 & S2). split; [exact E|]. exists sol. split; [exact S1|].
    split; [exact S2|]. apply (sfeasible_feasible pb B HB guard0). exact S2.
  Qed.

  (* ================================================================== 4b. T5, first half (C04): the parallel protocol neither deadlocks nor crashes, ANY cutoff *)
  Lemma HA_nocrash : forall ct n lb c ds polls m out,
    dd_ct ct -> good n -> (sp_depth n <= N)%nat ->
    compile st_eqb (mk_input cfg ct n lb) 0 0 c ds polls = (m, out) -> m_crash m = false.
  Proof. intros ct n lb c ds polls m out _ _ Hd Hc. exact (C_crash ct n lb c ds polls m out Hd Hc). Qed.

  Lemma HA_cut : forall n lb c ds polls m,
    good n -> (sp_depth n <= N)%nat ->
    compile st_eqb (mk_input cfg Relaxed n lb) 0 0 c ds polls = (m, Compiled) ->
    dd_is_exact m = false ->
    forall x, In x (drain_cutset (mk_input cfg Relaxed n lb) m) -> good x /\ (sp_depth x <= N)%nat.
  Proof.
    intros n lb c ds polls m Hg Hd Hc _ x Hx. split; [exact (C3_good n lb c ds polls m Hg Hd Hc x Hx)|].
    exact (proj2 (C3_depth n lb c ds polls m Hd Hc x Hx)).
  Qed.

  Theorem C04_parallel_no_deadlock_no_crash : forall T primal fuel sched,
    pr_end (par_maximize st_eqb cfg fuel T T primal sched) <> PDeadlock /\
    pr_crash (par_maximize st_eqb cfg fuel T T primal sched) = false.
  Proof.
    exact (par_maximize_no_deadlock_no_crash st_eqb cfg cfg_nocache cfg_nodup good good_root
             (fun c u => sgood_set_ub pb c u) HA_nocrash HA_cut).
  Qed.

  Theorem C04_parallel_run_no_deadlock : forall T primal fuel sched s' tr e,
    par_run st_eqb cfg fuel (init_pstate st_eqb cfg T T primal) sched None [] = (s', tr, e) ->
    (e = PFinished \/ e = POutOfFuel) /\ p_crash s' = false.
  Proof.
    intros T primal fuel sched s' tr e H. split.
    - exact (par_no_deadlock st_eqb cfg cfg_nocache cfg_nodup good good_root
               (fun c u => sgood_set_ub pb c u) HA_nocrash HA_cut T primal fuel sched s' tr e H).
    - exact (par_never_crashes st_eqb cfg cfg_nocache cfg_nodup good good_root
               (fun c u => sgood_set_ub pb c u) HA_nocrash HA_cut T primal fuel sched s' tr e H).
  Qed.

  (* ================================================================== 5. no cutoff: the contracts K0 .. K5 of SolverProofs.v / ParProofs.v *)
  Hypothesis cfg_nocut : sc_cutoff cfg = 0%nat.

  Lemma cfg_ok : config_ok cfg.
  Proof. repeat split; assumption. Qed.

  Lemma K0 : forall ct n lb c ds polls m out,
    dd_ct ct -> good n -> (sp_depth n <= N)%nat ->
    compile st_eqb (mk_input cfg ct n lb) 0 0 c ds polls = (m, out) -> out = Compiled /\ m_crash m = false.
  Proof.
    intros ct n lb c ds polls m out _ _ Hd Hc.
    exact (compile_completes st_eqb st_eqb_spec (mk_input cfg ct n lb) cfg_clean cfg_nocache cfg_nodom cfg_nocut cfg_width
             nv_some nv_none Hd 0 0 c ds polls m out Hc).
  Qed.

  Lemma K1 : forall ct n lb c ds polls m out,
    dd_ct ct -> good n -> (sp_depth n <= N)%nat ->
    compile st_eqb (mk_input cfg ct n lb) 0 0 c ds polls = (m, out) ->
    forall v, dd_best_exact_value (mk_input cfg ct n lb) m = Some v ->
    exists sol, dd_best_exact_solution (mk_input cfg ct n lb) m = Some sol /\ feas sol v.
  Proof.
    intros ct n lb c ds polls m out Hct Hg Hd Hc. destruct (K0 _ _ _ _ _ _ _ _ Hct Hg Hd Hc) as [-> _].
    exact (C1 ct n lb c ds polls m Hg Hd Hc).
  Qed.

  Lemma K2 : forall ct n lb c ds polls m out,
    dd_ct ct -> good n -> (sp_depth n <= N)%nat ->
    compile st_eqb (mk_input cfg ct n lb) 0 0 c ds polls = (m, out) ->
    dd_is_exact m = true ->
    forall o, bst n = Some o -> o > lb -> dd_best_exact_value (mk_input cfg ct n lb) m = Some o.
  Proof.
    intros ct n lb c ds polls m out Hct Hg Hd Hc. destruct (K0 _ _ _ _ _ _ _ _ Hct Hg Hd Hc) as [-> _].
    exact (C2 ct n lb c ds polls m Hct Hg Hd Hc).
  Qed.

  Lemma K3_good : forall n lb c ds polls m out,
    good n -> (sp_depth n <= N)%nat ->
    compile st_eqb (mk_input cfg Relaxed n lb) 0 0 c ds polls = (m, out) ->
    dd_is_exact m = false ->
    forall x, In x (drain_cutset (mk_input cfg Relaxed n lb) m) -> good x.
  Proof.
    intros n lb c ds polls m out Hg Hd Hc _.
    destruct (K0 _ _ _ _ _ _ _ _ (or_intror eq_refl) Hg Hd Hc) as [-> _].
    exact (C3_good n lb c ds polls m Hg Hd Hc).
  Qed.

  Lemma K3_depth : forall n lb c ds polls m out,
    good n -> (sp_depth n <= N)%nat ->
    compile st_eqb (mk_input cfg Relaxed n lb) 0 0 c ds polls = (m, out) ->
    dd_is_exact m = false ->
    forall x, In x (drain_cutset (mk_input cfg Relaxed n lb) m) -> (sp_depth n < sp_depth x <= N)%nat.
  Proof.
    intros n lb c ds polls m out Hg Hd Hc _.
    destruct (K0 _ _ _ _ _ _ _ _ (or_intror eq_refl) Hg Hd Hc) as [-> _].
    exact (C3_depth n lb c ds polls m Hd Hc).
  Qed.

  Lemma K3_ub : forall n lb c ds polls m out,
    good n -> (sp_depth n <= N)%nat ->
    compile st_eqb (mk_input cfg Relaxed n lb) 0 0 c ds polls = (m, out) ->
    dd_is_exact m = false ->
    forall x, In x (drain_cutset (mk_input cfg Relaxed n lb) m) ->
    forall o, bst x = Some o -> o > lb -> o <= sp_ub x.
  Proof.
    intros n lb c ds polls m out Hg Hd Hc.
    destruct (K0 _ _ _ _ _ _ _ _ (or_intror eq_refl) Hg Hd Hc) as [-> _].
    exact (C3_ub n lb c ds polls m Hg Hd Hc).
  Qed.

  Lemma K4 : forall n lb c ds polls m out,
    good n -> (sp_depth n <= N)%nat ->
    compile st_eqb (mk_input cfg Relaxed n lb) 0 0 c ds polls = (m, out) ->
    dd_is_exact m = false ->
    forall o, bst n = Some o -> o > lb ->
    (forall e, dd_best_exact_value (mk_input cfg Relaxed n lb) m = Some e -> e < o) ->
    exists x, In x (drain_cutset (mk_input cfg Relaxed n lb) m) /\ bst x = Some o.
  Proof.
    intros n lb c ds polls m out Hg Hd Hc.
    destruct (K0 _ _ _ _ _ _ _ _ (or_intror eq_refl) Hg Hd Hc) as [-> _].
    exact (C4 n lb c ds polls m Hg Hd Hc).
  Qed.

  Lemma K5 : forall n lb c ds polls m out,
    good n -> (sp_depth n <= N)%nat ->
    compile st_eqb (mk_input cfg Relaxed n lb) 0 0 c ds polls = (m, out) ->
    dd_is_exact m = false ->
    (length (drain_cutset (mk_input cfg Relaxed n lb) m) <= Kbound cfg D)%nat.
  Proof.
    intros n lb c ds polls m out Hg Hd Hc _.
    destruct (K0 _ _ _ _ _ _ _ _ (or_intror eq_refl) Hg Hd Hc) as [-> _].
    exact (C5 n lb c ds polls m Hd Hc).
  Qed.

  (* ================================================================== 6. T1 (C01) and T2 (C14): the sequential solver returns the optimum *)
  (* strong form: the returned solution is a feasible run in EXACT integer arithmetic *)
  Theorem C01_sequential_optimal_run :
    exists f0, forall fuel, (f0 <= fuel)%nat ->
      let r := maximize st_eqb cfg fuel None in
      r_crash r = false /\ r_outoffuel r = false /\ r_exact r = true /\ r_value r = opt_enum pb /\
      (forall v, opt_enum pb = Some v ->
         r_lb r = v /\ r_ub r = v /\ exists sol, r_sol r = Some (sort_by dec_var_cmp sol) /\ feas sol v) /\
      (opt_enum pb = None -> r_sol r = None /\ r_lb r = IMIN).
  Proof.
    destruct (seq_solver_correct st_eqb cfg cfg_ok good bst feas good_root feasible_le_opt opt_in_isize
                (fun c u => sgood_set_ub pb c u) best_set_ub (Kbound cfg D) K0 K1 K2 K3_good K3_depth K3_ub K4 K5) as [f0 Hf].
    exists f0. intros fuel Hfuel. specialize (Hf fuel Hfuel). rewrite OPT_is_opt_enum in Hf. exact Hf.
  Qed.

  Theorem C01_sequential_optimal :
    exists f0, forall fuel, (f0 <= fuel)%nat ->
      let r := maximize st_eqb cfg fuel None in
      r_crash r = false /\ r_outoffuel r = false /\ r_exact r = true /\ r_value r = opt_enum pb /\
      (forall v, opt_enum pb = Some v ->
         r_lb r = v /\ r_ub r = v /\
         exists sol, r_sol r = Some (sort_by dec_var_cmp sol) /\ MddProgress.feasible pb sol v) /\
      (opt_enum pb = None -> r_sol r = None /\ r_lb r = IMIN).
  Proof.
    destruct C01_sequential_optimal_run as [f0 Hf]. exists f0. intros fuel Hfuel.
    destruct (Hf fuel Hfuel) as (A1 & A2 & A3 & A4 & A5 & A6).
    split; [exact A1|]. split; [exact A2|]. split; [exact A3|]. split; [exact A4|]. split; [|exact A6].
    intros v Hv. destruct (A5 v Hv) as (E1 & E2 & sol & S1 & S2). split; [exact E1|]. split; [exact E2|].
    exists sol. split; [exact S1|]. apply (sfeasible_feasible pb B HB guard0). exact S2.
  Qed.

  (* the returned solution in exact arithmetic: it replays through DP.replay to the optimum, no saturation *)
  Corollary C01_solution_replays :
    exists f0, forall fuel, (f0 <= fuel)%nat ->
      forall v, opt_enum pb = Some v ->
      exists sol ds st, r_sol (maximize st_eqb cfg fuel None) = Some (sort_by dec_var_cmp sol) /\
        Permutation ds sol /\ length ds = N /\ replay pb ds (init_state pb) (init_value pb) = Some (st, v).
  Proof.
    destruct C01_sequential_optimal_run as [f0 Hf]. exists f0. intros fuel Hfuel v Hv.
    destruct (Hf fuel Hfuel) as (_ & _ & _ & _ & A5 & _).
    destruct (A5 v Hv) as (_ & _ & sol & S1 & S2).
    destruct (sfeasible_replay pb sol v S2) as (ds & st & P1 & P2 & P3).
    exists sol, ds, st. auto.
  Qed.

  (* T2: with a feasible primal solution given to the solver *)
  Theorem C14_primal_run : forall pv psol, feas psol pv ->
    exists f0, forall fuel, (f0 <= fuel)%nat ->
      let r := maximize st_eqb cfg fuel (Some (pv, psol)) in
      r_crash r = false /\ r_outoffuel r = false /\ r_exact r = true /\ r_value r = opt_enum pb /\
      (forall v, opt_enum pb = Some v ->
         r_lb r = v /\ r_ub r = v /\ exists sol, r_sol r = Some (sort_by dec_var_cmp sol) /\ feas sol v) /\
      (opt_enum pb = None -> r_sol r = None /\ r_lb r = IMIN).
  Proof.
    intros pv psol Hp.
    destruct (seq_solver_correct_primal st_eqb cfg cfg_ok good bst feas good_root feasible_le_opt opt_in_isize
                (fun c u => sgood_set_ub pb c u) best_set_ub (Kbound cfg D) K0 K1 K2 K3_good K3_depth K3_ub K4 K5
                pv psol Hp) as [f0 Hf].
    exists f0. intros fuel Hfuel. specialize (Hf fuel Hfuel). rewrite OPT_is_opt_enum in Hf. exact Hf.
  Qed.

  Theorem C14_primal : forall pv psol, feas psol pv ->
    exists f0, forall fuel, (f0 <= fuel)%nat ->
      let r := maximize st_eqb cfg fuel (Some (pv, psol)) in
      r_crash r = false /\ r_outoffuel r = false /\ r_exact r = true /\ r_value r = opt_enum pb /\
      (forall v, opt_enum pb = Some v ->
         r_lb r = v /\ r_ub r = v /\
         exists sol, r_sol r = Some (sort_by dec_var_cmp sol) /\ MddProgress.feasible pb sol v) /\
      (opt_enum pb = None -> r_sol r = None /\ r_lb r = IMIN).
  Proof.
    intros pv psol Hp. destruct (C14_primal_run pv psol Hp) as [f0 Hf]. exists f0. intros fuel Hfuel.
    destruct (Hf fuel Hfuel) as (A1 & A2 & A3 & A4 & A5 & A6).
    split; [exact A1|]. split; [exact A2|]. split; [exact A3|]. split; [exact A4|]. split; [|exact A6].
    intros v Hv. destruct (A5 v Hv) as (E1 & E2 & sol & S1 & S2). split; [exact E1|]. split; [exact E2|].
    exists sol. split; [exact S1|]. apply (sfeasible_feasible pb B HB guard0). exact S2.
  Qed.

  (* ================================================================== 7. T5 (C03 / C04): the parallel protocol, every schedule, every number of workers *)
  Local Ltac par_side :=
    first [ exact cfg_nocache | exact cfg_nodup | exact good_root | exact (fun c u => sgood_set_ub pb c u)
          | exact cfg_nocut | exact cfg_nodom | exact feasible_le_opt | exact opt_in_isize | exact best_set_ub
          | exact K0 | exact K1 | exact K2 | exact K3_good | exact K3_depth | exact K3_ub | exact K4 | exact K5 ].

  Lemma presult_unfold r : presult_ok cfg bst feas r ->
    pr_crash r = false /\ pr_exact r = true /\ pr_value r = opt_enum pb /\
    (forall v, opt_enum pb = Some v ->
       pr_lb r = v /\ pr_ub r = v /\
       exists sol, pr_sol r = Some (sort_by dec_var_cmp sol) /\ feas sol v /\ MddProgress.feasible pb sol v) /\
    (opt_enum pb = None -> pr_sol r = None /\ pr_lb r = IMIN).
  Proof.
    unfold presult_ok. rewrite OPT_is_opt_enum. intros (A1 & A2 & A3 & A4 & A5).
    split; [exact A1|]. split; [exact A2|]. split; [exact A3|]. split; [|exact A5].
    intros v Hv. destruct (A4 v Hv) as (E1 & E2 & sol & S1 & S2). split; [exact E1|]. split; [exact E2|].
    exists sol. split; [exact S1|]. split; [exact S2|]. apply (sfeasible_feasible pb B HB guard0). exact S2.
  Qed.

  (* C04 (termination): every run finishes within fuelP transitions *)
  Theorem C04_parallel_terminates : forall T primal fuel sched,
    (fuelP cfg (Kbound cfg D) T <= fuel)%nat ->
    pr_end (par_maximize st_eqb cfg fuel T T primal sched) = PFinished.
  Proof.
    intros T primal fuel sched Hf.
    apply (par_terminates st_eqb cfg) with (good := good) (M := Kbound cfg D); try par_side. exact Hf.
  Qed.

  (* C03 (partial correctness): every finished run returns the optimum *)
  Theorem C03_parallel_optimal_finished : forall T primal fuel sched,
    (1 <= T)%nat -> primal_okP feas primal ->
    let r := par_maximize st_eqb cfg fuel T T primal sched in
    pr_end r = PFinished ->
    pr_crash r = false /\ pr_exact r = true /\ pr_value r = opt_enum pb /\
    (forall v, opt_enum pb = Some v ->
       pr_lb r = v /\ pr_ub r = v /\
       exists sol, pr_sol r = Some (sort_by dec_var_cmp sol) /\ feas sol v /\ MddProgress.feasible pb sol v) /\
    (opt_enum pb = None -> pr_sol r = None /\ pr_lb r = IMIN).
  Proof.
    intros T primal fuel sched HT Hp r He. apply presult_unfold.
    apply (par_optimal_primal st_eqb cfg) with (good := good); try par_side; assumption.
  Qed.

  (* C03 + C04 (total correctness) *)
  Theorem C03_parallel_optimal : forall T primal fuel sched,
    (1 <= T)%nat -> primal_okP feas primal -> (fuelP cfg (Kbound cfg D) T <= fuel)%nat ->
    let r := par_maximize st_eqb cfg fuel T T primal sched in
    pr_end r = PFinished /\
    pr_crash r = false /\ pr_exact r = true /\ pr_value r = opt_enum pb /\
    (forall v, opt_enum pb = Some v ->
       pr_lb r = v /\ pr_ub r = v /\
       exists sol, pr_sol r = Some (sort_by dec_var_cmp sol) /\ feas sol v /\ MddProgress.feasible pb sol v) /\
    (opt_enum pb = None -> pr_sol r = None /\ pr_lb r = IMIN).
  Proof.
    intros T primal fuel sched HT Hp Hf r.
    pose proof (C04_parallel_terminates T primal fuel sched Hf) as He. split; [exact He|].
    exact (C03_parallel_optimal_finished T primal fuel sched HT Hp He).
  Qed.
End Main.

(* ================================================================== 8. T4 (C19): a later cutoff never gives worse bounds *)
Section Cutoffs.
  Context {St : Type}.
  Variable st_eqb : St -> St -> bool.
  Hypothesis st_eqb_spec : forall a b, st_eqb a b = true <-> a = b.
  Variable cfg : @sconfig St.
  Local Notation pb := (sc_problem cfg).
  Local Notation rlx := (sc_relax cfg).
  Local Notation N := (nb_vars (sc_problem cfg)).
  Hypothesis cfg_clean : sc_flavour cfg = CleanLEL \/ sc_flavour cfg = CleanFC.
  Hypothesis cfg_nocache : sc_use_cache cfg = false.
  Hypothesis cfg_nodom : sc_domrule cfg = None.
  Hypothesis cfg_nodup : sc_nodup cfg = false.
  Hypothesis cfg_width : (1 <= sc_width cfg)%nat.
  Hypothesis nv_static : forall k l1 l2, next_variable pb k l1 = next_variable pb k l2.
  Hypothesis nv_some : forall k l, (k < N)%nat -> exists x, next_variable pb k l = Some x.
  Hypothesis nv_none : forall k l, (N <= k)%nat -> next_variable pb k l = None.
  Hypothesis Hwf : wf_relaxation cfg.
  Variable B : Z.
  Hypothesis HB : 2 * B <= IMAX.
  Hypothesis guard0 : forall ds s' v', frun pb 0 (init_state pb) (init_value pb) ds = Some (s', v') -> - B <= v' <= B.

  Lemma contracts_all k : contracts st_eqb (sgood pb) (MddSim.best cfg) (sfeasible pb) (with_cutoff cfg k).
  Proof.
    exact (contracts_hold st_eqb st_eqb_spec (with_cutoff cfg k) cfg_clean cfg_nocache cfg_nodom cfg_nodup cfg_width
             nv_static nv_some nv_none Hwf B HB guard0).
  Qed.

  Let sem : semantics (sgood pb) (MddSim.best cfg) (sfeasible pb) cfg :=
    semantics_hold cfg cfg_width nv_static nv_some nv_none B HB guard0.
  Let cc : config_c cfg := conj cfg_nocache (conj cfg_nodom cfg_nodup).

  (* R st_eqb cfg k fuel primal = maximize st_eqb (with_cutoff cfg k) fuel primal *)
  Theorem C19_monotone : forall k fuel primal,
    primal_ok (sfeasible pb) primal -> (1 <= k)%nat ->
    r_lb (maximize st_eqb (with_cutoff cfg k) fuel primal) <= r_lb (maximize st_eqb (with_cutoff cfg (S k)) fuel primal) /\
    r_ub (maximize st_eqb (with_cutoff cfg (S k)) fuel primal) <= r_ub (maximize st_eqb (with_cutoff cfg k) fuel primal).
  Proof.
    intros k fuel primal Hp Hk.
    exact (cutoff_monotone st_eqb (sgood pb) (MddSim.best cfg) (sfeasible pb) cfg cc contracts_all sem k fuel primal Hp Hk).
  Qed.

  (* k2 later than k1: 0 < k1 and (k2 = 0 (never) or k1 <= k2) *)
  Theorem C19_monotone_gen : forall k1 k2 fuel primal,
    primal_ok (sfeasible pb) primal -> later k1 k2 ->
    r_lb (maximize st_eqb (with_cutoff cfg k1) fuel primal) <= r_lb (maximize st_eqb (with_cutoff cfg k2) fuel primal) /\
    r_ub (maximize st_eqb (with_cutoff cfg k2) fuel primal) <= r_ub (maximize st_eqb (with_cutoff cfg k1) fuel primal).
  Proof.
    intros k1 k2 fuel primal Hp Hl.
    exact (cutoff_monotone_gen st_eqb (sgood pb) (MddSim.best cfg) (sfeasible pb) cfg cc contracts_all sem k1 k2 fuel primal Hp Hl).
  Qed.

  Theorem C19_eventually_full : forall fuel primal,
    exists K, forall k, (K < k)%nat ->
      maximize st_eqb (with_cutoff cfg k) fuel primal = maximize st_eqb (with_cutoff cfg 0) fuel primal.
  Proof. intros fuel primal. exact (cutoff_eventually_full st_eqb cfg cc fuel primal). Qed.
End Cutoffs.

(* ================================================================== 9. T1 with every premise spelled out
   (a) the hypotheses of MddSim.v exactly as stated there; (b) the machine-integer variant *)
Section Explicit.
  Context {St : Type}.
  Variable st_eqb : St -> St -> bool.
  Hypothesis st_eqb_spec : forall a b, st_eqb a b = true <-> a = b.
  Variable cfg : @sconfig St.
  Local Notation pb := (sc_problem cfg).
  Local Notation rlx := (sc_relax cfg).
  Local Notation N := (nb_vars (sc_problem cfg)).
  Hypothesis cfg_clean : sc_flavour cfg = CleanLEL \/ sc_flavour cfg = CleanFC.
  Hypothesis cfg_nocache : sc_use_cache cfg = false.
  Hypothesis cfg_nodom : sc_domrule cfg = None.
  Hypothesis cfg_nodup : sc_nodup cfg = false.
  Hypothesis cfg_width : (1 <= sc_width cfg)%nat.
  Hypothesis cfg_nocut : sc_cutoff cfg = 0%nat.
  Hypothesis nv_static : forall k l1 l2, next_variable pb k l1 = next_variable pb k l2.
  Hypothesis nv_some : forall k l, (k < N)%nat -> exists x, next_variable pb k l = Some x.
  Hypothesis nv_none : forall k l, (N <= k)%nat -> next_variable pb k l = None.
  Variable cov : St -> St -> Prop.
  Hypothesis cov_refl : forall s, cov s s.
  Hypothesis cov_sim : forall s s' x v, cov s s' -> In v (domain pb x s') ->
    let d := {| d_var := x; d_val := v |} in
    In v (domain pb x s) /\ cov (transition pb s d) (transition pb s' d) /\
    (transition_cost pb s' (transition pb s' d) d <= transition_cost pb s (transition pb s d) d)%Z.
  Hypothesis merge_cov : forall L s s', In s L -> cov s s' -> cov (merge rlx L) s'.
  Hypothesis rub_adm : forall k s s' h, cov s s' -> H pb k s' = Some h -> (h <= fast_upper_bound rlx s)%Z.
  Variable D : nat.
  Hypothesis dom_bound : forall x s, (length (domain pb x s) <= D)%nat.
  Variable B : Z.
  Hypothesis HB : 2 * B <= IMAX.
  Hypothesis guard0 : forall ds s' v', frun pb 0 (init_state pb) (init_value pb) ds = Some (s', v') -> - B <= v' <= B.

  Lemma wf_cover_intro : wf_cover cfg cov.
  Proof. split; [exact cov_refl|]. split; [exact cov_sim|]. split; [exact merge_cov|exact rub_adm]. Qed.

  Theorem C01_sequential_optimal_explicit :
    (forall src dst mg d c, (c <= relax rlx src dst mg d c)%Z) ->
    exists f0, forall fuel, (f0 <= fuel)%nat ->
      let r := maximize st_eqb cfg fuel None in
      r_crash r = false /\ r_outoffuel r = false /\ r_exact r = true /\ r_value r = opt_enum pb /\
      (forall v, opt_enum pb = Some v ->
         r_lb r = v /\ r_ub r = v /\
         exists sol, r_sol r = Some (sort_by dec_var_cmp sol) /\ MddProgress.feasible pb sol v) /\
      (opt_enum pb = None -> r_sol r = None /\ r_lb r = IMIN).
  Proof.
    intros relax_ge.
    apply (C01_sequential_optimal st_eqb st_eqb_spec cfg cfg_clean cfg_nocache cfg_nodom cfg_nodup cfg_width
             nv_static nv_some nv_none) with (D := D) (B := B); try assumption.
    exists cov. left. split; [exact wf_cover_intro|exact relax_ge].
  Qed.

  Theorem C01_sequential_optimal_isize :
    (forall s d, in_isize (transition_cost pb s (transition pb s d) d)) ->
    (forall src dst mg d c, in_isize c -> in_isize (relax rlx src dst mg d c)) ->
    (forall src dst mg d c, in_isize c -> (c <= relax rlx src dst mg d c)%Z) ->
    exists f0, forall fuel, (f0 <= fuel)%nat ->
      let r := maximize st_eqb cfg fuel None in
      r_crash r = false /\ r_outoffuel r = false /\ r_exact r = true /\ r_value r = opt_enum pb /\
      (forall v, opt_enum pb = Some v ->
         r_lb r = v /\ r_ub r = v /\
         exists sol, r_sol r = Some (sort_by dec_var_cmp sol) /\ MddProgress.feasible pb sol v) /\
      (opt_enum pb = None -> r_sol r = None /\ r_lb r = IMIN).
  Proof.
    intros cost_isize relax_isize relax_ge_isize.
    apply (C01_sequential_optimal st_eqb st_eqb_spec cfg cfg_clean cfg_nocache cfg_nodom cfg_nodup cfg_width
             nv_static nv_some nv_none) with (D := D) (B := B); try assumption.
    exists cov. right. split; [exact wf_cover_intro|]. split; [exact cost_isize|]. split; [exact relax_isize|exact relax_ge_isize].
  Qed.
End Explicit.

(* ================================================================== 10. why the theorems are stated with feasible RUNS
   MddProgress.good / MddProgress.feasible replay a decision sequence through the model WITHOUT looking at the order of
   the variables.  A guard on the feasible runs (variables in the static order) says nothing of such replays, so
     "MddProgress.feasible pb sol v -> sol replays through DP.replay to v"       and
     "MddProgress.feasible pb sol v -> v <= optimum"   (hypothesis feasible_le_opt of SolverProofs.v)
   are both FALSE in general: in the model below (2 variables, order 0, 1, all costs 0, except a variable 7 that is
   never branched on and costs IMAX) every feasible run has value 0, yet [7 := 0; 7 := 0] is MddProgress.feasible with
   the saturated value IMAX, exceeds the optimum 0, and replays exactly to 2 * IMAX.
   What does hold: sfeasible -> MddProgress.feasible (sfeasible_feasible), sfeasible -> DP.replay (sfeasible_replay),
   and a MddProgress-style replay whose decisions follow the variable order is a feasible run (replay_sat_frun). *)
Section OrderMatters.
  Definition pbX : problem unit := {|
    nb_vars := 2; init_state := tt; init_value := 0;
    transition := fun _ _ => tt;
    transition_cost := fun _ _ d => if Nat.eqb (d_var d) 7 then IMAX else 0;
    next_variable := fun k _ => if Nat.ltb k 2 then Some k else None;
    domain := fun _ _ => [0];
    is_impacted_by := fun _ _ => true |}.
  Definition d7 : decision := {| d_var := 7; d_val := 0 |}.

  Lemma pbX_runs : forall ds k s v s' v', frun pbX k s v ds = Some (s', v') -> v' = v.
  Proof.
    induction ds as [|d ds IH]; intros k s v s' v' H; simpl in H; [inversion H; reflexivity|].
    destruct (var_ok pbX k d) eqn:Ev; simpl in H; [|discriminate].
    destruct (in_domain pbX s d); [|discriminate].
    apply IH in H. subst v'.
    unfold var_ok in Ev. cbn [next_variable pbX] in Ev.
    destruct (Nat.ltb_spec k 2) as [Hk|Hk]; [|discriminate]. apply Nat.eqb_eq in Ev.
    cbn [transition_cost pbX]. rewrite <- Ev.
    destruct k as [|[|k]]; [simpl; lia|simpl; lia|lia].
  Qed.

  Lemma pbX_guard : forall ds s' v', frun pbX 0 (init_state pbX) (init_value pbX) ds = Some (s', v') -> - 0 <= v' <= 0.
  Proof. intros ds s' v' H. apply pbX_runs in H. subst. simpl. lia. Qed.

  Lemma pbX_opt : opt_enum pbX = Some 0.
  Proof. vm_compute. reflexivity. Qed.

  Lemma pbX_feasible : MddProgress.feasible pbX [d7; d7] IMAX.
  Proof. exists [d7; d7], tt. split; [reflexivity|]. split; [apply Permutation_refl|]. vm_compute. reflexivity. Qed.

  Lemma pbX_not_le_opt : ~ (exists o, opt_enum pbX = Some o /\ IMAX <= o).
  Proof. intros (o & Ho & Hle). rewrite pbX_opt in Ho. inversion Ho; subst. unfold IMAX in Hle. lia. Qed.

  Lemma pbX_no_replay :
    ~ exists ds st, Permutation ds [d7; d7] /\ length ds = nb_vars pbX /\
                    replay pbX ds (init_state pbX) (init_value pbX) = Some (st, IMAX).
  Proof.
    intros (ds & st & HP & _ & HR).
    apply (Permutation_repeat d7 2) in HP. subst ds. vm_compute in HR. discriminate.
  Qed.
End OrderMatters.

(* ------------------------------------------------------------------ assumptions *)
Print Assumptions C01_sequential_optimal.
Print Assumptions C01_sequential_optimal_run.
Print Assumptions C01_solution_replays.
Print Assumptions C14_primal.
Print Assumptions C14_primal_run.
Print Assumptions C05_sequential_anytime.
Print Assumptions C19_monotone.
Print Assumptions C19_monotone_gen.
Print Assumptions C19_eventually_full.
Print Assumptions C03_parallel_optimal.
Print Assumptions C03_parallel_optimal_finished.
Print Assumptions C04_parallel_terminates.
Print Assumptions C04_parallel_no_deadlock_no_crash.
Print Assumptions C04_parallel_run_no_deadlock.
Print Assumptions C01_sequential_optimal_explicit.
Print Assumptions C01_sequential_optimal_isize.
Print Assumptions clip_compile.
Print Assumptions pbX_no_replay.
Print Assumptions contracts_hold.
Print Assumptions semantics_hold.
