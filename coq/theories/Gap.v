(* Gap.v — model of Solver::gap (ddo/src/abstraction/solver.rs) in IEEE-754 binary32 (Flocq).

   Rust (after the fix commit, see KNOWN_FINDINGS.json "fixed: property=C17"):
       if ub == isize::MAX || lb == isize::MIN { 1.0 }
       else if ub == lb { 0.0 }
       else { let aub = ub.abs(); let alb = lb.abs(); let u = aub.max(alb);
              ub.abs_diff(lb) as f32 / u as f32 }
   [gap_old] is the code as it was before the fix (kept for the refutation witnesses).
   `as f32` on an integer is round-to-nearest-even: [binary_normalize mode_NE z 0 false]. *)
From Coq Require Import ZArith Reals Lia Lra.
From Flocq Require Import Core BinarySingleNaN.
Require Import DDO.Base.
Open Scope Z_scope.

Definition prec : Z := 24.
Definition emax : Z := 128.
Lemma Hprec : Prec_gt_0 prec. Proof. unfold Prec_gt_0, prec; lia. Qed.
Lemma Hmax : Prec_lt_emax prec emax. Proof. unfold Prec_lt_emax, prec, emax; lia. Qed.
#[global] Existing Instance Hprec.
#[global] Existing Instance Hmax.

Definition f32 := binary_float prec emax.
Definition of_int (z : Z) : f32 := binary_normalize prec emax Hprec Hmax mode_NE z 0 false.
Definition fdiv (x y : f32) : f32 := @Bdiv prec emax Hprec Hmax mode_NE x y.
Definition f_one : f32 := of_int 1.
Definition f_zero : f32 := B754_zero false.

Definition gap (lb ub : Z) : f32 :=
  if (ub =? IMAX) || (lb =? IMIN) then f_one
  else if ub =? lb then f_zero
  else fdiv (of_int (Z.abs (ub - lb))) (of_int (Z.max (Z.abs ub) (Z.abs lb))).

(* the code before the fix: (u - l) as f32 / u as f32 with u,l = max,min of the absolute values *)
Definition gap_old (lb ub : Z) : f32 :=
  if (ub =? IMAX) || (lb =? IMIN) then f_one
  else let u := Z.max (Z.abs ub) (Z.abs lb) in
       let l := Z.min (Z.abs ub) (Z.abs lb) in
       fdiv (of_int (u - l)) (of_int u).

(* -------------------------------------------------------------- proofs *)
Local Notation fexp := (FLT_exp (3 - emax - prec) prec).
Local Notation rnd := (round radix2 fexp (round_mode mode_NE)).

Lemma fmt_bpow e : -149 <= e -> generic_format radix2 fexp (bpow radix2 e).
Proof.
  intros He. apply generic_format_bpow. unfold FLT_exp, emax, prec. lia.
Qed.

Lemma rnd_le x y : (x <= y)%R -> (rnd x <= rnd y)%R.
Proof. apply round_le; auto with typeclass_instances. Qed.

Lemma rnd_bpow e : -149 <= e -> rnd (bpow radix2 e) = bpow radix2 e.
Proof. intros; apply round_generic; auto with typeclass_instances. now apply fmt_bpow. Qed.

Lemma IZR_pow2 k : 0 <= k -> IZR (2 ^ k) = bpow radix2 k.
Proof. intros Hk. rewrite <- (IZR_Zpower radix2 k Hk). reflexivity. Qed.

(* conversion of a positive integer not above 2^64 *)
Lemma of_int_pos z : 1 <= z <= 2 ^ 64 ->
  B2R (of_int z) = rnd (IZR z) /\ is_finite (of_int z) = true /\ Bsign (of_int z) = false /\
  (1 <= B2R (of_int z) <= bpow radix2 64)%R.
Proof.
  intros [Hlo Hhi].
  assert (Hx : F2R (Float radix2 z 0) = IZR z).
  { unfold F2R; simpl. lra. }
  assert (Hr1 : (1 <= rnd (IZR z))%R).
  { replace 1%R with (rnd (bpow radix2 0)) by (apply rnd_bpow; lia).
    apply rnd_le. simpl. apply IZR_le. lia. }
  assert (Hr2 : (rnd (IZR z) <= bpow radix2 64)%R).
  { rewrite <- (rnd_bpow 64) by lia. apply rnd_le.
    rewrite <- IZR_pow2 by lia. apply IZR_le. lia. }
  generalize (binary_normalize_correct prec emax Hprec Hmax mode_NE z 0 false).
  cbv zeta. rewrite Hx.
  rewrite Rlt_bool_true.
  - intros (H1 & H2 & H3). unfold of_int. rewrite H1, H2, H3.
    repeat split; auto.
    rewrite Rcompare_Gt; auto. apply IZR_lt. lia.
  - rewrite Rabs_pos_eq by (apply Rle_trans with (2 := Hr1); lra).
    apply Rle_lt_trans with (1 := Hr2). apply bpow_lt. unfold emax. lia.
Qed.

Lemma fdiv_pos x y :
  is_finite x = true -> is_finite y = true -> Bsign x = false -> Bsign y = false ->
  (1 <= B2R x <= bpow radix2 64)%R -> (1 <= B2R y <= bpow radix2 64)%R ->
  let q := fdiv x y in
  B2R q = rnd (B2R x / B2R y) /\ is_finite q = true /\ is_nan q = false /\ Bsign q = false /\
  (bpow radix2 (-64) <= B2R q)%R.
Proof.
  intros Fx Fy Sx Sy [Hx1 Hx2] [Hy1 Hy2]. cbv zeta.
  assert (Hy0 : B2R y <> 0%R) by lra.
  assert (Hq1 : (bpow radix2 (-64) <= B2R x / B2R y)%R).
  { unfold Rdiv. replace (bpow radix2 (-64)) with (/ bpow radix2 64)%R by (symmetry; apply (bpow_opp radix2 64)).
    apply Rle_trans with (1 * / bpow radix2 64)%R; [lra|].
    apply Rmult_le_compat; try lra.
    - left. apply Rinv_0_lt_compat. apply bpow_gt_0.
    - apply Rinv_le; lra. }
  assert (Hq2 : (B2R x / B2R y <= bpow radix2 64)%R).
  { unfold Rdiv. apply Rle_trans with (bpow radix2 64 * 1)%R; [|lra].
    apply Rmult_le_compat; try lra.
    - left. apply Rinv_0_lt_compat. lra.
    - rewrite <- Rinv_1. apply Rinv_le; lra. }
  assert (Hr1 : (bpow radix2 (-64) <= rnd (B2R x / B2R y))%R).
  { rewrite <- (rnd_bpow (-64)) by lia. now apply rnd_le. }
  assert (Hr2 : (rnd (B2R x / B2R y) <= bpow radix2 64)%R).
  { rewrite <- (rnd_bpow 64) by lia. now apply rnd_le. }
  assert (Hpos : (0 < bpow radix2 (-64))%R) by apply bpow_gt_0.
  generalize (Bdiv_correct prec emax Hprec Hmax mode_NE x y Hy0).
  rewrite Rlt_bool_true.
  - intros (H1 & H2 & H3). unfold fdiv.
    assert (Hfin : is_finite (Bdiv mode_NE x y) = true) by (rewrite H2; exact Fx).
    assert (Hnan : is_nan (Bdiv mode_NE x y) = false).
    { destruct (Bdiv mode_NE x y); simpl in *; auto; discriminate. }
    rewrite H1. repeat split; auto.
    rewrite (H3 Hnan), Sx, Sy. reflexivity.
  - rewrite Rabs_pos_eq by (apply Rle_trans with (2 := Hr1); lra).
    apply Rle_lt_trans with (1 := Hr2). apply bpow_lt. unfold emax. lia.
Qed.

Definition no_sentinel (lb ub : Z) : Prop := ub <> IMAX /\ lb <> IMIN.

Lemma gap_sentinel lb ub : ub = IMAX \/ lb = IMIN -> gap lb ub = f_one.
Proof.
  unfold gap. intros [H|H]; subst.
  - rewrite Z.eqb_refl. reflexivity.
  - rewrite Z.eqb_refl, orb_true_r. reflexivity.
Qed.

Lemma f_one_val : B2R f_one = 1%R /\ is_finite f_one = true /\ is_nan f_one = false.
Proof.
  destruct (of_int_pos 1) as (H1 & H2 & H3 & H4); [lia|].
  unfold f_one. split; [|split].
  - rewrite H1. change 1%R with (bpow radix2 0). apply rnd_bpow. lia.
  - exact H2.
  - destruct (of_int 1); simpl in *; auto; discriminate.
Qed.

Lemma gap_unfold lb ub : no_sentinel lb ub -> ub <> lb ->
  gap lb ub = fdiv (of_int (Z.abs (ub - lb))) (of_int (Z.max (Z.abs ub) (Z.abs lb))).
Proof.
  intros [H1 H2] H3. unfold gap.
  destruct (Z.eqb_spec ub IMAX); [contradiction|].
  destruct (Z.eqb_spec lb IMIN); [contradiction|].
  destruct (Z.eqb_spec ub lb); [contradiction|]. reflexivity.
Qed.

Lemma gap_coincide lb ub : no_sentinel lb ub -> ub = lb -> gap lb ub = f_zero.
Proof.
  intros [H1 H2] H3. unfold gap.
  destruct (Z.eqb_spec ub IMAX); [contradiction|].
  destruct (Z.eqb_spec lb IMIN); [contradiction|].
  destruct (Z.eqb_spec ub lb); [reflexivity|contradiction].
Qed.

Lemma gap_nonzero_branch lb ub :
  in_isize lb -> in_isize ub -> no_sentinel lb ub -> ub <> lb ->
  let g := gap lb ub in
  is_finite g = true /\ is_nan g = false /\ Bsign g = false /\ (0 < B2R g)%R /\
  B2R g = rnd (B2R (of_int (Z.abs (ub - lb))) / B2R (of_int (Z.max (Z.abs ub) (Z.abs lb)))).
Proof.
  intros Hlb Hub Hs Hne. cbv zeta. rewrite (gap_unfold _ _ Hs Hne).
  unfold in_isize, IMIN, IMAX in *. destruct Hs as [Hs1 Hs2]. unfold IMAX, IMIN in *.
  destruct (of_int_pos (Z.abs (ub - lb))) as (A1 & A2 & A3 & A4); [lia|].
  destruct (of_int_pos (Z.max (Z.abs ub) (Z.abs lb))) as (B1 & B2 & B3 & B4); [lia|].
  destruct (fdiv_pos _ _ A2 B2 A3 B3 A4 B4) as (Q1 & Q2 & Q3 & Q4 & Q5).
  repeat split; auto.
  apply Rlt_le_trans with (2 := Q5). apply bpow_gt_0.
Qed.

(* ---- the five clauses of C17, for every pair of isize bounds ---- *)

Theorem gap_never_nan lb ub : in_isize lb -> in_isize ub -> is_nan (gap lb ub) = false.
Proof.
  intros Hlb Hub.
  destruct (Z.eq_dec ub IMAX) as [E1|E1]; [rewrite gap_sentinel by auto; apply f_one_val|].
  destruct (Z.eq_dec lb IMIN) as [E2|E2]; [rewrite gap_sentinel by auto; apply f_one_val|].
  destruct (Z.eq_dec ub lb) as [E3|E3].
  - rewrite gap_coincide; [reflexivity|split; auto|auto].
  - apply gap_nonzero_branch; auto. split; auto.
Qed.

Theorem gap_nonneg lb ub : in_isize lb -> in_isize ub ->
  is_finite (gap lb ub) = true /\ (0 <= B2R (gap lb ub))%R /\
  (gap lb ub = B754_zero true -> False).
Proof.
  intros Hlb Hub.
  destruct (Z.eq_dec ub IMAX) as [E1|E1].
  { rewrite gap_sentinel by auto. destruct f_one_val as (H1 & H2 & H3).
    repeat split; auto; [lra|]. intros H. rewrite H in H1. simpl in H1. lra. }
  destruct (Z.eq_dec lb IMIN) as [E2|E2].
  { rewrite gap_sentinel by auto. destruct f_one_val as (H1 & H2 & H3).
    repeat split; auto; [lra|]. intros H. rewrite H in H1. simpl in H1. lra. }
  destruct (Z.eq_dec ub lb) as [E3|E3].
  - rewrite gap_coincide; [|split; auto|auto]. simpl. repeat split; [lra|discriminate].
  - destruct (gap_nonzero_branch lb ub Hlb Hub (conj E1 E2) E3) as (H1 & H2 & H3 & H4 & _).
    repeat split; auto; [lra|]. intros H. rewrite H in H4. simpl in H4. lra.
Qed.

Theorem gap_one_when_infinite lb ub : ub = IMAX \/ lb = IMIN -> B2R (gap lb ub) = 1%R.
Proof. intros H. rewrite gap_sentinel by auto. apply f_one_val. Qed.

Theorem gap_zero_iff lb ub : in_isize lb -> in_isize ub -> no_sentinel lb ub ->
  (B2R (gap lb ub) = 0%R <-> lb = ub).
Proof.
  intros Hlb Hub Hs. split.
  - intros H0. destruct (Z.eq_dec ub lb) as [E|E]; [auto|].
    destruct (gap_nonzero_branch lb ub Hlb Hub Hs E) as (_ & _ & _ & H4 & _). lra.
  - intros ->. rewrite gap_coincide; auto.
Qed.

Theorem gap_le_one_same_sign lb ub : in_isize lb -> in_isize ub -> lb <= ub ->
  (0 <= lb \/ ub <= 0) -> (B2R (gap lb ub) <= 1)%R.
Proof.
  intros Hlb Hub Hle Hsign.
  destruct (Z.eq_dec ub IMAX) as [E1|E1]; [rewrite gap_one_when_infinite by auto; lra|].
  destruct (Z.eq_dec lb IMIN) as [E2|E2]; [rewrite gap_one_when_infinite by auto; lra|].
  destruct (Z.eq_dec ub lb) as [E3|E3].
  { rewrite gap_coincide; [simpl; lra|split; auto|auto]. }
  destruct (gap_nonzero_branch lb ub Hlb Hub (conj E1 E2) E3) as (_ & _ & _ & _ & H5).
  rewrite H5.
  unfold in_isize, IMIN, IMAX in *.
  destruct (of_int_pos (Z.abs (ub - lb))) as (A1 & _ & _ & A4); [lia|].
  destruct (of_int_pos (Z.max (Z.abs ub) (Z.abs lb))) as (B1 & _ & _ & B4); [lia|].
  replace 1%R with (rnd (bpow radix2 0)) by (apply rnd_bpow; lia).
  apply rnd_le. simpl.
  assert (Hxy : (B2R (of_int (Z.abs (ub - lb))) <= B2R (of_int (Z.max (Z.abs ub) (Z.abs lb))))%R).
  { rewrite A1, B1. apply rnd_le. apply IZR_le. lia. }
  apply Rmult_le_reg_r with (B2R (of_int (Z.max (Z.abs ub) (Z.abs lb)))); [lra|].
  unfold Rdiv. rewrite Rmult_assoc, Rinv_l by lra. lra.
Qed.

(* ---- the code before the fix violates the property: refutation witnesses ---- *)
Lemma gap_old_nan_at_zero : is_nan (gap_old 0 0) = true.
Proof. vm_compute. reflexivity. Qed.
Lemma gap_old_zero_while_bounds_differ : gap_old (-5) 5 = B754_zero false.
Proof. vm_compute. reflexivity. Qed.
