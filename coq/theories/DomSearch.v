(* DomSearch.v — property C10 at solver level: the sequential branch-and-bound model (Solver.v) run WITH a
   dominance rule (SimpleDominanceChecker, Dom.v), no cache, SimpleFringe, clean flavours.

   FINDINGS (closed, by vm_compute, section 2)
     C10_refuted_for_admissible_rules   the natural premise "a dominates b (same key, every coordinate >=, value >=
        when values are used) implies value-to-go(a) >= value-to-go(b)" does NOT make the solver return the optimum:
        instance cyc_ti (6 variables, 18 base states, use_value = true, coordinate 0 = the exact value-to-go,
        coordinate 1 = a free tag), CleanLEL, width 2: maximize returns 6 with is_exact = true, the optimum is 11
        (without the rule: 11).  The same run was reproduced on the Rust code.  Mechanism: a relaxed compilation
        records exact nodes lying BELOW its cut-set (and a restricted one records nodes it then truncates); such an
        entry is a promise that only the cut-set ancestor keeps; another sub-problem may record a node dominating
        an intermediate node of that ancestor's path while its own continuation is dropped because of the promised
        entry: both optimal runs are lost, each pruning being justified by value-to-go admissibility.
     C10_refuted_without_values   with use_value = false the checker compares states only and prunes nodes of LARGER
        value: a state-only admissibility premise is refuted on a 2-variable instance (returns 1, optimum 10).

   POSITIVE RESULT
     premise [opt_undominated]: no reachable (state, value) pair whose best completion is the optimum is STRICTLY
     dominated (same key) by a reachable pair of the same depth.  It follows from [strictly_admissible]
     (strict dominance implies a strictly better best completion), which is what the generators' one-coordinate
     rule (coordinate 0 = value-to-go, use_value = true) satisfies.
     Section 3: the solver-level induction from per-compilation contracts KD0..KD5 (stated for the optimum only,
     with a store invariant threaded through the compilations): dom_maximize_correct. *)
Require Import DDO.Base DDO.Fringe DDO.DP DDO.Cache DDO.Dom DDO.DomProofs DDO.Mdd DDO.MddStruct DDO.MddExact.
Require Import DDO.Solver DDO.SolverProofs DDO.MddProgress DDO.MddSim DDO.Table DDO.Run DDO.Assembly DDO.TableWf.
From Coq Require Import Lia List Arith ZArith Bool Permutation.
Import ListNotations.
Local Open Scope Z_scope.

(* ================================================================== 1. the premises on the user's rule *)
Section Premises.
  Context {St : Type}.
  Variable pb : problem St.
  Variable key : St -> option Z.
  Variable nd : nat.
  Variable coord : St -> nat -> Z.
  Variable usev : bool.

  Definition same_key (a b : St) : Prop := exists k, key a = Some k /\ key b = Some k.

  (* (a, va) is reached by a feasible run of d decisions from the root of the problem *)
  Definition reach (d : nat) (a : St) (va : Z) : Prop :=
    exists ds, frun pb 0 (init_state pb) (init_value pb) ds = Some (a, va) /\ length ds = d.

  (* the checker's verdict "(a, va) strictly dominates (b, vb)" (DomProofs.partial_cmp_Lt_iff) *)
  Definition sdom (a : St) (va : Z) (b : St) (vb : Z) : Prop :=
    le_all nd coord usev b vb a va /\ ~ le_all nd coord usev a va b vb.

  (* the natural premise: dominance on the coordinates implies dominance of the values-to-go, for ALL states and
     depths (REFUTED below; a fortiori its restrictions to reachable states are refuted) *)
  Definition admissible_H : Prop :=
    forall d a b, same_key a b -> (forall i, (i < nd)%nat -> coord b i <= coord a i) ->
    forall h, H pb d b = Some h -> exists h', H pb d a = Some h' /\ h <= h'.

  (* strict dominance implies a strictly better best completion, on reachable pairs *)
  Definition strictly_admissible : Prop :=
    forall d a va b vb, reach d a va -> reach d b vb -> same_key a b -> sdom a va b vb ->
    forall h, H pb d b = Some h -> exists h', H pb d a = Some h' /\ vb + h < va + h'.

  (* what the proof uses: a pair whose best completion is the optimum is never strictly dominated *)
  Definition opt_undominated : Prop :=
    forall o, opt_enum pb = Some o ->
    forall d a va b vb, reach d a va -> reach d b vb -> same_key a b -> sdom a va b vb ->
    forall h, H pb d b = Some h -> vb + h < o.
End Premises.

(* ================================================================== 2. the refutations *)
Lemma main_loop_more {St} (st_eqb : St -> St -> bool) cfg : forall fuel s s',
  main_loop st_eqb cfg fuel s = (s', Finished) -> forall k, main_loop st_eqb cfg (fuel + k) s = (s', Finished).
Proof.
  induction fuel as [|fuel IH]; intros s s' Hm k; [cbn [main_loop] in Hm; discriminate|].
  cbn [Nat.add main_loop] in Hm |- *. destruct (s_crash s); [exact Hm|].
  destruct (get_workload st_eqb cfg s) as [s1 w]. destruct w as [| |node]; try exact Hm.
  destruct (process_one_node st_eqb cfg s1 node) as [s2 err]. destruct err; [exact Hm|]. apply IH. exact Hm.
Qed.

Lemma maximize_more {St} (st_eqb : St -> St -> bool) cfg fuel primal :
  r_outoffuel (maximize st_eqb cfg fuel primal) = false ->
  forall k, maximize st_eqb cfg (fuel + k) primal = maximize st_eqb cfg fuel primal.
Proof.
  unfold maximize. intros Hf k.
  destruct (main_loop st_eqb cfg fuel _) as [s e] eqn:Hm. destruct e; [|cbn [r_outoffuel] in Hf; discriminate].
  rewrite (main_loop_more st_eqb cfg fuel _ s Hm k). reflexivity.
Qed.

(* ---- 2a. use_value = true, the rule is admissible for the values-to-go, the optimum is lost
   base states: 0 root | 1 A, 2 B | 3 y, 4 c', 5 c | 8 e1, 9 mu | 10 w, 11 nu | 12 q1, 13 w2, 14 nu2, 15 p1, 16 p2 | 17 t
   two optimal runs (value 11):  0 -> A -> c -> mu -> nu -> nu2 -> t   and   0 -> B -> y -> e1 -> w -> w2 -> t
   rule: keys 3 (e1, mu) and 4 (w, nu); coordinates (value-to-go, tag): e1 = (10,1) > mu = (10,0); nu = (10,1) > w = (10,0).
   Width 2, last-exact-layer cut-sets.  The root's relaxed diagram has cut-set {A, B} (layer 2 = {c, c', y} is merged into
   c and {c', y}); below it, mu and nu are still exact and are RECORDED in the store.  B is popped first: e1 replaces mu in
   the store, then w is dropped because of nu: the diagram of B is empty, hence exact.  Then A: mu is dropped because of e1:
   empty, exact.  The fringe is empty and the incumbent is the 6 found by the root's restricted diagram. *)
Definition cyc_ti : tinst := {|
  t_nvars := 6; t_nbase := 18; t_init := 0; t_initval := 0; t_slack := 0; t_rubkind := 0; t_domkind := 1;
  t_usevalue := true; t_ncoord := 2; t_order := [0; 1; 2; 3; 4; 5]%nat;
  t_trans := [ (0%nat, 0, 0, 1, 0); (0%nat, 0, 1, 2, 0);
               (1%nat, 1, 0, 5, 0); (1%nat, 1, 1, 4, 0); (1%nat, 2, 0, 3, 0);
               (2%nat, 5, 0, 9, 1); (2%nat, 3, 0, 8, 1);
               (3%nat, 9, 0, 11, 0); (3%nat, 8, 0, 10, 0);
               (4%nat, 11, 0, 14, 0); (4%nat, 11, 1, 15, 5); (4%nat, 11, 2, 16, 5); (4%nat, 10, 0, 13, 0); (4%nat, 10, 1, 12, 5);
               (5%nat, 14, 0, 17, 10); (5%nat, 15, 0, 17, 0); (5%nat, 16, 0, 17, 0); (5%nat, 13, 0, 17, 10); (5%nat, 12, 0, 17, 0) ];
  t_notimp := []; t_rub := [];
  t_key := [-1; -1; -1; -1; -1; -1; -1; -1; 3; 3; 4; 4; -1; -1; -1; -1; -1; -1];
  t_coords := [[0;0];[0;0];[0;0];[0;0];[0;0];[0;0];[0;0];[0;0];[10;1];[10;0];[10;0];[10;1];[0;0];[0;0];[0;0];[0;0];[0;0];[0;0]];
  t_mergekind := 0; t_pos := []; t_up := [] |}.

Example cyc_wf : t_wf cyc_ti 10.
Proof. apply t_wfb_spec. vm_compute. reflexivity. Qed.

Example cyc_opt : opt_enum (t_problem cyc_ti) = Some 11.
Proof. vm_compute. reflexivity. Qed.

Lemma small_Z_cases (x : Z) (n : nat) : 0 <= x < Z.of_nat n -> In x (map Z.of_nat (seq 0 n)).
Proof.
  intros Hx. apply in_map_iff. exists (Z.to_nat x). split; [lia|]. apply in_seq. lia.
Qed.

Lemma cyc_keyed s k : t_key_of cyc_ti s = Some k ->
  ((s = [8] \/ s = [9]) /\ k = 3) \/ ((s = [10] \/ s = [11]) /\ k = 4).
Proof.
  destruct s as [|x [|y r]]; cbn [t_key_of]; try discriminate.
  destruct (Z_lt_le_dec x 0) as [Hneg|Hpos].
  { destruct x as [|p|p]; try lia. cbn. discriminate. }
  destruct (Z_lt_le_dec x 18) as [Hlt|Hge].
  - pose proof (small_Z_cases x 18 (conj Hpos Hlt)) as Hin. cbn in Hin.
    repeat (destruct Hin as [<-|Hin]; [cbn; first [discriminate | intros E; inversion E; subst; tauto]|]). destruct Hin.
  - rewrite nth_overflow by (cbn [t_key cyc_ti length]; lia). cbn. discriminate.
Qed.

Lemma cyc_admissible : admissible_H (t_problem cyc_ti) (t_key_of cyc_ti) 2 (t_coord cyc_ti).
Proof.
  intros d a b (k & Ka & Kb) _ h Hh.
  assert (Hpair : (In a [[8];[9]] /\ In b [[8];[9]]) \/ (In a [[10];[11]] /\ In b [[10];[11]])).
  { apply cyc_keyed in Ka. apply cyc_keyed in Kb. cbn [In].
    destruct Ka as [[Ha ->]|[Ha ->]], Kb as [[Hb E]|[Hb E]]; try discriminate; [left|right]; intuition. }
  destruct (le_lt_dec 6 d) as [Hge|Hlt].
  { rewrite (H_end (t_problem cyc_ti) (TableWf.nv_none cyc_ti eq_refl) d b Hge) in Hh. inversion Hh; subst h.
    exists 0. split; [apply (H_end (t_problem cyc_ti) (TableWf.nv_none cyc_ti eq_refl) d a Hge)|lia]. }
  assert (Hd : In d (seq 0 6)) by (apply in_seq; lia). cbn in Hd.
  destruct Hpair as [[Ha Hb]|[Ha Hb]]; cbn [In] in Ha, Hb;
    repeat (destruct Ha as [<-|Ha]; [|]); try contradiction;
    repeat (destruct Hb as [<-|Hb]; [|]); try contradiction;
    repeat (destruct Hd as [<-|Hd]; [|]); try contradiction;
    vm_compute in Hh; try discriminate; inversion Hh; subst h; exists 10; (split; [vm_compute; reflexivity|lia]).
Qed.

Definition run_view (r : sresult) := (r_crash r, r_outoffuel r, r_exact r, r_value r, r_lb r, r_ub r).

Theorem C10_refuted_for_admissible_rules :
  t_wf cyc_ti 10 /\
  sc_domrule (tb_sconfig cyc_ti CleanLEL false false true 2 0) = Some (t_key_of cyc_ti, 2%nat, t_coord cyc_ti, true) /\
  admissible_H (t_problem cyc_ti) (t_key_of cyc_ti) 2 (t_coord cyc_ti) /\
  opt_enum (t_problem cyc_ti) = Some 11 /\
  (forall fuel, (40 <= fuel)%nat ->
     run_view (maximize tstate_eqb (tb_sconfig cyc_ti CleanLEL false false true 2 0) fuel None)
       = (false, false, true, Some 6, 6, 6)) /\
  (forall fuel, (40 <= fuel)%nat ->
     run_view (maximize tstate_eqb (tb_sconfig cyc_ti CleanLEL false false false 2 0) fuel None)
       = (false, false, true, Some 11, 11, 11)).
Proof.
  split; [exact cyc_wf|]. split; [reflexivity|]. split; [exact cyc_admissible|]. split; [exact cyc_opt|].
  split; intros fuel Hfuel; replace fuel with (40 + (fuel - 40))%nat by lia;
    (rewrite maximize_more; [vm_compute; reflexivity|vm_compute; reflexivity]).
Qed.

(* ---- 2b. use_value = false: the checker compares the states only.  Two children of the root: state 1 (value 0,
   value-to-go 1, coordinate 1) and state 2 (value 10, value-to-go 0, coordinate 0).  State 1 dominates state 2 and the
   value-to-go premise holds, yet the node of value 10 is dropped: the solver returns 1, the optimum is 10. *)
Definition nov_ti : tinst := {|
  t_nvars := 2; t_nbase := 4; t_init := 0; t_initval := 0; t_slack := 0; t_rubkind := 0; t_domkind := 1;
  t_usevalue := false; t_ncoord := 1; t_order := [0; 1]%nat;
  t_trans := [ (0%nat, 0, 0, 1, 0); (0%nat, 0, 1, 2, 10); (1%nat, 1, 0, 3, 1); (1%nat, 2, 0, 3, 0) ];
  t_notimp := []; t_rub := [];
  t_key := [-1; 7; 7; -1];
  t_coords := [[0];[1];[0];[0]];
  t_mergekind := 0; t_pos := []; t_up := [] |}.

Lemma nov_keyed s k : t_key_of nov_ti s = Some k -> s = [1] \/ s = [2].
Proof.
  destruct s as [|x [|y r]]; cbn [t_key_of]; try discriminate.
  destruct (Z_lt_le_dec x 0) as [Hneg|Hpos].
  { destruct x as [|p|p]; try lia. cbn. discriminate. }
  destruct (Z_lt_le_dec x 4) as [Hlt|Hge].
  - pose proof (small_Z_cases x 4 (conj Hpos Hlt)) as Hin. cbn in Hin.
    repeat (destruct Hin as [<-|Hin]; [cbn; first [discriminate | tauto]|]). destruct Hin.
  - rewrite nth_overflow by (cbn [t_key nov_ti length]; lia). cbn. discriminate.
Qed.

Lemma nov_admissible : admissible_H (t_problem nov_ti) (t_key_of nov_ti) 1 (t_coord nov_ti).
Proof.
  intros d a b (k & Ka & Kb) Hc h Hh. specialize (Hc 0%nat ltac:(lia)).
  apply nov_keyed in Ka. apply nov_keyed in Kb.
  destruct (le_lt_dec 2 d) as [Hge|Hlt].
  { rewrite (H_end (t_problem nov_ti) (TableWf.nv_none nov_ti eq_refl) d b Hge) in Hh. inversion Hh; subst h.
    exists 0. split; [apply (H_end (t_problem nov_ti) (TableWf.nv_none nov_ti eq_refl) d a Hge)|lia]. }
  assert (Hd : In d (seq 0 2)) by (apply in_seq; lia). cbn in Hd.
  destruct Ka as [->| ->], Kb as [->| ->]; cbn in Hc; try lia;
    repeat (destruct Hd as [<-|Hd]; [|]); try contradiction;
    vm_compute in Hh; try discriminate; inversion Hh; subst h;
    first [ exists 1; split; [vm_compute; reflexivity|lia] | exists 0; split; [vm_compute; reflexivity|lia] ].
Qed.

Theorem C10_refuted_without_values :
  t_wf nov_ti 10 /\
  sc_domrule (tb_sconfig nov_ti CleanLEL false false true 3 0) = Some (t_key_of nov_ti, 1%nat, t_coord nov_ti, false) /\
  admissible_H (t_problem nov_ti) (t_key_of nov_ti) 1 (t_coord nov_ti) /\
  opt_enum (t_problem nov_ti) = Some 10 /\
  (forall flv width fuel, (flv = CleanLEL \/ flv = CleanFC) -> In width [1; 2; 3]%nat -> (40 <= fuel)%nat ->
     run_view (maximize tstate_eqb (tb_sconfig nov_ti flv false false true width 0) fuel None)
       = (false, false, true, Some 1, 1, 1)).
Proof.
  split; [apply t_wfb_spec; vm_compute; reflexivity|]. split; [reflexivity|]. split; [exact nov_admissible|].
  split; [vm_compute; reflexivity|].
  intros flv width fuel Hflv Hw Hfuel. replace fuel with (40 + (fuel - 40))%nat by lia.
  cbn [In] in Hw.
  destruct Hflv as [-> | ->]; repeat (destruct Hw as [<-|Hw]; [rewrite maximize_more; vm_compute; reflexivity|]); destruct Hw.
Qed.

(* ================================================================== 3. the solver-level induction
   SolverProofs.v re-run with (i) a dominance rule allowed, (ii) a store invariant [dsok] threaded through the
   compilations, (iii) the completeness contracts (KD2, KD3_ub, KD4) required for the OPTIMUM only. *)
Section DomSolver.
  Context {St : Type}.
  Variable st_eqb : St -> St -> bool.
  Variable cfg : @sconfig St.
  Let pb := sc_problem cfg.
  Let N := nb_vars pb.

  Hypothesis cfg_nocache : sc_use_cache cfg = false.
  Hypothesis cfg_nodup : sc_nodup cfg = false.

  Variable good : @subproblem St -> Prop.
  Variable best : @subproblem St -> option Z.
  Variable feasible : list decision -> Z -> Prop.
  Let OPT : option Z := best (root_node cfg).

  Hypothesis good_root : good (root_node cfg).
  Hypothesis feasible_le_opt : forall sol v, feasible sol v -> exists o, OPT = Some o /\ v <= o.
  Hypothesis opt_in_isize : forall o, OPT = Some o -> IMIN < o <= IMAX.
  Hypothesis good_set_ub : forall c u, good c -> good (set_ub c u).
  Hypothesis best_set_ub : forall c u, best (set_ub c u) = best c.

  (* the invariant of the dominance store *)
  Variable dsok : @dstore St Z -> Prop.
  Hypothesis dsok_init : dsok (init_dstore N).

  Variable M : nat.

  Hypothesis KD0 : forall ct n lb c ds polls m out,
    dd_ct ct -> good n -> (sp_depth n <= N)%nat -> dsok ds ->
    compile st_eqb (mk_input cfg ct n lb) 0 0 c ds polls = (m, out) ->
    out = Compiled /\ m_crash m = false /\ dsok (m_dom m).
  Hypothesis KD1 : forall ct n lb c ds polls m out,
    dd_ct ct -> good n -> (sp_depth n <= N)%nat -> dsok ds ->
    compile st_eqb (mk_input cfg ct n lb) 0 0 c ds polls = (m, out) ->
    forall v, dd_best_exact_value (mk_input cfg ct n lb) m = Some v ->
    exists sol, dd_best_exact_solution (mk_input cfg ct n lb) m = Some sol /\ feasible sol v.
  Hypothesis KD2 : forall ct n lb c ds polls m out,
    dd_ct ct -> good n -> (sp_depth n <= N)%nat -> dsok ds ->
    compile st_eqb (mk_input cfg ct n lb) 0 0 c ds polls = (m, out) ->
    dd_is_exact m = true ->
    forall o, OPT = Some o -> best n = Some o -> o > lb -> dd_best_exact_value (mk_input cfg ct n lb) m = Some o.
  Hypothesis KD3_good : forall n lb c ds polls m out,
    good n -> (sp_depth n <= N)%nat -> dsok ds ->
    compile st_eqb (mk_input cfg Relaxed n lb) 0 0 c ds polls = (m, out) ->
    dd_is_exact m = false ->
    forall x, In x (drain_cutset (mk_input cfg Relaxed n lb) m) -> good x.
  Hypothesis KD3_depth : forall n lb c ds polls m out,
    good n -> (sp_depth n <= N)%nat -> dsok ds ->
    compile st_eqb (mk_input cfg Relaxed n lb) 0 0 c ds polls = (m, out) ->
    dd_is_exact m = false ->
    forall x, In x (drain_cutset (mk_input cfg Relaxed n lb) m) -> (sp_depth n < sp_depth x <= N)%nat.
  Hypothesis KD3_ub : forall n lb c ds polls m out,
    good n -> (sp_depth n <= N)%nat -> dsok ds ->
    compile st_eqb (mk_input cfg Relaxed n lb) 0 0 c ds polls = (m, out) ->
    dd_is_exact m = false ->
    forall x, In x (drain_cutset (mk_input cfg Relaxed n lb) m) ->
    forall o, OPT = Some o -> best x = Some o -> o > lb -> o <= sp_ub x.
  Hypothesis KD4 : forall n lb c ds polls m out,
    good n -> (sp_depth n <= N)%nat -> dsok ds ->
    compile st_eqb (mk_input cfg Relaxed n lb) 0 0 c ds polls = (m, out) ->
    dd_is_exact m = false ->
    forall o, OPT = Some o -> best n = Some o -> o > lb ->
    (forall e, dd_best_exact_value (mk_input cfg Relaxed n lb) m = Some e -> e < o) ->
    exists x, In x (drain_cutset (mk_input cfg Relaxed n lb) m) /\ best x = Some o.
  Hypothesis KD5 : forall n lb c ds polls m out,
    good n -> (sp_depth n <= N)%nat -> dsok ds ->
    compile st_eqb (mk_input cfg Relaxed n lb) 0 0 c ds polls = (m, out) ->
    dd_is_exact m = false ->
    (length (drain_cutset (mk_input cfg Relaxed n lb) m) <= M)%nat.

  (* ---- fringe in SimpleFringe mode *)
  Lemma d_fr_len_simple s : fr_len cfg s = length (s_simple s).
  Proof. unfold fr_len. rewrite cfg_nodup. reflexivity. Qed.

  Lemma d_fr_push_simple s n :
    fr_push st_eqb cfg s n =
    upd_s s (n :: s_simple s) (s_nodup s) (s_explored s) (s_open s) (s_fal s) (s_lb s) (s_ub s) (s_sol s) (s_abort s)
          (s_cache s) (s_dom s) (s_polls s) (s_crash s) (s_tie s) (s_compiles s).
  Proof. unfold fr_push. rewrite cfg_nodup. reflexivity. Qed.

  Lemma d_fr_pop_simple s :
    fr_pop st_eqb cfg s =
    match pq_pop cfg (s_simple s) with
    | None => (s, None)
    | Some (x, rest) => (upd_s s rest (s_nodup s) (s_explored s) (s_open s) (s_fal s) (s_lb s) (s_ub s) (s_sol s)
                         (s_abort s) (s_cache s) (s_dom s) (s_polls s) (s_crash s) (s_tie s) (s_compiles s), Some x)
    end.
  Proof. unfold fr_pop. rewrite cfg_nodup. reflexivity. Qed.

  (* ---- observable part of a state, now with the store *)
  Definition dview (s : @sstate St) :=
    (s_simple s, s_open s, s_lb s, s_sol s, s_abort s, s_crash s, s_dom s).

  Lemma dview_inv s s' : dview s' = dview s ->
    s_simple s' = s_simple s /\ s_open s' = s_open s /\ s_lb s' = s_lb s /\ s_sol s' = s_sol s /\
    s_abort s' = s_abort s /\ s_crash s' = s_crash s /\ s_dom s' = s_dom s.
  Proof. unfold dview; intros H; inversion H; auto 10. Qed.

  Definition dwt (n : @subproblem St) : nat := (S M) ^ (N - sp_depth n).
  Definition dPhi (l : list (@subproblem St)) : nat := sumf dwt l.
  Definition dcnt (d : nat) (l : list (@subproblem St)) : nat := cntp (fun n => Nat.eqb (sp_depth n) d) l.

  Lemma dcnt_perm d l l' : Permutation l l' -> dcnt d l = dcnt d l'.
  Proof. apply sumf_perm. Qed.
  Lemma dPhi_perm l l' : Permutation l l' -> dPhi l = dPhi l'.
  Proof. apply sumf_perm. Qed.
  Lemma dcnt_cons_same x l : dcnt (sp_depth x) (x :: l) = S (dcnt (sp_depth x) l).
  Proof. unfold dcnt, cntp; simpl. rewrite Nat.eqb_refl. reflexivity. Qed.
  Lemma dcnt_cons_other d x l : sp_depth x <> d -> dcnt d (x :: l) = dcnt d l.
  Proof. intros H. unfold dcnt, cntp; simpl. apply Nat.eqb_neq in H. rewrite H. reflexivity. Qed.
  Lemma dwt_pos n : (1 <= dwt n)%nat.
  Proof. unfold dwt. pose proof (Nat.pow_nonzero (S M) (N - sp_depth n)). lia. Qed.

  Definition DIncumbent (lb : Z) (sol : option (list decision)) : Prop :=
    IMIN <= lb /\ ((sol = None /\ lb = IMIN) \/ exists l, sol = Some l /\ feasible l lb).
  Definition DFringeOK (l : list (@subproblem St)) : Prop :=
    forall n, In n l -> good n /\ (sp_depth n <= N)%nat.
  Definition DOpenOK (op : list nat) (l : list (@subproblem St)) : Prop :=
    forall d, (d <= N)%nat -> nth_error op d = Some (dcnt d l).

  Definition DCore (s : @sstate St) : Prop :=
    s_crash s = false /\ s_abort s = false /\ DIncumbent (s_lb s) (s_sol s) /\
    DFringeOK (s_simple s) /\ DOpenOK (s_open s) (s_simple s) /\ dsok (s_dom s).

  Definition DCompl (s : @sstate St) (extra : list (@subproblem St)) : Prop :=
    forall o, OPT = Some o ->
      o <= s_lb s \/ exists n, (In n extra \/ In n (s_simple s)) /\ best n = Some o /\ o <= sp_ub n.

  Definition DInv (s : @sstate St) : Prop := DCore s /\ DCompl s [].

  Lemma DCore_view s s' : dview s' = dview s -> DCore s -> DCore s'.
  Proof.
    intros H. apply dview_inv in H. destruct H as (H1 & H2 & H3 & H4 & H5 & H6 & H7).
    unfold DCore. rewrite H1, H2, H3, H4, H5, H6, H7. auto.
  Qed.

  Lemma d_clean_cache_loop_view fuel s :
    (forall d, (d <= N)%nat -> exists k, nth_error (s_open s) d = Some k) ->
    dview (clean_cache_loop cfg fuel s) = dview s.
  Proof.
    revert s; induction fuel as [|fuel IH]; intros s H; cbn [clean_cache_loop]; [reflexivity|].
    destruct (Nat.ltb (s_fal s) (nb_vars (sc_problem cfg))) eqn:E; [|reflexivity].
    apply Nat.ltb_lt in E. destruct (H (s_fal s)) as [k Hk]; [unfold N, pb; lia|].
    rewrite Hk. destruct k; [|reflexivity]. rewrite cfg_nocache. rewrite IH; [reflexivity|]. exact H.
  Qed.

  Lemma d_get_workload_spec s : DCore s ->
    (s_simple s = [] /\ exists s1, get_workload st_eqb cfg s = (s1, WComplete) /\
       s_simple s1 = [] /\ s_crash s1 = false /\ s_abort s1 = false /\ s_lb s1 = s_lb s /\
       s_sol s1 = s_sol s /\ s_ub s1 = s_lb s)
    \/ (exists x rest s1, get_workload st_eqb cfg s = (s1, WItem x) /\ Permutation (s_simple s) (x :: rest) /\
         s_simple s1 = rest /\ DCore s1 /\ s_lb s1 = s_lb s).
  Proof.
    intros (Hcr & Hab & Hinc & Hfr & Hop & Hds).
    unfold get_workload.
    set (sc := clean_cache_loop cfg (S (nb_vars (sc_problem cfg))) s).
    assert (Hv : dview sc = dview s).
    { apply d_clean_cache_loop_view. intros d Hd. eexists. apply Hop. exact Hd. }
    apply dview_inv in Hv. destruct Hv as (V1 & V2 & V3 & V4 & V5 & V6 & V7).
    rewrite d_fr_len_simple, V1.
    destruct (s_simple s) as [|y l] eqn:El.
    - left. split; [reflexivity|]. eexists. split; [reflexivity|].
      cbn [s_simple s_crash s_abort s_lb s_sol s_ub upd_s]. rewrite V3, V4, V5, V6. auto 10.
    - right. cbn [length Nat.eqb]. rewrite V5, Hab. rewrite d_fr_pop_simple, V1.
      destruct (pq_pop cfg (y :: l)) as [[x rest]|] eqn:Ep; [|apply pq_pop_none in Ep; discriminate].
      pose proof (pq_pop_perm _ _ _ _ Ep) as Hperm.
      assert (Hx : In x (y :: l)). { eapply Permutation_in; [apply Permutation_sym; exact Hperm|]. left; reflexivity. }
      destruct (Hfr x Hx) as [Hgx Hdx].
      cbn [s_open upd_s]. rewrite V2, (Hop _ Hdx).
      rewrite (dcnt_perm _ _ _ Hperm), dcnt_cons_same.
      exists x, rest. eexists. split; [reflexivity|]. split; [exact Hperm|].
      cbn [s_simple s_lb upd_s]. split; [reflexivity|]. split; [|exact V3].
      unfold DCore. cbn [s_simple s_crash s_abort s_lb s_sol s_open s_dom upd_s].
      rewrite ?V2, ?V3, ?V4, ?V5, ?V6, ?V7. split; [exact Hcr|]. split; [exact Hab|]. split; [exact Hinc|]. split; [|split].
      + intros n Hn. apply Hfr. eapply Permutation_in; [apply Permutation_sym; exact Hperm|]. right; exact Hn.
      + intros d Hd. destruct (Nat.eq_dec (sp_depth x) d) as [Heq|Hne].
        * subst d. erewrite nth_error_upd_nth_same; [reflexivity|]. rewrite (Hop _ Hd).
          rewrite (dcnt_perm _ _ _ Hperm), dcnt_cons_same. reflexivity.
        * rewrite nth_error_upd_nth_other by exact Hne. rewrite (Hop _ Hd).
          rewrite (dcnt_perm _ _ _ Hperm), dcnt_cons_other by exact Hne. reflexivity.
      + exact Hds.
  Qed.

  Lemma d_run_compile_spec s ct n s' inp m o :
    run_compile st_eqb cfg s ct n = (s', inp, m, o) ->
    inp = mk_input cfg ct n (s_lb s) /\
    compile st_eqb (mk_input cfg ct n (s_lb s)) 0 0 (s_cache s) (s_dom s) (s_polls s) = (m, o) /\
    s_simple s' = s_simple s /\ s_open s' = s_open s /\ s_lb s' = s_lb s /\ s_sol s' = s_sol s /\
    s_abort s' = s_abort s /\ s_crash s' = (s_crash s || m_crash m)%bool /\ s_dom s' = m_dom m.
  Proof.
    unfold run_compile.
    destruct (compile st_eqb (mk_input cfg ct n (s_lb s)) 0 0 (s_cache s) (s_dom s) (s_polls s)) as [m0 o0] eqn:E.
    intros H; inversion H; subst. cbn [s_simple s_open s_lb s_sol s_abort s_crash s_dom upd_s]. auto 10.
  Qed.

  Lemma d_mub_dom (s : @sstate St) inp m : s_dom (maybe_update_best s inp m) = s_dom s.
  Proof. unfold maybe_update_best. destruct (_ >? _); reflexivity. Qed.

  Lemma d_phase s ct n s' inp m o :
    DCore s -> dd_ct ct -> good n -> (sp_depth n <= N)%nat ->
    run_compile st_eqb cfg s ct n = (s', inp, m, o) ->
    o = Compiled /\ inp = mk_input cfg ct n (s_lb s) /\
    compile st_eqb (mk_input cfg ct n (s_lb s)) 0 0 (s_cache s) (s_dom s) (s_polls s) = (m, Compiled) /\
    DCore (maybe_update_best s' inp m) /\ s_simple (maybe_update_best s' inp m) = s_simple s /\
    s_lb s <= s_lb (maybe_update_best s' inp m) /\
    (forall e, dd_best_exact_value inp m = Some e -> e <= s_lb (maybe_update_best s' inp m)).
  Proof.
    intros (Hcr & Hab & Hinc & Hfr & Hop & Hds) Hct Hg Hd Hrc.
    apply d_run_compile_spec in Hrc. destruct Hrc as (Hinp & Hc & R1 & R2 & R3 & R4 & R5 & R6 & R7).
    destruct (KD0 _ _ _ _ _ _ _ _ Hct Hg Hd Hds Hc) as (Ho & Hmc & Hds'). subst o.
    assert (Hlb' : IMIN <= s_lb s') by (rewrite R3; apply Hinc).
    pose proof (mub_spec cfg s' inp m Hlb') as Hm. cbv zeta in Hm.
    destruct Hm as (U1 & U2 & U3 & U4 & U5).
    split; [reflexivity|]. split; [exact Hinp|]. split; [exact Hc|].
    assert (Hcore_rest : s_crash (maybe_update_best s' inp m) = false /\ s_abort (maybe_update_best s' inp m) = false /\
              DFringeOK (s_simple (maybe_update_best s' inp m)) /\
              DOpenOK (s_open (maybe_update_best s' inp m)) (s_simple (maybe_update_best s' inp m)) /\
              dsok (s_dom (maybe_update_best s' inp m))).
    { rewrite U4, U3, U2, U1, R6, R5, R2, R1, Hcr, Hmc, Hab, d_mub_dom, R7. auto. }
    destruct Hcore_rest as (C1 & C2 & C4 & C5 & C6).
    destruct U5 as [(L1 & L2 & L3) | (v & Hv & Hgt & L1 & L2)].
    - split; [|split; [rewrite U1, R1; reflexivity|split; [rewrite L1, R3; lia|rewrite L1; exact L3]]].
      unfold DCore. rewrite L1, L2, R3, R4. auto 10.
    - subst inp. destruct (KD1 _ _ _ _ _ _ _ _ Hct Hg Hd Hds Hc v Hv) as (sol & Hsol & Hfeas).
      split; [|split; [rewrite U1, R1; reflexivity|split; [rewrite L1; rewrite R3 in Hgt; lia|]]].
      + unfold DCore. split; [exact C1|]. split; [exact C2|]. split; [|split; [exact C4|split; [exact C5|exact C6]]].
        rewrite L1, L2. split; [rewrite R3 in Hgt; destruct Hinc; lia|].
        right. exists sol. split; [exact Hsol|exact Hfeas].
      + intros e He. rewrite Hv in He. assert (e = v) by congruence. rewrite L1. lia.
  Qed.

  (* ---- enqueue_cutset *)
  Definition d_enq_step (best_lb ub : Z) (s : @sstate St) (c : @subproblem St) : @sstate St :=
    let cub := Z.min ub (sp_ub c) in
    if cub >? best_lb then
      let c' := {| sp_state := sp_state c; sp_value := sp_value c; sp_path := sp_path c; sp_ub := cub; sp_depth := sp_depth c |} in
      let before := fr_len cfg s in
      let s := fr_push st_eqb cfg s c' in
      let after := fr_len cfg s in
      match nth_error (s_open s) (sp_depth c) with
      | None => crashed s
      | Some _ =>
          upd_s s (s_simple s) (s_nodup s) (s_explored s) (upd_nth (sp_depth c) (fun o => o + (after - before))%nat (s_open s))
                (s_fal s) (s_lb s) (s_ub s) (s_sol s) (s_abort s) (s_cache s) (s_dom s) (s_polls s) (s_crash s) (s_tie s) (s_compiles s)
      end
    else s.

  Lemma d_enqueue_cutset_fold s inp m ub :
    enqueue_cutset st_eqb cfg s inp m ub = fold_left (d_enq_step (s_lb s) ub) (drain_cutset inp m) s.
  Proof. reflexivity. Qed.

  Lemma d_enq_step_spec lb ub s c :
    (sp_depth c <= N)%nat -> DOpenOK (s_open s) (s_simple s) ->
    s_lb (d_enq_step lb ub s c) = s_lb s /\ s_sol (d_enq_step lb ub s c) = s_sol s /\
    s_abort (d_enq_step lb ub s c) = s_abort s /\ s_crash (d_enq_step lb ub s c) = s_crash s /\
    s_dom (d_enq_step lb ub s c) = s_dom s /\
    s_simple (d_enq_step lb ub s c) =
      (if Z.min ub (sp_ub c) >? lb then [set_ub c (Z.min ub (sp_ub c))] else []) ++ s_simple s /\
    DOpenOK (s_open (d_enq_step lb ub s c)) (s_simple (d_enq_step lb ub s c)).
  Proof.
    intros Hd Hop. unfold d_enq_step.
    destruct (Z.min ub (sp_ub c) >? lb) eqn:E; [|cbn [app]; auto 10].
    rewrite d_fr_push_simple, !d_fr_len_simple. cbn [s_simple s_open s_lb s_sol s_abort s_crash s_dom upd_s length].
    rewrite (Hop _ Hd). cbn [s_simple s_open s_lb s_sol s_abort s_crash s_dom upd_s app].
    repeat (split; [reflexivity|]).
    replace (S (length (s_simple s)) - length (s_simple s))%nat with 1%nat by lia.
    fold (set_ub c (Z.min ub (sp_ub c))).
    intros d Hd'. destruct (Nat.eq_dec (sp_depth c) d) as [Heq|Hne].
    - subst d. erewrite nth_error_upd_nth_same; [|apply Hop; exact Hd].
      change (sp_depth c) with (sp_depth (set_ub c (Z.min ub (sp_ub c)))) at 2.
      rewrite dcnt_cons_same. f_equal. cbn [set_ub sp_depth]. lia.
    - rewrite nth_error_upd_nth_other by exact Hne. rewrite (Hop _ Hd').
      rewrite dcnt_cons_other; [reflexivity|exact Hne].
  Qed.

  Lemma d_enq_fold_spec lb ub cs : forall s,
    (forall c, In c cs -> (sp_depth c <= N)%nat) -> DOpenOK (s_open s) (s_simple s) ->
    s_lb (fold_left (d_enq_step lb ub) cs s) = s_lb s /\ s_sol (fold_left (d_enq_step lb ub) cs s) = s_sol s /\
    s_abort (fold_left (d_enq_step lb ub) cs s) = s_abort s /\ s_crash (fold_left (d_enq_step lb ub) cs s) = s_crash s /\
    s_dom (fold_left (d_enq_step lb ub) cs s) = s_dom s /\
    DOpenOK (s_open (fold_left (d_enq_step lb ub) cs s)) (s_simple (fold_left (d_enq_step lb ub) cs s)) /\
    (forall x, In x (s_simple (fold_left (d_enq_step lb ub) cs s)) <->
       In x (s_simple s) \/ exists c, In c cs /\ Z.min ub (sp_ub c) > lb /\ x = set_ub c (Z.min ub (sp_ub c))) /\
    (dPhi (s_simple (fold_left (d_enq_step lb ub) cs s)) <= dPhi (s_simple s) + sumf dwt cs)%nat.
  Proof.
    induction cs as [|c cs IH]; intros s Hd Hop; cbn [fold_left].
    - repeat (split; [reflexivity|]). split; [exact Hop|]. split.
      + intros x; split; [auto|]. intros [H|(c & [] & _)]; exact H.
      + simpl. lia.
    - assert (Hdc : (sp_depth c <= N)%nat) by (apply Hd; left; reflexivity).
      destruct (d_enq_step_spec lb ub s c Hdc Hop) as (E1 & E2 & E3 & E4 & E4' & E5 & E6).
      destruct (IH (d_enq_step lb ub s c)) as (F1 & F2 & F3 & F4 & F4' & F5 & F6 & F7);
        [intros c' Hc'; apply Hd; right; exact Hc'|exact E6|].
      rewrite F1, F2, F3, F4, F4', E1, E2, E3, E4, E4'. repeat (split; [reflexivity|]). split; [exact F5|]. split.
      + intros x. rewrite F6, E5. destruct (Z.min ub (sp_ub c) >? lb) eqn:E.
        * rewrite Z.gtb_ltb in E. apply Z.ltb_lt in E. cbn [app In]. split.
          -- intros [[Hx|Hx]|(c' & Hc' & Hgt & Hx)].
             ++ right. exists c. split; [left; reflexivity|]. split; [lia|auto].
             ++ left; exact Hx.
             ++ right. exists c'. split; [right; exact Hc'|auto].
          -- intros [Hx|(c' & [Hc'|Hc'] & Hgt & Hx)].
             ++ left; right; exact Hx.
             ++ subst c'. left; left; auto.
             ++ right. exists c'. auto.
        * rewrite Z.gtb_ltb in E. apply Z.ltb_ge in E. cbn [app In]. split.
          -- intros [Hx|(c' & Hc' & Hgt & Hx)]; [left; exact Hx|]. right. exists c'. split; [right; exact Hc'|auto].
          -- intros [Hx|(c' & [Hc'|Hc'] & Hgt & Hx)]; [left; exact Hx| subst c'; lia |]. right. exists c'. auto.
      + eapply Nat.le_trans; [exact F7|]. rewrite E5. cbn [sumf].
        destruct (Z.min ub (sp_ub c) >? lb); cbn [app]; unfold dPhi; cbn [sumf].
        * change (dwt (set_ub c (Z.min ub (sp_ub c)))) with (dwt c). lia.
        * lia.
  Qed.

  Lemma d_kids_weight n cs : (length cs <= M)%nat ->
    (forall c, In c cs -> (sp_depth n < sp_depth c <= N)%nat) -> (sumf dwt cs < dwt n)%nat.
  Proof.
    intros Hlen Hd. destruct cs as [|c0 cs'].
    - simpl. pose proof (dwt_pos n). lia.
    - assert (Hn : (sp_depth n < N)%nat).
      { pose proof (Hd c0 (or_introl eq_refl)). lia. }
      revert Hlen Hd. generalize (c0 :: cs'). intros cs Hlen Hd.
      set (P := ((S M) ^ (N - S (sp_depth n)))%nat).
      assert (HP : (1 <= P)%nat). { unfold P. pose proof (Nat.pow_nonzero (S M) (N - S (sp_depth n))). lia. }
      assert (Hw : dwt n = (S M * P)%nat).
      { unfold dwt, P. replace (N - sp_depth n)%nat with (S (N - S (sp_depth n))) by lia.
        rewrite Nat.pow_succ_r'. reflexivity. }
      assert (Hs : (sumf dwt cs <= length cs * P)%nat).
      { apply sumf_le_const. intros c Hc. apply Hd in Hc. unfold dwt, P.
        apply Nat.pow_le_mono_r; lia. }
      rewrite Hw. assert (length cs * P <= M * P)%nat by (apply Nat.mul_le_mono_r; exact Hlen). lia.
  Qed.

  Lemma d_compl_close s n sA :
    DCompl s [n] -> (forall x, In x (s_simple s) -> In x (s_simple sA)) -> s_lb s <= s_lb sA ->
    (forall o, OPT = Some o -> best n = Some o -> o <= sp_ub n ->
       o <= s_lb sA \/ exists c, In c (s_simple sA) /\ best c = Some o /\ o <= sp_ub c) ->
    DCompl sA [].
  Proof.
    intros HC Hsub Hlb Hn o Ho. destruct (HC o Ho) as [Hle|(w & [Hw|Hw] & Hb & Hu)].
    - left. lia.
    - destruct Hw as [Hw|[]]. subst w. destruct (Hn o Ho Hb Hu) as [H|(c & Hc & Hbc & Huc)]; [left; exact H|].
      right. exists c. split; [right; exact Hc|auto].
    - right. exists w. split; [right; apply Hsub; exact Hw|auto].
  Qed.

  Lemma d_process_spec s n s2 err :
    DCore s -> DCompl s [n] -> good n -> (sp_depth n <= N)%nat ->
    process_one_node st_eqb cfg s n = (s2, err) ->
    err = false /\ DCore s2 /\ DCompl s2 [] /\ (dPhi (s_simple s2) < dPhi (s_simple s) + dwt n)%nat.
  Proof.
    intros HCore HCompl Hg Hd. unfold process_one_node.
    destruct (sp_ub n <=? s_lb s) eqn:Eub.
    { intros H; inversion H; subst s2 err. split; [reflexivity|]. split; [exact HCore|]. split.
      - apply (d_compl_close s n s HCompl); [auto|lia|]. intros o _ _ Hu. left. apply Z.leb_le in Eub. lia.
      - pose proof (dwt_pos n). lia. }
    rewrite cfg_nocache.
    destruct (run_compile st_eqb cfg s Restricted n) as [[[sa0 inpa] ma] oa] eqn:Ea.
    destruct (d_phase _ _ _ _ _ _ _ HCore (or_introl eq_refl) Hg Hd Ea) as (-> & Hinpa & Hca & HCa & Hsa & Hlba & Heva).
    cbv beta iota zeta.
    set (sa := maybe_update_best sa0 inpa ma) in HCa, Hsa, Hlba, Heva |- *.
    assert (Hdss : dsok (s_dom s)) by apply HCore.
    destruct (dd_is_exact ma) eqn:Eexa.
    { intros H; inversion H; subst s2 err. split; [reflexivity|]. split; [exact HCa|]. split.
      - apply (d_compl_close s n sa HCompl); [rewrite Hsa; auto|exact Hlba|]. intros o Ho Hb _. left.
        destruct (Z_le_gt_dec o (s_lb s)) as [Hle|Hgt]; [lia|].
        apply Heva. rewrite Hinpa. eapply KD2; eauto. left; reflexivity.
      - rewrite Hsa. pose proof (dwt_pos n). lia. }
    destruct (run_compile st_eqb cfg sa Relaxed n) as [[[sb0 inpb] mb] ob] eqn:Eb.
    destruct (d_phase _ _ _ _ _ _ _ HCa (or_intror eq_refl) Hg Hd Eb) as (-> & Hinpb & Hcb & HCb & Hsb & Hlbb & Hevb).
    cbv beta iota zeta.
    set (sb := maybe_update_best sb0 inpb mb) in HCb, Hsb, Hlbb, Hevb |- *.
    assert (Hdsa : dsok (s_dom sa)) by apply HCa.
    destruct (dd_is_exact mb) eqn:Eexb.
    { intros H; inversion H; subst s2 err. split; [reflexivity|]. split; [exact HCb|]. split.
      - apply (d_compl_close s n sb HCompl); [rewrite Hsb, Hsa; auto|lia|]. intros o Ho Hb _. left.
        destruct (Z_le_gt_dec o (s_lb sa)) as [Hle|Hgt]; [lia|].
        apply Hevb. rewrite Hinpb. eapply KD2; eauto. right; reflexivity.
      - rewrite Hsb, Hsa. pose proof (dwt_pos n). lia. }
    intros H; inversion H; subst s2 err. clear H. split; [reflexivity|].
    rewrite d_enqueue_cutset_fold. subst inpb.
    set (cs := drain_cutset (mk_input cfg Relaxed n (s_lb sa)) mb).
    assert (Hdep : forall c, In c cs -> (sp_depth n < sp_depth c <= N)%nat).
    { intros c Hc. eapply KD3_depth; eauto. }
    destruct HCb as (B1 & B2 & B3 & B4 & B5 & B6).
    destruct (d_enq_fold_spec (s_lb sb) (sp_ub n) cs sb) as (F1 & F2 & F3 & F4 & F4' & F5 & F6 & F7);
      [intros c Hc; apply Hdep in Hc; lia|exact B5|].
    split; [|split].
    - unfold DCore. rewrite F1, F2, F3, F4, F4'. split; [exact B1|]. split; [exact B2|]. split; [exact B3|].
      split; [|split; [exact F5|exact B6]]. intros x Hx. apply F6 in Hx. destruct Hx as [Hx|(c & Hc & _ & ->)].
      + apply B4; exact Hx.
      + split; [apply good_set_ub; eapply KD3_good; eauto|]. cbn [set_ub sp_depth]. apply Hdep in Hc. lia.
    - apply (d_compl_close s n _ HCompl).
      + intros x Hx. apply F6. left. rewrite Hsb, Hsa. exact Hx.
      + rewrite F1. lia.
      + intros o Ho Hb Hu. rewrite F1.
        destruct (Z_le_gt_dec o (s_lb sb)) as [Hle|Hgt]; [left; exact Hle|]. right.
        assert (Hgta : o > s_lb sa) by lia.
        destruct (KD4 _ _ _ _ _ _ _ Hg Hd Hdsa Hcb Eexb o Ho Hb Hgta) as (c & Hc & Hbc).
        { intros e He. apply Hevb in He. lia. }
        assert (Hubc : o <= sp_ub c) by (eapply KD3_ub; eauto).
        exists (set_ub c (Z.min (sp_ub n) (sp_ub c))). split; [|split].
        * apply F6. right. exists c. split; [exact Hc|]. split; [lia|reflexivity].
        * rewrite best_set_ub. exact Hbc.
        * cbn [set_ub sp_ub]. lia.
    - eapply Nat.le_lt_trans; [exact F7|]. rewrite Hsb, Hsa.
      apply Nat.add_lt_mono_l. apply d_kids_weight; [|exact Hdep].
      eapply KD5; eauto.
  Qed.

  (* ---- the loop *)
  Definition DFinal (s : @sstate St) : Prop :=
    s_crash s = false /\ s_abort s = false /\ s_ub s = s_lb s /\ DIncumbent (s_lb s) (s_sol s) /\
    (forall o, OPT = Some o -> o <= s_lb s).

  Lemma d_main_loop_spec : forall fuel s, DInv s -> (dPhi (s_simple s) < fuel)%nat ->
    exists s', main_loop st_eqb cfg fuel s = (s', Finished) /\ DFinal s'.
  Proof.
    induction fuel as [|fuel IH]; intros s [HCore HCompl] Hfuel; [lia|].
    cbn [main_loop]. assert (Hcr : s_crash s = false) by apply HCore. rewrite Hcr.
    destruct (d_get_workload_spec s HCore) as [(Hemp & s1 & Hgw & W1 & W2 & W3 & W4 & W5 & W6)
                                              |(x & rest & s1 & Hgw & Hperm & W1 & HC1 & W2)]; rewrite Hgw.
    - exists s1. split; [reflexivity|]. unfold DFinal. rewrite W6, W5, W4. split; [exact W2|]. split; [exact W3|].
      split; [reflexivity|]. split; [apply HCore|]. intros o Ho.
      destruct (HCompl o Ho) as [H|(w & [[]|Hw] & _)]; [exact H|]. rewrite Hemp in Hw. destruct Hw.
    - destruct (process_one_node st_eqb cfg s1 x) as [s2 err] eqn:Ep.
      assert (Hx : In x (s_simple s)).
      { eapply Permutation_in; [apply Permutation_sym; exact Hperm|]. left; reflexivity. }
      destruct HCore as (_ & _ & _ & Hfr & _). destruct (Hfr x Hx) as [Hgx Hdx].
      assert (HCompl1 : DCompl s1 [x]).
      { intros o Ho. rewrite W2. destruct (HCompl o Ho) as [H|(w & [[]|Hw] & Hb & Hu)]; [left; exact H|].
        right. exists w. split; [|auto]. eapply Permutation_in in Hw; [|exact Hperm].
        destruct Hw as [Hw|Hw]; [left; left; exact Hw|right; rewrite W1; exact Hw]. }
      destruct (d_process_spec s1 x s2 err HC1 HCompl1 Hgx Hdx Ep) as (-> & HC2 & HCompl2 & HPhi).
      apply IH; [split; assumption|].
      rewrite (dPhi_perm _ _ Hperm) in Hfuel. unfold dPhi in Hfuel, HPhi |- *. cbn [sumf] in Hfuel. rewrite W1 in HPhi. lia.
  Qed.

  Lemma d_initialize_inv s0 :
    s_simple s0 = [] -> s_open s0 = repeat O (S N) -> s_crash s0 = false -> s_abort s0 = false ->
    DIncumbent (s_lb s0) (s_sol s0) -> dsok (s_dom s0) ->
    DInv (initialize_solver st_eqb cfg s0) /\ s_simple (initialize_solver st_eqb cfg s0) = [root_node cfg].
  Proof.
    intros H1 H2 H3 H4 H5 H6. unfold initialize_solver. rewrite d_fr_push_simple.
    cbn [s_simple s_open s_lb s_sol s_abort s_crash upd_s]. rewrite H1. split; [|reflexivity].
    split.
    - unfold DCore. cbn [s_simple s_open s_lb s_sol s_abort s_crash s_dom upd_s].
      split; [exact H3|]. split; [exact H4|]. split; [exact H5|]. split; [|split; [|exact H6]].
      + intros n [<-|[]]. split; [exact good_root|]. cbn [root_node sp_depth]. lia.
      + intros d Hd. rewrite H2. destruct d as [|d].
        * reflexivity.
        * cbn [repeat upd_nth nth_error]. rewrite nth_error_repeat by lia.
          rewrite dcnt_cons_other by (cbn [root_node sp_depth]; lia). reflexivity.
    - intros o Ho. right. exists (root_node cfg). cbn [s_simple upd_s]. split; [right; left; reflexivity|].
      split; [exact Ho|]. cbn [root_node sp_ub]. apply opt_in_isize. exact Ho.
  Qed.

  Definition d_fuel0 : nat := S ((S M) ^ N).

  Definition d_result_ok (r : sresult) : Prop :=
    r_crash r = false /\ r_outoffuel r = false /\ r_exact r = true /\ r_value r = OPT /\
    (forall v, OPT = Some v ->
       r_lb r = v /\ r_ub r = v /\ exists sol, r_sol r = Some (sort_by dec_var_cmp sol) /\ feasible sol v) /\
    (OPT = None -> r_sol r = None /\ r_lb r = IMIN).

  Lemma d_final_result s :
    DFinal s ->
    (forall v, OPT = Some v -> s_lb s = v /\ exists sol, s_sol s = Some sol /\ feasible sol v) /\
    (OPT = None -> s_sol s = None /\ s_lb s = IMIN).
  Proof.
    intros (_ & _ & _ & [Hmin Hinc] & Hopt). split.
    - intros v Hv. pose proof (Hopt v Hv) as Hle. pose proof (opt_in_isize v Hv) as Hr.
      destruct Hinc as [[_ Hlb]|(sol & Hsol & Hfeas)]; [lia|].
      destruct (feasible_le_opt _ _ Hfeas) as (o & Ho & Hlo). rewrite Hv in Ho. inversion Ho; subst o.
      assert (Heq : s_lb s = v) by lia. split; [exact Heq|]. exists sol. rewrite <- Heq. auto.
    - intros Hnone. destruct Hinc as [[Hs Hlb]|(sol & Hsol & Hfeas)]; [auto|].
      destruct (feasible_le_opt _ _ Hfeas) as (o & Ho & _). rewrite Hnone in Ho. discriminate.
  Qed.

  (* C10 at solver level, from the contracts *)
  Theorem dom_maximize_correct :
    forall fuel, (d_fuel0 <= fuel)%nat -> d_result_ok (maximize st_eqb cfg fuel None).
  Proof.
    intros fuel Hfuel.
    assert (Hinit : DIncumbent (s_lb (init_sstate cfg)) (s_sol (init_sstate cfg))).
    { cbn [init_sstate s_lb s_sol]. split; [lia|]. left. auto. }
    destruct (d_initialize_inv (init_sstate cfg) eq_refl eq_refl eq_refl eq_refl Hinit dsok_init) as [HInv Hsimple].
    destruct (d_main_loop_spec fuel _ HInv) as (s' & Hml & HF).
    { rewrite Hsimple. unfold dPhi, dwt. cbn [sumf root_node sp_depth]. rewrite Nat.sub_0_r. unfold d_fuel0 in Hfuel. lia. }
    unfold maximize. rewrite Hml. destruct (d_final_result s' HF) as [Hsome Hnone].
    destruct HF as (F1 & F2 & F3 & F4 & F5).
    unfold d_result_ok. cbn [r_crash r_outoffuel r_exact r_value r_lb r_ub r_sol].
    split; [exact F1|]. split; [reflexivity|]. split; [rewrite F2; reflexivity|].
    assert (Hcase : forall x : option Z, (exists v, x = Some v) \/ x = None) by (intros [v|]; eauto).
    destruct (Hcase OPT) as [[v EO]|EO]; rewrite EO.
    - destruct (Hsome v EO) as (Hlb & sol & Hsol & Hfeas). rewrite Hsol, Hlb. cbn [option_map].
      split; [reflexivity|]. split; [|discriminate].
      intros v' Hv'. inversion Hv'; subst v'. split; [reflexivity|]. split; [rewrite F3; exact Hlb|].
      exists sol. auto.
    - destruct (Hnone EO) as [Hsol Hlb]. rewrite Hsol, Hlb. cbn [option_map].
      split; [reflexivity|]. split; [discriminate|]. auto.
  Qed.
End DomSolver.
